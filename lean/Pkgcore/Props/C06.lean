import Pkgcore.Proofs.C06
/-!
# C06 — boolean restriction trees evaluate as propositional logic; normal forms agree

Property theorems only (helper lemmas: `Pkgcore/Proofs/C06.lean`).  `mtch`, `dnf`, `cnf` mirror
`boolean.py` (`Model/C06.lean`); `eval`, `evalDnf`, `evalCnf` are the propositional reading (`Spec/C06.lean`).
All statements are for every valuation of the leaves, every tree (any depth, any width) and both settings of
`full_solution_expansion`.
-/
namespace Pkgcore.C06
open Pkgcore.C06.Spec

/-- **`match` is propositional evaluation**: all-of / any-of / exactly-one-of / at-most-one-of nodes with
`negate`, `Negate` wrappers and atoms match exactly when the corresponding formula is true. -/
theorem match_eq_eval (v : Val) (r : R) : mtch v r = eval v r := mtch_eq v r

example : mtch (fun i => i == 1) (.and true [.or false [.leaf 0, .leaf 1], .justOne false [.leaf 1, .leaf 2]]) = false := by
  decide

/-- the reading of each connective, in library terms (the spec is not the model in disguise):
conjunction, disjunction, "exactly one" (unless there are no operands at all), "at most one". -/
theorem eval_connectives (v : Val) (n : Bool) (cs : List R) :
    eval v (.and n cs) = (cs.all (eval v) != n) ∧
    eval v (.or n cs) = (cs.any (eval v) != n) ∧
    eval v (.atMostOne n cs) = (decide (cs.countP (eval v) ≤ 1) != n) ∧
    eval v (.atom cs) = cs.all (eval v) ∧
    eval v (.neg (.and n cs)) = (cs.all (eval v) == n) := by
  simp only [eval, evalAll_eq, evalAny_eq, evalCount_eq, true_and]
  cases cs.all (eval v) <;> cases n <;> rfl

/-- the exactly-one-of convention only concerns the node without operands -/
theorem justOne_eval_nonempty (v : Val) (n : Bool) (cs : List R) (h : cs ≠ []) :
    eval v (.justOne n cs) = ((cs.countP (eval v) == 1) != n) := by
  cases cs with
  | nil => exact absurd rfl h
  | cons c cs => simp [eval, evalCount_eq]

example : ([R.leaf 0, R.leaf 1] : List R) ≠ [] := by simp

/-- **every DNF pkgcore derives is equivalent to the tree** — outside the known finding
`C06-empty-any-of` (guard `okDnf`: no operand-less any-of in the expanded part of the tree).

Full statement (false of the model, see `dnf_equiv_counterexample`):
`∀ v full r, evalDnf v (dnf full r) = eval v r`. -/
theorem dnf_equiv_partial (v : Val) (full : Bool) (r : R) (h : okDnf full r = true) :
    evalDnf v (dnf full r) = eval v r ∧ evalDnf v (dnf full r) = mtch v r :=
  ⟨dnf_sound v full r h, by rw [mtch_eq]; exact dnf_sound v full r h⟩

example : okDnf true (.and false [.or true [.leaf 0, .and false [.leaf 1, .leaf 2]],
    .or false [.atom [.leaf 3, .leaf 4], .and true [.leaf 5]], .justOne true []]) = true := by decide

/-- the witness of the open finding: `OrRestriction()` matches nothing, its DNF `[[]]` reads as true -/
theorem dnf_equiv_counterexample :
    ∃ (v : Val) (full : Bool) (r : R), evalDnf v (dnf full r) ≠ eval v r ∧ mtch v r = false ∧ dnf full r = [[]] :=
  ⟨fun _ => true, false, .or false [], by decide, by decide, rfl⟩

/-- in particular (the defect fixed in the repo): the DNF of a *negated* any-of is exactly its De Morgan
clause, whatever the operands are (no guard: the operands stay opaque under `Negate`) -/
theorem dnf_negated_anyof (v : Val) (full : Bool) (cs : List R) :
    dnf full (.or true cs) = [cs.map R.neg] ∧ evalDnf v (dnf full (.or true cs)) = !cs.any (eval v) := by
  refine ⟨by simp [dnf], ?_⟩
  rw [dnf_sound v full _ (by simp [okDnf])]
  simp [eval, evalAny_eq]

/-- for trees in which every all-of / any-of node has an operand the equivalence is unconditional -/
theorem dnf_equiv_nonempty (v : Val) (full : Bool) (r : R) (h : nonEmptyNodes r = true) :
    evalDnf v (dnf full r) = eval v r :=
  dnf_sound v full r (okDnf_of_nonEmpty full r h)

example : nonEmptyNodes (.or true [.neg (.and false [.leaf 0]), .atMostOne false [], .atom []]) = true := by decide

/-- one direction needs no guard at all: whatever the tree matches, some clause of its DNF matches (the DNF can only be
too permissive, and only inside the finding class).  Candidate pruning of repository queries (C08) relies on exactly
this direction. -/
theorem dnf_complete_unguarded (v : Val) (full : Bool) (r : R) (h : mtch v r = true) :
    ∃ cl ∈ dnf full r, ∀ m ∈ cl, mtch v m = true := by
  rw [mtch_eq] at h
  have := dnf_complete v full r h
  simp only [evalDnf, evalConj, List.any_eq_true, List.all_eq_true] at this
  obtain ⟨cl, hcl, hall⟩ := this
  exact ⟨cl, hcl, fun m hm => by rw [mtch_eq]; exact hall m hm⟩

example : mtch (fun i => i == 0) (.or false [.and false [.leaf 0, .or false []], .leaf 0]) = true := by decide

/-- `assert s2` in `AndRestriction.iter_dnf_solutions` cannot fire: every DNF has at least one clause -/
theorem dnf_total (full : Bool) (r : R) : dnf full r ≠ [] := dnf_ne_nil full r

/-- **every CNF pkgcore derives is equivalent to the tree** — outside the same finding (guard `okCnf`).

Full statement (false of the model, see `cnf_equiv_counterexample`):
`∀ v full r c, cnf full r = some c → evalCnf v c = eval v r`. -/
theorem cnf_equiv_partial (v : Val) (full : Bool) (r : R) (c : List Clause) (h : okCnf full r = true)
    (hc : cnf full r = some c) : evalCnf v c = eval v r ∧ evalCnf v c = mtch v r :=
  ⟨cnf_sound v full r c h hc, by rw [mtch_eq]; exact cnf_sound v full r c h hc⟩

example : okCnf true (.and false [.or false [.and false [.leaf 0, .leaf 1], .or true [.leaf 2, .leaf 3]],
      .atom [.leaf 4]]) = true ∧
    (cnf true (.and false [.or false [.and false [.leaf 0, .leaf 1], .or true [.leaf 2, .leaf 3]],
      .atom [.leaf 4]])).isSome = true := by decide

/-- `OrRestriction().cnf_solutions() == []` reads as true, the node matches nothing -/
theorem cnf_equiv_counterexample :
    ∃ (v : Val) (full : Bool) (r : R) (c : List Clause), cnf full r = some c ∧ evalCnf v c ≠ eval v r ∧ c = [] :=
  ⟨fun _ => true, false, .or false [], [], rfl, by decide, rfl⟩

theorem cnf_equiv_nonempty (v : Val) (full : Bool) (r : R) (c : List Clause) (h : nonEmptyNodes r = true)
    (hc : cnf full r = some c) : evalCnf v c = eval v r :=
  cnf_sound v full r c (okCnf_of_nonEmpty full r h) hc

/-- **the refusals enumerated**: `cnf_solutions` raises `NotImplementedError` exactly for the trees in which a
negated all-of / any-of node is reached from the root through un-negated all-of nodes (and expanded atoms);
every other tree has a CNF. -/
theorem cnf_refusal (full : Bool) (r : R) : cnf full r = none ↔ refusesCnf full r = true := cnf_none_iff full r

example : refusesCnf false (.and false [.leaf 0, .and false [.or true [.leaf 1]]]) = true ∧
    refusesCnf false (.or false [.and true [.leaf 0], .or true [.leaf 1]]) = false := by decide

end Pkgcore.C06
