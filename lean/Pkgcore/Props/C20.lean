import Pkgcore.Proofs.C20
/-!
# C20 — unmerge removes exactly what it owns and never base directories

Property theorems only (helper lemmas: `Pkgcore/Proofs/C20.lean`).  `unmergeContents` mirrors
`pkgcore.fs.ops.unmerge_contents`; `engineUninstall` / `engineReplace` the `MergeEngine.uninstall` / `.replace`
runs with the `merge`, `unmerge` and `BaseSystemUnmergeProtection` triggers (Model/C20), over the abstract file
system of C18.
-/
namespace Pkgcore.C20
open Pkgcore.C18 Pkgcore.C18.Spec Pkgcore.C20.Spec

/-- **Unmerge removes exactly what it owns** — for every file system, every contents set keyed by location and
every process identity: if `unmerge_contents` returns normally, every listed non-directory is gone, a listed
directory is either untouched or gone — gone only if it was a directory and has left nothing behind — and every
path that is not listed is exactly as before (same inode, data, metadata). -/
theorem unmerge_exact (env : Env) (pre : Fs) (es : List Entry) (s : St) (hd : DistinctLocs es)
    (h : unmergeContents env es pre = (s, .ok ())) : Unmerged pre es s.fs :=
  (unmergeFrom_ok hd h).spec

/-! non-vacuity: a file and a symlink to a directory are unlinked, two nested empty directories go, a directory
with a foreign file and a protected-looking one stay, the link's target is untouched -/
example : (unmergeContents exEnv exEs exPre).2.isOk = true ∧ DistinctLocs exEs ∧
    (keys (unmergeContents exEnv exEs exPre).1.fs) = [[], ["t"], ["keep", "t"], ["usr"], ["x", "usr"]] := by decide

/-- **… and does remove the directories it has emptied**: a listed directory that is still a directory
afterwards is not empty (or is the root) — this is where the reverse location order of the second loop matters. -/
theorem unmerge_removes_emptied_dirs (env : Env) (pre : Fs) (es : List Entry) (s : St) (hd : DistinctLocs es)
    (h : unmergeContents env es pre = (s, .ok ())) : EmptiedDirsGone es s.fs :=
  (unmergeFrom_ok hd h).full

example : EmptiedDirsGone exEs (unmergeContents exEnv exEs exPre).1.fs ∧
    IsDirAt (unmergeContents exEnv exEs exPre).1.fs ["usr"] := by decide

/-- **A symlink is never followed**: the only system calls are `unlink`/`rmdir` on the *literal* listed
locations, and a path that is not listed — such as the target of a listed symlink — is exactly as before. -/
theorem no_symlink_follow (env : Env) (pre : Fs) (es : List Entry) (s : St) (hd : DistinctLocs es)
    (h : unmergeContents env es pre = (s, .ok ())) :
    (∀ ev ∈ s.log, ∃ p ∈ locs es, ev.1 = .unlink p ∨ ev.1 = .rmdir p) ∧
    (∀ q : Path, q ∉ locs es → s.fs.view q = pre.view q) := by
  have p := unmergeFrom_ok hd h
  obtain ⟨ops, hl, ho⟩ := p.log
  simp only [List.nil_append] at hl
  exact ⟨by rw [hl]; exact ho, p.spec.unlisted⟩

example : exPre.view ["l"] = some (7, ⟨.sym "t", 0o777, 0, 0, 5⟩) ∧
    (unmergeContents exEnv exEs exPre).1.fs.view ["l"] = none ∧
    (unmergeContents exEnv exEs exPre).1.fs.view ["keep", "t"] = exPre.view ["keep", "t"] := by decide

/-- **The protected base-system directories survive both engines** — for every recorded old contents, new
contents and file system: no path of `BaseSystemUnmergeProtection._preserve_sequence` (generated table) is touched
by the unmerge of an uninstall or of a replace. -/
theorem base_dirs_kept (env : Env) (pre : Fs) (old new : List Entry) (hd : DistinctLocs old) :
    (∀ s, engineUninstall env old pre = (s, .ok ()) → ∀ q ∈ protectedPaths, s.fs.view q = pre.view q) ∧
    (∀ s, engineReplace env old new pre = (s, .ok ()) →
      ∀ q ∈ protectedPaths, s.fs.view q = (mergeContents env false new pre).1.fs.view q) := by
  constructor
  · intro s h q hq
    have hnd : DistinctLocs (uninstallPlan pre old) := List.Nodup.sublist (plan_sublist_uninstall pre old) hd
    exact (uninstalled_of_unmerged (unmergeFrom_ok hnd h).spec).base q hq
  · intro s h q hq
    unfold engineReplace at h
    generalize hm : mergeContents env false new pre = r at h
    obtain ⟨s1, r1⟩ := r
    cases r1 with
    | error e => simp at h
    | ok u =>
      simp only at h
      have hnd : DistinctLocs (removePlan s1.fs old new) := List.Nodup.sublist (plan_sublist_remove s1.fs old new) hd
      exact (replaced_of_unmerged (unmergeFrom_ok hnd h).spec).base q hq

/-- the generated table names the base directories of the property (an edit of the list in the repository that
drops one of them makes this fail to re-prove) -/
theorem base_dirs_table :
    ["usr"] ∈ protectedPaths ∧ ["etc"] ∈ protectedPaths ∧ ["var"] ∈ protectedPaths ∧ ["bin"] ∈ protectedPaths ∧
    ["sbin"] ∈ protectedPaths ∧ ["lib"] ∈ protectedPaths ∧ ["lib64"] ∈ protectedPaths ∧
    ["lib", "usr"] ∈ protectedPaths ∧ ["lib64", "usr"] ∈ protectedPaths ∧ ["bin", "usr"] ∈ protectedPaths ∧
    ["sbin", "usr"] ∈ protectedPaths := by decide

example : (engineUninstall exEnv exEs exPre).2.isOk = true ∧ exPre.view ["usr"] ≠ none := by decide

/-- **Uninstall through the engine**: the recorded locations are looked up on the live file system; what is a
non-directory there is gone, what is a directory there is gone only if empty, unrecorded paths and protected
directories are untouched. -/
theorem uninstall_exact (env : Env) (pre : Fs) (old : List Entry) (s : St) (hd : DistinctLocs old)
    (h : engineUninstall env old pre = (s, .ok ())) : Uninstalled pre old s.fs := by
  have hnd : DistinctLocs (uninstallPlan pre old) := List.Nodup.sublist (plan_sublist_uninstall pre old) hd
  exact uninstalled_of_unmerged (unmergeFrom_ok hnd h).spec

example : uninstalledFailures exPre exEs (engineUninstall exEnv exEs exPre).1.fs = [] := by decide

/-- **Replace keeps what the new package installs**: after the merge of `new` (state `mid`), the unmerge of the old
package touches no location of `new`; old-only live non-directories are gone, old-only directories only if empty,
unrecorded paths and protected directories are as the merge left them. -/
theorem replace_keeps_new (env : Env) (pre : Fs) (old new : List Entry) (s : St) (hd : DistinctLocs old)
    (h : engineReplace env old new pre = (s, .ok ())) :
    ∃ mid, mergeContents env false new pre = (mid, .ok ()) ∧ Replaced mid.fs old new s.fs := by
  unfold engineReplace at h
  generalize hm : mergeContents env false new pre = r at h
  obtain ⟨s1, r1⟩ := r
  cases r1 with
  | error e => simp at h
  | ok u =>
    simp only at h
    have hnd : DistinctLocs (removePlan s1.fs old new) := List.Nodup.sublist (plan_sublist_remove s1.fs old new) hd
    exact ⟨s1, rfl, replaced_of_unmerged (unmergeFrom_ok hnd h).spec⟩

example : (engineReplace exEnv exEs exNew exPre).2.isOk = true ∧
    ((engineReplace exEnv exEs exNew exPre).1.fs.view ["f", "a", "opt"]).map (·.2.kind) = some (.file "6e6577") ∧
    (engineReplace exEnv exEs exNew exPre).1.fs.view ["l"] = none := by decide

/-- **… under whatever name**: on a live root where directory symlinks give one object several names (`resP` =
location with its directory part resolved, `resF` = fully resolved; arbitrary functions here), nothing that remains
in the remove set of a replace is a new entry: not literally, not as the same directory entry under another name,
and not as the directory a new directory entry denotes. -/
theorem replace_keeps_aliased (resP resF : Path → Path) (live new : List Entry) :
    ∀ e ∈ removePlanOf resP resF live new, ∀ x ∈ new,
      e.loc ≠ x.loc ∧ resP e.loc ≠ resP x.loc ∧ (x.isDir = true → resP e.loc ≠ resF x.loc) := by
  intro e he x hx
  have h1 := (List.mem_filter.mp he).1
  have h2 := List.mem_filter.mp h1
  have h3 := (List.mem_filter.mp h2.1).2
  have h4 := h2.2
  simp only [decide_eq_true_eq] at h3 h4
  refine ⟨fun e0 => h3 (e0 ▸ List.mem_map_of_mem hx), fun e0 => h4 (e0 ▸ mem_keptNames_P hx),
    fun hd e0 => h4 (e0 ▸ mem_keptNames_F hx hd)⟩

/-- on literal paths (no aliasing) this is the plan of `engineReplace` -/
theorem removePlanOf_literal (fs : Fs) (old new : List Entry) :
    removePlanOf id id (liveIntersect fs old) new = removePlan fs old new := by
  unfold removePlanOf removePlan
  rw [removeCsetOf_id]

example : (removePlanOf (fun p => if p = ["d", "l"] then ["d", "t"] else p) id
    [⟨["d", "t"], .dir, 0, 0, 0, 0⟩, ⟨["o"], .reg "" none, 0, 0, 0, 0⟩] [⟨["d", "l"], .dir, 0, 0, 0, 0⟩]).map (·.loc)
    = [["o"]] := by decide

/-- **The driver evaluates the specification itself** -/
theorem unmerged_bounded_iff (pre : Fs) (es : List Entry) (fin : Fs) :
    (Unmerged pre es fin ∧ EmptiedDirsGone es fin) ↔ unmergedFailures pre es fin = [] :=
  unmerged_iff_failures pre es fin

example : unmergedFailures exPre exEs exPre ≠ [] := by decide

end Pkgcore.C20
