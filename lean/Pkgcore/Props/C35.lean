import Pkgcore.Proofs.C35
/-!
# C35 — the Python/daemon command protocol never deadlocks or desynchronises

All statements are about every state reachable from the initial state by *any* interleaving of steps of the two
sides (`Reachable`), with any number of requests, batched asynchronous expects of any length, any well typed
client program, death notices at any moment.  Proof: the invariant `Inv` (Proofs/C35.lean) holds initially and is
preserved by each of the 18 step rules.
-/
namespace Pkgcore.C35
open Pkgcore.C35.Spec

/-- the invariant holds in every reachable state -/
theorem invariant_holds {g : G} (h : Reachable g) : Inv g := inv_reachable h

/-- **no_mutual_wait** — never are both sides blocked in a read on an empty channel. -/
theorem no_mutual_wait {g : G} (h : Reachable g) : ¬ (PWaiting g ∧ BWaiting g) := by
  rintro ⟨⟨hl, hd, hp⟩, hc, hb⟩
  rcases live_of hl (inv_reachable h) with ⟨hbd, _⟩ | ⟨_, m', rs, hrun, hshape⟩
  · rcases hb with e | e | ⟨k, e⟩ <;> simp [hbd] at e
  · rw [hc, run_nil] at hrun
    obtain ⟨rfl, rfl⟩ := Prod.mk.inj (Option.some.inj hrun)
    rcases hshape with ⟨hrep, hwf⟩ | ⟨_, notes, t, _, _, hne, hdd, _⟩
    · rw [hd] at hrep
      have hout : g.out = [] := by simpa [rep] using hrep
      rcases hp with ⟨ops, _, hne⟩ | ⟨ops, ho⟩
      · exact hne hout
      · rw [ho] at hwf
        simp only [wf, Bool.and_eq_true, beq_iff_eq] at hwf
        rcases hb with e | e | ⟨k, e⟩ <;> simp [hwf.1] at e
    · rw [hd] at hdd
      have := hdd.symm
      simp only [List.append_eq_nil_iff] at this
      exact hne (by simp [this.1.2, this.2])

/-- … and Python never waits for a daemon that is gone without its death notice being there to be read -/
theorem no_wait_for_gone_daemon {g : G} (h : Reachable g) : ¬ (PWaiting g ∧ BGone g) := by
  rintro ⟨⟨hl, hd, hp⟩, hb⟩
  rcases live_of hl (inv_reachable h) with ⟨_, o, notes, t, hdd, _⟩ | ⟨hbd, m', rs, hrun, hshape⟩
  · rw [hd] at hdd; simp at hdd
  · rcases hb with e | e
    · exact hbd e
    · rw [e] at hrun
      cases hcs : g.c with
      | cons x xs => rw [hcs] at hrun; simp [run, trans_exited] at hrun
      | nil =>
        rw [hcs, run_nil] at hrun
        obtain ⟨rfl, rfl⟩ := Prod.mk.inj (Option.some.inj hrun)
        rcases hshape with ⟨hrep, hwf⟩ | ⟨_, notes, t, _, htail, hne, _, _⟩
        · rw [hd] at hrep
          have hout : g.out = [] := by simpa [rep] using hrep
          rcases hp with ⟨ops, _, hne⟩ | ⟨ops, ho⟩
          · exact hne hout
          · rw [ho] at hwf; simp [wf] at hwf
        · rw [e] at htail
          rcases htail with ⟨e', _⟩ | ⟨k, e', _⟩ | ⟨e', _⟩ <;> simp at e'

example : PWaiting ⟨[.drain], [.yep], .live, .main, [], []⟩ ∧ BWaiting ⟨[.drain], [.yep], .live, .main, [], []⟩ :=
  ⟨⟨rfl, rfl, Or.inl ⟨[], rfl, by simp⟩⟩, rfl, Or.inl rfl⟩

/-- **request_reply_matched** — in no reachable state can either side read something it is not waiting for:
while expectations are outstanding the next line is the reply to the oldest outstanding request (or a death
notice); `generic_handler` only ever sees requests, notices, `phases` (or a death notice); the daemon only ever
reads commands its current loop knows — in particular after request `k` exactly the answers to `k`. -/
theorem request_reply_matched {g : G} (h : Reachable g) : ¬ PMisread g ∧ ¬ PUnhandled g ∧ ¬ BUnknown g := by
  refine ⟨?_, ?_, ?_⟩
  · rintro ⟨hl, o, ops, r, out, m, d, ho, _, hout, hd, hne, hnd⟩
    rcases live_of hl (inv_reachable h) with ⟨_, o1, notes, t, hdd, hp, hn, ht, himp⟩ | ⟨_, m', rs, hrun, hshape⟩
    · cases o1 with
      | nil =>
        by_cases hev : notes ++ t = []
        · obtain ⟨rfl, rfl⟩ := List.append_eq_nil_iff.1 hev
          rw [hd] at hdd; simp [rep] at hdd; exact hnd hdd.1
        · obtain ⟨e, _⟩ := himp hev
          rw [hout] at e; simp at e
      | cons r1 o1 =>
        obtain ⟨w, hw⟩ := hp
        rw [hout] at hw
        simp only [List.cons_append, List.cons.injEq] at hw
        rw [hd, rep_cons] at hdd
        simp only [List.cons_append, List.cons.injEq] at hdd
        exact hne (by rw [hdd.1, hw.1])
    · rcases hshape with ⟨hrep, _⟩ | ⟨_, notes, t, _, _, _, hdd, _⟩
      · rw [hout, hd, rep_cons] at hrep
        simp only [List.cons_append, List.cons.injEq] at hrep
        exact hne hrep.1.symm
      · rw [hout, hd, rep_cons] at hdd
        simp only [List.cons_append, List.cons.injEq] at hdd
        exact hne hdd.1
  · rintro ⟨hl, ops, m, d, ho, hout, hd, hm⟩
    rcases live_of hl (inv_reachable h) with ⟨_, o1, notes, t, hdd, hp, hn, ht, _⟩ | ⟨_, m', rs, hrun, hshape⟩
    · have ho1 : o1 = [] := by rw [hout] at hp; exact List.prefix_nil.1 hp
      subst ho1
      rw [hd] at hdd
      obtain ⟨h1, h2⟩ := notes_head_ne hn ht (by simpa [rep] using hdd.symm)
      rcases hm with rfl | ⟨r, rfl⟩
      · exact h2 rfl
      · exact h1 r rfl
    · rcases hshape with ⟨hrep, _⟩ | ⟨_, notes, t, hn, htail, _, hdd, _⟩
      · rw [hout, hd] at hrep; simp [rep] at hrep
      · rw [hout, hd] at hdd
        simp only [rep_nil, List.nil_append] at hdd
        cases notes with
        | cons a notes =>
          have := hn a (by simp)
          simp only [List.cons_append, List.cons.injEq] at hdd
          rw [hdd.1, this] at hm
          rcases hm with e | ⟨r, e⟩ <;> simp at e
        | nil =>
          simp only [List.nil_append] at hdd
          rw [← hdd] at htail
          obtain ⟨_, hh⟩ := evtail_head htail
          rcases hh with ⟨k, e, _⟩ | ⟨e, _⟩ <;> (rw [e] at hm; rcases hm with e' | ⟨r, e'⟩ <;> simp at e')
  · rintro ⟨ha, _, x, cs, hc, ht⟩
    rcases inv_reachable h with ⟨_, hbd | ⟨m, rs, hrun⟩⟩ | ⟨hbd, _⟩ | ⟨_, m', rs, hrun, _⟩
    · rw [hbd] at ha; simp [alive] at ha
    · rw [hc] at hrun
      obtain ⟨b1, r1, rs', ht', _, _⟩ := run_cons_inv _ _ _ _ _ hrun
      rw [ht] at ht'; simp at ht'
    · rw [hbd] at ha; simp [alive] at ha
    · rw [hc] at hrun
      obtain ⟨b1, r1, rs', ht', _, _⟩ := run_cons_inv _ _ _ _ _ hrun
      rw [ht] at ht'; simp at ht'

theorem length_absurd {α : Type} {x : α} {l k : List α} (h : (x :: l) ++ k = l) : False := by
  have := congrArg List.length h
  simp at this
  omega

theorem length_absurd' {α : Type} {x : α} {l : List α} (h : x :: l = l) : False := by
  have := congrArg List.length h
  simp at this

/-- **unknown_command_ends_session (daemon side)** — in *any* state, reachable or not (e.g. a caller writing a command
at the wrong time): the only step that consumes a command the daemon's current loop does not know is the death step;
the command is never taken for something else. -/
theorem unknown_command_kills_daemon {g g' : G} {x : Cmd} {cs : List Cmd} (hs : Step g g')
    (hc : g.c = x :: cs) (hc' : g'.c = cs) (ht : trans g.b x = none) :
    g'.b = .dead ∧ g'.d = g.d ++ [.death] := by
  cases hs with
  | bCmd x' cs' b' r hcc htt =>
    rw [hc] at hcc
    obtain ⟨rfl, rfl⟩ := List.cons.inj hcc
    rw [ht] at htt; simp at htt
  | bUnknown => exact ⟨rfl, rfl⟩
  | pCmd x' ops hl ho =>
    simp only at hc'; rw [hc] at hc'; exact (length_absurd hc').elim
  | pAsk x' r ops hl ho he =>
    simp only at hc'; rw [hc] at hc'; exact (length_absurd hc').elim
  | _ => simp only at hc'; rw [hc] at hc'; exact (length_absurd' hc').elim

/-- **unknown_command_ends_session (Python side)** — in any state: if Python consumes a line that is not what it is
waiting for (not the expected reply while expectations are outstanding; not a request, notice or `phases` inside
`generic_handler`), the session is ended with an error. -/
theorem unknown_line_ends_session {g g' : G} {m : Msg} {d : List Msg} (hs : Step g g')
    (hd : g.d = m :: d) (hd' : g'.d = d)
    (hbad : (∃ r out, g.out = r :: out ∧ m ≠ .reply r) ∨ (g.out = [] ∧ (m = .junk ∨ ∃ r, m = .reply r))) :
    g'.st = .endedError := by
  cases hs with
  | pReadMismatch => rfl
  | pReadDeath => rfl
  | pHandleUnknown => rfl
  | pReadExpected r out d1 o ops _ _ _ hout hdd =>
    rw [hd] at hdd
    obtain ⟨rfl, _⟩ := List.cons.inj hdd
    rcases hbad with ⟨r', out', ho', hne⟩ | ⟨ho', _⟩
    · rw [hout] at ho'; obtain ⟨rfl, _⟩ := List.cons.inj ho'; exact absurd rfl hne
    · rw [hout] at ho'; simp at ho'
  | pHandleNote d1 ops _ _ hout hdd =>
    rw [hd] at hdd
    obtain ⟨rfl, _⟩ := List.cons.inj hdd
    rcases hbad with ⟨r', out', ho', _⟩ | ⟨_, e | ⟨r, e⟩⟩
    · rw [hout] at ho'; simp at ho'
    · simp at e
    · simp at e
  | pHandleRequest k ans d1 ops _ _ hout hdd =>
    rw [hd] at hdd
    obtain ⟨rfl, _⟩ := List.cons.inj hdd
    rcases hbad with ⟨r', out', ho', _⟩ | ⟨_, e | ⟨r, e⟩⟩
    · rw [hout] at ho'; simp at ho'
    · simp at e
    · simp at e
  | pHandlePhases d1 ops _ _ hout hdd =>
    rw [hd] at hdd
    obtain ⟨rfl, _⟩ := List.cons.inj hdd
    rcases hbad with ⟨r', out', ho', _⟩ | ⟨_, e | ⟨r, e⟩⟩
    · rw [hout] at ho'; simp at ho'
    · simp at e
    · simp at e
  | pStart prog _ _ _ => simp only at hd'; rw [hd] at hd'; exact (length_absurd' hd').elim
  | pCmd => simp only at hd'; rw [hd] at hd'; exact (length_absurd' hd').elim
  | pAsk => simp only at hd'; rw [hd] at hd'; exact (length_absurd' hd').elim
  | pDrainDone => simp only at hd'; rw [hd] at hd'; exact (length_absurd' hd').elim
  | pStop => simp only at hd'; rw [hd] at hd'; exact (length_absurd' hd').elim
  | bCmd => simp only at hd'; rw [hd] at hd'; exact (length_absurd hd').elim
  | bUnknown => simp only at hd'; rw [hd] at hd'; exact (length_absurd hd').elim
  | bNote => simp only at hd'; rw [hd] at hd'; exact (length_absurd hd').elim
  | bRequest => simp only at hd'; rw [hd] at hd'; exact (length_absurd hd').elim
  | bFinish => simp only at hd'; rw [hd] at hd'; exact (length_absurd hd').elim
  | bDeath => simp only at hd'; rw [hd] at hd'; exact (length_absurd hd').elim

/-- … and the daemon's death is never lost: as long as the session is live, the notice is in the channel, so the
next blocking read finds it (with `no_wait_for_gone_daemon`) -/
theorem death_notice_pending {g : G} (h : Reachable g) (hl : g.st = .live) (hb : g.b = .dead) : Msg.death ∈ g.d := by
  rcases live_of hl (inv_reachable h) with ⟨_, o, notes, t, hdd, _⟩ | ⟨hbd, _⟩
  · rw [hdd]; simp
  · exact absurd hb hbd

/-- **notice_forms_recognised** — every form of the death notice, in particular `dying <logfile>` for any log path
(build logging enabled), is a notice for the first-word test that every read applies. -/
theorem notice_forms_recognised (f : NoticeForm) : isNoticeLine f.line = true := by
  cases f with
  | dying arg =>
    cases arg with
    | none => decide
    | some a =>
      have : firstWord (wDying ++ ' ' :: a ++ ['\n']) = wDying := by
        simp [firstWord, wDying, List.takeWhile]
      simp only [isNoticeLine, NoticeForm.line, this]
      decide
  | sigint => decide
  | sigterm => decide

example : isNoticeLine "dying /var/log/portage/cat:pkg-1:20260922.log\n".toList = true ∧
    isNoticeLine "dying_not a notice\n".toList = false := by decide

/-- **batch_reads_own_replies** — `_consume_async_expects` with `n` expectations outstanding takes exactly the `n`
replies to those requests off the pipe — whether they are the expected texts or not (`preload_eclass failed`) — and
leaves the pipe at the reply of the next request; its result is positive exactly when every reply is the expected
text.  (In particular a negative reply in the middle of a batch does not leave the later replies unread.) -/
theorem batch_reads_own_replies (expected replies rest : List Line)
    (hlen : replies.length = expected.length) (hn : ∀ l ∈ replies, isNoticeLine l = false) :
    consumeBatch expected (replies ++ rest) = .result (replies.map rstripNl == expected) rest := by
  unfold consumeBatch
  rw [← hlen, readLines_own replies rest hn]

example : consumeBatch ["preload_eclass succeeded".toList, "preload_eclass succeeded".toList, "yep!".toList]
    ["preload_eclass succeeded\n".toList, "preload_eclass failed\n".toList, "yep!\n".toList, "yep!\n".toList]
    = .result false ["yep!\n".toList] := by decide

/-- a death notice inside the batch interrupts it, an empty pipe blocks (the daemon still owes replies) -/
example : consumeBatch ["a".toList, "b".toList] ["a\n".toList, "dying /log\n".toList, "x\n".toList]
    = .interrupted ["x\n".toList] ∧ consumeBatch ["a".toList, "b".toList] ["a\n".toList] = .blocked := by decide

/-- **bashrc_items_answered** — after `request_bashrcs` the daemon answers every item Python sends: either one `next`
per item (for a sourced file whatever the exit status of `source` — a bashrc ending in a false test is fine —, for an
evaluated text when it evaluates), or it dies, and then its death notice is what Python's `expect("next")` reads.
Python is never left waiting for an acknowledgement that will not come. -/
theorem bashrc_items_answered (items : List BashrcItem) :
    ((sourceBashrcs items).length = items.length ∧ ∀ l ∈ sourceBashrcs items, l = .next) ∨
      BashrcLine.death ∈ sourceBashrcs items :=
  sourceBashrcs_answered items

/-- sourced files: one `next` each, for all exit statuses -/
theorem bashrc_paths_acknowledged (sts : List Nat) :
    sourceBashrcs (sts.map .path) = sts.map fun _ => .next :=
  sourceBashrcs_paths sts

example : sourceBashrcs [.path 0, .path 1, .path 3, .transfer 0] = [.next, .next, .next, .next] ∧
    sourceBashrcs [.path 1, .transfer 2, .path 0] = [.next, .death] := by decide

/-! ## the handler table is the session's own -/

/-- **session_calls_only_own_handlers** — whatever a session dispatches to an additional handler is one of the additional
commands passed to *this* `generic_handler` call. -/
theorem session_calls_only_own_handlers (extra lines : List Line) :
    ∀ w ∈ (handlerSession extra lines).1, w ∈ extra := by
  induction lines with
  | nil => simp [handlerSession]
  | cons l rest ih =>
    unfold handlerSession
    by_cases h : firstWord l ∈ extra
    · simp only [h, if_true]
      intro w hw
      rcases List.mem_cons.mp hw with rfl | hw
      · exact h
      · exact ih w hw
    · simp only [h, if_false]
      split <;> (try split) <;> simp

/-- **unknown_in_session_ends_it** — on a pooled processor, after ANY history of earlier sessions (whatever additional
commands they registered), a line whose command is neither a fixed command nor one of the current session's additional
commands ends the current session with UnhandledCommand for exactly that line, after the session's own commands before
it were served; nothing after it is consumed. -/
theorem unknown_in_session_ends_it (hist : List (List Line × List Line)) (extra pre : List Line) (l : Line)
    (rest : List Line) (hpre : ∀ x ∈ pre, firstWord x ∈ extra) (hx : firstWord l ∉ extra) (hb : firstWord l ∉ baseWords) :
    (serveSessions (hist ++ [(extra, pre ++ l :: rest)])).getLast? = some (pre.map firstWord, .unhandled l) := by
  have hs : ∀ pre : List Line, (∀ x ∈ pre, firstWord x ∈ extra) →
      handlerSession extra (pre ++ l :: rest) = (pre.map firstWord, .unhandled l) := by
    intro pre
    induction pre with
    | nil =>
      intro _
      have h1 : (firstWord l == wPhases) = false := by
        apply beq_false_of_ne
        intro h; exact hb (by simp [baseWords, h])
      have h2 : firstWord l ∉ otherBaseWords := by
        intro h; exact hb (by simp [baseWords, h])
      simp [handlerSession, hx, h1, h2]
    | cons p ps ih =>
      intro hp
      have := ih (fun x hx' => hp x (List.mem_cons_of_mem _ hx'))
      simp [handlerSession, hp p (List.mem_cons_self ..), this]
  simp [serveSessions, hs pre hpre]

/-- **session_independent_of_history** — what a session does is a function of its own additional commands and of the
lines the daemon sends in it; the sessions served before on the same processor do not enter. -/
theorem session_independent_of_history (h1 h2 : List (List Line × List Line)) (s : List Line × List Line) :
    (serveSessions (h1 ++ [s])).getLast? = (serveSessions (h2 ++ [s])).getLast? := by
  simp [serveSessions]

example : serveSessions [(["request_inherit".toList, "key".toList], ["request_inherit foo\n".toList, "key A=1\n".toList,
      "phases succeeded\n".toList]),
    (["probe".toList], ["probe\n".toList, "request_inherit foo\n".toList, "phases succeeded\n".toList])]
    = [(["request_inherit".toList, "key".toList], .finished), (["probe".toList], .unhandled "request_inherit foo\n".toList)] := by
  decide

/-! ## the programs of the real API are instances of the quantified client programs -/

theorem wf_replicate_preload (n : Nat) (tail : List POp) (h : wf .main tail = true) :
    wf .main (List.replicate n (.ask .preload) ++ tail) = true := by
  induction n with
  | zero => simpa using h
  | succ n ih => simpa [List.replicate_succ, wf, trans, expected] using ih

/-- `is_responsive`, `preload_eclasses` (any batch size, synchronous or asynchronous), `clear_preloaded_eclasses`,
`_ensure_metadata_paths`, `_run_depend_like_phase`, `run_phase` (with/without logging), `shutdown_processor` -/
theorem api_programs_wf :
    wf .main progResponsive = true ∧ (∀ n sync, wf .main (progPreload n sync) = true) ∧ wf .main progClear = true ∧
    wf .main progMetaPath = true ∧ (∀ sp, wf .main (progDepend sp) = true) ∧
    (∀ lg, wf .main (progRunPhase lg) = true) ∧ wf .main progShutdown = true := by
  refine ⟨by decide, ?_, by decide, by decide, by decide, by decide, by decide⟩
  intro n sync
  cases sync
  · exact wf_replicate_preload n _ (by decide)
  · exact wf_replicate_preload n _ (by decide)

/-- the handlers' answers: an IPC reply, `path`+path for an inherit, any number of bashrcs each acknowledged with
`next` then `end_request`, any number of summary lines then `end_sandbox_summary` -/
theorem answers_wf :
    wfTo (.wait .ipc) ansIpc .running = true ∧ wfTo (.wait .inherit) ansInherit .running = true ∧
    (∀ n, wfTo (.wait .bashrcs) (ansBashrcs n) .running = true) ∧
    (∀ n, wfTo (.wait .summary) (ansSummary n) .running = true) := by
  refine ⟨by decide, by decide, ?_, ?_⟩
  · intro n
    induction n with
    | zero => decide
    | succ n ih => simpa [ansBashrcs, List.replicate_succ, wfTo, trans, expected] using ih
  · intro n
    induction n with
    | zero => decide
    | succ n ih => simpa [ansSummary, List.replicate_succ, wfTo, trans] using ih

/-- non-vacuity: a state in the middle of a phase (one asynchronous preload still unread, an IPC request just
issued, Python inside `generic_handler`) is reachable -/
example : Reachable ⟨[.handler], [], .live, .wait .ipc, [], [.request .ipc]⟩ := by
  have s0 := Reachable.init
  have s1 := Reachable.step s0 (Step.pStart _ (progPreload 1 false ++ progRunPhase false) rfl rfl (by decide))
  have s2 := Reachable.step s1 (Step.pAsk _ .preload .preloadDone _ rfl rfl rfl)
  have s3 := Reachable.step s2 (Step.pCmd _ .processEbuild _ rfl rfl)
  have s4 := Reachable.step s3 (Step.bCmd _ .preload _ .main (some .preloadDone) rfl rfl)
  have s5 := Reachable.step s4 (Step.pAsk _ .startEnv .envDone _ rfl rfl rfl)
  have s6 := Reachable.step s5 (Step.bCmd _ .processEbuild _ .setup none rfl rfl)
  have s7 := Reachable.step s6 (Step.bCmd _ .startEnv _ .setup (some .envDone) rfl rfl)
  have s8 := Reachable.step s7 (Step.pReadExpected _ .preloadDone [.envDone] [.reply .envDone] .drain _ rfl rfl (Or.inl rfl) rfl rfl)
  have s9 := Reachable.step s8 (Step.pReadExpected _ .envDone [] [] .drain _ rfl rfl (Or.inl rfl) rfl rfl)
  have s10 := Reachable.step s9 (Step.pDrainDone _ _ rfl rfl rfl)
  have s11 := Reachable.step s10 (Step.pCmd _ .sandboxState _ rfl rfl)
  have s12 := Reachable.step s11 (Step.pCmd _ .startProcessing _ rfl rfl)
  have s13 := Reachable.step s12 (Step.bCmd _ .sandboxState _ .setup none rfl rfl)
  have s14 := Reachable.step s13 (Step.bCmd _ .startProcessing _ .running none rfl rfl)
  have s15 := Reachable.step s14 (Step.bRequest _ .ipc rfl)
  exact s15

end Pkgcore.C35
