import Pkgcore.Proofs.C27
/-!
# C27 — metadata cache entries round-trip and are replaced atomically

Property theorems only.  `renderEntry`/`parseEntry` mirror `cache[cpv] = values` (`base.__setitem__`,
`deconstruct_eclasses`, the text `_setitem` writes) and `cache[cpv]` (`_getitem`, `_parse_data`,
`reconstruct_eclasses`) for both layouts; `storeOps` is the operation list of `flat_hash._setitem`,
`keys` the directory walk of `flat_hash.keys` (`Model/C27.lean`).
-/
namespace Pkgcore.C27
open Pkgcore.C24 Pkgcore.C27.Spec

/-- **round trip**: for both layouts and every metadata dict of the domain (any number of keys,
known or not, single-line values with any blanks, any eclass list), reading the stored text returns the
same known keys and values, the inherited-eclass data in order and the validation mtime/checksum. -/
theorem cache_roundtrip (k : Kind) (e : Entry) (hd : Dom k e) :
    ∃ r, parseEntry k (renderEntry k e) = .ok r ∧ SameEntry r (expected k e) :=
  parseEntry_render k e hd

/-- **a store is crash safe**: at every crash point of `cache[cpv] = values` the entry path holds
its previous content or the complete new text (so a reader gets the previous entry — or the previous
absence — or the new entry), and no other entry changes. -/
theorem store_crash_safe (kind : Kind) (e : Entry) (hd : Dom kind e) (fs : Fs) (pid cpv : Str) (gid : Int)
    (mkdirs chunks : List Str) (hpid : '/' ∉ pid) (hc : chunks.flatten = renderEntry kind e) (k : Nat) :
    let fs' := run ((storeOps pid cpv gid mkdirs chunks).take k) fs
    (fs'.read cpv = fs.read cpv ∨ fs'.read cpv = some (renderEntry kind e)) ∧
    (getItem kind fs' cpv = getItem kind fs cpv ∨
      ∃ r, getItem kind fs' cpv = .ok r ∧ SameEntry r (expected kind e)) ∧
    (∀ q, q ≠ tmpOf pid cpv → q ≠ cpv → fs'.read q = fs.read q) := by
  intro fs'
  have hmain := temp_rename_prefix (storePrep pid cpv gid mkdirs chunks) (tmpOf pid cpv) cpv chunks.flatten fs
    (tmpOf_ne pid cpv hpid) (fun q hq => storePrep_untouched pid cpv gid mkdirs chunks q hq)
    (storePrep_tmp pid cpv gid mkdirs chunks fs) k
  rw [← storeOps_eq, hc] at hmain
  refine ⟨hmain.1, ?_, hmain.2⟩
  rcases hmain.1 with h | h
  · left; show getItem kind fs' cpv = _; unfold getItem; rw [show fs'.read cpv = fs.read cpv from h]
  · right
    obtain ⟨r, hr, hs⟩ := cache_roundtrip kind e hd
    exact ⟨r, by show getItem kind fs' cpv = _; unfold getItem; rw [show fs'.read cpv = _ from h]; exact hr, hs⟩

/-- **listing never reports a partial entry**: at every crash point every name `keys()` yields is
either a previously listed entry with unchanged content or the stored `cpv` with its complete new
text; in particular the temporary file is never listed. -/
theorem keys_never_partial (kind : Kind) (e : Entry) (fs : Fs) (pid cpv : Str) (gid : Int)
    (mkdirs chunks : List Str) (hpid : '/' ∉ pid) (hc : chunks.flatten = renderEntry kind e) (k : Nat) :
    let fs' := run ((storeOps pid cpv gid mkdirs chunks).take k) fs
    ∀ p ∈ keys fs', (p ∈ keys fs ∧ fs'.read p = fs.read p) ∨ (p = cpv ∧ fs'.read p = some (renderEntry kind e)) := by
  intro fs' p hp
  have hmain := temp_rename_prefix (storePrep pid cpv gid mkdirs chunks) (tmpOf pid cpv) cpv chunks.flatten fs
    (tmpOf_ne pid cpv hpid) (fun q hq => storePrep_untouched pid cpv gid mkdirs chunks q hq)
    (storePrep_tmp pid cpv gid mkdirs chunks fs) k
  rw [← storeOps_eq, hc] at hmain
  simp only [keys, List.mem_filter] at hp
  obtain ⟨hmem, hok⟩ := hp
  have hsome : (fs'.read p).isSome = true := (read_isSome_iff fs' p).mpr hmem
  have back : fs'.read p = fs.read p → p ∈ keys fs := fun h => by
    simp only [keys, List.mem_filter]
    exact ⟨(read_isSome_iff fs p).mp (h ▸ hsome), hok⟩
  by_cases h1 : p = tmpOf pid cpv
  · subst h1; rw [tmpOf_not_listed pid cpv hpid] at hok; cases hok
  · by_cases h2 : p = cpv
    · subst h2
      rcases hmain.1 with h | h
      · exact Or.inl ⟨back h, h⟩
      · exact Or.inr ⟨rfl, h⟩
    · have h := hmain.2 p h1 h2
      exact Or.inl ⟨back h, h⟩

/-- a completed store: the entry is there, reads back, is listed, and the temporary file is gone -/
theorem store_completes (kind : Kind) (e : Entry) (hd : Dom kind e) (fs : Fs) (pid cpv : Str) (gid : Int)
    (mkdirs chunks : List Str) (hpid : '/' ∉ pid) (hc : chunks.flatten = renderEntry kind e)
    (hname : ListedName cpv) :
    let fs' := run (storeOps pid cpv gid mkdirs chunks) fs
    (∃ r, getItem kind fs' cpv = .ok r ∧ SameEntry r (expected kind e)) ∧
    cpv ∈ keys fs' ∧ fs'.read (tmpOf pid cpv) = none := by
  intro fs'
  have hfin := temp_rename_final (storePrep pid cpv gid mkdirs chunks) (tmpOf pid cpv) cpv chunks.flatten fs
    (tmpOf_ne pid cpv hpid) (storePrep_tmp pid cpv gid mkdirs chunks fs)
  rw [← storeOps_eq, hc] at hfin
  obtain ⟨r, hr, hs⟩ := cache_roundtrip kind e hd
  refine ⟨⟨r, by show getItem kind fs' cpv = _; unfold getItem; rw [show fs'.read cpv = _ from hfin.1]; exact hr, hs⟩,
    ?_, hfin.2⟩
  simp only [keys, List.mem_filter]
  refine ⟨(read_isSome_iff fs' cpv).mp ?_, hname⟩
  rw [show fs'.read cpv = _ from hfin.1]; rfl

/-- **a store that fails keeps the previous entry**: whichever os-level call of the store reports an error
(or the rendering raises) and whether or not the temp file gets cleaned up, at every point of what `_setitem`
then does every path other than the temp file is unchanged — so `cache[cpv]` still returns the previous
complete entry (or is still absent) and `keys()` lists exactly what it listed before. -/
theorem store_failure_keeps_old (kind : Kind) (fs : Fs) (pid cpv : Str) (gid : Int) (mkdirs chunks : List Str)
    (hpid : '/' ∉ pid) (k : Nat) (cleanup : Bool) (n : Nat) :
    let fs' := run ((failedStoreOps pid cpv gid mkdirs chunks k cleanup).take n) fs
    (∀ q, q ≠ tmpOf pid cpv → fs'.read q = fs.read q) ∧
    getItem kind fs' cpv = getItem kind fs cpv ∧
    (∀ p, p ∈ keys fs' ↔ p ∈ keys fs) := by
  intro fs'
  have hops : ∀ q, q ≠ tmpOf pid cpv → ∀ op ∈ failedStoreOps pid cpv gid mkdirs chunks k cleanup, touches op q = false := by
    intro q hq op hop
    unfold failedStoreOps at hop
    rw [storeOps_eq, List.dropLast_concat] at hop
    simp only [List.mem_append] at hop
    rcases hop with hop | hop
    · exact storePrep_untouched pid cpv gid mkdirs chunks q hq op (List.mem_of_mem_take hop)
    · have hne : (tmpOf pid cpv == q) = false := by simpa using fun e => hq e.symm
      cases cleanup <;> simp at hop
      subst hop; simp [touches, hne]
  have hun : ∀ q, q ≠ tmpOf pid cpv → fs'.read q = fs.read q := fun q hq =>
    run_untouched _ fs q (fun op hop => hops q hq op (List.mem_of_mem_take hop))
  refine ⟨hun, ?_, ?_⟩
  · unfold getItem; rw [hun cpv (tmpOf_ne pid cpv hpid).symm]
  · intro p
    simp only [keys, List.mem_filter]
    by_cases hp : p = tmpOf pid cpv
    · subst hp; rw [tmpOf_not_listed pid cpv hpid]; simp
    · have h := hun p hp
      constructor
      · intro ⟨hm, hok⟩
        exact ⟨(read_isSome_iff fs p).mp (h ▸ (read_isSome_iff fs' p).mpr hm), hok⟩
      · intro ⟨hm, hok⟩
        exact ⟨(read_isSome_iff fs' p).mp (h.symm ▸ (read_isSome_iff fs p).mpr hm), hok⟩

/-! ### the hypotheses are satisfiable -/

def exampleEntry : Entry :=
  ⟨[("DESCRIPTION".toList, "foo bar ".toList), ("SLOT".toList, " 0".toList), ("EAPI".toList, []),
    ("UNKNOWN".toList, "x".toList), ("DEPEND".toList, "a=b".toList)], 1700000000,
   some [⟨"eutils".toList, "/repo/eclass".toList, 5⟩, ⟨"flag-o".toList, "/o/e class".toList, 7⟩]⟩

example : Dom .flat exampleEntry ∧ Dom .md5 exampleEntry := by
  have hk : ∀ k, Dom k exampleEntry := by
    intro k
    refine ⟨by decide, ?_, ?_, fun _ => by decide, ?_⟩
    · intro p hp
      simp only [exampleEntry, List.mem_cons, List.not_mem_nil, or_false] at hp
      rcases hp with rfl | rfl | rfl | rfl | rfl <;> (cases k <;> (simp only [singleLine]; decide))
    · intro p hp
      simp only [exampleEntry, List.mem_cons, List.not_mem_nil, or_false] at hp
      rcases hp with rfl | rfl | rfl | rfl | rfl <;> (simp only [singleLine]; decide)
    · intro es hes c hc
      simp only [exampleEntry, Option.some.injEq] at hes
      subst hes
      simp only [List.mem_cons, List.not_mem_nil, or_false] at hc
      rcases hc with rfl | rfl <;> (simp only [singleLine]; refine ⟨by decide, by decide, by decide, by decide, fun _ => by decide⟩)
  exact ⟨hk _, hk _⟩

example : parseEntry .md5 (renderEntry .md5 ⟨[("SLOT".toList, " 0 ".toList), ("X".toList, "y".toList)], 171, some [⟨"eu".toList, "/e".toList, 5⟩]⟩)
    = .ok ⟨[("SLOT".toList, " 0 ".toList)], 171, some [⟨"eu".toList, [], 5⟩]⟩ := by decide

def crashedFs : Fs :=
  run ((storeOps "77".toList "cat/pkg-1".toList 250 [] ["SLOT=0\n".toList, "_mtime_=2\n".toList]).take 2)
    [("cat/pkg-1".toList, "_mtime_=1\n".toList)]

/-- crash after the first chunk reached the temp file: the old entry is read, the temp file is not listed -/
example : keys crashedFs = ["cat/pkg-1".toList] ∧ getItem .flat crashedFs "cat/pkg-1".toList = .ok ⟨[], 1, none⟩ ∧
    crashedFs.read "cat/.update.77.pkg-1".toList = some "SLOT=0\n".toList := by decide

end Pkgcore.C27
