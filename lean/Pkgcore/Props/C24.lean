import Pkgcore.Proofs.C24
/-!
# C24 — installed-package CONTENTS files round-trip and are replaced atomically

Property theorems only.  `renderFile`/`readContents` mirror `ContentsFile._write`/`ContentsFile(path)`
(`_iter_contents` + `contentsSet.update`), `flushOps` the operation sequence of `flush()` through
`AtomicWriteFile`; see `Model/C24.lean`.  Sets, paths, targets, checksums and mtimes are unbounded.
-/
namespace Pkgcore.C24
open Pkgcore.C24.Spec

/-- **round trip** (`contents_roundtrip`, guarded by `Representable`): for every contents set whose
entries the line format can represent, reading the written file yields the same entries — type, path
(embedded, leading and trailing blanks, `->` fragments in targets, any code point), MD5, integral mtime,
symlink target.

Full statement (false of the code, see the two counterexamples):
`∀ S, IsSet S → Normalised S → ∃ r, readContents (renderFile S) = some r ∧ SameEntries r S`. -/
theorem contents_roundtrip_partial (S : List Entry) (hset : IsSet S) (hnorm : Normalised S)
    (hrep : ∀ e ∈ S, Representable e) :
    ∃ r, readContents (renderFile S) = some r ∧ SameEntries r S := by
  have hperm := sortEntries_perm S
  refine ⟨sortEntries S, ?_, hperm⟩
  have hmem : ∀ e, e ∈ sortEntries S → e ∈ S := fun e he => hperm.mem_iff.mp he
  unfold readContents renderFile
  have hlines : (sortEntries S).flatMap (fun e => renderLine e ++ ['\n'])
      = ((sortEntries S).map renderLine).flatMap (fun l => l ++ ['\n']) := by
    simp [List.flatMap_map]
  rw [hlines, readLines_render]
  · have hparse : ((sortEntries S).map renderLine).mapM parseLine = some (sortEntries S) := by
      rw [List.mapM_map]
      have : ∀ l : List Entry, (∀ e ∈ l, e ∈ S) → l.mapM (fun e => parseLine (renderLine e)) = some l := by
        intro l
        induction l with
        | nil => intro _; rfl
        | cons e r ih =>
          intro h
          have he := h e (by simp)
          rw [List.mapM_cons, parseLine_render e (hnorm e he) (hrep e he), ih (fun x hx => h x (by simp [hx]))]
          rfl
      exact this _ hmem
    rw [hparse]
    simp only [Option.map_some]
    rw [foldl_setAdd_nodup _ [] (by
      simp only [List.nil_append]
      exact (hperm.map Entry.loc).nodup_iff.mpr hset)]
    simp
  · intro l hl
    simp only [List.mem_map] at hl
    obtain ⟨e, he, rfl⟩ := hl
    exact renderLine_ok e (hrep e (hmem e he))

/-- a symlink whose location contains a `->` token is split at the first one -/
theorem contents_roundtrip_counterexample :
    ∃ S, IsSet S ∧ Normalised S ∧
      readContents (renderFile S) = some [Entry.sym "/a".toList "b -> t".toList 1] ∧
      S = [Entry.sym "/a -> b".toList "t".toList 1] := by
  refine ⟨[Entry.sym "/a -> b".toList "t".toList 1], by decide, ?_, by decide, rfl⟩
  intro e he
  simp only [List.mem_singleton] at he
  subst he
  decide

/-- a path containing a line break makes the file unreadable -/
theorem contents_linebreak_counterexample :
    ∃ S, IsSet S ∧ Normalised S ∧ readContents (renderFile S) = none ∧ S = [Entry.dir "/a\nb".toList] := by
  refine ⟨[Entry.dir "/a\nb".toList], by decide, ?_, by decide, rfl⟩
  intro e he
  simp only [List.mem_singleton] at he
  subst he
  decide

/-- **replaced atomically**: `flush()` creates `.update.CONTENTS`, writes the text there (in any
chunking), closes it and renames it over CONTENTS; at *every* crash point the CONTENTS path holds its
previous content or the complete new text, and at the end the new text. -/
theorem flush_atomic (fs : Fs) (dir base : Str) (S : List Entry) (chunks : List Str)
    (hc : chunks.flatten = renderFile S) :
    ReplacedAtomically (flushOps dir base chunks) fs (targetName dir base) (renderFile S) := by
  unfold flushOps
  rw [← hc]
  exact ⟨fun k => (atomic_replace_prefix dir base chunks fs k).1, (atomic_replace_final dir base chunks fs).1⟩

/-- hence a reader (`ContentsFile(path)`) at any crash point sees the previous set or the new one,
never a partial one -/
theorem flush_reader_sees_old_or_new (fs : Fs) (dir base : Str) (S : List Entry) (chunks : List Str)
    (hc : chunks.flatten = renderFile S) (hset : IsSet S) (hnorm : Normalised S)
    (hrep : ∀ e ∈ S, Representable e) (k : Nat) :
    let fs' := run ((flushOps dir base chunks).take k) fs
    (fs'.read (targetName dir base)).bind readContents = (fs.read (targetName dir base)).bind readContents ∨
    ∃ r, (fs'.read (targetName dir base)).bind readContents = some r ∧ SameEntries r S := by
  intro fs'
  obtain ⟨r, hr, hs⟩ := contents_roundtrip_partial S hset hnorm hrep
  rcases (flush_atomic fs dir base S chunks hc).1 k with h | h
  · left; show (fs'.read _).bind readContents = _; rw [h]
  · right; exact ⟨r, by show (fs'.read _).bind readContents = _; rw [h]; exact hr, hs⟩

/-- no other file is changed at any crash point, and no temporary file is left after completion -/
theorem flush_touches_nothing_else (fs : Fs) (dir base : Str) (chunks : List Str) :
    (∀ k q, q ≠ tmpName dir base → q ≠ targetName dir base →
      (run ((flushOps dir base chunks).take k) fs).read q = fs.read q) ∧
    (run (flushOps dir base chunks) fs).read (tmpName dir base) = none :=
  ⟨fun k => (atomic_replace_prefix dir base chunks fs k).2, (atomic_replace_final dir base chunks fs).2⟩

/-- **a flush that fails while rendering leaves the old file**: whatever entry makes the loop raise (an
unknown entry type, a missing checksum or mtime, an unencodable path, an interrupt) and however much text had
reached the temp file, at every point of the clean-up sequence the CONTENTS path holds exactly its previous
content, no other file changes, and the temp file is gone at the end. -/
theorem flush_abort_keeps_old (fs : Fs) (dir base : Str) (written : List Str) (k : Nat) :
    (run ((abortOps dir base written).take k) fs).read (targetName dir base) = fs.read (targetName dir base) ∧
    (∀ q, q ≠ tmpName dir base → (run ((abortOps dir base written).take k) fs).read q = fs.read q) ∧
    (run (abortOps dir base written) fs).read (tmpName dir base) = none := by
  have hun : ∀ q, q ≠ tmpName dir base → (run ((abortOps dir base written).take k) fs).read q = fs.read q :=
    fun q hq => run_untouched _ fs q (fun op hop => abortOps_untouched dir base written q hq op (List.mem_of_mem_take hop))
  exact ⟨hun _ (tmp_ne_target dir base).symm, hun, abortOps_final dir base written fs⟩

/-- **flush writes the current set, whatever its history**: after any sequence of mutating operations
(`add`, `discard`/`remove`, `clear`, `update`, `difference_update`, `intersection_update`,
`symmetric_difference_update`) on a set, the result is again a set (one entry per location), and flushing
it and reading it back yields exactly the entries the history leaves — not those of an earlier state. -/
theorem history_flush_roundtrip (S : List Entry) (hist : List SetOp) (hset : IsSet S)
    (hok : ∀ e, (e ∈ S ∨ ∃ op ∈ hist, e ∈ opEntries op) → normpath e.loc = e.loc ∧ Representable e) :
    IsSet (applyOps S hist) ∧
    ∃ r, readContents (renderFile (applyOps S hist)) = some r ∧ SameEntries r (applyOps S hist) := by
  have h1 := applyOps_isSet S hist hset
  refine ⟨h1, contents_roundtrip_partial _ h1 ?_ ?_⟩
  · intro e he; exact (hok e (mem_applyOps S hist e he)).1
  · intro e he; exact (hok e (mem_applyOps S hist e he)).2

/-! ### the hypotheses are satisfiable -/

def exampleSet : List Entry :=
  [.obj "/usr/bin/a b ".toList 0xabc 12, .sym "/usr/lib/x->y".toList "tgt -> z ".toList (-5),
   .dir " /usr/share/d ".toList, .dev "/dev/null".toList, .fif "/var/f é".toList]

example : IsSet exampleSet ∧ Normalised exampleSet ∧ ∀ e ∈ exampleSet, Representable e := by
  refine ⟨by decide, ?_, ?_⟩
  · intro e he
    simp only [exampleSet, List.mem_cons, List.not_mem_nil, or_false] at he
    rcases he with rfl | rfl | rfl | rfl | rfl <;> decide
  · intro e he
    simp only [exampleSet, List.mem_cons, List.not_mem_nil, or_false] at he
    rcases he with rfl | rfl | rfl | rfl | rfl <;> (simp only [Representable, noLineBreak, Entry.loc]; decide)

example : readContents (renderFile exampleSet) = some (sortEntries exampleSet) := by decide

/-- a crash in the middle of the write (after the first chunk) leaves the old file -/
example : (run ((flushOps "/v".toList "CONTENTS".toList ["dir /a\n".toList, "dir /b\n".toList]).take 4)
    [("/v/CONTENTS".toList, "dir /old\n".toList)]).read "/v/CONTENTS".toList = some "dir /old\n".toList := by decide

/-- load, discard, flush: the discarded entry is gone from the file -/
example : readContents (renderFile (applyOps [Entry.dir "/a".toList, Entry.dir "/b".toList] [.discard "/a".toList]))
    = some [Entry.dir "/b".toList] := by decide

/-- a failure after the first line was written: CONTENTS still holds the old text, the temp file is removed -/
example : (run (abortOps "/v".toList "CONTENTS".toList ["dir /a\n".toList]) [("/v/CONTENTS".toList, "dir /old\n".toList)])
    = [("/v/CONTENTS".toList, "dir /old\n".toList)] := by decide

end Pkgcore.C24
