import Pkgcore.Proofs.C19
/-!
# C19 — an interrupted merge never leaves a replaced file half-written

Property theorems only.  The model is `Pkgcore.C18.mergeContents` (it logs every system call); a crash point is
a prefix of the log (`crashState env pre log k`, `k` arbitrary — beyond the length it is the final state).
-/
namespace Pkgcore.C19
open Pkgcore.C18 Pkgcore.C18.Spec Pkgcore.C19.Spec

/-- **Every crash point of every merge is crash-safe** — for every pre-existing file system, contents set, process
identity, offset flag, **whatever the merge would return** (normally, or `CannotOverwrite`/`FailedCopy`/`OSError`
half-way), and **every prefix `k`** of its system calls: each path that existed before holds its complete previous
or its complete new content and metadata (directories: same inode, permissions kept, ownership old or recorded),
nothing outside the contents set is created or modified apart from `'#new'` siblings.

`_partial`: under `NoDirOverSymlink` (no directory entry lands on a symlink); the full statement (the same without
that hypothesis) is false of the model and of the code: `merge_crash_safe_counterexample` (open finding
`C19-dir-over-symlink-window`).  What still holds there is `merge_crash_states`.  The other hypotheses are the
well-formedness conditions and finding guards of `C18.merge_places_contents_partial`, plus `NonDirsBelowRoot`. -/
theorem merge_crash_safe_partial (env : Env) (off : Bool) (pre : Fs) (es : List Entry)
    (hpre : pre.WF) (hdist : DistinctLocs es) (hclash : NoTmpClash es) (htree : TreeShaped es)
    (hsym : NoSymOverDir pre es) (hhl : HardlinkConsistent es) (hsolo : SymAtDirSolo pre es)
    (hroot : RootGuard off pre es) (hnr : NonDirsBelowRoot es) (hwin : NoDirOverSymlink pre es) :
    ∀ k : Nat, CrashSafe pre es (crashState env pre (mergeContents env off es pre).1.log k) := by
  obtain ⟨ops, h1, _, h3⟩ := merge_traj (env := env) hpre ⟨hclash, htree, hsym, hhl, hsolo⟩ hdist hroot hnr
  simp only [List.nil_append] at h1
  intro k
  unfold crashState
  rw [h1]
  exact reach_crashSafe hwin (h3 k)

/-- without the guard: the location of a directory entry that lands on a symlink may, in addition, be absent or
hold the directory that is being set up; everything else as in `merge_crash_safe_partial` -/
theorem merge_crash_states (env : Env) (off : Bool) (pre : Fs) (es : List Entry)
    (hpre : pre.WF) (hdist : DistinctLocs es) (hclash : NoTmpClash es) (htree : TreeShaped es)
    (hsym : NoSymOverDir pre es) (hhl : HardlinkConsistent es) (hsolo : SymAtDirSolo pre es)
    (hroot : RootGuard off pre es) (hnr : NonDirsBelowRoot es) :
    ∀ k : Nat, (∀ q, OldPathSafeW pre es (crashState env pre (mergeContents env off es pre).1.log k) q) ∧
               (∀ q, NewPathInside pre es (crashState env pre (mergeContents env off es pre).1.log k) q) := by
  obtain ⟨ops, h1, _, h3⟩ := merge_traj (env := env) hpre ⟨hclash, htree, hsym, hhl, hsolo⟩ hdist hroot hnr
  simp only [List.nil_append] at h1
  intro k
  unfold crashState
  rw [h1]
  exact ⟨reach_old_W (h3 k), reach_new (h3 k)⟩

/-- the logged calls are the trajectory: the state the model ends in is the replay of its log, for every outcome -/
theorem merge_log_is_trajectory (env : Env) (off : Bool) (pre : Fs) (es : List Entry)
    (hpre : pre.WF) (hdist : DistinctLocs es) (hclash : NoTmpClash es) (htree : TreeShaped es)
    (hsym : NoSymOverDir pre es) (hhl : HardlinkConsistent es) (hsolo : SymAtDirSolo pre es)
    (hroot : RootGuard off pre es) (hnr : NonDirsBelowRoot es) :
    (mergeContents env off es pre).1.fs =
      crashState env pre (mergeContents env off es pre).1.log (mergeContents env off es pre).1.log.length := by
  obtain ⟨ops, h1, h2, _⟩ := merge_traj (env := env) hpre ⟨hclash, htree, hsym, hhl, hsolo⟩ hdist hroot hnr
  simp only [List.nil_append] at h1
  unfold crashState
  rw [h2, h1, ← List.length_map (f := Prod.fst), List.take_length]

/-- **Other names of a replaced file are never touched** (second sentence of the property, at every crash point):
a path that is neither an entry location nor a `'#new'` sibling keeps its inode, content, permissions, ownership
and mtime through every prefix of every merge — also when it is a *hard link to a file that is being replaced*
(it shares the inode of an entry location, so any `chmod`/`chown`/`write` issued on the live path before the
rename would show through it).  No `NoDirOverSymlink` guard is needed: the window of that finding concerns entry
locations only. -/
theorem outside_paths_untouched (env : Env) (off : Bool) (pre : Fs) (es : List Entry)
    (hpre : pre.WF) (hdist : DistinctLocs es) (hclash : NoTmpClash es) (htree : TreeShaped es)
    (hsym : NoSymOverDir pre es) (hhl : HardlinkConsistent es) (hsolo : SymAtDirSolo pre es)
    (hroot : RootGuard off pre es) (hnr : NonDirsBelowRoot es)
    (q : Path) (i : Nat) (nd : Inode) (hq : pre.view q = some (i, nd))
    (hout : ∀ e ∈ es, e.loc ≠ q) (htmp : ¬ IsTmp es q) :
    ∀ k : Nat, (crashState env pre (mergeContents env off es pre).1.log k).view q = some (i, nd) := by
  intro k
  have h := (merge_crash_states env off pre es hpre hdist hclash htree hsym hhl hsolo hroot hnr k).1 q
  unfold OldPathSafeW OldPathSafe at h
  simp only [hq] at h
  rcases h with (h | ⟨e, he, hl, _⟩ | ⟨e, he, _, hl, _⟩ | h) | ⟨e, he, _, hl, _⟩
  · exact h
  · exact absurd hl (hout e he)
  · exact absurd hl (hout e he)
  · exact absurd h htmp
  · exact absurd hl (hout e he)

/-- a set-uid binary with a second name outside the contents set is replaced: the hypotheses hold, the merge
succeeds with 7 calls, and through all of its crash points the other name still shows the old inode with its
`04755` -/
def hlPre : Fs :=
  ⟨[([], 1, ⟨.dir, 0o755, 0, 0, 0⟩), (["bin"], 2, ⟨.dir, 0o755, 0, 0, 0⟩), (["stash"], 4, ⟨.dir, 0o700, 0, 0, 0⟩),
    (["su", "bin"], 3, ⟨.file "6f6c64", 0o4755, 0, 0, 1000⟩), (["kept", "stash"], 3, ⟨.file "6f6c64", 0o4755, 0, 0, 1000⟩)], 5⟩
def hlEs : List Entry := [⟨["su", "bin"], .reg "6e6577" none, 0o4755, 0, 0, 2000⟩]

example : (mergeContents exEnv true hlEs hlPre).2.isOk = true ∧ (mergeContents exEnv true hlEs hlPre).1.log.length = 7 ∧
    DistinctLocs hlEs ∧ NoTmpClash hlEs ∧ TreeShaped hlEs ∧ NoSymOverDir hlPre hlEs ∧ HardlinkConsistent hlEs ∧
    SymAtDirSolo hlPre hlEs ∧ RootGuard true hlPre hlEs ∧ NonDirsBelowRoot hlEs ∧
    (∀ e ∈ hlEs, e.loc ≠ ["kept", "stash"]) ∧ ¬ IsTmp hlEs ["kept", "stash"] ∧
    ((crashStates exEnv hlPre (mergeContents exEnv true hlEs hlPre).1.log).all fun f =>
      decide (f.view ["kept", "stash"] = some (3, ⟨.file "6f6c64", 0o4755, 0, 0, 1000⟩))) = true ∧
    (mergeContents exEnv true hlEs hlPre).1.fs.view ["su", "bin"] = some (5, ⟨.file "6e6577", 0o4755, 0, 0, 2000⟩) := by
  decide

/-! non-vacuity: the example merge of C18 (a file replaced through its `'#new'` sibling, a hard link, a kept
directory with a change of ownership, missing parents) satisfies all hypotheses, has 14 calls, and e.g. its crash
point 4 (temporary written, ownership not yet set) is crash-safe by evaluation as well -/
example : (mergeContents exEnv true exEs exPre).2.isOk = true ∧ NoDirOverSymlink exPre exEs ∧ NonDirsBelowRoot exEs ∧
    crashFailures exPre exEs (crashState exEnv exPre (mergeContents exEnv true exEs exPre).1.log 4) = [] ∧
    (crashState exEnv exPre (mergeContents exEnv true exEs exPre).1.log 4).view ["f#new", "d"] ≠ none := by decide

/-- the full statement fails: a directory entry over a dangling symlink — after `mkdir` (EEXIST) and `unlink`
the path that existed before holds neither its old nor its new content: it is absent -/
theorem merge_crash_safe_counterexample :
    ∃ (env : Env) (pre : Fs) (es : List Entry) (k : Nat),
      DistinctLocs es ∧ NoTmpClash es ∧ TreeShaped es ∧ NoSymOverDir pre es ∧ HardlinkConsistent es ∧
      SymAtDirSolo pre es ∧ RootGuard true pre es ∧ NonDirsBelowRoot es ∧ (mergeContents env true es pre).2.isOk = true ∧
      ¬ CrashSafe pre es (crashState env pre (mergeContents env true es pre).1.log k) := by
  refine ⟨⟨0o022, 0, 0⟩,
    ⟨[([], 1, ⟨.dir, 0o755, 0, 0, 0⟩), (["d"], 2, ⟨.sym "nowhere", 0o777, 0, 0, 5⟩)], 3⟩,
    [⟨["d"], .dir, 0o755, 0, 0, 7⟩], 2,
    by decide, by decide, by decide, by decide, by decide, by decide, by decide, by decide, by decide, ?_⟩
  rw [crashSafe_iff_failures]
  decide

/-- **Replace-by-rename is atomic at every crash point** (the lemma every "replaced atomically" clause rests on):
while `copyfile` replaces an existing non-directory, at every prefix of its system calls the location holds the
old inode, untouched, or the complete new one. -/
theorem atomic_replace_prefix (env : Env) (s s' : St) (x : Entry) (i : Nat) (old : Inode)
    (hnd : x.isDir = false) (hwf : s.fs.WF) (hold : s.fs.view x.loc = some (i, old))
    (h : copyfile env s x = (s', .ok ())) :
    ∃ ops, s'.log = s.log ++ ops ∧ ∀ k : Nat,
      (run env s.fs ((ops.map Prod.fst).take k)).view x.loc = some (i, old) ∨
      ∃ j, (run env s.fs ((ops.map Prod.fst).take k)).view x.loc = some (j, x.inode) := by
  obtain ⟨post, ops, h1, _, h3⟩ := copyfile_ok hnd hwf h
  refine ⟨ops, h1, fun k => ?_⟩
  rcases h3 k x.loc with h4 | h4 | ⟨h4, _⟩ | ⟨_, j, h4⟩
  · left; rw [h4, hold]
  · exact absurd h4.symm (tmpOf_ne post.locNe)
  · rw [hold] at h4; cases h4
  · right; exact ⟨j, h4⟩

example : exPre.view ["f", "d"] = some (3, ⟨.file "6f6c64", 0o600, 0, 0, 1000⟩) ∧
    (copyfile exEnv ⟨exPre, []⟩ exEs[0]).2.isOk = true := by decide

/-- **The driver evaluates the specification itself** -/
theorem crashSafe_bounded_iff (pre : Fs) (es : List Entry) (cur : Fs) :
    CrashSafe pre es cur ↔ crashFailures pre es cur = [] := crashSafe_iff_failures pre es cur

example : crashFailures exPre exEs ⟨[], 1⟩ ≠ [] := by decide

end Pkgcore.C19
