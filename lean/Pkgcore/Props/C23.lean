import Pkgcore.Proofs.C23
/-!
# C23 — merge-time permission hardening never lets unsafe modes through

Property theorems only.  Model: `fix_uid_perms`, `fix_gid_perms`, `fix_set_bits`, `detect_world_writable` as dict
updates on `new_cset` (`Pkgcore/Model/C23.lean`); specification: `Spec.Hardened` (`Pkgcore/Spec/C23.lean`).
The theorems hold for the hardening triggers run **in any order, any number of times** (`Standard`), in particular
for the order in which a default install/replace engine runs them (generated from the real engine).
-/
namespace Pkgcore.C23
open Pkgcore.C23.Spec

/-- a `pre_merge` trigger list made of the hardening triggers for build user/group `bu`/`bg` and root `ru`/`rg`, in
any order and multiplicity, each of the three fixing triggers present at least once -/
structure Standard (bu ru bg rg : Nat) (ts : List Trigger) : Prop where
  only : ∀ t ∈ ts, t = .fixUid bu ru ∨ t = .fixGid bg rg ∨ t = .fixSetBits ∨ ∃ fp, t = .detectWorldWritable fp
  has_uid : .fixUid bu ru ∈ ts
  has_gid : .fixGid bg rg ∈ ts
  has_bits : .fixSetBits ∈ ts

theorem Standard.noReset {bu ru bg rg : Nat} {ts : List Trigger} (hs : Standard bu ru bg rg ts) :
    ∀ t ∈ ts, t.isReset = false := by
  intro t ht
  rcases hs.only t ht with rfl | rfl | rfl | ⟨fp, rfl⟩ <;> rfl

/-- **The mutation-level model is a pointwise map.**  On a contents set (distinct locations) running the triggers —
each a `cset.update(x.change_attributes(…) for x in … if …)` — rewrites every entry in place by `hardenWith`:
no entry is added, dropped, duplicated or moved. -/
theorem premerge_pointwise (ts : List Trigger) (hnr : ∀ t ∈ ts, t.isReset = false) (c : CSet)
    (hnd : (c.map (·.loc)).Nodup) :
    runTriggers ts c = c.map (hardenWith ts) ∧ (runTriggers ts c).map (·.loc) = c.map (·.loc) := by
  have h := runTriggers_eq_map ts hnr c hnd
  refine ⟨h, ?_⟩
  rw [h, List.map_map]
  apply List.map_congr_left
  intro e _
  exact fold_inv (fun x => x.loc = e.loc) ts (fun t _ x hx => by rw [step_loc]; exact hx) e rfl

example : ((([⟨0, "/a".toList, 0o4777, 250, 250, 1⟩, ⟨2, "/l".toList, 0o777, 0, 0, 2⟩] : CSet).map (·.loc))).Nodup := by
  decide

/-- `&` with the masks of the code tests exactly the setuid/setgid/world-writable bits, and `& ~0o6002` clears exactly
those three — for every mode, of any size -/
theorem mask_arithmetic (m : Nat) :
    (unsafeMode m = true ↔ Unsafe m) ∧ ¬ Unsafe (clearBits m 0o6002) ∧
    (∀ i, (clearBits m 0o6002).testBit i = (m.testBit i && !decide (i = 1 ∨ i = 10 ∨ i = 11))) ∧
    (∀ i, (clearBits m 0o002).testBit i = (m.testBit i && !decide (i = 1))) :=
  ⟨unsafeMode_iff m, clear6002_safe m, fun i => by rw [testBit_clearBits, bits_6002],
    fun i => by rw [testBit_clearBits, bits_2]⟩

/-- **Every entry comes out hardened**, whatever the order and multiplicity of the triggers. -/
theorem harden_spec (bu ru bg rg : Nat) (ts : List Trigger) (hs : Standard bu ru bg rg ts) (e : Entry) :
    Hardened bu ru bg rg (decide (Trigger.detectWorldWritable true ∈ ts)) e (hardenWith ts e) := by
  have hkind : ∀ x, x.kind = e.kind → (hardenWith ts x).kind = e.kind :=
    fold_inv (fun x => x.kind = e.kind) ts (fun t _ x hx => by rw [step_kind]; exact hx)
  -- invariants shared by all steps
  let Q : Entry → Prop := fun x => x.kind = e.kind ∧ (∀ i, x.mode.testBit i = true → e.mode.testBit i = true)
  have hQstep : ∀ t ∈ ts, ∀ x, Q x → Q (t.step x) := by
    intro t _ x ⟨hk, hm⟩
    refine ⟨by rw [step_kind]; exact hk, ?_⟩
    intro i hi
    apply hm
    cases t with
    | fixUid b g => simp only [Trigger.step] at hi; split at hi <;> exact hi
    | fixGid b g => simp only [Trigger.step] at hi; split at hi <;> exact hi
    | fixSetBits =>
      simp only [Trigger.step] at hi
      split at hi
      · simp only [testBit_clearBits, Bool.and_eq_true] at hi; exact hi.1
      · exact hi
    | detectWorldWritable fp =>
      simp only [Trigger.step] at hi
      split at hi
      · simp only [testBit_clearBits, Bool.and_eq_true] at hi; exact hi.1
      · exact hi
    | reset img => exact hi
  have hQ0 : Q e := ⟨rfl, fun _ h => h⟩
  have hsymQ : ∀ x, Q x → x.isSym = e.isSym := fun x hx => by simp [Entry.isSym, hx.1]
  refine ⟨hkind e rfl, ?_, ?_, ?_, ?_, ?_, ?_, ?_, ?_, ?_, ?_⟩
  · exact fold_inv (fun x => x.loc = e.loc) ts (fun t _ x hx => by rw [step_loc]; exact hx) e rfl
  · exact fold_inv (fun x => x.payload = e.payload) ts (fun t _ x hx => by rw [step_payload]; exact hx) e rfl
  · -- uid
    refine fold_est (fun x => x.uid = e.uid ∨ x.uid = (if e.uid = bu then ru else e.uid))
      (fun x => x.uid = (if e.uid = bu then ru else e.uid)) ts (.fixUid bu ru) hs.has_uid ?_ ?_ ?_ e (Or.inl rfl)
    · intro t ht x hx
      rcases hs.only t ht with rfl | rfl | rfl | ⟨fp, rfl⟩
      · simp only [Trigger.step]
        split
        · rename_i hb
          have hb' : x.uid = bu := by simpa using hb
          right
          rcases hx with h | h
          · rw [← h, if_pos hb']
          · by_cases he : e.uid = bu
            · simp [he]
            · rw [if_neg he] at h ⊢; exact absurd (h ▸ hb') he
        · exact hx
      · simp only [Trigger.step]; split <;> exact hx
      · simp only [Trigger.step]; split <;> exact hx
      · simp only [Trigger.step]; split <;> exact hx
    · intro x hx
      simp only [Trigger.step]
      split
      · rename_i hb
        have hb' : x.uid = bu := by simpa using hb
        rcases hx with h | h
        · show ru = _; rw [← h, if_pos hb']
        · by_cases he : e.uid = bu
          · simp [he]
          · rw [if_neg he] at h; exact absurd (h ▸ hb') he
      · rename_i hb
        have hb' : ¬ x.uid = bu := by simpa using hb
        rcases hx with h | h
        · rw [h] at hb' ⊢; rw [if_neg hb']
        · exact h
    · intro t ht x _ hp
      rcases hs.only t ht with rfl | rfl | rfl | ⟨fp, rfl⟩
      · simp only [Trigger.step]
        split
        · rename_i hb
          have hb' : x.uid = bu := by simpa using hb
          show ru = _
          by_cases he : e.uid = bu
          · simp [he]
          · rw [if_neg he] at hp; exact absurd (hp ▸ hb') he
        · exact hp
      · simp only [Trigger.step]; split <;> exact hp
      · simp only [Trigger.step]; split <;> exact hp
      · simp only [Trigger.step]; split <;> exact hp
  · -- gid
    refine fold_est (fun x => x.gid = e.gid ∨ x.gid = (if e.gid = bg then rg else e.gid))
      (fun x => x.gid = (if e.gid = bg then rg else e.gid)) ts (.fixGid bg rg) hs.has_gid ?_ ?_ ?_ e (Or.inl rfl)
    · intro t ht x hx
      rcases hs.only t ht with rfl | rfl | rfl | ⟨fp, rfl⟩
      · simp only [Trigger.step]; split <;> exact hx
      · simp only [Trigger.step]
        split
        · rename_i hb
          have hb' : x.gid = bg := by simpa using hb
          right
          rcases hx with h | h
          · rw [← h, if_pos hb']
          · by_cases he : e.gid = bg
            · simp [he]
            · rw [if_neg he] at h ⊢; exact absurd (h ▸ hb') he
        · exact hx
      · simp only [Trigger.step]; split <;> exact hx
      · simp only [Trigger.step]; split <;> exact hx
    · intro x hx
      simp only [Trigger.step]
      split
      · rename_i hb
        have hb' : x.gid = bg := by simpa using hb
        rcases hx with h | h
        · show rg = _; rw [← h, if_pos hb']
        · by_cases he : e.gid = bg
          · simp [he]
          · rw [if_neg he] at h; exact absurd (h ▸ hb') he
      · rename_i hb
        have hb' : ¬ x.gid = bg := by simpa using hb
        rcases hx with h | h
        · rw [h] at hb' ⊢; rw [if_neg hb']
        · exact h
    · intro t ht x _ hp
      rcases hs.only t ht with rfl | rfl | rfl | ⟨fp, rfl⟩
      · simp only [Trigger.step]; split <;> exact hp
      · simp only [Trigger.step]
        split
        · rename_i hb
          have hb' : x.gid = bg := by simpa using hb
          show rg = _
          by_cases he : e.gid = bg
          · simp [he]
          · rw [if_neg he] at hp; exact absurd (hp ▸ hb') he
        · exact hp
      · simp only [Trigger.step]; split <;> exact hp
      · simp only [Trigger.step]; split <;> exact hp
  · -- safe
    intro hsym
    refine fold_est Q (fun x => ¬ Unsafe x.mode) ts .fixSetBits hs.has_bits hQstep ?_ ?_ e hQ0
    · intro x hx
      simp only [Trigger.step]
      split
      · exact clear6002_safe x.mode
      · rename_i hc
        intro hu
        apply hc
        have : x.isSym = false := by rw [hsymQ x hx]; exact hsym
        simp [this, (unsafeMode_iff x.mode).2 hu]
    · intro t _ x _ hp
      cases t with
      | fixUid b g => simp only [Trigger.step]; split <;> exact hp
      | fixGid b g => simp only [Trigger.step]; split <;> exact hp
      | fixSetBits =>
        simp only [Trigger.step]
        split
        · exact clear6002_safe x.mode
        · exact hp
      | detectWorldWritable fp =>
        simp only [Trigger.step]
        split
        · rintro ⟨_, hw⟩
          rw [clear2_not_ww] at hw; cases hw
        · exact hp
      | reset img => exact hp
  · -- mode_sub
    exact (fold_inv Q ts hQstep e hQ0).2
  · -- mode_rest
    intro i h1 h10 h11
    refine fold_inv (fun x => x.mode.testBit i = e.mode.testBit i) ts ?_ e rfl
    intro t _ x hx
    cases t with
    | fixUid b g => simp only [Trigger.step]; split <;> exact hx
    | fixGid b g => simp only [Trigger.step]; split <;> exact hx
    | fixSetBits =>
      simp only [Trigger.step]
      split
      · show (clearBits x.mode 0o6002).testBit i = _
        rw [testBit_clearBits, bits_6002, ← hx]
        simp [h1, h10, h11]
      · exact hx
    | detectWorldWritable fp =>
      simp only [Trigger.step]
      split
      · show (clearBits x.mode 0o002).testBit i = _
        rw [testBit_clearBits, bits_2, ← hx]
        simp [h1]
      · exact hx
    | reset img => exact hx
  · -- safe_kept
    intro hfp hsafe
    have hnot : Trigger.detectWorldWritable true ∉ ts := by simpa using hfp
    refine fold_inv (fun x => x.mode = e.mode) ts ?_ e rfl
    intro t ht x hx
    rcases hs.only t ht with rfl | rfl | rfl | ⟨fp, rfl⟩
    · simp only [Trigger.step]; split <;> exact hx
    · simp only [Trigger.step]; split <;> exact hx
    · simp only [Trigger.step]
      split
      · rename_i hc
        exfalso
        apply hsafe
        rw [← hx]
        apply (unsafeMode_iff x.mode).1
        simp only [Bool.and_eq_true] at hc
        exact hc.2
      · exact hx
    · cases fp with
      | true => exact absurd ht hnot
      | false => simp only [Trigger.step]; exact hx
  · -- sym_kept
    intro hsym
    refine (fold_inv (fun x => Q x ∧ x.mode = e.mode) ts ?_ e ⟨hQ0, rfl⟩).2
    intro t ht x ⟨hq, hx⟩
    refine ⟨hQstep t ht x hq, ?_⟩
    have hxs : x.isSym = true := by rw [hsymQ x hq]; exact hsym
    cases t with
    | fixUid b g => simp only [Trigger.step]; split <;> exact hx
    | fixGid b g => simp only [Trigger.step]; split <;> exact hx
    | fixSetBits => simp only [Trigger.step, hxs]; exact hx
    | detectWorldWritable fp => simp only [Trigger.step, hxs]; simpa using hx
    | reset img => exact hx
  · -- no_ww
    intro hfp hsym
    have hin : Trigger.detectWorldWritable true ∈ ts := by simpa using hfp
    refine fold_est Q (fun x => worldWritable x.mode = false) ts (.detectWorldWritable true) hin hQstep ?_ ?_ e hQ0
    · intro x hx
      have hxs : x.isSym = false := by rw [hsymQ x hx]; exact hsym
      simp only [Trigger.step, hxs]
      split
      · exact clear2_not_ww x.mode
      · rename_i hc
        cases hw : worldWritable x.mode
        · rfl
        · exfalso; apply hc
          simp [(ww_iff x.mode).2 hw]
    · intro t _ x _ hp
      cases t with
      | fixUid b g => simp only [Trigger.step]; split <;> exact hp
      | fixGid b g => simp only [Trigger.step]; split <;> exact hp
      | fixSetBits =>
        simp only [Trigger.step]
        split
        · show (clearBits x.mode 0o6002).testBit 1 = false
          rw [testBit_clearBits, bits_6002]; simp
        · exact hp
      | detectWorldWritable fp =>
        simp only [Trigger.step]
        split
        · exact clear2_not_ww x.mode
        · exact hp
      | reset img => exact hp

example : Standard 250 0 250 0 [.fixUid 250 0, .fixSetBits, .fixGid 250 0, .detectWorldWritable false] :=
  ⟨by intro t ht; simp only [List.mem_cons, List.not_mem_nil, or_false] at ht
      rcases ht with rfl | rfl | rfl | rfl
      · exact Or.inl rfl
      · exact Or.inr (Or.inr (Or.inl rfl))
      · exact Or.inr (Or.inl rfl)
      · exact Or.inr (Or.inr (Or.inr ⟨false, rfl⟩)),
   by simp, by simp, by simp⟩

/-- the hardening triggers of a default install engine and of a default replace engine, in the engines' own
`pre_merge` order (regenerated from the real engines on every run), form a `Standard` list; the four classes hook
`pre_merge`, work on `new_cset`, and register for exactly the installing modes -/
theorem engine_order_standard (bu ru bg rg : Nat) :
    Standard bu ru bg rg (defaultTriggers bu ru bg rg) ∧
    Generated.C23.replacePreMergeOrder.filterMap (triggerOfName bu ru bg rg) = defaultTriggers bu ru bg rg ∧
    Trigger.detectWorldWritable true ∉ defaultTriggers bu ru bg rg ∧
    (∀ m ∈ Generated.C23.triggerMeta, m.2.1 = ["pre_merge"] ∧ m.2.2.1 = ["new_cset"] ∧
      m.2.2.2 = Generated.C23.installingModes) ∧
    Generated.C23.triggerMeta.map (·.1) = ["fix_uid_perms", "fix_gid_perms", "fix_set_bits", "detect_world_writable"] := by
  have hof : ∀ name t, triggerOfName bu ru bg rg name = some t →
      t = .fixUid bu ru ∨ t = .fixGid bg rg ∨ t = .fixSetBits ∨ t = .detectWorldWritable false := by
    intro name t h
    unfold triggerOfName at h
    split at h
    · exact Or.inl (Option.some.inj h).symm
    · exact Or.inr (Or.inl (Option.some.inj h).symm)
    · exact Or.inr (Or.inr (Or.inl (Option.some.inj h).symm))
    · exact Or.inr (Or.inr (Or.inr (Option.some.inj h).symm))
    · cases h
  have hmem : ∀ name t, name ∈ Generated.C23.preMergeOrder → triggerOfName bu ru bg rg name = some t →
      t ∈ defaultTriggers bu ru bg rg := fun name t hn ht => List.mem_filterMap.2 ⟨name, hn, ht⟩
  refine ⟨⟨?_, ?_, ?_, ?_⟩, ?_, ?_, by decide, by decide⟩
  · intro t ht
    obtain ⟨name, _, hname⟩ := List.mem_filterMap.1 ht
    rcases hof name t hname with h | h | h | h
    · exact Or.inl h
    · exact Or.inr (Or.inl h)
    · exact Or.inr (Or.inr (Or.inl h))
    · exact Or.inr (Or.inr (Or.inr ⟨false, h⟩))
  · exact hmem "fix_uid_perms" _ (by decide) rfl
  · exact hmem "fix_gid_perms" _ (by decide) rfl
  · exact hmem "fix_set_bits" _ (by decide) rfl
  · have : Generated.C23.replacePreMergeOrder = Generated.C23.preMergeOrder := by decide
    rw [this]; rfl
  · intro ht
    obtain ⟨name, _, hname⟩ := List.mem_filterMap.1 ht
    rcases hof name _ hname with h | h | h | h <;> cases h

/-! ## the property, clause by clause, on the whole set -/

/-- **After the pre-merge stage no entry that carries permissions is both set-id and world-writable** — for every
contents set, every mode, every order of the triggers.

Named `_partial` because of the guard `isSym = false`: the property text says "no entry"; the full statement
`∀ e' ∈ runTriggers ts c, ¬ Unsafe e'.mode` is false of the code (`no_suid_world_writable_counterexample`), by design:
`fix_set_bits` iterates `cset.iterlinks(True)` (everything but symbolic links), a link's mode bits are never applied by the
merger and are not permissions. -/
theorem no_suid_world_writable_partial (bu ru bg rg : Nat) (ts : List Trigger) (hs : Standard bu ru bg rg ts)
    (c : CSet) (hnd : (c.map (·.loc)).Nodup) :
    ∀ e' ∈ runTriggers ts c, e'.isSym = false → ¬ Unsafe e'.mode := by
  intro e' he' hsym
  rw [(premerge_pointwise ts hs.noReset c hnd).1] at he'
  obtain ⟨e, _, rfl⟩ := List.mem_map.1 he'
  have h := harden_spec bu ru bg rg ts hs e
  apply h.safe
  have : (hardenWith ts e).isSym = e.isSym := by simp [Entry.isSym, h.kind_eq]
  rw [← this]; exact hsym

/-- a symbolic-link entry recorded with mode 6777 leaves the stage with that mode -/
theorem no_suid_world_writable_counterexample :
    ∃ e' ∈ runTriggers [.fixUid 250 0, .fixSetBits, .fixGid 250 0, .detectWorldWritable false]
        [⟨kindSym, "/l".toList, 0o6777, 0, 0, 7⟩], Unsafe e'.mode :=
  ⟨⟨kindSym, "/l".toList, 0o6777, 0, 0, 7⟩, by decide, by decide⟩

/-- **Entries owned by the build user or group are re-owned to root**, all others keep their owner; in particular
(when the build ids are not root's) nothing is left owned by the build user or group. -/
theorem reowned (bu ru bg rg : Nat) (ts : List Trigger) (hs : Standard bu ru bg rg ts)
    (c : CSet) (hnd : (c.map (·.loc)).Nodup) :
    (runTriggers ts c).map (fun e => (e.loc, e.uid, e.gid)) =
      c.map (fun e => (e.loc, (if e.uid = bu then ru else e.uid), (if e.gid = bg then rg else e.gid))) ∧
    (bu ≠ ru → ∀ e' ∈ runTriggers ts c, e'.uid ≠ bu) ∧ (bg ≠ rg → ∀ e' ∈ runTriggers ts c, e'.gid ≠ bg) := by
  rw [(premerge_pointwise ts hs.noReset c hnd).1]
  refine ⟨?_, ?_, ?_⟩
  · rw [List.map_map]
    apply List.map_congr_left
    intro e _
    have h := harden_spec bu ru bg rg ts hs e
    simp [h.loc_eq, h.uid_eq, h.gid_eq]
  · intro hne e' he'
    obtain ⟨e, _, rfl⟩ := List.mem_map.1 he'
    rw [(harden_spec bu ru bg rg ts hs e).uid_eq]
    split
    · exact fun h => hne h.symm
    · assumption
  · intro hne e' he'
    obtain ⟨e, _, rfl⟩ := List.mem_map.1 he'
    rw [(harden_spec bu ru bg rg ts hs e).gid_eq]
    split
    · exact fun h => hne h.symm
    · assumption

/-- **The fixes never change an entry's type, location, target or data**: the sequence of (kind, location, payload)
is the same before and after (same entries, same order, none added or dropped), and modes only lose setuid / setgid /
world-writable bits. -/
theorem fixes_preserve_identity (bu ru bg rg : Nat) (ts : List Trigger) (hs : Standard bu ru bg rg ts)
    (c : CSet) (hnd : (c.map (·.loc)).Nodup) :
    (runTriggers ts c).map (fun e => (e.kind, e.loc, e.payload)) = c.map (fun e => (e.kind, e.loc, e.payload)) ∧
    (runTriggers ts c).map (fun e => e.mode &&& 0o171775) = c.map (fun e => e.mode &&& 0o171775) := by
  rw [(premerge_pointwise ts hs.noReset c hnd).1]
  constructor
  · rw [List.map_map]
    apply List.map_congr_left
    intro e _
    have h := harden_spec bu ru bg rg ts hs e
    simp [h.kind_eq, h.loc_eq, h.payload_eq]
  · rw [List.map_map]
    apply List.map_congr_left
    intro e _
    have h := harden_spec bu ru bg rg ts hs e
    show (hardenWith ts e).mode &&& 0o171775 = e.mode &&& 0o171775
    apply Nat.eq_of_testBit_eq
    intro i
    rw [Nat.testBit_and, Nat.testBit_and]
    by_cases h1 : i = 1
    · subst h1; simp [show (0o171775 : Nat).testBit 1 = false by decide]
    · by_cases h10 : i = 10
      · subst h10; simp [show (0o171775 : Nat).testBit 10 = false by decide]
      · by_cases h11 : i = 11
        · subst h11; simp [show (0o171775 : Nat).testBit 11 = false by decide]
        · rw [h.mode_rest i h1 h10 h11]

/-- **What a default install or replace engine does at `pre_merge`**: with the engine's own trigger order (generated),
every entry of `new_cset` is hardened in place; safe modes are left untouched (the default `detect_world_writable`
only reports). -/
theorem engine_premerge_hardens (bu ru bg rg : Nat) (c : CSet) (hnd : (c.map (·.loc)).Nodup) :
    runTriggers (defaultTriggers bu ru bg rg) c = c.map (hardenWith (defaultTriggers bu ru bg rg)) ∧
    ∀ e ∈ c, Hardened bu ru bg rg false e (hardenWith (defaultTriggers bu ru bg rg) e) := by
  obtain ⟨hstd, _, hno, _, _⟩ := engine_order_standard bu ru bg rg
  refine ⟨(premerge_pointwise _ hstd.noReset c hnd).1, ?_⟩
  intro e _
  have h := harden_spec bu ru bg rg _ hstd e
  have : decide (Trigger.detectWorldWritable true ∈ defaultTriggers bu ru bg rg) = false := by simpa using hno
  rw [this] at h
  exact h

/-! ## engines assembled by the ebuild format: the contents reset -/

/-- **Hardening applies to what is finally merged.**  If the `pre_merge` hook contains `preinst_contents_reset`
(which replaces `new_cset` by a fresh scan `image` of `${D}`) and every hardening trigger runs *after* the last
reset (`post`), the hook's result is the hardened form of the scanned image, whatever ran before the reset. -/
theorem reset_then_harden (bu ru bg rg : Nat) (pre post : List Trigger) (image c : CSet)
    (himg : (image.map (·.loc)).Nodup) (hs : Standard bu ru bg rg post) :
    runTriggers (pre ++ .reset image :: post) c = image.map (hardenWith post) ∧
    ∀ e ∈ image, Hardened bu ru bg rg (decide (Trigger.detectWorldWritable true ∈ post)) e (hardenWith post e) := by
  constructor
  · rw [runTriggers_append]
    show runTriggers post (resetContents image (runTriggers pre c)) = _
    rw [resetContents_eq image _ himg]
    exact (premerge_pointwise post hs.noReset image himg).1
  · intro e _
    exact harden_spec bu ru bg rg post hs e

/-- the ordering that `reset_then_harden` needs is necessary: a fixer that runs before the reset is undone -/
theorem reset_after_fixers_counterexample :
    ∃ e' ∈ runTriggers [.fixUid 250 0, .fixGid 251 0, .fixSetBits, .reset [⟨0, "/bin/su".toList, 0o4757, 250, 251, 1⟩]]
        [⟨0, "/bin/su".toList, 0o4757, 250, 251, 1⟩], e'.uid = 250 ∧ Unsafe e'.mode :=
  ⟨⟨0, "/bin/su".toList, 0o4757, 250, 251, 1⟩, by decide, by decide⟩

/-- names of the generated ebuild-engine `pre_merge` order that come after the last `preinst_contents_reset` -/
def namesAfterReset : List String :=
  (Generated.C23.ebuildPreMergeOrder.reverse.takeWhile (· ≠ "preinst_contents_reset")).reverse

/-- names up to (excluding) the last `preinst_contents_reset` -/
def namesBeforeReset : List String :=
  (Generated.C23.ebuildPreMergeOrder.reverse.dropWhile (· ≠ "preinst_contents_reset")).reverse.dropLast

/-- **In the engine as the ebuild format really assembles it** (default plugins, then the format's triggers, then the
domain's triggers; order regenerated from the real engine on every run, priorities included) the contents reset
precedes every hardening trigger, so the hook's result is the hardened image: a change of any trigger priority that
lets a fixer run before the reset makes this theorem fail to re-prove. -/
theorem ebuild_engine_premerge_hardens (bu ru bg rg : Nat) (image c : CSet) (himg : (image.map (·.loc)).Nodup) :
    ∃ post, Standard bu ru bg rg post ∧ Trigger.detectWorldWritable true ∉ post ∧
      runTriggers (ebuildTriggers bu ru bg rg image) c = image.map (hardenWith post) ∧
      ∀ e ∈ image, Hardened bu ru bg rg false e (hardenWith post e) := by
  have hsplit : Generated.C23.ebuildPreMergeOrder = namesBeforeReset ++ "preinst_contents_reset" :: namesAfterReset := by
    decide
  have hafter : "fix_uid_perms" ∈ namesAfterReset ∧ "fix_gid_perms" ∈ namesAfterReset ∧ "fix_set_bits" ∈ namesAfterReset ∧
      "preinst_contents_reset" ∉ namesAfterReset := by decide
  let f := triggerOfNameE bu ru bg rg image
  have hof : ∀ name t, name ≠ "preinst_contents_reset" → f name = some t →
      t = .fixUid bu ru ∨ t = .fixGid bg rg ∨ t = .fixSetBits ∨ t = .detectWorldWritable false := by
    intro name t hne h
    simp only [f, triggerOfNameE, hne, if_false] at h
    unfold triggerOfName at h
    split at h
    · exact Or.inl (Option.some.inj h).symm
    · exact Or.inr (Or.inl (Option.some.inj h).symm)
    · exact Or.inr (Or.inr (Or.inl (Option.some.inj h).symm))
    · exact Or.inr (Or.inr (Or.inr (Option.some.inj h).symm))
    · cases h
  let post := namesAfterReset.filterMap f
  have hpost_of : ∀ t ∈ post, t = .fixUid bu ru ∨ t = .fixGid bg rg ∨ t = .fixSetBits ∨ t = .detectWorldWritable false := by
    intro t ht
    obtain ⟨name, hn, hname⟩ := List.mem_filterMap.1 ht
    exact hof name t (fun h => hafter.2.2.2 (h ▸ hn)) hname
  have hstd : Standard bu ru bg rg post := by
    refine ⟨?_, ?_, ?_, ?_⟩
    · intro t ht
      rcases hpost_of t ht with h | h | h | h
      · exact Or.inl h
      · exact Or.inr (Or.inl h)
      · exact Or.inr (Or.inr (Or.inl h))
      · exact Or.inr (Or.inr (Or.inr ⟨false, h⟩))
    · exact List.mem_filterMap.2 ⟨"fix_uid_perms", hafter.1, rfl⟩
    · exact List.mem_filterMap.2 ⟨"fix_gid_perms", hafter.2.1, rfl⟩
    · exact List.mem_filterMap.2 ⟨"fix_set_bits", hafter.2.2.1, rfl⟩
  have hno : Trigger.detectWorldWritable true ∉ post := by
    intro ht
    rcases hpost_of _ ht with h | h | h | h <;> cases h
  have heq : ebuildTriggers bu ru bg rg image = namesBeforeReset.filterMap f ++ .reset image :: post := by
    unfold ebuildTriggers
    rw [hsplit, List.filterMap_append, List.filterMap_cons]
    have : triggerOfNameE bu ru bg rg image "preinst_contents_reset" = some (.reset image) := by
      simp [triggerOfNameE]
    rw [this]
  have h := reset_then_harden bu ru bg rg (namesBeforeReset.filterMap f) post image c himg hstd
  have hdec : decide (Trigger.detectWorldWritable true ∈ post) = false := by simpa using hno
  rw [hdec] at h
  exact ⟨post, hstd, hno, heq ▸ h.1, h.2⟩

/-- **What happens to an entry depends on that entry alone** — not on which other entries the set holds, in particular
not on other names of the same inode (entries with the same `payload`: `dev`/`inode`, data, mtime): for every contents set
with distinct locations that contains `e`, the stage's result holds `hardenWith ts e` at `e`'s location and nothing else
there, and that entry is hardened.  Hence two sets that both contain `e` give the same entry at `e.loc`, and every name
of a hardlinked file is re-owned and stripped on its own. -/
theorem outcome_independent_of_other_entries (bu ru bg rg : Nat) (ts : List Trigger) (hs : Standard bu ru bg rg ts)
    (c : CSet) (hnd : (c.map (·.loc)).Nodup) (e : Entry) (he : e ∈ c) :
    hardenWith ts e ∈ runTriggers ts c ∧
    (∀ e' ∈ runTriggers ts c, e'.loc = e.loc → e' = hardenWith ts e) ∧
    Hardened bu ru bg rg (decide (Trigger.detectWorldWritable true ∈ ts)) e (hardenWith ts e) ∧
    (∀ c' : CSet, (c'.map (·.loc)).Nodup → e ∈ c' →
      ∀ e' ∈ runTriggers ts c', e'.loc = e.loc → e' ∈ runTriggers ts c) := by
  have hloc : ∀ x : Entry, (hardenWith ts x).loc = x.loc := fun x =>
    fold_inv (fun y => y.loc = x.loc) ts (fun t _ y hy => by rw [step_loc]; exact hy) x rfl
  have key : ∀ (d : CSet), (d.map (·.loc)).Nodup → e ∈ d →
      hardenWith ts e ∈ runTriggers ts d ∧ ∀ e' ∈ runTriggers ts d, e'.loc = e.loc → e' = hardenWith ts e := by
    intro d hd hed
    rw [(premerge_pointwise ts hs.noReset d hd).1]
    refine ⟨List.mem_map.2 ⟨e, hed, rfl⟩, ?_⟩
    intro e' he' hl
    obtain ⟨x, hx, rfl⟩ := List.mem_map.1 he'
    rw [hloc] at hl
    have : x = e := by
      clear he'
      induction d with
      | nil => cases hx
      | cons y ys ih =>
        simp only [List.map_cons, List.nodup_cons, List.mem_map, not_exists, not_and] at hd
        rcases List.mem_cons.1 hx with rfl | hx' <;> rcases List.mem_cons.1 hed with rfl | he''
        · rfl
        · exact absurd hl.symm (hd.1 e he'')
        · exact absurd hl (hd.1 x hx')
        · exact ih hd.2 he'' hx'
    rw [this]
  refine ⟨(key c hnd he).1, (key c hnd he).2, harden_spec bu ru bg rg ts hs e, ?_⟩
  intro c' hnd' he' e' hm hl
  rw [(key c' hnd' he').2 e' hm hl]
  exact (key c hnd he).1

example : (⟨0, "/usr/bin/gunzip".toList, 0o755, 0, 0, 1⟩ : Entry) ∈
    runTriggers [.fixUid 250 0, .fixSetBits, .fixGid 250 0, .detectWorldWritable false]
      [⟨0, "/usr/bin/gzip".toList, 0o755, 250, 250, 1⟩, ⟨0, "/usr/bin/gunzip".toList, 0o755, 250, 250, 1⟩] := by decide

/-- the executable judge the check applies to the real code's before/after pairs decides exactly `Hardened` -/
theorem spec_checker_sound (bu ru bg rg : Nat) (fp : Bool) (e e' : Entry) :
    hardenedB bu ru bg rg fp e e' = true ↔ Hardened bu ru bg rg fp e e' := hardenedB_iff' bu ru bg rg fp e e'

example : hardenedB 250 0 250 0 false ⟨0, "/bin/su".toList, 0o104757, 250, 7, 1⟩ ⟨0, "/bin/su".toList, 0o100755, 0, 7, 1⟩ = true := by
  decide

/-- **What the stage does to an entry does not depend on how the entry is called.**  For every renaming `ρ` of the
locations that keeps them distinct (any characters whatsoever: `%`, `{`, spaces, …) and every standard trigger order,
hardening the renamed set gives the renamed hardened set: uid, gid, mode, kind and payload of each result are those
of the original run.  In particular no file name can switch the hardening off for itself or for the other entries. -/
theorem outcome_independent_of_names (bu ru bg rg : Nat) (ts : List Trigger) (hs : Standard bu ru bg rg ts)
    (ρ : List Char → List Char) (c : CSet) (hnd : (c.map (·.loc)).Nodup)
    (hnd' : ((c.map (Entry.rename ρ)).map (·.loc)).Nodup) :
    runTriggers ts (c.map (Entry.rename ρ)) = (runTriggers ts c).map (Entry.rename ρ) ∧
    ∀ e ∈ c, Hardened bu ru bg rg (decide (Trigger.detectWorldWritable true ∈ ts)) (e.rename ρ) ((hardenWith ts e).rename ρ) := by
  refine ⟨?_, ?_⟩
  · rw [(premerge_pointwise ts hs.noReset _ hnd').1, (premerge_pointwise ts hs.noReset c hnd).1, List.map_map, List.map_map]
    apply List.map_congr_left
    intro e _
    exact hardenWith_rename ρ ts e
  · intro e _
    rw [← hardenWith_rename]
    exact harden_spec bu ru bg rg ts hs (e.rename ρ)

example : ((([⟨0, "/a".toList, 0o4777, 250, 250, 1⟩, ⟨2, "/l".toList, 0o777, 0, 0, 2⟩] : CSet).map
    (Entry.rename fun l => l ++ "/100%.sav".toList)).map (·.loc)).Nodup := by decide

end Pkgcore.C23
