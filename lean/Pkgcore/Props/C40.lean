import Pkgcore.Proofs.C40
/-!
# C40 — keywording requests only name valid, narrowed, not-yet-present arches

Property theorems only (helper lemmas in `Pkgcore/Proofs/C40.lean`).  `matchPackages` mirrors
`pkgcore.ebuild.keywording.match_packages` run to completion (yielded requests + final exception), `suggested`
mirrors `suggested_keywords`.
-/
namespace Pkgcore.C40
open Spec

/-- **only known arches**: when `cc_arches` are known arches (the caller's contract: the Bug binding filters CC
through `repo.known_arches`), every request yielded — for any repository (its ebuilds may carry keywords the
repository no longer knows), any request list, any sentinels, any option combination — names only arches known to
the repository. -/
theorem arches_known (repo : Repo) (o : Opts) (reqs : List Req)
    (hcc : ∀ k ∈ o.cc, k ∈ repo.known) :
    ∀ y ∈ (matchPackages repo o reqs).1, ∀ k ∈ y.2, k ∈ repo.known := by
  intro y hy
  obtain ⟨pkg, _, h1, _⟩ := matchPackages_good repo o reqs y hy
  exact h1 hcc

/-- **the narrowing options are honoured**: every yielded request belongs to a package of the repo and
* with `cc_arches` given (and outside the all-arches mode) names only arches among them;
* with `filter_arch` given names only arches among them, or — all-arches mode — stabilization candidates of the package;
* with `only_new` names no arch the package already carries (stable; for keywording also `~arch`), again up to the
  all-arches candidates. -/
theorem narrowing_honoured (repo : Repo) (o : Opts) (reqs : List Req) :
    ∀ y ∈ (matchPackages repo o reqs).1, ∃ pkg, repo.pkgs[y.1]? = some pkg ∧
      (o.cc ≠ [] → allarchesMode o = false → ∀ k ∈ y.2, k ∈ o.cc) ∧
      (o.filterArch ≠ [] → ∀ k ∈ y.2, k ∈ o.filterArch ∨ (allarchesMode o = true ∧ k ∈ suggested repo pkg true)) ∧
      (o.onlyNew = true → ∀ k ∈ y.2,
        (k ∉ pkg.keywords ∧ (o.stable = true ∨ ('~' :: k) ∉ pkg.keywords)) ∨
        (allarchesMode o = true ∧ k ∈ suggested repo pkg true)) := by
  intro y hy
  obtain ⟨pkg, hp, _, h2, h3, h4⟩ := matchPackages_good repo o reqs y hy
  exact ⟨pkg, hp, h2, h3, h4⟩

def exPkg (key : String) (v : String) (kws : List String) : Pkg :=
  ⟨key.toList, ⟨[v.toList], none, []⟩, [], kws.map String.toList, false⟩
def exRepo : Repo :=
  ⟨["alpha", "amd64", "hppa"].map String.toList,
   [exPkg "test/mixed" "1" ["~alpha", "amd64", "~hppa"], exPkg "test/mixed" "2" ["~alpha", "~amd64", "hppa"],
    exPkg "test/mixed" "3" ["~alpha", "~amd64", "~hppa"]]⟩

/-- the theorems talk about something: `=test/mixed-3 ~amd64 hppa` as a stabilization narrowed to `cc = [amd64]`
yields exactly that package with `[amd64]` -/
example : matchPackages exRepo ⟨true, ["amd64".toList], false, [], false⟩
    [⟨"=test/mixed-3".toList, ['='], false, [2], ["~amd64".toList, "hppa".toList]⟩] = ([(2, ["amd64".toList])], none) := by
  decide

/-- **no prefix keyword is ever suggested**, stabilizing or keywording -/
theorem no_prefix_in_suggestions (repo : Repo) (p : Pkg) (stable : Bool) :
    ∀ k ∈ suggested repo p stable, isPrefixKw k = false :=
  fun k hk => suggested_no_prefix repo p stable k hk

/-- **stabilization suggestions are exactly the arches testing here and stable on a version of the package** (never a
prefix keyword); if moreover the package does not list the arch as stable itself, that version is another one. -/
theorem stable_suggestions_testing_here_stable_elsewhere (repo : Repo) (p : Pkg)
    (hwp : WfKeywords p) (hwr : ∀ q ∈ repo.pkgs, WfKeywords q) (k : Str) :
    (k ∈ suggested repo p true ↔ StableCandidate repo p k) ∧
    (k ∈ suggested repo p true → k ∉ p.keywords → ∃ q ∈ repo.pkgs, q.key = p.key ∧ stableOn k q ∧ q.keywords ≠ p.keywords) := by
  refine ⟨suggested_stable_iff repo p hwp hwr k, fun hk hnot => ?_⟩
  obtain ⟨_, _, _, q, hq, hkey, hs⟩ := (suggested_stable_iff repo p hwp hwr k).1 hk
  exact ⟨q, hq, hkey, hs, fun e => hnot (e ▸ hs)⟩

example : suggested exRepo (exPkg "test/mixed" "3" ["~alpha", "~amd64", "~hppa"]) true = ["amd64".toList, "hppa".toList] := by decide

/-- **an arch that is not testing on the version is never a stabilization suggestion** — whatever else the version says
about it (`-arch`: marked broken, `arch`: already stable, `-*`, or nothing at all) and whatever the other versions carry. -/
theorem not_testing_here_never_stabilization_suggestion (repo : Repo) (p : Pkg)
    (hwp : WfKeywords p) (hwr : ∀ q ∈ repo.pkgs, WfKeywords q) (k : Str) (hk : ¬ testingOn k p) :
    k ∉ suggested repo p true :=
  fun h => hk ((suggested_stable_iff repo p hwp hwr k).1 h).2.2.1

/-- a release marked broken on `hppa` (`-hppa`) next to a version stable there: `hppa` is not suggested; same for a
binary-style `-*` package -/
example : suggested ⟨["alpha", "amd64", "hppa"].map String.toList,
    [exPkg "test/broken" "1" ["alpha", "amd64", "hppa"], exPkg "test/broken" "2" ["~alpha", "~amd64", "-hppa"]]⟩
    (exPkg "test/broken" "2" ["~alpha", "~amd64", "-hppa"]) true = ["alpha".toList, "amd64".toList] := by decide
example : suggested ⟨["alpha", "amd64", "hppa"].map String.toList,
    [exPkg "test/binary" "1" ["-*", "amd64", "hppa"], exPkg "test/binary" "2" ["-*", "~amd64", "-hppa"]]⟩
    (exPkg "test/binary" "2" ["-*", "~amd64", "-hppa"]) true = ["amd64".toList] := by decide

/-- **keywording suggestions are exactly the arches some version of the package has and this one does not mention** -/
theorem keywording_suggestions_present_elsewhere_missing_here (repo : Repo) (p : Pkg)
    (hwp : WfKeywords p) (hwr : ∀ q ∈ repo.pkgs, WfKeywords q) (k : Str) :
    k ∈ suggested repo p false ↔ KeywordCandidate repo p k :=
  suggested_keywording_iff repo p hwp hwr k

example : WfKeywords (exPkg "test/mixed" "3" ["~alpha", "amd64", "-hppa"]) := by
  intro x hx
  simp [exPkg] at hx
  rcases hx with rfl | rfl | rfl
  · exact Or.inr (Or.inl ⟨"alpha".toList, rfl, by decide, by decide, by decide⟩)
  · exact Or.inl ⟨by decide, by decide, by decide⟩
  · exact Or.inr (Or.inr ⟨"hppa".toList, rfl, by decide, by decide, by decide⟩)

/-- **what a `^` line repeats does not depend on the narrowing of the line above**: the list remembered for
`SAME_KEYWORDS` after a line is its cc-narrowed keyword list — the same for every `only_new`, `filter_arch` and
`allarches` setting, in particular never the all-arches candidates added to the yielded request. -/
theorem previous_independent_of_narrowing (repo : Repo) (o o' : Opts) (hcc : o.cc = o'.cc) (st : St) (r : Req)
    (idx : Nat) (pkg : Pkg) (kws : List Str) :
    ∃ s1 s2, tailStep repo o st r idx pkg kws = .next s1 ∧ tailStep repo o' st r idx pkg kws = .next s2 ∧
      s1.previous = s2.previous := by
  obtain ⟨s1, h1, p1⟩ := tailStep_previous repo o st r idx pkg kws
  obtain ⟨s2, h2, p2⟩ := tailStep_previous repo o' st r idx pkg kws
  refine ⟨s1, s2, h1, h2, ?_⟩
  rw [p1, p2]
  unfold ccStep
  rw [hcc]

/-- **`^` stands for exactly that list**: a line `^ extra…` (no other sentinel) expands to the remembered list of the
line above followed by its own extra keywords -/
theorem same_keywords_means_previous (repo : Repo) (o : Opts) (st : St) (r : Req) (pkg : Pkg) (prev : List Str)
    (hp : st.previous = some prev)
    (hsame : (r.written.map (lstrip ['~'])).contains ['^'] = true)
    (hno : (r.written.map (lstrip ['~'])).contains ['-'] = false ∧ (r.written.map (lstrip ['~'])).contains ['*'] = false) :
    expandSentinels repo o st r pkg = .kws (prev ++ (r.written.map (lstrip ['~'])).filter (· ≠ ['^'])) := by
  unfold expandSentinels
  simp only [hno.1, hno.2, hsame, hp, Bool.false_eq_true, if_false, Option.isNone_some, Bool.and_false, if_true,
    Option.getD_some]

example : (['^'] : Str) ∈ ([['^'], "amd64".toList] : List Str).map (lstrip ['~']) := by decide

/-- **specs a stabilization cannot act on are rejected**: in a stabilization, a line whose spec is not a plain `=cpv`
(another operator, `=…*`, or a slot) ends the run with `PackageInvalid` — nothing is yielded for it or after it —
unless an earlier line had already ended it. -/
theorem invalid_specs_rejected (repo : Repo) (o : Opts) (hstable : o.stable = true) (pre post : List Req) (r : Req)
    (hbad : r.op ≠ ['='] ∨ r.slotted = true) :
    matchPackages repo o (pre ++ r :: post) =
      match runLines repo o {} pre with
      | (st, some e) => (st.yields, some e)
      | (st, none) => (st.yields, some .packageInvalid) := by
  unfold matchPackages
  rw [runLines_append]
  rcases h : runLines repo o {} pre with ⟨st, _ | e⟩
  · simp only
    have hstep : stepLine repo o st r = .raise .packageInvalid := by
      unfold stepLine
      have : (o.stable && (decide (r.op ≠ ['=']) || r.slotted)) = true := by
        rcases hbad with h' | h' <;> simp [hstable, h']
      rw [if_pos this]
    simp only [runLines, hstep]
  · simp only

example : (matchPackages exRepo ⟨true, [], false, [], false⟩
    [⟨"test/mixed".toList, [], false, [0, 1, 2], ["amd64".toList]⟩]).2 = some .packageInvalid := by decide

end Pkgcore.C40
