import Pkgcore.Proofs.C40
