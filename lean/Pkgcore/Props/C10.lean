import Pkgcore.Proofs.C10
/-!
# C10 — REQUIRED_USE solving is sound, complete and preference-first

Property theorems only.  `compiled`/`MC.eval`/`evalSingle` mirror `__to_multiple_constraint`/`__condition`/
`__to_single_constraint`, `domainOf`/`variables` the `add_variable` calls of `find_constraint_satisfaction`, and
`solve` is the cartesian product of the domains filtered by the compiled constraints — the **contract** recorded
for `snakeoil.constraints.Problem` (checked against the real solver on every run, not proved).
`evalRU` is the REQUIRED_USE semantics pkgcore checks configured packages with.
-/
namespace Pkgcore.C10
open Pkgcore.C09 Pkgcore.C10.Spec

/-- **Splitting preserves the conjunction**: the several constraints `__to_multiple_constraint` yields hold together
exactly when the single compiled constraint of every top-level rule holds — for every structure and assignment. -/
theorem split_preserves_conjunction (ts : List Dep) (on : List Tok) :
    (compiled ts).all (·.eval on) = allSingle on ts :=
  toMultipleL_all on ts

/- Full statement (false of the model, see the counterexample; open finding C10-unmet-conditional-in-choice-group):
     ∀ ts on, nonEmptyL ts → (compiled ts).all (·.eval on) = evalRU ts on -/
/-- **The compiled constraints are the REQUIRED_USE semantics** for every structure that has no use-conditional below a
`||`/`^^`/`??` group (any nesting of conditionals and all-of groups around, any choice groups inside). -/
theorem compile_equiv_partial (ts : List Dep) (on : List Tok) (hg : choiceCondFreeL ts = true) (hne : nonEmptyL ts = true) :
    (compiled ts).all (·.eval on) = evalRU ts on := by
  rw [split_preserves_conjunction, guarded_all on ts hg hne]; rfl

/-- `a? ( ^^ ( b c ) ) !a? ( || ( b !c ) )` -/
example : choiceCondFreeL [.cond false ['a'] [.grp .justOne [.leaf ['b'] none, .leaf ['c'] none]],
    .cond true ['a'] [.grp .or [.leaf ['b'] none, .leaf ['!', 'c'] none]]] = true := by decide

/-- `|| ( x? ( a ) b )` with everything off: the compiled constraint holds (the unmet conditional counts as a satisfied
member), the REQUIRED_USE as checked at build time (`|| ( b )`) does not. -/
theorem compile_equiv_counterexample :
    let ts : List Dep := [.grp .or [.cond false ['x'] [.leaf ['a'] none], .leaf ['b'] none]]
    (compiled ts).all (·.eval []) = true ∧ evalRU ts [] = false := by decide

/-- **Domains**: every assignment the solver can produce keeps forced-off flags and flags outside IUSE off and
forced-on flags on. -/
theorem domains_correct (inp : Inputs) (ts : List Dep) (a : List (Tok × Bool)) (ha : a ∈ solve inp ts)
    (v : Tok) (b : Bool) (hv : (v, b) ∈ a) :
    (v ∉ inp.iuse → b = false) ∧ (v ∈ inp.iuse → v ∈ inp.forceF → b = false) ∧
    (v ∈ inp.iuse → v ∈ inp.forceT → v ∉ inp.forceF → b = true) := by
  have hp := (List.mem_filter.mp ha).1
  have := inProd_domain inp (variables inp ts) a ((mem_product _ a).mp hp) (v, b) hv
  exact domainOf_cases inp v b this

/-- **Forced flags outside IUSE do not count**: a flag the profile forces on or off but the package does not have in IUSE
is simply off, so the answer is the one for the forced sets cut down to IUSE — whatever rules mention the flag, also
rules all of whose flags are pinned. -/
theorem forced_outside_iuse_ignored (inp : Inputs) (ts : List Dep) :
    solve inp ts = solve (restrictForced inp) ts := by
  have h : ∀ v, domainOf inp v = domainOf (restrictForced inp) v := by
    intro v
    unfold domainOf restrictForced
    by_cases hv : v ∈ inp.iuse
    · simp [hv, List.mem_filter]
    · simp [hv]
  unfold solve
  have hvars : variables (restrictForced inp) ts = variables inp ts := rfl
  rw [hvars]
  congr 2
  exact List.map_congr_left fun v _ => by rw [h v]

/-- `x? ( a )`, IUSE a b, the profile forces `x` on (not in IUSE, hence off) and `a` off: the rule is met, `b` is free -/
example : (solve ⟨[['a'], ['b']], [['x']], [['a']], []⟩ [.cond false ['x'] [.leaf ['a'] none]]).map onOf
    = [[], [['b']]] := by decide
/-- `a` with `a` forced on but outside IUSE: no solution -/
example : solve ⟨[['z']], [['a'], ['z']], [], []⟩ [.leaf ['a'] none] = [] := by decide

/-- **Sound**: every produced assignment satisfies the compiled constraints, hence (guard) the REQUIRED_USE. -/
theorem solutions_sound (inp : Inputs) (ts : List Dep) (a : List (Tok × Bool)) (ha : a ∈ solve inp ts) :
    (compiled ts).all (·.eval (onOf a)) = true ∧
    (choiceCondFreeL ts = true → nonEmptyL ts = true → evalRU ts (onOf a) = true) := by
  have h := (List.mem_filter.mp ha).2
  exact ⟨h, fun hg hne => by rw [← compile_equiv_partial ts _ hg hne]; exact h⟩

/-- **Complete**: every assignment that gives each variable a value of its domain and satisfies the REQUIRED_USE (guard)
is produced. -/
theorem solutions_complete (inp : Inputs) (ts : List Dep) (a : List (Tok × Bool))
    (hdom : inProd a ((variables inp ts).map fun v => (v, domainOf inp v)) = true)
    (hg : choiceCondFreeL ts = true) (hne : nonEmptyL ts = true) (hsat : evalRU ts (onOf a) = true) :
    a ∈ solve inp ts := by
  unfold solve
  rw [List.mem_filter]
  exact ⟨(mem_product _ a).mpr hdom, by rw [compile_equiv_partial ts _ hg hne]; exact hsat⟩

/-- **Exactly once**. -/
theorem solutions_nodup (inp : Inputs) (ts : List Dep) : (solve inp ts).Nodup := by
  unfold solve
  apply List.Pairwise.filter
  apply product_nodup
  intro d hd
  simp only [List.mem_map] at hd
  obtain ⟨v, _, rfl⟩ := hd
  exact domainOf_nodup inp v

/-- **Preference first**: when the preferred assignment (forced flags as forced, preferred flags on, every other flag
off) satisfies the constraints, it is the first solution. -/
theorem preferred_first (inp : Inputs) (ts : List Dep)
    (h : (compiled ts).all (·.eval (onOf (preferred inp (variables inp ts)))) = true) :
    (solve inp ts).head? = some (preferred inp (variables inp ts)) := by
  unfold solve
  have hh := product_head ((variables inp ts).map fun v => (v, domainOf inp v))
    (by intro d hd; simp only [List.mem_map] at hd; obtain ⟨v, _, rfl⟩ := hd; exact domainOf_ne_nil inp v)
  have hp : ((variables inp ts).map fun v => (v, domainOf inp v)).map (fun d => (d.1, d.2.getLast?.getD false))
      = preferred inp (variables inp ts) := by simp [preferred, List.map_map, Function.comp_def]
  rw [hp] at hh
  cases hprod : product ((variables inp ts).map fun v => (v, domainOf inp v)) with
  | nil => rw [hprod] at hh; simp at hh
  | cons a as =>
    rw [hprod] at hh
    simp only [List.head?_cons, Option.some.injEq] at hh
    subst hh
    simp [List.filter_cons, h]

/-- `^^ ( a b ) c? ( a )`, IUSE a b c, prefer b: three solutions, the preferred one (b alone) first -/
example : (solve ⟨[['a'], ['b'], ['c']], [], [], [['b']]⟩
    [.grp .justOne [.leaf ['a'] none, .leaf ['b'] none], .cond false ['c'] [.leaf ['a'] none]]).map onOf
    = [[['b']], [['a']], [['c'], ['a']]] := by decide

/-- **The preferred assignment is the one the property words** — stated flag by flag, with no reference to `domainOf` or
to the order of its values (`preferred` above is "the last value of every domain"; a model that listed the two-valued
domains the other way round would still satisfy `preferred_first`, but not this): the preferred assignment gives every
variable of the problem exactly one value, and that value is *on* iff the package has the flag (IUSE) and either the
flag is forced on, or it is not forced off and is in the preferred-on set.  Hence: forced-on flags on, forced-off flags
off, preferred flags on, all others — and, as `find_constraint_satisfaction` intersects every set with `iuse` and gives
the remaining mentioned flags the domain `(False,)`, every flag outside IUSE whether forced or preferred — off.
Hypothesis: no IUSE flag is forced both ways (`add_variable` raises AssertionError for such a query). -/
theorem preferred_is_property_preference (inp : Inputs) (vars : List Tok)
    (hdis : ∀ f, f ∈ inp.iuse → f ∈ inp.forceT → f ∉ inp.forceF) :
    (preferred inp vars).map (·.1) = vars ∧
    ∀ v b, (v, b) ∈ preferred inp vars →
      (b = true ↔ v ∈ inp.iuse ∧ (v ∈ inp.forceT ∨ (v ∉ inp.forceF ∧ v ∈ inp.preferT))) := by
  rw [preferred_eq_wording inp vars hdis]
  refine ⟨by simp [preferredByWording, List.map_map, Function.comp_def], fun v b hvb => ?_⟩
  simp only [preferredByWording, List.mem_map, Prod.mk.injEq] at hvb
  obtain ⟨w, _, rfl, rfl⟩ := hvb
  simp [preferredOn]

/-- IUSE a b c d e; a forced on, b forced off (and in the preferred set: forcing wins), c preferred, d plain; e preferred but
also forced off; y forced on and z preferred but both outside IUSE: exactly a and c are on -/
example : preferred ⟨[['a'], ['b'], ['c'], ['d'], ['e']], [['a'], ['y']], [['b'], ['e']], [['b'], ['c'], ['e'], ['z']]⟩
      [['a'], ['b'], ['c'], ['d'], ['e'], ['y'], ['z']]
    = [(['a'], true), (['b'], false), (['c'], true), (['d'], false), (['e'], false), (['y'], false), (['z'], false)] := by decide
/-- the hypothesis holds of that input -/
example : ∀ f, f ∈ [['a'], ['b'], ['c'], ['d'], ['e']] → f ∈ [['a'], ['y']] → f ∉ ([['b'], ['e']] : List Tok) := by decide

/- Full statement (no hypothesis) is false of the model: with a flag of IUSE in both forced sets the model's domain is
`[false]` while the wording says "forced on"; the real code raises AssertionError there, so there is no answer to compare. -/
/-- a in IUSE forced both ways: the model says off, the wording's first clause (forced on) says on -/
theorem preferred_is_property_preference_counterexample :
    preferred ⟨[['a']], [['a']], [['a']], []⟩ [['a']] = [(['a'], false)] ∧
    preferredByWording ⟨[['a']], [['a']], [['a']], []⟩ [['a']] = [(['a'], true)] := by decide

/-- **Preference first, in the property's words** (contract model): when the assignment "forced flags as forced,
preferred flags on, all others off" satisfies the constraints, it is the first solution. -/
theorem preferred_first_property (inp : Inputs) (ts : List Dep)
    (hdis : ∀ f, f ∈ inp.iuse → f ∈ inp.forceT → f ∉ inp.forceF)
    (h : (compiled ts).all (·.eval (onOf (preferredByWording inp (variables inp ts)))) = true) :
    (solve inp ts).head? = some (preferredByWording inp (variables inp ts)) := by
  rw [← preferred_eq_wording inp _ hdis] at h ⊢
  exact preferred_first inp ts h

/-- `|| ( a b c d )`, IUSE a b c d, a forced on, b forced off, c preferred, d plain: the first solution is a and c on -/
example : ((solve ⟨[['a'], ['b'], ['c'], ['d']], [['a']], [['b']], [['c']]⟩
    [.grp .or [.leaf ['a'] none, .leaf ['b'] none, .leaf ['c'] none, .leaf ['d'] none]]).map onOf).head?
    = some [['a'], ['c']] := by decide

end Pkgcore.C10
