import Pkgcore.Proofs.C26
/-!
# C26 — XPAK metadata segments round-trip and rewrites preserve the archive

Property theorems only.  `writeXpak`, `items`, `startOf` mirror `Xpak.write_xpak`,
`list(Xpak(path).items())` and the `start` computation of `write_xpak` (model: `Model/C26.lean`);
`Spec.segment`, `Spec.expected`, `Spec.Pkg` are the format and the property (`Spec/C26.lean`).
Files are arbitrary byte lists, mappings arbitrary association lists in `Spec.Dom` (ASCII keys, no
duplicate key, text under ordinary keys, sizes inside the 32-bit fields).
-/
namespace Pkgcore.C26
open Pkgcore.Generated.C26

/-- no key of `m` is touched by `Xpak._reading_key_rewrites` (with the pinned table: no key is `repo`) -/
def NotRewritten (m : Map) : Prop := ∀ p ∈ m, rewriteKey p.1 = p.1

/-- with the table generated from the code the guard is exactly "the key is not `repo`" -/
theorem notRewritten_iff (k : List Char) : rewriteKey k = k ↔ k ≠ "repo".toList := by
  unfold rewriteKey keyRewrites
  simp only [List.lookup]
  constructor
  · intro h hk
    subst hk
    revert h
    decide
  · intro h
    have : (String.ofList k == "repo") = false := by
      rw [beq_eq_false_iff_ne]
      intro e
      apply h
      rw [← e, String.toList_ofList]
    simp [this]

/-- **the writer produces the documented format**: whatever the old content `f`, `write_xpak` keeps the
first `s` bytes (`s` = start of the recognised old segment, or the file length when there is none),
writes exactly the XPAK segment of `m` after them and nothing else. -/
theorem write_xpak_format (f : Bytes) (m : Map) (s : Nat)
    (hfit : (Spec.index m).length + (Spec.data m).length + 24 < 4294967296) (hs : startOf f = .ok s) :
    s ≤ f.length ∧ writeXpak f m = .ok (f.take s ++ Spec.segment m) := by
  have hle : s ≤ f.length := by
    unfold startOf at hs
    split at hs
    · cases hc : checkMagic f with
      | error e => simp [hc, Except.map] at hs
      | ok t =>
        obtain ⟨st, il, dl⟩ := t
        simp only [hc, Except.map, Except.ok.injEq] at hs
        subst hs
        exact checkMagic_start_le f _ il dl hc
    · simp only [Except.ok.injEq] at hs; omega
    · simp only [Except.ok.injEq] at hs; omega
    · cases hs
  refine ⟨hle, ?_⟩
  have hb := fits_bound m hfit
  have hi : (idxFrom m 0).length < 4294967296 := by omega
  have hd : (dataOf m).length < 4294967296 := by omega
  have ho : (idxFrom m 0).length + (dataOf m).length + trailerSize + 8 < 4294967296 := by
    show _ + 16 + 8 < _; omega
  unfold writeXpak
  simp only [hs, encodeLoop_ok m 0 (by omega), pack32_ok _ hi, pack32_ok _ hd, pack32_ok _ ho, bind, Except.bind,
    pure, Except.pure]
  rw [write_sequence f s _ _ _ hle, segment_eq_layout]
  simp only [layout, List.append_assoc]

/-- **round trip** (`xpak_roundtrip`, guarded by `NotRewritten`): for every leading content `pre`
and every mapping of the property's domain, reading `pre ++ segment m` returns the same keys in the
same order, text values decoded, `environment*` values as bytes.

Full statement (false of the code, see `xpak_roundtrip_counterexample`):
`∀ pre m, Spec.Dom m → items (pre ++ Spec.segment m) = .ok (Spec.expected m)`. -/
theorem xpak_roundtrip_partial (pre : Bytes) (m : Map) (hd : Spec.Dom m) (hn : NotRewritten m) :
    items (pre ++ Spec.segment m) = .ok (Spec.expected m) := by
  rw [segment_eq_layout]
  exact items_layout pre m (by have := fits_bound m hd.fits; omega) hd.ascii hd.nodup hn hd.typed

/-- the key `repo` comes back as `REPO` (`Xpak._reading_key_rewrites`) -/
theorem xpak_roundtrip_counterexample :
    ∃ m, Spec.Dom m ∧ items (Spec.segment m) ≠ .ok (Spec.expected m) := by
  refine ⟨[("repo".toList, .text "x")], ⟨?_, ?_, ?_, ?_⟩, ?_⟩
  · intro p hp; simp only [List.mem_singleton] at hp; subst hp; unfold Spec.asciiKey; decide
  · decide
  · intro p hp _; simp only [List.mem_singleton] at hp; subst hp; exact ⟨"x", rfl⟩
  · decide
  · decide

/-- written then read: `write_xpak` followed by `items` gives the mapping back, on any old content -/
theorem write_then_read (f : Bytes) (m : Map) (s : Nat) (hd : Spec.Dom m) (hn : NotRewritten m)
    (hs : startOf f = .ok s) :
    ∃ g, writeXpak f m = .ok g ∧ items g = .ok (Spec.expected m) :=
  ⟨_, (write_xpak_format f m s hd.fits hs).2, xpak_roundtrip_partial _ m hd hn⟩

/-- a file that ends in the segment of `m0` is recognised as such, whatever precedes the segment
(keys may even be rewritten ones) -/
theorem start_of_segment (pre : Bytes) (m0 : Map) (ha : ∀ p ∈ m0, Spec.asciiKey p.1)
    (hfit : (Spec.index m0).length + (Spec.data m0).length + 24 < 4294967296) :
    startOf (pre ++ Spec.segment m0) = .ok pre.length := by
  have hb := fits_bound m0 hfit
  rw [segment_eq_layout]
  unfold startOf
  rw [keysDict_layout pre m0 (by omega) ha, checkMagic_layout pre _ _ (by omega)]
  rfl

/-- **rewriting leaves the bytes before the old segment unchanged and replaces the old segment
entirely** (growing or shrinking): the new file is the old prefix followed by the new segment, and
nothing of the old segment or after it survives. -/
theorem rewrite_preserves_prefix (pre : Bytes) (m0 m : Map) (ha : ∀ p ∈ m0, Spec.asciiKey p.1)
    (hfit0 : (Spec.index m0).length + (Spec.data m0).length + 24 < 4294967296)
    (hfit : (Spec.index m).length + (Spec.data m).length + 24 < 4294967296) :
    writeXpak (pre ++ Spec.segment m0) m = .ok (pre ++ Spec.segment m) := by
  have h := (write_xpak_format (pre ++ Spec.segment m0) m pre.length hfit (start_of_segment pre m0 ha hfit0)).2
  rwa [List.take_left' rfl] at h

/-- a file in which no segment is recognised gets the segment appended -/
theorem write_fresh (f : Bytes) (m : Map) (hfit : (Spec.index m).length + (Spec.data m).length + 24 < 4294967296)
    (hs : startOf f = .ok f.length) : writeXpak f m = .ok (f ++ Spec.segment m) := by
  have h := (write_xpak_format f m f.length hfit hs).2
  rwa [List.take_length] at h

/-- a concrete file `f` represents the abstract package `p` -/
def Represents (f : Bytes) (p : Spec.Pkg) : Prop :=
  f = p.bytes ∧ match p.seg with
    | none => startOf p.pre = .ok p.pre.length
    | some m0 => (∀ q ∈ m0, Spec.asciiKey q.1) ∧ (Spec.index m0).length + (Spec.data m0).length + 24 < 4294967296

/-- one rewrite refines the abstract `Pkg.rewrite` -/
theorem rewrite_refines (f : Bytes) (p : Spec.Pkg) (m : Map) (hr : Represents f p) (hd : Spec.Dom m) :
    ∃ g, writeXpak f m = .ok g ∧ Represents g (p.rewrite m) := by
  obtain ⟨hf, hp⟩ := hr
  refine ⟨(p.rewrite m).bytes, ?_, rfl, hd.ascii, hd.fits⟩
  subst hf
  cases hseg : p.seg with
  | none =>
    simp only [hseg] at hp
    simp only [Spec.Pkg.bytes, hseg, List.append_nil, Spec.Pkg.rewrite]
    exact write_fresh p.pre m hd.fits hp
  | some m0 =>
    simp only [hseg] at hp
    simp only [Spec.Pkg.bytes, hseg, Spec.Pkg.rewrite]
    exact rewrite_preserves_prefix p.pre m0 m hp.1 hp.2 hd.fits

/-- the sequence of `write_xpak` calls `ms` applied to `f` -/
def writeAll (f : Bytes) : List Map → Except Err Bytes
  | [] => .ok f
  | m :: ms => match writeXpak f m with
    | .ok g => writeAll g ms
    | .error e => .error e

/-- **any sequence of rewrites** (growing and shrinking payloads, starting with or without a
segment) keeps the leading bytes and ends with exactly the segment of the last mapping, which then
reads back. -/
theorem rewrite_replaces_segment (f : Bytes) (p : Spec.Pkg) (ms : List Map) (hr : Represents f p)
    (hd : ∀ m ∈ ms, Spec.Dom m) :
    ∃ g, writeAll f ms = .ok g ∧ Represents g (ms.foldl Spec.Pkg.rewrite p) ∧
      (ms.foldl Spec.Pkg.rewrite p).pre = p.pre ∧
      (∀ m, ms.getLast? = some m → g = p.pre ++ Spec.segment m ∧
        (NotRewritten m → items g = .ok (Spec.expected m))) := by
  induction ms generalizing f p with
  | nil => exact ⟨f, rfl, hr, rfl, by simp⟩
  | cons m ms ih =>
    obtain ⟨g, hg, hrg⟩ := rewrite_refines f p m hr (hd m (by simp))
    obtain ⟨g', hg', hr', hpre, hlast⟩ := ih g (p.rewrite m) hrg (fun x hx => hd x (by simp [hx]))
    refine ⟨g', by simp only [writeAll, hg, hg'], hr', hpre, ?_⟩
    intro x hx
    cases ms with
    | nil =>
      simp only [List.getLast?_singleton, Option.some.injEq] at hx
      subst hx
      simp only [writeAll, Except.ok.injEq] at hg'
      subst hg'
      have : g = p.pre ++ Spec.segment m := hrg.1
      exact ⟨this, fun hn => this ▸ xpak_roundtrip_partial p.pre m (hd m (by simp)) hn⟩
    | cons m' ms' =>
      have := hlast x (by simpa [List.getLast?_cons_cons] using hx)
      exact this

/-! ### reads on one shared file object (`Xpak(fileobj)`): no read depends on the reads before it -/

/-- **one read on a shared file object**: whatever position the previous reads left the file object at,
`_get_data` returns what a read on a fresh handle returns, and the content is untouched. -/
theorem getDataFd_pos_independent (f : Bytes) (p : Nat) (s : Slot) :
    (getDataFd ⟨f, p⟩ s).1 = getData f s ∧ (getDataFd ⟨f, p⟩ s).2.content = f := by
  unfold getDataFd getData
  by_cases hp : p = s.1
  · subst hp
    simp only [ne_eq, not_true_eq_false, if_false]
    split
    · exact ⟨rfl, rfl⟩
    · split
      · split <;> exact ⟨rfl, rfl⟩
      · exact ⟨rfl, rfl⟩
  · simp only [ne_eq, hp, not_false_eq_true, if_true]
    split
    · exact ⟨rfl, rfl⟩
    · split
      · split <;> exact ⟨rfl, rfl⟩
      · exact ⟨rfl, rfl⟩

/-- **any history of reads on one shared file object** (entries of several `items()`/`values()` generators
advanced in any interleaving, keyed lookups in between, starting at any position) returns, step by step,
what independent reads return: the result of read k does not depend on the reads before it. -/
theorem readHistory_independent (f : Bytes) (p : Nat) (ss : List Slot) :
    readHistory ⟨f, p⟩ ss = ss.map (getData f) := by
  induction ss generalizing p with
  | nil => rfl
  | cons s rest ih =>
    have h := getDataFd_pos_independent f p s
    unfold readHistory
    simp only [List.map_cons]
    rw [← h.1]
    have hc : (getDataFd ⟨f, p⟩ s).2 = ⟨f, (getDataFd ⟨f, p⟩ s).2.pos⟩ := by
      cases hh : (getDataFd ⟨f, p⟩ s).2 with
      | mk c q => have := h.2; rw [hh] at this; simp only at this; subst this; rfl
    rw [hc, ih]

theorem mapM_ok_mem {α β : Type} (g : α → Except Err β) (d : List α) (l : List β) (h : d.mapM g = .ok l) :
    ∀ a ∈ d, ∃ b, g a = .ok b ∧ b ∈ l := by
  induction d generalizing l with
  | nil => intro a ha; cases ha
  | cons x rest ih =>
    rw [List.mapM_cons] at h
    cases hx : g x with
    | error e => rw [hx] at h; cases h
    | ok v =>
      cases hr : rest.mapM g with
      | error e => rw [hx, hr] at h; cases h
      | ok l' =>
        rw [hx, hr] at h
        cases h
        intro a ha
        rcases List.mem_cons.mp ha with rfl | hin
        · exact ⟨v, hx, List.mem_cons_self⟩
        · obtain ⟨w, hw, hm⟩ := ih l' hr a hin
          exact ⟨w, hw, List.mem_cons_of_mem _ hm⟩

/-- every slot of `keys_dict` reads the value `items()` lists for that key -/
theorem slot_reads_listed (f : Bytes) (d : List (List Char × Slot)) (l : List (List Char × Val))
    (h : d.mapM (fun (k, s) => (getData f s).map fun v => (k, v)) = .ok l) :
    ∀ ks ∈ d, ∃ v, getData f ks.2 = .ok v ∧ (ks.1, v) ∈ l := by
  intro ks hks
  obtain ⟨b, hb, hm⟩ := mapM_ok_mem _ d l h ks hks
  cases hg : getData f ks.2 with
  | error e => simp [hg, Except.map] at hb
  | ok v =>
    simp only [hg, Except.map, Except.ok.injEq] at hb
    subst hb
    exact ⟨v, rfl, hm⟩

/-- **the round trip through a shared file object**: on `pre ++ segment m` every history of reads of
index entries (`hist` ⊆ `keys_dict`, any order, repetitions, any starting position) returns for each
step the value the property demands for that key (an entry of `Spec.expected m`). -/
theorem xpak_roundtrip_shared_fd (pre : Bytes) (m : Map) (hd : Spec.Dom m) (hn : NotRewritten m)
    (d : List (List Char × Slot)) (hk : keysDict (pre ++ Spec.segment m) = .ok d)
    (hist : List (List Char × Slot)) (hsub : ∀ ks ∈ hist, ks ∈ d) (p : Nat) :
    ∃ vs : List Val, readHistory ⟨pre ++ Spec.segment m, p⟩ (hist.map (·.2)) = vs.map .ok ∧
      vs.length = hist.length ∧ ∀ i (hi : i < hist.length) (hv : i < vs.length),
        (hist[i].1, vs[i]) ∈ Spec.expected m := by
  have hit := xpak_roundtrip_partial pre m hd hn
  unfold items at hit
  rw [hk] at hit
  simp only at hit
  have hl := slot_reads_listed _ d _ hit
  rw [readHistory_independent]
  clear hit hk
  induction hist with
  | nil => exact ⟨[], rfl, rfl, fun i hi => absurd hi (Nat.not_lt_zero _)⟩
  | cons a rest ih =>
    obtain ⟨v, hv, hm⟩ := hl a (hsub a List.mem_cons_self)
    obtain ⟨vs, h1, h2, h3⟩ := ih (fun ks hks => hsub ks (List.mem_cons_of_mem _ hks))
    refine ⟨v :: vs, ?_, ?_, ?_⟩
    · simp only [List.map_cons, hv, h1]
    · simp [h2]
    · intro i hi hvi
      cases i with
      | zero => exact hm
      | succ j => exact h3 j (by simpa using hi) (by simpa using hvi)

/-! ### the hypotheses are satisfiable -/

def exampleMap : Map :=
  [("CATEGORY".toList, .text "dev-lang\n"), ("environment.bz2".toList, .bytes [0xff, 0x00]), ("DESCRIPTION".toList, .text "é")]

example : Spec.Dom exampleMap ∧ NotRewritten exampleMap := by
  refine ⟨⟨?_, by decide, ?_, by decide⟩, ?_⟩
  · intro p hp
    simp only [exampleMap, List.mem_cons, List.not_mem_nil, or_false] at hp
    rcases hp with rfl | rfl | rfl <;> (unfold Spec.asciiKey; decide)
  · intro p hp he
    simp only [exampleMap, List.mem_cons, List.not_mem_nil, or_false] at hp
    rcases hp with rfl | rfl | rfl
    · exact ⟨_, rfl⟩
    · exact absurd he (by decide)
    · exact ⟨_, rfl⟩
  · intro p hp
    simp only [exampleMap, List.mem_cons, List.not_mem_nil, or_false] at hp
    rcases hp with rfl | rfl | rfl <;> exact (notRewritten_iff _).mpr (by decide)

/-- a package without a segment: 3 bytes cannot hold a trailer -/
example : Represents [1, 2, 3] ⟨[1, 2, 3], none⟩ := ⟨rfl, by show startOf [1, 2, 3] = .ok 3; decide⟩

/-- and the round trip really returns typed values -/
example : items ([7, 7] ++ Spec.segment exampleMap) = .ok
    [("CATEGORY".toList, .text "dev-lang\n"), ("environment.bz2".toList, .bytes [0xff, 0x00]), ("DESCRIPTION".toList, .text "é")] := by
  decide

/-- an interleaved history on one shared file object, starting at position 3: entry 0, a lookup of entry 2,
entry 1, entry 2 again — every step returns its own key's value -/
example : (match keysDict ([7, 7] ++ Spec.segment exampleMap) with
    | .ok d => readHistory ⟨[7, 7] ++ Spec.segment exampleMap, 3⟩ ([d[0]!, d[2]!, d[1]!, d[2]!].map (·.2))
    | .error _ => []) =
    [.ok (.text "dev-lang\n"), .ok (.text "é"), .ok (.bytes [0xff, 0x00]), .ok (.text "é")] := by
  decide

end Pkgcore.C26
