import Pkgcore.Proofs.C33
/-!
# C33 — install helpers create exactly the requested image entries

Property theorems only (helper lemmas: `Pkgcore/Proofs/C33.lean`).  `Pkgcore.C33.*Plan`, `installPlan`,
`runOps`, `relativeDosymTarget` mirror `ebd_ipc.py` / `misc.py` (after the `fix:` commits);
`Pkgcore.C33.Spec.*` is the PMS placement table.
-/
namespace Pkgcore.C33
open Pkgcore.C33.Spec

/-! ## dosym -r -/

/-- `os.path.relpath` as used by pkgcore: for absolute `path` and `start`, the result, interpreted in
directory `start`, resolves (lexically, as PMS defines it) to `path`.  All strings, no size bound. -/
theorem relpath_resolves (path start : Str) (hp : isAbs path = true) (hs : isAbs start = true) :
    resolve (start ++ '/' :: relpath path start) = resolve path :=
  relpath_resolves_aux path start hp hs

example : isAbs "/usr/../a//b/./c".toList = true ∧ isAbs "//x/../y".toList = true := by decide

/-- **`dosym -r source target` creates a link that resolves to the requested absolute `source`**: the link
text computed by `get_relative_dosym_target`, read in the directory that holds the link
(`os.path.join("/", dirname(target))`, the leading slash of `target` may be omitted), names `source`. -/
theorem relative_target_resolves (source target : Str) (h : isAbs source = true) :
    resolve (pjoin ['/'] (dirname target) ++ '/' :: relativeDosymTarget source target) = resolve source :=
  relpath_resolves_aux source _ h (isAbs_pjoin_root _)

example : relativeDosymTarget "/usr/bin/a".toList "usr/lib/q/b".toList = "../../bin/a".toList := by decide

/-! ## tables regenerated from the code -/

def magicNat : String → Option Nat
  | "0" => some 0 | "1" => some 1 | "2" => some 2 | "3" => some 3 | "4" => some 4
  | "5" => some 5 | "6" => some 6 | "7" => some 7 | "8" => some 8 | _ => none

/-- the per-EAPI helper options of `eapi.py` are the PMS feature table: doman languages from EAPI 2 with
`-i18n` precedence from 4, `dodoc -r` from 4, `dosym -r` from 8; every EAPI 0–8 is present -/
theorem eapi_table_is_pms :
    (Generated.C33.eapis.all fun r =>
      match magicNat r.magic with
      | some n => r.domanDetect == pmsDomanLanguages n && r.domanOverride == pmsDomanI18nPrecedence n
          && r.dodocAllowRecursive == pmsDodocRecursive n && r.dosymRelative == pmsDosymRelative n
      | none => false) = true
    ∧ Generated.C33.eapis.map (·.magic) = ["0", "1", "2", "3", "4", "5", "6", "7", "8"]
    ∧ (Generated.C33.eapis.all fun r => !r.archiveExts.contains "") = true := by decide

/-- default modes as the real option parsers deliver them for every helper of the table `ebd.py` builds:
documentation-like files 0644, dobin/dosbin forced to 0755, dodir/keepdir directories 0755, everything
else as given by insopts/exeopts/libopts -/
theorem helper_default_modes :
    Generated.C33.helpers.map (fun h => (h.name, h.insMode, h.dirMode, h.forcedIns)) =
      [("doins", none, none, false), ("dodoc", some 0o644, none, false), ("dohtml", some 0o644, none, false),
       ("doinfo", some 0o644, none, false), ("dodir", none, some 0o755, false), ("doexe", none, none, false),
       ("dobin", some 0o755, none, true), ("dosbin", some 0o755, none, true), ("dolib", none, none, false),
       ("dolib.so", none, none, false), ("dolib.a", none, none, false), ("doman", some 0o644, none, false),
       ("domo", some 0o644, none, false), ("dosym", none, none, false), ("dohard", none, none, false),
       ("keepdir", none, some 0o755, false)] ∧
    -- only dobin/dosbin force an owner: root:root
    Generated.C33.helpers.map (fun h => (h.insOwner, h.insGroup)) =
      [(none, none), (none, none), (none, none), (none, none), (none, none), (none, none), (some 0, some 0),
       (some 0, some 0), (none, none), (none, none), (none, none), (none, none), (none, none), (none, none),
       (none, none), (none, none)] := by decide

/-! ## what a successful request does to the image -/

/-- **nothing else is touched**: a path that is not a requested path or one of its ancestors keeps its
entry (or stays absent) -/
theorem run_frame (u : Umask) (fs fs' : Fs) (ops : List Op) (h : runOps u fs ops = .ok fs')
    (q : Path) (hq : ∀ op ∈ ops, ¬ q <+: op.path) : fs' q = fs q :=
  (runOps_facts u ops fs fs' h).frame q hq

/-- **every requested entry exists and all its ancestors are directories** (well-formedness of the image is
preserved; a directory is never replaced by a non-directory) -/
theorem run_ancestors_are_dirs (u : Umask) (fs fs' : Fs) (ops : List Op) (hwf : WF fs)
    (h : runOps u fs ops = .ok fs') :
    WF fs' ∧ (∀ q, fs.isDir q = true → fs'.isDir q = true) ∧
    ∀ op ∈ ops, op.path ≠ [] → (fs' op.path).isSome = true ∧
      ∀ a, a <+: op.path → a ≠ op.path → fs'.isDir a = true := by
  have f := runOps_facts u ops fs fs' h
  refine ⟨f.wf hwf, f.mono, ?_⟩
  intro op hop hp
  have hs := f.there op hop hp
  refine ⟨hs, ?_⟩
  intro a ha hne
  obtain ⟨n, hn⟩ := Option.isSome_iff_exists.1 hs
  rcases wf_ancestors fs' (f.wf hwf) _ op.path n rfl hn a ha with h | h
  · exact h
  · exact absurd h hne

/-- **the prescribed entry is there**: the entry an operation writes (mode from the install options or the
umask default, content of the named source, link text) is what the image holds at that path afterwards,
unless a later operation of the same request writes at or below that path -/
theorem run_last_entry (u : Umask) (fs fs' : Fs) (before : List Op) (op : Op) (after : List Op)
    (h : runOps u fs (before ++ op :: after) = .ok fs')
    (hlater : ∀ o ∈ after, ¬ op.path <+: o.path) :
    ∃ fs₁, runOps u fs before = .ok fs₁ ∧ op.leafOk u fs₁ (fs' op.path) := by
  obtain ⟨fs1, h1, h2⟩ := runOps_append u before (op :: after) fs fs' h
  obtain ⟨fs2, h3, h4⟩ := runOps_cons u fs1 op after fs' h2
  refine ⟨fs1, h1, ?_⟩
  have := (applyOp_facts u fs1 fs2 op h3).2
  rw [(runOps_facts u after fs2 fs' h4).frame op.path hlater]
  exact this

example : ((runOps ⟨⟨0o750, 0, 0⟩, ⟨0o640, 0, 0⟩⟩ emptyFs
    [.mkdirs [['u'], ['b']] none, .copy (.file 7) [['u'], ['b'], ['x']] (some ⟨0o4755, none, some 250⟩)]).toOption.map
      (fun fs => (fs [['u']], fs [['u'], ['b'], ['x']], fs [['v']])))
    = some (some (.dir ⟨0o750, 0, 0⟩), some (.file ⟨0o4755, 0, 250⟩ 7), none) := by decide

/-- **the requested mode and owner are what the installed file has**: an operation that installs a regular
file with install options `-m M [-o U] [-g G]` leaves exactly mode `M` — set-id and sticky bits included —
and owner `U`/group `G` where given (the process's ids otherwise); a directory created with directory
options gets mode `M` and the given ids, keeping the ids it had where none is given -/
theorem requested_mode_and_owner (u : Umask) (fs fs' : Fs) (before after : List Op) (p : Path) (id : Nat) (a : Attr)
    (h : runOps u fs (before ++ Op.copy (.file id) p (some a) :: after) = .ok fs')
    (hlater : ∀ o ∈ after, ¬ p <+: o.path) :
    fs' p = some (.file ⟨a.mode, a.owner.getD u.fileMode.uid, a.group.getD u.fileMode.gid⟩ id) := by
  obtain ⟨fs1, _, h2⟩ := run_last_entry u fs fs' before (Op.copy (.file id) p (some a)) after h hlater
  simpa [Op.leafOk, Op.path, Attr.over] using h2

example : (⟨0o4755, some 0, none⟩ : Attr).over ⟨0o644, 7, 8⟩ = ⟨0o4755, 0, 8⟩ := by decide

/-- **a request's placement depends only on that request**: serving a sequence of requests with one helper
table is serving the last one on the image the others left — its plan is computed from the request alone
(no state is carried by the helpers; `dosym` alone looks at the image, and only at whether its link name is
a directory there) -/
theorem request_independent_of_history (u : Umask) (fs : Fs) (earlier : List Request) (r : Request) :
    runRequests u fs (earlier ++ [r]) =
      (match runRequests u fs earlier with
       | .ok fs' => execute u fs' (r.plan fs')
       | .error e => .error e) ∧
    (∀ fs₁ fs₂ : Fs, (∀ c ra rel s t, r = .dosym c ra rel s t → fs₁.isDir (toPath t) = fs₂.isDir (toPath t)) →
      r.plan fs₁ = r.plan fs₂) := by
  constructor
  · induction earlier generalizing fs with
    | nil =>
      simp only [List.nil_append, runRequests]
      cases execute u fs (r.plan fs) <;> rfl
    | cons q rest ih =>
      simp only [List.cons_append, runRequests]
      cases execute u fs (q.plan fs) with
      | error e => rfl
      | ok fs' => exact ih fs'
  · intro fs₁ fs₂ hd
    cases r with
    | dosym c ra rel s t =>
      have := hd c ra rel s t rfl
      simp only [Request.plan, dosymPlan, this]
    | _ => rfl

/-! ## placement per helper -/

/-- **doexe, dobin, dosbin, dolib\*, doinfo**: the destination directory plus every argument under its own
name with the requested mode, in order — or the same rejection (no arguments, nonexistent path, a
directory, a dangling link) -/
theorem basename_install_placement (c : Ctx) (ts : List Target) :
    (installPlan .basenameInstall c ts).map (List.map Op.toEntry) = prescribed .basenameInstall c ts := by
  unfold installPlan prescribed
  exact wrapperRun_entries c ts _ _ (installByBasename_entries c ts)

example : (installPlan .basenameInstall ⟨"/usr/bin".toList, some ⟨0o755, some 0, some 0⟩, none⟩ [⟨"src/tool".toList, .file 3⟩]).toOption =
    some [.mkdirs [['u','s','r'], ['b','i','n']] none,
         .copy (.file 3) [['u','s','r'], ['b','i','n'], ['t','o','o','l']] (some ⟨0o755, some 0, some 0⟩)] := by decide

/-- **a directory argument needs `-r`** (and `dodoc -r` needs EAPI ≥ 4): doins, dodoc and dohtml reject
it with "is a directory"; the helpers without `-r` support reject a directory too -/
theorem directory_needs_recursive (c : Ctx) (ts : List Target) (t : Target) (ht : t ∈ ts) (hdir : t.isDir = true)
    (hargs : checkTargets ts = .ok ()) :
    installPlan (.doins false) c ts = .error .isDirectory ∧
    prescribed (.doins false) c ts = .error .isDirectory ∧
    (∀ allow r, (r && allow) = false →
      installPlan (.dodoc allow r) c ts = .error .isDirectory ∧
      prescribed (.dodoc allow r) c ts = .error .isDirectory) ∧
    (∀ o : HtmlOpts, o.recursive = false → installPlan (.dohtml o) c ts = .error .isDirectory) := by
  have hne : ts.filter (·.isDir) ≠ [] := by
    intro h
    have : t ∈ ts.filter (·.isDir) := List.mem_filter.2 ⟨ht, hdir⟩
    rw [h] at this; simp at this
  have hargs' : argsOk ts = .ok () := by rw [argsOk_eq]; exact hargs
  have hex : ∃ x, x ∈ ts ∧ x.isDir = true := ⟨t, ht, hdir⟩
  refine ⟨?_, ?_, ?_, ?_⟩
  · simp [installPlan, wrapperRun, hargs, doinsTargets, hne, bind, Except.bind]
  · simp [prescribed, withDest, hargs', filesAndTrees, isDirArg, hex, bind, Except.bind]
  · intro allow r hr
    constructor
    · have : ¬ (r = true ∧ allow = true) := by
        intro h; rw [h.1, h.2] at hr; simp at hr
      simp [installPlan, wrapperRun, hargs, dodocTargets, hne, this, bind, Except.bind]
    · simp [prescribed, withDest, hargs', filesAndTrees, isDirArg, hex, hr, bind, Except.bind]
  · intro o ho
    have hch : ∀ c' : Ctx, checkTargets ts = .ok () := fun _ => hargs
    simp [installPlan, wrapperRun, dohtmlTargets, hne, ho, hargs, bind, Except.bind]

example : (⟨"d".toList, .dir []⟩ : Target).isDir = true ∧ checkTargets [⟨"d".toList, .dir []⟩] = .ok () :=
  ⟨rfl, rfl⟩

/-- **`doins -r` / `dodoc -r` mirror the source tree**: the operations of the `os.walk` based
`_install_from_dirs` (shared by doins, dodoc and dohtml) are — up to order — exactly the depth-first listing of
the trees under the directory's own name (directories as if by dodir, files with the install mode, links as
links), and whole `doins [-r]` and `dodoc [-r]` requests (trees together with the plain file arguments) are the
prescribed entries up to order; one side rejects iff the other does.  (`dohtml`: next theorem.) -/
theorem recursive_install_mirrors_tree (c : Ctx) (ts : List Target) :
    TreeRel (fromDirs c ts) (trees c ts) ∧
    (∀ r, TreeRel (installPlan (.doins r) c ts) (prescribed (.doins r) c ts)) ∧
    (∀ allow r, TreeRel (installPlan (.dodoc allow r) c ts) (prescribed (.dodoc allow r) c ts)) := by
  refine ⟨fromDirs_rel c ts, ?_, ?_⟩
  · intro r
    unfold installPlan prescribed
    apply wrapperRun_rel
    apply filesAndTrees_rel c r ts (fun _ => true) (fun _ => true)
    unfold doinsTargets
    cases r <;> simp
  · intro allow r
    unfold installPlan prescribed
    apply wrapperRun_rel
    apply filesAndTrees_rel c (r && allow) ts (fun _ => true) (fun _ => true)
    unfold dodocTargets
    cases r <;> cases allow <;> simp

example : (installPlan (.doins true) ⟨"/s".toList, some ⟨0o644, none, none⟩, some ⟨0o700, none, none⟩⟩
    [⟨"d/".toList, .dir [("f".toList, .file 1), ("l".toList, .link "f".toList .toFile)]⟩]).toOption.map List.length
    = some 4 := by
  simp [installPlan, wrapperRun, checkTargets, doinsTargets, Target.isDir, fromDirs, walkDir, walkFiles, walkSubs,
    installByBasename, bind, Except.bind, pure, Except.pure, Except.toOption]

/-- **`dohtml [-r]` installs the filtered arguments under the doc prefix, directories mirrored**: the plan of a
dohtml request and the prescribed entries reject together, and a successful plan is — up to order — exactly
`--dest` joined with the `-p` prefix (leading slashes of the prefix dropped), the depth-first listing of every
directory argument that is not named by `-x` (directories need `-r`; listed as for `doins -r`, under the
directory's own name), and every file argument whose last component has an allowed suffix (`-a` list, or the
default list, plus `-A`; the suffix is what follows the last dot when something other than dots precedes it, the
empty suffix otherwise) or is named by `-f`, under its own name — nothing else.  As in the code, `-x`, the
suffixes and `-f` select among the *arguments*; the contents of a walked directory are installed whole. -/
theorem dohtml_recursive_mirrors_filtered_tree (c : Ctx) (o : HtmlOpts) (ts : List Target) :
    TreeRel (installPlan (.dohtml o) c ts) (prescribed (.dohtml o) c ts) ∧
    (∀ ops, installPlan (.dohtml o) c ts = .ok ops →
      ∃ ds fs,
        (ts.filter (·.isDir) ≠ [] → o.recursive = true) ∧
        trees { c with dest := pjoin c.dest (lstripSlash o.docPrefix) }
          ((ts.filter (·.isDir)).filter fun d => !o.xDirs.contains d.arg) = .ok ds ∧
        byName { c with dest := pjoin c.dest (lstripSlash o.docPrefix) }
          ((ts.filter (!·.isDir)).filter fun t =>
            (hasStem (splitOn '.' (lastComp t.arg)) &&
                (htmlAllowedExts o).contains ((splitOn '.' (lastComp t.arg)).getLast?.getD [])) ||
              (!hasStem (splitOn '.' (lastComp t.arg)) && (htmlAllowedExts o).contains []) ||
              o.fFiles.contains (lastComp t.arg)) = .ok fs ∧
        (ops.map Op.toEntry).Perm
          (Entry.dir (toPath (pjoin c.dest (lstripSlash o.docPrefix))) none :: (ds ++ fs))) :=
  ⟨dohtml_rel c o ts, dohtml_ok c o ts⟩

/-- a successful request on a non-trivial tree: `b.exe` is filtered out by its suffix, the directory `skip` is
excluded by `-x`, `README` passes by `-f`, `n.txt` by `-A`; everything lands under `<dest>/api` -/
example : (installPlan (.dohtml ⟨true, [], ["txt".toList], ["README".toList], ["skip".toList], "/api".toList⟩)
      ⟨"/d".toList, some ⟨0o644, none, none⟩, none⟩
      [⟨"doc/".toList, .dir [("i.html".toList, .file 1), ("sub".toList, .dir [("n.bin".toList, .file 2)])]⟩,
       ⟨"skip".toList, .dir [("z.html".toList, .file 3)]⟩,
       ⟨"a.html".toList, .file 4⟩, ⟨"b.exe".toList, .file 5⟩, ⟨"README".toList, .file 6⟩,
       ⟨"x/n.txt".toList, .file 7⟩]).toOption =
    some [.mkdirs ["d".toList, "api".toList] none,
      .mkdirs ["d".toList, "api".toList, "doc".toList] none,
      .copy (.file 1) ["d".toList, "api".toList, "doc".toList, "i.html".toList] (some ⟨0o644, none, none⟩),
      .mkdirs ["d".toList, "api".toList, "doc".toList, "sub".toList] none,
      .copy (.file 2) ["d".toList, "api".toList, "doc".toList, "sub".toList, "n.bin".toList] (some ⟨0o644, none, none⟩),
      .copy (.file 4) ["d".toList, "api".toList, "a.html".toList] (some ⟨0o644, none, none⟩),
      .copy (.file 6) ["d".toList, "api".toList, "README".toList] (some ⟨0o644, none, none⟩),
      .copy (.file 7) ["d".toList, "api".toList, "n.txt".toList] (some ⟨0o644, none, none⟩)] := by
  have a1 : htmlAllowed ⟨true, [], ["txt".toList], ["README".toList], ["skip".toList], "/api".toList⟩ "a.html".toList = true := by decide
  have a2 : htmlAllowed ⟨true, [], ["txt".toList], ["README".toList], ["skip".toList], "/api".toList⟩ "b.exe".toList = false := by decide
  have a3 : htmlAllowed ⟨true, [], ["txt".toList], ["README".toList], ["skip".toList], "/api".toList⟩ "README".toList = true := by decide
  have a4 : htmlAllowed ⟨true, [], ["txt".toList], ["README".toList], ["skip".toList], "/api".toList⟩ "x/n.txt".toList = true := by decide
  have x1 : ["skip".toList].contains "doc/".toList = false := by decide
  have x2 : ["skip".toList].contains "skip".toList = true := by decide
  simp only [installPlan, wrapperRun, dohtmlTargets, fromDirs, walkDir, walkFiles, walkSubs, List.filter, Target.isDir,
    bind, Except.bind, pure, Except.pure, Bool.not_true, Bool.not_false, a1, a2, a3, a4, x1, x2, reduceCtorEq, if_false,
    if_true, List.filterMap]
  decide

/-- **the directory level of a recursive install**: an argument whose last non-empty component is a name `n`
(`dir`, `dir/`, `./dir`, `a//dir//`) is installed as `n/…` below `--dest`; an argument ending in the component `.`
(`dir/.`, `dir/.//` — "the contents of `dir`") is installed with *no* extra level: its entries go directly under
`--dest`.  Both the code's `dest_dir` (`topDir`) and the prescribed name (`dirName`) are meant -/
theorem recursive_dir_level (d slashes : Str) (hs : ∀ x ∈ slashes, x = '/') :
    (topDir (d ++ '/' :: '.' :: slashes) = [] ∧ dirName (d ++ '/' :: '.' :: slashes) = []) ∧
    (∀ n : Str, '/' ∉ n → n ≠ [] → n ≠ ['.'] →
      topDir (d ++ '/' :: (n ++ slashes)) = [n] ∧ dirName (d ++ '/' :: (n ++ slashes)) = [n]) := by
  have hl : ∀ n : Str, '/' ∉ n → n ≠ [] → lastName (d ++ '/' :: (n ++ slashes)) = [n] := by
    intro n hn hne
    unfold lastName
    rw [toPath_append_sep, toPath_append_slashes n slashes hs, toPath_no_slash n hn hne]
    simp
  refine ⟨?_, ?_⟩
  · have h := hl ['.'] (by simp) (by simp)
    have h' : lastName (d ++ '/' :: '.' :: slashes) = [['.']] := by simpa using h
    rw [dirName_eq]
    simp [dirName, h']
  · intro n hn hne hdot
    have h := hl n hn hne
    rw [dirName_eq]
    have hneq : ([n] : Path) ≠ [['.']] := by simpa using hdot
    unfold dirName
    rw [h, if_neg hneq]
    simp

example : dirName "conf/.".toList = [] ∧ dirName "conf/".toList = ["conf".toList] ∧ dirName "./a//conf//".toList = ["conf".toList]
    ∧ topDir "conf/sub/.".toList = [] := by decide

/-- **doman**: where `Doman` puts a page — `manN/name`, `lang/manN/name` with the language part removed
from `foo.lang.N`, `-i18n` with the EAPI's precedence, one compression suffix looked through — is the PMS
table's destination, for every argument string -/
theorem doman_placement (m : ManCtx) (arg : Str) : manPlace m arg = manDest m (lastComp arg) :=
  manPlace_eq_manDest m arg

example : manPlace ⟨true, true, [], [".gz".toList], false⟩ "x/apt-get.pt_BR.8".toList
    = some ("pt_BR/man8".toList, "apt-get.8".toList) := by decide

/-- **a man page without a (valid) section is rejected** -/
theorem doman_without_section_rejected (c : Ctx) (m : ManCtx) (ts : List Target) (t : Target) (ht : t ∈ ts)
    (hsec : validSection (sectionOf m (splitOn '.' (lastComp t.arg))) = false) :
    ∃ e, installPlan (.doman m) c ts = .error e := by
  have hnone : manPlaceFull m t = none := by
    unfold manPlaceFull
    rw [manPlace_eq_manDest]
    unfold manDest
    simp [hsec]
  have key : ∀ (seen : List Str) (l : List Target), t ∈ l →
      ∃ e, genLoop c (manPlaceFull m) .invalidManPage seen l = .error e := by
    intro seen l
    induction l generalizing seen with
    | nil => intro h; simp at h
    | cons a rest ih =>
      intro h
      simp only [List.mem_cons] at h
      rw [genLoop]
      rcases h with rfl | h
      · rw [hnone]; exact ⟨_, rfl⟩
      · cases manPlaceFull m a with
        | none => exact ⟨_, rfl⟩
        | some df =>
          obtain ⟨d, f⟩ := df
          simp only []
          cases installOne c a.node f with
          | error e => exact ⟨e, rfl⟩
          | ok cp =>
            obtain ⟨e, he⟩ := ih (if seen.contains d then seen else d :: seen) h
            exact ⟨e, by simp only [bind, Except.bind, he]⟩
  obtain ⟨e, he⟩ := key [] ts ht
  show ∃ e, wrapperRun c ts (domanLoop c m [] ts) = .error e
  unfold wrapperRun
  rw [domanLoop_eq_gen, he]
  cases checkTargets ts with
  | error e' => exact ⟨e', rfl⟩
  | ok _ => exact ⟨e, rfl⟩

example : validSection (sectionOf ⟨true, true, [], [], false⟩ (splitOn '.' "foo".toList)) = false ∧
    validSection (sectionOf ⟨true, true, [], [], false⟩ (splitOn '.' ".1".toList)) = false := by decide

/-- **doman, whole request**: rejections coincide; on success the page files are the prescribed ones in
order, every operation is a prescribed entry and every prescribed entry is produced (each `lang/manN`
directory once) -/
theorem doman_plan_entries (c : Ctx) (m : ManCtx) (ts : List Target) :
    LoopRel c [] (domanLoop c m [] ts) (manEntries c m ts) := by
  rw [domanLoop_eq_gen, manEntries_eq_gen]
  exact genLoop_rel c _ _ ts []

/-- **domo**: `<dest>/<name without extension>/LC_MESSAGES/<PN>.mo` for every argument, directories once
(`pn` is a package name, it does not start with a slash) -/
theorem domo_placement (c : Ctx) (pn : Str) (hpn : isAbs pn = false) (ts : List Target) :
    LoopRel c [] (domoLoop c pn [] ts) (moEntries c pn ts) := by
  rw [domoLoop_eq_gen, moEntries_eq_gen c pn hpn]
  exact genLoop_rel c _ _ ts []

example : (domoLoop ⟨"/usr/share/locale".toList, some ⟨0o644, none, none⟩, none⟩ "pn".toList []
    [⟨"po/de.mo".toList, .file 1⟩, ⟨"de.mo".toList, .file 2⟩]).toOption.map List.length = some 3 := by decide

/-- **dodir / keepdir**: exactly the named directories (mode from diropts), and for keepdir an empty
`.keep_<category>_<PN>-<slot>` in each -/
theorem dodir_keepdir_placement (c : Ctx) (category pn slot : Str) (ds : List Str) :
    (dodirPlan c ds).map (List.map Op.toEntry) = dodirEntries c ds ∧
    (keepdirPlan c category pn slot ds).map (List.map Op.toEntry) = keepdirEntries c category pn slot ds :=
  ⟨dodir_entries c ds, keepdir_entries c category pn slot ds⟩

/-- **dosym**: the parent directory of the link name and the link itself with the requested text (the
relative text for `-r`), or the same rejection -/
theorem dosym_placement (c : Ctx) (fs : Fs) (relAllowed relative : Bool) (source target : Str) :
    (dosymPlan c fs relAllowed relative source target).map (List.map Op.toEntry)
      = dosymEntries c fs relAllowed relative source target :=
  dosym_entries c fs relAllowed relative source target

/-- **dosym rejects what PMS forbids**: a link name ending in a slash or naming a directory of the image
("missing link name"), `-r` before EAPI 8, `-r` with a relative source; everything else is accepted with
the link text requested (`-r`: the text of `relative_target_resolves`) -/
theorem dosym_rejections (c : Ctx) (fs : Fs) (relAllowed relative : Bool) (source target : Str) :
    (dosymPlan c fs relAllowed relative source target = .error .missingLinkName ↔
      (target.getLast? = some '/' ∨ fs.isDir (toPath target) = true)) ∧
    (dosymPlan c fs relAllowed relative source target = .error .relNotPermitted ↔
      (¬ (target.getLast? = some '/' ∨ fs.isDir (toPath target) = true) ∧ relative = true ∧ relAllowed = false)) ∧
    (dosymPlan c fs relAllowed relative source target = .error .relNeedsAbs ↔
      (¬ (target.getLast? = some '/' ∨ fs.isDir (toPath target) = true) ∧ relative = true ∧ relAllowed = true ∧
        isAbs source = false)) ∧
    (¬ (target.getLast? = some '/' ∨ fs.isDir (toPath target) = true) → (relative = true → relAllowed = true ∧ isAbs source = true) →
      ∃ ops, dosymPlan c fs relAllowed relative source target = .ok ops ∧
        ops.getLast? = some (.relink (if relative then relativeDosymTarget source target else source) (toPath target))) := by
  unfold dosymPlan
  by_cases h1 : target.getLast? = some '/' ∨ fs.isDir (toPath target) = true
  · simp [h1]
  · simp only [h1, if_false, false_iff, not_false_eq_true, true_and]
    cases relative with
    | false => simp [pure, Except.pure, symlinkRun]
    | true =>
      cases relAllowed with
      | false => simp
      | true =>
        by_cases ha : isAbs source = true
        · simp [ha, pure, Except.pure, symlinkRun]
        · simp [ha]

example : ¬ ("/usr/lib/b".toList.getLast? = some '/' ∨ emptyFs.isDir (toPath "/usr/lib/b".toList) = true) := by decide

/-- **dohard**: the parent directory of the link name and a hard link to the *image* entry `source`, for a link
name that does not end in a slash (a link name ending in a slash: `dohard_trailing_slash_rejected`) -/
theorem dohard_placement (c : Ctx) (source target : Str) (ht : target.getLast? ≠ some '/') :
    (dohardPlan c source target).map (List.map Op.toEntry) = dohardEntries c source target :=
  dohard_entries c source target ht

example : (dohardPlan ⟨"/".toList, none, none⟩ "/usr/bin/a".toList "/usr/bin/b".toList).toOption =
    some [.mkdirs [['u','s','r'], ['b','i','n']] none,
         .hardlink [['u','s','r'], ['b','i','n'], ['a']] [['u','s','r'], ['b','i','n'], ['b']]] := by decide

/-- **dohard with a link name ending in a slash is rejected**: the specification rejects it up front ("missing
link name"); `Dohard.run` has no such test — its plan is "create the directory `d`, then `os.link` onto `d`" — and
running that plan fails on every image and under every umask: creating the parent has made the link name a
directory, which `os.link` does not replace (EEXIST, then `unlink` fails with EISDIR).  Nothing is linked.
(`dohard` takes no `--dest`: `c.dest` is the image root.) -/
theorem dohard_trailing_slash_rejected (c : Ctx) (hc : toPath c.dest = []) (u : Umask) (fs : Fs) (source target : Str)
    (ht : target.getLast? = some '/') :
    dohardEntries c source target = .error .missingLinkName ∧
    dohardPlan c source target =
      .ok [.mkdirs (toPath target) c.dirMode, .hardlink (toPath source) (toPath target)] ∧
    ∃ e, execute u fs (dohardPlan c source target) = .error e := by
  have hd : target.dropLast ++ ['/'] = target := by
    have hne : target ≠ [] := by intro h'; simp [h'] at ht
    have h1 := List.dropLast_concat_getLast hne
    rw [List.getLast?_eq_some_getLast hne] at ht
    simp only [Option.some.injEq] at ht
    rw [ht] at h1; exact h1
  have h := dohard_trailing_slash_run c hc u fs source target.dropLast
  rw [hd] at h
  have hp : toPath target.dropLast = toPath target := by
    conv => rhs; rw [← hd]
    exact (toPath_snoc_slash _).symm
  rw [hp] at h
  exact ⟨by simp [dohardEntries, ht], h.1, h.2⟩

example : toPath "/".toList = [] ∧ "/usr/lib/".toList.getLast? = some '/' ∧
    (execute ⟨⟨0o755, 0, 0⟩, ⟨0o644, 0, 0⟩⟩ (emptyFs.set [['a']] (.file ⟨0o644, 0, 0⟩ 1))
      (dohardPlan ⟨"/".toList, none, none⟩ "a".toList "/usr/lib/".toList)).toOption.isNone = true := by decide

end Pkgcore.C33
