import Pkgcore.Proofs.C07
/-!
# C07 — restrictions that compare equal are interchangeable

Property theorems only (helper lemmas: `Pkgcore/Proofs/C07.lean`).  `eqv` is `==`, `hashKey` what `__hash__`
hashes, `mtch` is `match` (`Model/C07.lean`, mirroring the classes after the `fix:` commits); `SameMatch`, `hkEq`,
`lookup` are the notions of the property (`Spec/C07.lean`).  `wf` only says that a version restriction holds an
operator set of `_convert_str2op` (generated table) and that the version of an atom is one `isvalid_version_re`
accepts.  Atom equality and hashing are the C02 model (`atom.__cmp__(other) == 0`, the canonical tuple); the match of
an atom is an environment function of its canonical form, which `atom_match_depends_only_on_canon` justifies against
the C04 model of `atom.match` (record conversion: `C03.toC04`).
-/
namespace Pkgcore.C07
open Pkgcore.C07.Spec

/-- **equal restrictions match exactly the same values** — for every class of the model, any nesting, every
environment (case folding, regular expressions, user functions, atoms' own match) and every value. -/
theorem eq_implies_same_match (a b : Restr) (ha : wf a = true) (hb : wf b = true) (h : eqv a b = true) :
    SameMatch a b :=
  fun env x => eqv_match env a b ha hb h x

/-- an atom `[op]cat/pkg[-ver][use]` for the examples -/
def exAtom (cat pkg : String) (vop : Option (Pkgcore.C02.Op × Pkgcore.C01.Ver × Str)) (use : Option (List String)) :
    Pkgcore.C02.Atom :=
  { cat := cat.toList, pkg := pkg.toList, vop := vop, blocks := false, strong := false, negate := false,
    slot := none, subslot := none, slotOp := none, use := use.map (·.map String.toList), repo := none }

/-- not vacuous: a negated `<` inside a package restriction inside an any-of, against `>=`; a DepSet against a
permutation with a duplicate, one atom spelled differently (`=a/b-1.0` / `=a/b-1.00-r0`) -/
example :
    let v : Pkgcore.C01.Ver := ⟨[['1'], ['0']], none, []⟩
    let v' : Pkgcore.C01.Ver := ⟨[['1'], ['0', '0']], none, []⟩
    let ab := exAtom "a" "b" (some (.eq, v, [])) none
    let ab' := exAtom "a" "b" (some (.eq, v', ['0'])) none
    let cd := exAtom "c" "d" none none
    let cd' := exAtom "c" "d" none none
    let a := Restr.bool .or 2 false [.pkgRestr 1 false [["fullver".toList]] false (.version [-1] false true v (some ['0'])),
                                     .depset [.atom ab, .atom cd]]
    let b := Restr.bool .or 2 false [.pkgRestr 1 false [["fullver".toList]] false (.version [0, 1] false false v (some [])),
                                     .depset [.atom cd', .atom ab', .atom cd]]
    wf a = true ∧ wf b = true ∧ eqv a b = true := by decide

/-- **equal restrictions have equal hashes**: their hash keys agree component-wise (as sets for frozensets), hence
so does every hash function that is a function of the key up to that equivalence — CPython's is. -/
theorem eq_implies_same_hash (a b : Restr) (ha : wf a = true) (hb : wf b = true) (h : eqv a b = true) :
    hkEq (hashKey a) (hashKey b) = true ∧
    ∀ H : HK → Int, (∀ k k', hkEq k k' = true → H k = H k') → H (hashKey a) = H (hashKey b) :=
  ⟨eqv_hash a b ha hb h, fun _ hH => hH _ _ (eqv_hash a b ha hb h)⟩

example : ∃ H : HK → Int, ∀ k k', hkEq k k' = true → H k = H k' := ⟨fun _ => 0, fun _ _ _ => rfl⟩

/-- the repaired equalities / hashes, as facts about the model (the last one: a version glob's hash follows the
integer value of its revision, like its equality):
a negated `~` is not equal to the plain one; `<` negated equals `>=` (and now hashes alike); a restriction
without revision is not equal to one with revision 0 although `None == Revision("0")`; `_UseDepDefaultContainment`
compares `if_missing`. -/
theorem repaired_equalities (v : Pkgcore.C01.Ver) (r : Pkgcore.C01.Rev) (fl : List Str) (n : Bool) :
    eqv (.version [0] true true v r) (.version [0] true false v r) = false ∧
    eqv (.version [-1] false true v r) (.version [0, 1] false false v r) = true ∧
    eqv (.version [0] false false v none) (.version [0] false false v (some ['0'])) = false ∧
    eqv (.useDefault true fl n) (.useDefault false fl n) = false ∧
    (eqv (.verGlob v (some ['1'])) (.verGlob v (some ['0', '1'])) = true ∧
      hashKey (.verGlob v (some ['1'])) = hashKey (.verGlob v (some ['0', '1']))) := by
  refine ⟨?_, ?_, ?_, ?_, ?_, ?_⟩
  · simp [eqv, convertOps]
  · simp [eqv, convertOps]
  · simp [eqv]
  · simp [eqv]
  · simp [eqv, revInt, Pkgcore.C01.natOfDigits]
  · simp [hashKey, revInt, Pkgcore.C01.natOfDigits]

/-- atoms (C02's equality): a strong blocker is not a weak one, spelling of the version and order of the USE deps do
not matter — and such equal atoms are interchangeable by the two theorems above -/
theorem atom_equalities :
    let v : Pkgcore.C01.Ver := ⟨[['1'], ['0']], none, []⟩
    let v' : Pkgcore.C01.Ver := ⟨[['1'], ['0', '0']], none, []⟩
    eqv (.atom { exAtom "a" "b" none none with blocks := true, strong := true })
        (.atom { exAtom "a" "b" none none with blocks := true }) = false ∧
    eqv (.atom (exAtom "a" "b" (some (.eq, v, [])) none)) (.atom (exAtom "a" "b" (some (.eq, v', ['0'])) none)) = true ∧
    eqv (.atom (exAtom "a" "b" none (some ["x", "y"]))) (.atom (exAtom "a" "b" none (some ["y", "x"]))) = true := by
  refine ⟨by decide, by decide, ?_⟩
  simp only [eqv, beq_iff_eq]
  rw [atomEq_iff_canon _ _ (by simp [exAtom, Pkgcore.C02.Spec.Atom.WF, Pkgcore.C02.Atom.vr, Pkgcore.C02.Spec.vrWF])
    (by simp [exAtom, Pkgcore.C02.Spec.Atom.WF, Pkgcore.C02.Atom.vr, Pkgcore.C02.Spec.vrWF])]
  simp only [Pkgcore.C02.Spec.atomCanon, exAtom, Pkgcore.C02.Atom.useAttr, Option.map_some, List.map]
  rw [Pkgcore.C02.sortUse_perm _ _ (List.Perm.swap _ _ [])]
  rfl

/-- **`atom.match` as C04 models it reads an atom only through its canonical form.**  `mtch` takes the match of an atom
to be `env.atomMatch (atomCanon a)` — an arbitrary function *of the canonical form* — so for atoms "equal ⇒ same
match" holds in the C07 model by construction.  This theorem discharges that modelling choice against the real
matching model: `C04.atomMatch` (the `AndRestriction` over `atom.restrictions`: repository, package, category, version
restriction incl. `=*` and `negate_vers`, slot, sub-slot, the `StaticUseDep`/`UseDepDefault` restrictions built by
`_parse_nontransitive_use`) on the record `C03.toC04 a` (the same attributes, USE tokens lexed as
`_parse_nontransitive_use` lexes them) gives the same verdict for two atoms with the same `C02.Spec.atomCanon` — the
spelling of the version (`1.0`/`1.00`, `_rc`/`_rc0`, `-r0`/none/`-r00`), the order of the USE deps, `!`/`!!` and the
slot operator being all the canonical form forgets or keeps without `match` reading it.
Hypotheses: valid versions (`atomOkB`, `Pkg.WF`: what `isvalid_version_re` accepts, for the atoms and the package) and
`slotPartsOkB` (a written slot / sub-slot is not the empty string — `atom.__init__` rejects `a/b:`, `a/b:0/`), without
which the canonical form's `slot or ""` cannot tell "no slot" from "slot ''" (`atom_match_canon_needs_slot_parts`). -/
theorem atom_match_depends_only_on_canon (a b : Pkgcore.C02.Atom) (ha : atomOkB a = true) (hb : atomOkB b = true)
    (hsa : slotPartsOkB a = true) (hsb : slotPartsOkB b = true)
    (h : Pkgcore.C02.Spec.atomCanon a = Pkgcore.C02.Spec.atomCanon b) :
    ∀ p : Pkgcore.C04.Pkg, Pkgcore.C04.Spec.Pkg.WF p →
      Pkgcore.C04.atomMatch (Pkgcore.C03.toC04 a) p = Pkgcore.C04.atomMatch (Pkgcore.C03.toC04 b) p :=
  fun p hp => atomMatch_of_canon a b ha hb hsa hsb h p hp

/-- not vacuous: `=a/b-1.0[x,-y(-)]` and `=a/b-1.00-r0[-y(-),x]` are different records with one canonical form, and
both match `a/b-1.0` with `IUSE=x USE=x` (the `(-)` default decides the missing flag `y`) -/
example :
    let v : Pkgcore.C01.Ver := ⟨[['1'], ['0']], none, []⟩
    let v' : Pkgcore.C01.Ver := ⟨[['1'], ['0', '0']], none, []⟩
    let a := exAtom "a" "b" (some (.eq, v, [])) (some ["x", "-y(-)"])
    let b := exAtom "a" "b" (some (.eq, v', ['0'])) (some ["-y(-)", "x"])
    let p : Pkgcore.C04.Pkg := ⟨['a'], ['b'], v, [], ['0'], ['0'], ['r'], [['x']], [['x']]⟩
    (atomOkB a = true ∧ atomOkB b = true ∧ slotPartsOkB a = true ∧ slotPartsOkB b = true ∧ a.use ≠ b.use ∧
      Pkgcore.C04.atomMatch (Pkgcore.C03.toC04 a) p = true ∧ Pkgcore.C04.atomMatch (Pkgcore.C03.toC04 b) p = true) ∧
    Pkgcore.C02.Spec.atomCanon a = Pkgcore.C02.Spec.atomCanon b ∧ Pkgcore.C04.Spec.Pkg.WF p := by
  refine ⟨by decide, ?_, ?_⟩
  · simp only [Pkgcore.C02.Spec.atomCanon, exAtom, Pkgcore.C02.Atom.useAttr, Option.map_some, List.map]
    rw [Pkgcore.C02.sortUse_perm _ _ (List.Perm.swap _ _ [])]
    rfl
  · refine ⟨by simp, ?_⟩
    intro c hc
    simp only [List.mem_cons, List.not_mem_nil, or_false] at hc
    rcases hc with rfl | rfl <;> exact ⟨by simp, by decide⟩

/-- the slot hypothesis is needed (and only excludes records no atom has): "no slot" and "slot `''`" share a canonical
form — `atom._hash` / `__cmp__` use `slot or ""` — but only the second carries a `SlotDep` -/
theorem atom_match_canon_needs_slot_parts :
    let a := exAtom "a" "b" none none
    let b := { exAtom "a" "b" none none with slot := some [] }
    let p : Pkgcore.C04.Pkg := ⟨['a'], ['b'], ⟨[['1']], none, []⟩, [], ['0'], ['0'], ['r'], [], []⟩
    Pkgcore.C02.Spec.atomCanon a = Pkgcore.C02.Spec.atomCanon b ∧ slotPartsOkB b = false ∧
    Pkgcore.C04.atomMatch (Pkgcore.C03.toC04 a) p = true ∧ Pkgcore.C04.atomMatch (Pkgcore.C03.toC04 b) p = false := by
  intro a b p
  exact ⟨rfl, by decide, by decide, by decide⟩

/-- the same, in the shape the model uses it: **there is a function of the canonical form that is C04's `atom.match`**
— the `atomMatch` field of `Env` applied to `atomCanon a` in `mtch` stands for this function -/
theorem atom_match_factors_through_canon :
    ∃ f : AtomCanon → Pkgcore.C04.Pkg → Bool,
      ∀ a : Pkgcore.C02.Atom, atomOkB a = true → slotPartsOkB a = true → ∀ p, Pkgcore.C04.Spec.Pkg.WF p →
        Pkgcore.C04.atomMatch (Pkgcore.C03.toC04 a) p = f (Pkgcore.C02.Spec.atomCanon a) p := by
  classical
  refine ⟨fun c p =>
    if h : ∃ a, atomOkB a = true ∧ slotPartsOkB a = true ∧ Pkgcore.C02.Spec.atomCanon a = c
    then Pkgcore.C04.atomMatch (Pkgcore.C03.toC04 h.choose) p else false, ?_⟩
  intro a ha hs p hp
  have hex : ∃ a', atomOkB a' = true ∧ slotPartsOkB a' = true ∧
      Pkgcore.C02.Spec.atomCanon a' = Pkgcore.C02.Spec.atomCanon a := ⟨a, ha, hs, rfl⟩
  obtain ⟨h1, h2, h3⟩ := hex.choose_spec
  show _ = dite _ _ _
  rw [dif_pos hex]
  exact atom_match_depends_only_on_canon a _ ha h1 hs h2 h3.symm p hp

/-- **atoms that compare equal (`atom.__eq__`, C02) are matched alike by C04's `atom.match`** — the atom case of
`eq_implies_same_match`, with the match of C04 in place of the environment's -/
theorem equal_atoms_same_c04_match (a b : Pkgcore.C02.Atom) (ha : wf (.atom a) = true) (hb : wf (.atom b) = true)
    (hsa : slotPartsOkB a = true) (hsb : slotPartsOkB b = true) (h : eqv (.atom a) (.atom b) = true)
    (p : Pkgcore.C04.Pkg) (hp : Pkgcore.C04.Spec.Pkg.WF p) :
    Pkgcore.C04.atomMatch (Pkgcore.C03.toC04 a) p = Pkgcore.C04.atomMatch (Pkgcore.C03.toC04 b) p := by
  simp only [wf] at ha hb
  simp only [eqv, beq_iff_eq] at h
  exact atom_match_depends_only_on_canon a b ha hb hsa hsb
    ((atomEq_iff_canon a b (atomWF_of_ok a ha) (atomWF_of_ok b hb)).mp h) p hp

example :
    let v : Pkgcore.C01.Ver := ⟨[['1'], ['0']], none, []⟩
    let v' : Pkgcore.C01.Ver := ⟨[['1'], ['0', '0']], none, []⟩
    let a := exAtom "a" "b" (some (.glob, v, [])) none
    let b := exAtom "a" "b" (some (.glob, v', ['0', '0'])) none
    wf (.atom a) = true ∧ wf (.atom b) = true ∧ slotPartsOkB a = true ∧ slotPartsOkB b = true ∧
      eqv (.atom a) (.atom b) = true := by decide

/-- **a restriction-keyed cache never answers with a result computed for a different query.**
`cache` is a Python dict whose entries were all stored as `compute key` (the invariant of `caching_repo.match` and of
the `lru_cache` on `_compiled_constraints`), `compute` depends on its argument only through what it matches (a
repository query is `filter (match r) packages`, C08).  Then whatever a lookup with key `k` returns is `compute k`. -/
theorem cache_lookup_sound {V : Type} (H : HK → Int) (compute : Restr → V) (cache : List (Restr × V)) (k : Restr)
    (v : V) (hcomp : ∀ a b, SameMatch a b → compute a = compute b)
    (hinv : ∀ p ∈ cache, p.2 = compute p.1) (hwf : ∀ p ∈ cache, wf p.1 = true) (hk : wf k = true)
    (h : lookup H cache k = some v) : v = compute k := by
  obtain ⟨k', hm, he, _⟩ := lookup_some H cache k v h
  have h1 : v = compute k' := hinv (k', v) hm
  rw [h1]
  exact hcomp k' k (eq_implies_same_match k' k (hwf (k', v) hm) hk he)

/-- and it does answer when an equal key is stored (this is where equal hashes are needed) -/
theorem cache_hit_complete {V : Type} (H : HK → Int) (hH : ∀ k k', hkEq k k' = true → H k = H k')
    (cache : List (Restr × V)) (k k' : Restr) (v : V) (hm : (k', v) ∈ cache) (hk' : wf k' = true) (hk : wf k = true)
    (he : eqv k' k = true) : (lookup H cache k).isSome = true :=
  lookup_hit H cache k k' v hm he (hH _ _ (eqv_hash k' k hk' hk he))

/-- the instance for `caching_repo`: the cached answer for `k` is the list of packages `k` matches -/
theorem caching_repo_sound (env : Env) (H : HK → Int) (pkgs : List Value) (cache : List (Restr × List Value))
    (k : Restr) (v : List Value)
    (hinv : ∀ p ∈ cache, p.2 = pkgs.filter (fun x => mtch env p.1 x)) (hwf : ∀ p ∈ cache, wf p.1 = true)
    (hk : wf k = true) (h : lookup H cache k = some v) : v = pkgs.filter (fun x => mtch env k x) :=
  cache_lookup_sound H (fun r => pkgs.filter (fun x => mtch env r x)) cache k v
    (fun a b hab => by simp only [hab env]) hinv hwf hk h

/-- not vacuous: a cache holding the answer for `=a/b-1.0`, queried with `=a/b-1.00-r0` -/
example :
    let k' := Restr.atom (exAtom "a" "b" (some (.eq, ⟨[['1'], ['0']], none, []⟩, [])) none)
    let k := Restr.atom (exAtom "a" "b" (some (.eq, ⟨[['1'], ['0', '0']], none, []⟩, ['0'])) none)
    lookup (fun _ => 7) [(Restr.obj 3, 10), (k', 11)] k = some 11 := by
  decide

/-- **the hash of a boolean node does not depend on how the node was assembled**: after any sequence of `hash` /
`add_restriction` / `finalize` calls on a node created with `finalize=False`, a cached hash exists only if the node is
finalized, and it is the hash of the node's final children — the same key a node built in one go from those children
hashes.  (What was hashed, and when, during construction is irrelevant: an unfinalized node refuses to be hashed.) -/
theorem builder_hash_history_independent (k : Kind) (t : Nat) (n : Bool) (cs0 : List Restr) (ops : List BOp) :
    let b := brun k t n ⟨cs0, false, none⟩ ops
    ∀ h, b.cached = some h → b.finalized = true ∧ h = hashKey (.bool k t n b.cs) := by
  have inv : ∀ (ops : List BOp) (b : Builder),
      (∀ h, b.cached = some h → b.finalized = true ∧ h = hashKey (.bool k t n b.cs)) →
      ∀ h, (brun k t n b ops).cached = some h →
        (brun k t n b ops).finalized = true ∧ h = hashKey (.bool k t n (brun k t n b ops).cs) := by
    intro ops
    induction ops with
    | nil => intro b hb; exact hb
    | cons op ops ih =>
      intro b hb
      simp only [brun]
      apply ih
      cases op with
      | hash =>
        simp only [bstep]
        cases hc : b.cached with
        | some v => simpa [hc] using hb
        | none =>
          by_cases hf : b.finalized = true
          · simp only [hf, if_true]
            intro h hh
            simp only [Option.some.injEq] at hh
            exact ⟨trivial, hh.symm⟩
          · simp only [hf, Bool.false_eq_true, if_false]
            intro h hh; rw [hc] at hh; cases hh
      | add rs =>
        simp only [bstep]
        split
        · exact hb
        · split
          · exact hb
          · rename_i hnf
            intro h hh
            have := (hb h hh).1
            exact absurd this hnf
      | finalize =>
        simp only [bstep]
        intro h hh
        exact ⟨trivial, (hb h hh).2⟩
  exact inv ops ⟨cs0, false, none⟩ (fun h hh => by cases hh)

/-- not vacuous: hash refused while building, children added, finalized, hashed -/
example :
    let b := brun .and 2 false ⟨[.obj 1], false, none⟩ [.hash, .add [.obj 2], .hash, .finalize, .hash, .add [.obj 3]]
    b.finalized = true ∧ b.cs.length = 2 ∧ b.cached.isSome = true := by decide

/-- **instance caches are transparent: what a restriction matches does not depend on which other restrictions are
alive when it is built.**  `cachedBuild step s d` builds the description `d` bottom-up through the instance caches
(`WeakInstMeta`: every constructor call may be answered with an alive instance found by a dict lookup of its
arguments, children included); `step` / `s` are an arbitrary cache policy and state, constrained only by what a dict
lookup guarantees (`HitsEqual`: a hit is an instance that compares equal to the one asked for).  The object handed
out matches exactly what `d` built alone matches — whatever was built before. -/
theorem instance_cache_transparent {σ : Type} (step : σ → Restr → Option Restr × σ) (hstep : HitsEqual step) (s : σ)
    (d : Restr) (hd : wf d = true) : SameMatch (cachedBuild step s d).1 d :=
  fun env x => (cachedBuild_spec step hstep env d s hd).2 x

/-- the instance for the real cache — a dict lookup (hash and `==`) among the alive instances, misses registered: the
result of building `d` matches the same whatever two sets of instances `alive`, `alive'` were built before -/
theorem build_history_irrelevant (H : HK → Int) (alive alive' : Alive) (d : Restr) (hd : wf d = true) :
    SameMatch (cachedBuild (aliveStep H) alive d).1 d ∧
    SameMatch (cachedBuild (aliveStep H) alive d).1 (cachedBuild (aliveStep H) alive' d).1 := by
  have h1 := instance_cache_transparent (aliveStep H) (aliveStep_hitsEqual H) alive d hd
  have h2 := instance_cache_transparent (aliveStep H) (aliveStep_hitsEqual H) alive' d hd
  exact ⟨h1, fun env x => (h1 env x).trans (h2 env x).symm⟩

/-- not vacuous, both ways: with the AND tree of `c/p[-x,y]` (plain containments) alive, building the tree of
`c/p[-x(-),y(-)]` (use-dep-default containments over the same flags, same `all`/`negate` shape, same hash) is *not*
answered from the cache — the containments are unequal — while building `[y,-x]`'s plain tree again is. -/
example :
    let x : Str := ['x']
    let y : Str := ['y']
    let plain := Restr.bool .and 1 false [.contain [x] false true, .contain [y] true false]
    let dflt := Restr.bool .and 1 false [.useDefault false [x] true, .useDefault false [y] false]
    let alive : Alive := ⟨[plain], by decide⟩
    hkEq (hashKey plain) (hashKey dflt) = true ∧
    (match (cachedBuild (aliveStep fun _ => 0) alive dflt).1 with
      | .bool _ _ _ [.useDefault _ _ _, .useDefault _ _ _] => true | _ => false) = true ∧
    (cachedBuild (aliveStep fun _ => 0) alive dflt).2.val.length = 2 ∧
    (cachedBuild (aliveStep fun _ => 0) alive plain).2.val.length = 3 := by
  decide

end Pkgcore.C07
