import Pkgcore.Proofs.C37
/-!
# C37 — Bugzilla searches keep their meaning when rendered, combined and batched

Property theorems only (helper lemmas live in `Pkgcore/Proofs/C37.lean`).
`BugQuery.params`, `.and`, `.anyOf`, `.batches` mirror `pkgcore.bugzilla.query`; `Spec.readCharts`,
`Spec.meaning` are the reference Bugzilla reader / evaluator.
-/
namespace Pkgcore.C37
open Pkgcore.C37.Spec

/-- what every query built from the named constructors, `&`, `any_of`, `paged` satisfies: no condition is
called `OP`/`CP`, and no plain key is listed twice -/
structure BugQuery.WF (q : BugQuery) : Prop where
  charts : Chart.WFs q.charts
  keys : KeysNodup q.simple

/-! ## rendering -/

/-- **every chart condition and group marker gets a unique slot**: the `f` parameters of a rendered search
are, in order of appearance, exactly `f1, f2, …, fn` (each slot once, no gaps), and every other chart
parameter (`o`, `v`, `j`, `n`) carries one of these slot numbers.  No hypothesis on the query. -/
theorem slots_unique_consecutive (q : BugQuery) :
    fKeys q.params = (List.range' 1 ((renderCharts q.charts 1).2 - 1)).map Key.f ∧
    ∀ p ∈ q.params, ∀ k, slotOf p.1 = some k → 1 ≤ k ∧ k ≤ (renderCharts q.charts 1).2 - 1 := by
  constructor
  · simp only [BugQuery.params, fKeys_append, (noSlots_simple _).fKeys, (noSlots_paging _).fKeys, fKeys_charts]
    simp
  · intro p hp k hk
    simp only [BugQuery.params, List.mem_append] at hp
    rcases hp with (hp | hp) | hp
    · rw [noSlots_simple _ p hp] at hk; cases hk
    · obtain ⟨k', hk', h1, h2⟩ := renderCharts_inRange q.charts 1 p hp
      rw [hk] at hk'; cases hk'
      omega
    · rw [noSlots_paging _ p hp] at hk; cases hk

example : fKeys (BugQuery.params { charts := [.group "OR" [.crit ⟨"keywords", "anywords", ["x"], false, false⟩],
    .crit ⟨"tag", "nowordssubstr", ["y"], true, false⟩] }) = [.f 1, .f 2, .f 3, .f 4] := by decide

/-- **group open/close markers are balanced**: scanning the `f` values of a rendered search, the nesting
depth never drops below zero and ends at zero -/
theorem groups_balanced (q : BugQuery) (hwf : Chart.WFs q.charts) : balanced (fVals q.params) 0 = true := by
  simp only [BugQuery.params, fVals_append, (noSlots_simple _).fVals, (noSlots_paging _).fVals,
    List.nil_append, List.append_nil]
  have := balanced_charts q.charts 1 [] 0 hwf
  rw [List.append_nil] at this
  rw [this]; rfl

/-- **reading a rendered search with the reference Bugzilla chart reader gives back exactly its charts**
(so rendering loses and invents nothing, whatever the nesting) -/
theorem read_render_roundtrip (q : BugQuery) (hwf : Chart.WFs q.charts) :
    readCharts q.params = some (erase.eraseList q.charts) :=
  readCharts_params q hwf

example : Chart.WFs [.group "OR" [.crit ⟨"keywords", "anywords", ["x"], false, false⟩, .group "AND" []],
    .crit ⟨"tag", "nowordssubstr", ["y"], true, true⟩] := by
  simp [Chart.WFs, Chart.WF]

/-! ## `&` -/

/-- the invariant is established by the constructors and preserved by `&` -/
theorem and_preserves_wf (a b : BugQuery) (ha : a.WF) (hb : b.WF) : (a.and b).WF :=
  ⟨(Chart.WFs_append _ _).2 ⟨ha.charts, hb.charts⟩, (mention_mergeSimple a.simple b.simple ha.keys).1⟩

/-- … and by `any_of` -/
theorem anyOf_preserves_wf (qs : List BugQuery) (h : ∀ q ∈ qs, q.WF) (r : BugQuery) (hr : BugQuery.anyOf qs = some r) :
    r.WF := by
  have hall : ∀ l : List BugQuery, (∀ q ∈ l, q.WF) → Chart.WFs (l.flatMap (·.charts)) := by
    intro l hl
    induction l with
    | nil => simp [Chart.WFs]
    | cons q l ih =>
      simp only [List.flatMap_cons, Chart.WFs_append]
      exact ⟨(hl q (List.mem_cons_self)).charts, ih (fun q' hq' => hl q' (List.mem_cons_of_mem _ hq'))⟩
  unfold BugQuery.anyOf at hr
  split at hr
  · cases hr
    exact ⟨by simp only [Chart.WFs, Chart.WF, and_true]; exact hall qs h, by simp [KeysNodup]⟩
  · cases hr

/-- the guard under which `&` is a conjunction: a plain key constrained by *both* operands carries the same
set of values on both sides -/
def SameKeyGuard (a b : BugQuery) : Prop :=
  ∀ k, (∃ v, Mention a.simple k v) → (∃ v, Mention b.simple k v) → ∀ v, Mention a.simple k v ↔ Mention b.simple k v

/-- the guard is decidable: `Spec.sameKeyGuardB` (what the driver and the harness evaluate) says the same -/
theorem sameKeyGuardB_iff (a b : BugQuery) : sameKeyGuardB a b = true ↔ SameKeyGuard a b := by
  simp only [sameKeyGuardB, List.all_eq_true, Bool.or_eq_true, Bool.and_eq_true, List.isEmpty_iff,
    List.contains_eq_mem, decide_eq_true_eq, mem_mentioned]
  constructor
  · intro h k ⟨v, hv⟩ ⟨w, hw⟩ u
    obtain ⟨vs, hm, _⟩ := id hv
    rcases h (k, vs) hm with (he | he) | ⟨h1, h2⟩
    · have : v ∈ mentioned a.simple k := (mem_mentioned _ _ _).2 hv
      simp only at he; rw [he] at this; cases this
    · have : w ∈ mentioned b.simple k := (mem_mentioned _ _ _).2 hw
      simp only at he; rw [he] at this; cases this
    · exact ⟨h1 u, h2 u⟩
  · rintro h ⟨k, vs⟩ hm
    simp only
    by_cases hea : mentioned a.simple k = []
    · exact Or.inl (Or.inl hea)
    by_cases heb : mentioned b.simple k = []
    · exact Or.inl (Or.inr heb)
    obtain ⟨v, hv⟩ := List.exists_mem_of_ne_nil _ hea
    obtain ⟨w, hw⟩ := List.exists_mem_of_ne_nil _ heb
    have := h k ⟨v, (mem_mentioned _ _ _).1 hv⟩ ⟨w, (mem_mentioned _ _ _).1 hw⟩
    exact Or.inr ⟨fun u hu => (this u).1 hu, fun u hu => (this u).2 hu⟩

/- The full statement

     theorem and_is_conjunction (a b) (ha : a.WF) (hb : b.WF) S I :
       meaning S I (a.and b).params = (meaning S I a.params && meaning S I b.params)

   is FALSE of the code (see `and_counterexample`): `_merge_simple` unions the values of a key that both
   operands constrain, and Bugzilla ORs the values of one key.  This is open finding
   `C37-same-key-values-unioned`; the theorem below holds under exactly the complementary guard. -/

/-- **`a & b` means `a` and `b`** for every bug (every interpretation `S`, `I` of the atomic facts), for all
well-formed searches — arbitrary nesting of groups, any number of conditions — whenever no plain key is
constrained to different value sets by the two operands. -/
theorem and_is_conjunction_partial (a b : BugQuery) (ha : a.WF) (hb : b.WF) (hg : SameKeyGuard a b)
    (S : String → String → Bool) (I : String → String → List String → Bool) :
    meaning S I (a.and b).params = (meaning S I a.params && meaning S I b.params) := by
  have hab := and_preserves_wf a b ha hb
  unfold meaning
  rw [readCharts_params _ hab.charts, readCharts_params _ ha.charts, readCharts_params _ hb.charts]
  have hcharts : evalAll I (erase.eraseList (a.and b).charts)
      = (evalAll I (erase.eraseList a.charts) && evalAll I (erase.eraseList b.charts)) := by
    simp only [BugQuery.and, eraseList_append, evalAll_append]
  have hsimple : simpleHolds S (a.and b).params = (simpleHolds S a.params && simpleHolds S b.params) := by
    rw [Bool.eq_iff_iff, Bool.and_eq_true, simpleHolds_params, simpleHolds_params, simpleHolds_params]
    have hm := (mention_mergeSimple a.simple b.simple ha.keys).2
    simp only [BugQuery.and, hm]
    constructor
    · intro h
      constructor
      · intro k v hv
        obtain ⟨v', hv' | hv', hs⟩ := h k v (Or.inl hv)
        · exact ⟨v', hv', hs⟩
        · exact ⟨v', (hg k ⟨v, hv⟩ ⟨v', hv'⟩ v').2 hv', hs⟩
      · intro k v hv
        obtain ⟨v', hv' | hv', hs⟩ := h k v (Or.inr hv)
        · exact ⟨v', (hg k ⟨v', hv'⟩ ⟨v, hv⟩ v').1 hv', hs⟩
        · exact ⟨v', hv', hs⟩
    · rintro ⟨h1, h2⟩ k v (hv | hv)
      · obtain ⟨v', hv', hs⟩ := h1 k v hv
        exact ⟨v', Or.inl hv', hs⟩
      · obtain ⟨v', hv', hs⟩ := h2 k v hv
        exact ⟨v', Or.inr hv', hs⟩
  simp only [hcharts, hsimple]
  cases simpleHolds S a.params <;> cases simpleHolds S b.params <;> simp

example : SameKeyGuard { simple := [("id", ["1", "2"])] } { simple := [("id", ["2", "1", "2"])] } := by
  intro k _ _ u
  simp only [Mention, List.mem_cons, Prod.mk.injEq, List.not_mem_nil, or_false]
  constructor
  · rintro ⟨vs, ⟨rfl, rfl⟩, hu⟩
    exact ⟨_, ⟨rfl, rfl⟩, by simp at hu ⊢; rcases hu with h | h <;> simp [h]⟩
  · rintro ⟨vs, ⟨rfl, rfl⟩, hu⟩
    exact ⟨_, ⟨rfl, rfl⟩, by simp at hu ⊢; rcases hu with h | h <;> simp [h]⟩

/-- the defect: `ids([1,2]) & ids([2,3])` renders ids 1, 2, 3 — bug 1 satisfies the combination but not the
right operand -/
theorem and_counterexample :
    ∃ (a b : BugQuery) (S : String → String → Bool) (I : String → String → List String → Bool),
      a.WF ∧ b.WF ∧ meaning S I (a.and b).params ≠ (meaning S I a.params && meaning S I b.params) := by
  refine ⟨{ simple := [("id", ["1", "2"])] }, { simple := [("id", ["2", "3"])] },
    (fun _ v => v == "1"), (fun _ _ _ => true), ⟨trivial, by simp [KeysNodup]⟩, ⟨trivial, by simp [KeysNodup]⟩, ?_⟩
  decide

/-! ## batching -/

/-- without a splittable axis the search is its own single batch -/
theorem batches_no_axis (el : String → Nat) (q : BugQuery) (base max : Int) (h : q.splitAxis = none) :
    q.batches el base max = [q] := by
  simp [BugQuery.batches, h]

/-- **batches partition the split values in their original order**: reading, in every batch, the values
rendered under the axis key (`id`, or `v<slot>` of the split condition) and concatenating them over the batches
gives exactly the values the search itself renders there (= the values of the chosen axis); and no batch is
empty unless there is nothing to split.  For all budgets and all cost functions `el`. -/
theorem batches_partition_in_order (el : String → Nat) (q : BugQuery) (hwf : q.WF) (base max : Int)
    (c : Candidate) (hc : q.splitAxis = some c) :
    ((q.batches el base max).flatMap fun b => valuesOf b.params (axisKey q c.axis))
        = valuesOf q.params (axisKey q c.axis) ∧
    valuesOf q.params (axisKey q c.axis) = c.values ∧
    (c.values ≠ [] → ∀ b ∈ q.batches el base max, valuesOf b.params (axisKey q c.axis) ≠ []) := by
  obtain ⟨A, B, hs, _⟩ := shape_of_splitAxis q hwf.keys c hc
  have hflat := batchLoop_flatten (fun value => el c.key + 1 + el value + 1)
    (max - base - ↑(urlLen el (q.rebuild c.axis []).params)) c.values [] 0
  have hid : ∀ l : List (List String), l.flatMap (fun x => x) = l.flatten := by
    intro l; induction l <;> simp_all
  refine ⟨?_, hs.values, ?_⟩
  · rw [hs.values]
    simp only [BugQuery.batches, hc, List.flatMap_map, hs.valuesOf_rebuilt]
    rw [hid, hflat, List.nil_append]
  · intro hne b hb
    simp only [BugQuery.batches, hc] at hb
    obtain ⟨vals, hv, rfl⟩ := List.mem_map.1 hb
    rw [hs.valuesOf_rebuilt]
    exact batchLoop_nonempty _ _ _ _ _ (Or.inr hne) vals hv

/-- **every other parameter is repeated unchanged in each batch**: dropping the axis values, each batch renders
exactly the parameters of the search itself, in the same order -/
theorem batches_repeat_rest (el : String → Nat) (q : BugQuery) (hwf : q.WF) (base max : Int)
    (c : Candidate) (hc : q.splitAxis = some c) :
    ∀ b ∈ q.batches el base max,
      b.params.filter (fun p => p.1 ≠ axisKey q c.axis) = q.params.filter (fun p => p.1 ≠ axisKey q c.axis) := by
  obtain ⟨A, B, hs, _⟩ := shape_of_splitAxis q hwf.keys c hc
  intro b hb
  simp only [BugQuery.batches, hc, List.mem_map] at hb
  obtain ⟨vals, _, rfl⟩ := hb
  rw [hs.rest_rebuilt, hs.rest]

/-- **each batch stays within the URL budget whenever a single value fits**: if the search has values to split
and every one of them, alone with the fixed parameters, fits `max_length - base_length`, then so does every batch.
For every length function `el` (the quoted length of a string) under which the key the values are really rendered
with (`v<slot>`) is not longer than the key the code prices them with (the field name) — for the `id` axis these
are the same key, for `package_list_any` it is `v<slot>` against `cf_stabilisation_atoms`. -/
theorem batch_within_budget (el : String → Nat) (q : BugQuery) (hwf : q.WF) (base max : Int)
    (c : Candidate) (hc : q.splitAxis = some c) (hne : c.values ≠ [])
    (hkey : ∀ idx, c.axis = .chart idx → el (axisKey q c.axis).toString ≤ el c.key)
    (hfit : ∀ v ∈ c.values, base + (urlLen el (q.rebuild c.axis [v]).params : Int) ≤ max) :
    ∀ b ∈ q.batches el base max, base + (urlLen el b.params : Int) ≤ max := by
  obtain ⟨A, B, hs, hax⟩ := shape_of_splitAxis q hwf.keys c hc
  have hk : el (axisKey q c.axis).toString ≤ el c.key := by
    rcases hax with ⟨key, h1, h2⟩ | ⟨idx, h⟩
    · rw [h1, ← h2]; simp [axisKey, Key.toString]
    · exact hkey idx h
  intro b hb
  simp only [BugQuery.batches, hc, List.mem_map] at hb
  obtain ⟨vals, hv, rfl⟩ := hb
  have hnonempty := batchLoop_nonempty _ _ _ _ _ (Or.inr hne) vals hv
  have hbound := batchLoop_bound (fun value => el c.key + 1 + el value + 1)
    (max - base - ↑(urlLen el (q.rebuild c.axis []).params)) c.values [] 0 (by simp [costSum]) (Or.inl (by simp))
    vals hv
  rcases hbound with hlen | hsum
  · -- a single value: fits by hypothesis
    match vals, hnonempty, hlen, hv with
    | [v], _, _, hv =>
      refine hfit v ?_
      have := batchLoop_flatten (fun value => el c.key + 1 + el value + 1)
        (max - base - ↑(urlLen el (q.rebuild c.axis []).params)) c.values [] 0
      rw [List.nil_append] at this
      rw [← this]
      exact List.mem_flatten.2 ⟨[v], hv, List.mem_singleton.2 rfl⟩
    | _ :: _ :: _, _, hlen, _ => simp at hlen
  · -- the loop kept the priced sum within the budget; the real sum is not larger
    have hreal := costSum_mono (fun v => el (axisKey q c.axis).toString + 1 + el v + 1)
      (fun value => el c.key + 1 + el value + 1) (fun v => by omega) vals
    have h1 := hs.sumLen_rebuilt el vals
    have h0 := hs.sumLen_rebuilt el []
    simp only [costSum, List.map_nil, List.sum_nil, Nat.add_zero] at h0
    simp only [urlLen] at hsum ⊢
    rw [h1]
    rw [h0] at hsum
    omega

example : BugQuery.splitAxis ⟨[("cc", ["x"]), ("id", ["1", "22", "333"])],
      [.crit ⟨"cf_stabilisation_atoms", "anywords", ["a/b", "c"], false, true⟩], none, none, none⟩
    = some ⟨"id", ["1", "22", "333"], .simple "id"⟩ := by decide

example : ((({ simple := [("id", ["1", "2", "3"]), ("cc", ["x"])] } : BugQuery).batches String.length 0 15).map (·.simple))
    = [[("cc", ["x"]), ("id", ["1", "2"])], [("cc", ["x"]), ("id", ["3"])]] := by decide

end Pkgcore.C37
