import Pkgcore.Proofs.C49
/-!
# C49 — generated metadata accumulates eclass values as PMS requires

Property theorems only (helper lemmas: `Pkgcore/Proofs/C49.lean`).  `run`/`inheritAll`/`loadFinish`/
`metadata` are the hand translation of `inherit()`, `__load_ebuild()`, `__dump_metadata_keys()` and
`_update_metadata` (after the `fix:` commit); `Spec.*` is the PMS description over the ebuild/eclass tree.
All theorems hold for arbitrary trees: any nesting depth, any number of statements, eclasses sourced
several times.
-/
namespace Pkgcore.C49
open Pkgcore.C49.Spec

/-- **accumulated keys**: after sourcing the ebuild, an accumulated variable holds the ebuild's *own*
value (its own statements, whatever the eclasses did to the variable), and its `E_` accumulator holds the
own values of all sourced eclasses — directly or indirectly inherited, each time it is sourced — in the
order their sourcing completes, empty ones skipped, separated by single blanks -/
theorem accumulated_eq_concat_in_source_order (A : List Str) (tree : List Stmt) (v : Str) (hv : v ∈ A) :
    (run A 0 [] tree St.init).vars v = own v tree none ∧
    (run A 0 [] tree St.init).acc v = eclassValue v tree := by
  have f := run_facts A 0 [] tree St.init
  refine ⟨f.accVar v hv, ?_⟩
  rw [f.accE v hv]
  rfl

example : kDEPEND ∈ accBase := by decide

/-- **other keys take the final value**: a variable that is not accumulated ends up with what the last
statement touching it — in the ebuild or in any eclass, in the order bash executes them — left in it -/
theorem other_keys_take_final_value (A : List Str) (tree : List Stmt) (v : Str) (hv : v ∉ A) :
    (run A 0 [] tree St.init).vars v = plainValue v tree :=
  (run_facts A 0 [] tree St.init).plainVar v hv

example : "DESCRIPTION".toList ∉ accBase ++ accExtra := by decide

/-- **INHERITED names every eclass sourced**, directly or indirectly, in the order the sourcing completes;
INHERIT lists the eclasses the ebuild itself names -/
theorem inherited_names_all (A : List Str) (tree : List Stmt) :
    (run A 0 [] tree St.init).inherited = (sourced tree).map (·.1) ∧
    (run A 0 [] tree St.init).direct = directInherits tree := by
  have f := run_facts A 0 [] tree St.init
  exact ⟨by simpa [St.init] using f.inh, by simpa [St.init] using f.dirs⟩

/-- **DEFINED_PHASES lists exactly the phase functions the ebuild or its eclasses define** (a function
defined by `EXPORT_FUNCTIONS` counts), `-` (the empty list) exactly when there is none -/
theorem defined_phases_exact (e : EapiInfo) (tree : List Stmt) (p : Str) :
    (run e.accumulated 0 [] tree St.init).funcs = definedFuncs tree ∧
    (p ∈ (metadata e tree).definedPhases ↔ ∃ f, (f, p) ∈ e.phases ∧ f ∈ definedFuncs tree) := by
  have f := run_facts e.accumulated 0 [] tree St.init
  have hf : (run e.accumulated 0 [] tree St.init).funcs = definedFuncs tree := by
    rw [definedFuncs_eq, f.fns]; simp [St.init]
  refine ⟨hf, ?_⟩
  unfold metadata
  simp only [mem_sortStrs, List.mem_eraseDups, List.mem_map, List.mem_filter, hf]
  constructor
  · rintro ⟨⟨f', p'⟩, ⟨hm, hc⟩, rfl⟩
    exact ⟨f', hm, by simpa using hc⟩
  · rintro ⟨f', hm, hc⟩
    exact ⟨(f', p), ⟨hm, by simpa using hc⟩, rfl⟩

/-- **a phase made default through `EXPORT_FUNCTIONS` is a defined phase function, wherever the call stands**:
if any eclass sourced for the ebuild (directly or through nested inherits; `me` is that eclass) executes
`EXPORT_FUNCTIONS … f …` and `f` is a phase function of the EAPI, its phase is in DEFINED_PHASES.  There is
no hypothesis about `<eclass>_f`: it may be defined before the call, after it (the traditional placement of
`EXPORT_FUNCTIONS` right after the EAPI check), in another file, or not at all -/
theorem exported_phase_is_defined (e : EapiInfo) (tree : List Stmt) (me : Str) (ps : List Str) (f p : Str)
    (hx : (me, Stmt.export ps) ∈ flat [] tree) (hf : f ∈ ps) (hp : (f, p) ∈ e.phases) :
    p ∈ (metadata e tree).definedPhases := by
  refine ((defined_phases_exact e tree p).2).2 ⟨f, hp, ?_⟩
  rw [definedFuncs_eq, List.mem_flatMap]
  exact ⟨(me, Stmt.export ps), hx, by simpa [defsOf] using hf⟩

/-- the eclass exports `src_compile` *before* defining `early_src_compile`, nested below another eclass -/
example : ("early".toList, Stmt.export ["src_compile".toList]) ∈
    flat [] [.inherit [("outer".toList, [.inherit [("early".toList,
      [.export ["src_compile".toList], .func "early_src_compile".toList])]])]] := by
  simp [flat, flatEcls]

/-- **the whole metadata is what PMS prescribes**: every emitted key (accumulated keys incl. the EAPI 0–3
RDEPEND default applied to the ebuild's own DEPEND before the eclass values are added; plain keys;
whitespace normalised; empty values dropped), DEFINED_PHASES, INHERIT and INHERITED of the translated
code equal the tree-level description -/
theorem metadata_eq_spec (e : EapiInfo) (tree : List Stmt) (hR : kRDEPEND ∈ e.accumulated)
    (hD : kDEPEND ∈ e.accumulated) : metadata e tree = Spec.metadata e tree := by
  have f := run_facts e.accumulated 0 [] tree St.init
  have hf : (run e.accumulated 0 [] tree St.init).funcs = definedFuncs tree := by
    rw [definedFuncs_eq, f.fns]; simp [St.init]
  have hin : (run e.accumulated 0 [] tree St.init).inherited = (sourced tree).map (·.1) := by
    simpa [St.init] using f.inh
  have hdir : (run e.accumulated 0 [] tree St.init).direct = directInherits tree := by
    simpa [St.init] using f.dirs
  have hkey : ∀ k, dumpKey (loadFinish e.accumulated e.rdependDefault (run e.accumulated 0 [] tree St.init)) k
      = (match keyValue e tree k with
         | some v => if v = [] then none else some (normalise v)
         | none => none) := by
    intro k
    have hRv : (run e.accumulated 0 [] tree St.init).vars kRDEPEND = own kRDEPEND tree none :=
      f.accVar _ hR
    have hDv : (run e.accumulated 0 [] tree St.init).vars kDEPEND = own kDEPEND tree none :=
      f.accVar _ hD
    unfold dumpKey loadFinish keyValue
    by_cases hk : k ∈ e.accumulated
    · have hkv : (run e.accumulated 0 [] tree St.init).vars k = own k tree none := f.accVar k hk
      have hecl : (run e.accumulated 0 [] tree St.init).acc k = eclassValue k tree := by rw [f.accE k hk]; rfl
      simp only [hk, if_true, hecl]
      by_cases hdef : e.rdependDefault = true ∧ (run e.accumulated 0 [] tree St.init).vars kRDEPEND = none
      · simp only [hdef, and_self, if_true]
        by_cases hkr : k = kRDEPEND
        · subst hkr
          have : own kRDEPEND tree none = none := by rw [← hRv]; exact hdef.2
          simp [setVar, this, hdef.1, hDv]
        · have hne : ¬ (k = kRDEPEND ∧ e.rdependDefault = true ∧ own k tree none = none) := by
            intro h; exact hkr h.1
          simp [setVar, hkr, hne, hkv]
      · have hne : ¬ (k = kRDEPEND ∧ e.rdependDefault = true ∧ own k tree none = none) := by
          rintro ⟨rfl, h1, h2⟩
          exact hdef ⟨h1, by rw [hRv]; exact h2⟩
        simp only [hdef, if_false, hne, hkv]
    · have hkv : (run e.accumulated 0 [] tree St.init).vars k = plainValue k tree := f.plainVar k hk
      have hkr : k ≠ kRDEPEND := fun h => hk (h ▸ hR)
      simp only [hk, if_false]
      have : (if e.rdependDefault = true ∧ (run e.accumulated 0 [] tree St.init).vars kRDEPEND = none
          then setVar (run e.accumulated 0 [] tree St.init).vars kRDEPEND
            (some (((run e.accumulated 0 [] tree St.init).vars kDEPEND).getD []))
          else (run e.accumulated 0 [] tree St.init).vars) k = plainValue k tree := by
        split
        · simp [setVar, hkr, hkv]
        · simp [hkv]
      rw [this]
      cases plainValue k tree <;> rfl
  have hfun : (fun k => (dumpKey (loadFinish e.accumulated e.rdependDefault (run e.accumulated 0 [] tree St.init)) k).map
        (fun x => (k, x))) =
      (fun k => match keyValue e tree k with
        | some v => if v = [] then none else some (k, normalise v)
        | none => none) := by
    funext k
    rw [hkey k]
    cases keyValue e tree k with
    | none => rfl
    | some v => by_cases hv : v = [] <;> simp [hv]
  unfold metadata Spec.metadata
  simp only [hf, hin, hdir, hfun]
  rfl

example : kRDEPEND ∈ (eapiInfo ⟨"5", false, [], []⟩).accumulated ∧
    kDEPEND ∈ (eapiInfo ⟨"5", false, [], []⟩).accumulated := by decide

def magicNat : String → Option Nat
  | "0" => some 0 | "1" => some 1 | "2" => some 2 | "3" => some 3 | "4" => some 4
  | "5" => some 5 | "6" => some 6 | "7" => some 7 | "8" => some 8 | _ => none

/-- the tables generated from `pkgcore.ebuild.eapi` follow PMS: PROPERTIES/RESTRICT accumulate from EAPI 8;
REQUIRED_USE is a key from 4, BDEPEND from 7, IDEPEND from 8; `src_prepare`/`src_configure` are phases
from 2, `pkg_pretend` from 4; every EAPI 0–8 is present and has the nine always-present keys -/
theorem eapi_table_is_pms :
    Generated.C49.eapis.map (·.magic) = ["0", "1", "2", "3", "4", "5", "6", "7", "8"] ∧
    (Generated.C49.eapis.all fun r =>
      match magicNat r.magic with
      | none => false
      | some n =>
        r.accumulatePR == decide (n ≥ 8) &&
        r.keys.contains "REQUIRED_USE" == decide (n ≥ 4) &&
        r.keys.contains "BDEPEND" == decide (n ≥ 7) &&
        r.keys.contains "IDEPEND" == decide (n ≥ 8) &&
        (r.phases.map (·.1)).contains "src_prepare" == decide (n ≥ 2) &&
        (r.phases.map (·.1)).contains "src_configure" == decide (n ≥ 2) &&
        (r.phases.map (·.1)).contains "pkg_pretend" == decide (n ≥ 4) &&
        ["DEPEND", "RDEPEND", "PDEPEND", "IUSE", "RESTRICT", "PROPERTIES", "SLOT", "KEYWORDS", "DESCRIPTION"].all
          (fun k => r.keys.contains k) &&
        r.phases.all (fun p => "pkg_" ++ p.2 == p.1 || "src_" ++ p.2 == p.1)) = true := by
  decide

end Pkgcore.C49
