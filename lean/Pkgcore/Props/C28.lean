import Pkgcore.Proofs.C28
/-!
# C28 — Manifest generation is deterministic, idempotent, parseable and atomic

Property theorems only.  `manifestText` mirrors the assembly in `Manifest.update` (scan loop, buckets,
ordering, `_manifest_line`), `parseManifest` mirrors `parse_manifest`, `updateOps` the file operations of
`update` after the `fix:` commit (`Model/C28.lean`); `Spec.expected` says component-wise what a Manifest
covers (`Spec/C28.lean`).
-/
namespace Pkgcore.C28
open Pkgcore.C24 Pkgcore.C28.Spec

/-- the scan-loop buckets of a listing in the domain -/
theorem buckets_of (scan : List ScanObj) (fetch : List Fetchable) (hd : Dom scan fetch) :
    scanLoop scan {} = some ⟨scan.filterMap (pick .aux), scan.filterMap (pick .ebuild), scan.filterMap (pick .misc)⟩ := by
  have := scanLoop_ok scan {} hd.layout hd.paths (by intro t x hx; cases t <;> simp [bucketB] at hx)
  simpa using this

/-- the records (type, name, checksums) a generated text consists of, in file order -/
def recordsOf (thin : Bool) (scan : List ScanObj) (fetch : List Fetchable) : List Rec :=
  (if thin then [] else (sortBy (·.1) (scan.filterMap (pick .aux))).map fun x => ⟨.aux, x.1, x.2⟩)
  ++ ((sortBy (·.filename) fetch).map fun f => ⟨.dist, baseName f.filename, f.sums⟩)
  ++ (if thin then [] else (sortBy (·.1) (scan.filterMap (pick .ebuild))).map fun x => ⟨.ebuild, x.1, x.2⟩)
  ++ (if thin then [] else (sortBy (·.1) (scan.filterMap (pick .misc))).map fun x => ⟨.misc, x.1, x.2⟩)

theorem manifestText_records (thin : Bool) (scan : List ScanObj) (fetch : List Fetchable) (hd : Dom scan fetch) :
    manifestText thin scan fetch = some ((recordsOf thin scan fetch).flatMap fun r => recBody r ++ ['\n']) := by
  unfold manifestText recordsOf
  cases thin with
  | true =>
    simp only [if_true, linesOf, sortBy, List.foldr_nil, List.flatMap_nil, List.nil_append, List.append_nil,
      List.flatMap_map]
    rfl
  | false =>
    simp only [Bool.false_eq_true, if_false, buckets_of scan fetch hd, linesOf, List.flatMap_append, List.flatMap_map]
    rfl

/-- **parse ∘ generate**: the generated text parses back to exactly the sizes and checksums of the
files and distfiles it covers (as dicts: up to order), for every listing/distfile set of the domain, thick
and thin. -/
theorem manifest_parse_render (thin : Bool) (scan : List ScanObj) (fetch : List Fetchable) (hd : Dom scan fetch) :
    ∃ text r, manifestText thin scan fetch = some text ∧ parseManifest text = some r ∧
      r.dist.Perm (expected thin scan fetch).dist ∧ r.aux.Perm (expected thin scan fetch).aux ∧
      r.ebuild.Perm (expected thin scan fetch).ebuild ∧ r.misc.Perm (expected thin scan fetch).misc := by
  -- facts about picked entries
  have hpick : ∀ t, ∀ x ∈ scan.filterMap (pick t), noSpace x.1 ∧ goodSums x.2 := by
    intro t x hx
    obtain ⟨o, ho, hp⟩ := pick_mem t scan x hx
    obtain ⟨_, hreg, hs, _, hk⟩ := pick_facts t o x hp
    exact ⟨hd.names o ho hreg t x.1 hk, hs ▸ hd.sums o ho⟩
  have hsorted_mem : ∀ (t : MType) x, x ∈ sortBy (·.1) (scan.filterMap (pick t)) → x ∈ scan.filterMap (pick t) :=
    fun t x hx => (sortBy_perm _ _).mem_iff.mp hx
  have hok : ∀ r ∈ recordsOf thin scan fetch, noSpace r.name ∧ goodSums r.sums := by
    intro r hr
    unfold recordsOf at hr
    simp only [List.mem_append] at hr
    rcases hr with ((hr | hr) | hr) | hr
    · cases thin <;> simp only [Bool.false_eq_true, if_false, if_true, List.not_mem_nil, List.mem_map] at hr
      obtain ⟨x, hx, rfl⟩ := hr
      exact hpick .aux x (hsorted_mem _ x hx)
    · obtain ⟨f, hf, rfl⟩ := List.mem_map.mp hr
      exact hd.distNames f ((sortBy_perm _ _).mem_iff.mp hf)
    · cases thin <;> simp only [Bool.false_eq_true, if_false, if_true, List.not_mem_nil, List.mem_map] at hr
      obtain ⟨x, hx, rfl⟩ := hr
      exact hpick .ebuild x (hsorted_mem _ x hx)
    · cases thin <;> simp only [Bool.false_eq_true, if_false, if_true, List.not_mem_nil, List.mem_map] at hr
      obtain ⟨x, hx, rfl⟩ := hr
      exact hpick .misc x (hsorted_mem _ x hx)
  -- per type, the records of that type
  have hfilter : ∀ t, (recordsOf thin scan fetch).filter (fun r => decide (r.t = t)) =
      match t with
      | .dist => (sortBy (·.filename) fetch).map fun f => ⟨.dist, baseName f.filename, f.sums⟩
      | .aux => if thin then [] else (sortBy (·.1) (scan.filterMap (pick .aux))).map fun x => ⟨.aux, x.1, x.2⟩
      | .ebuild => if thin then [] else (sortBy (·.1) (scan.filterMap (pick .ebuild))).map fun x => ⟨.ebuild, x.1, x.2⟩
      | .misc => if thin then [] else (sortBy (·.1) (scan.filterMap (pick .misc))).map fun x => ⟨.misc, x.1, x.2⟩ := by
    intro t
    unfold recordsOf
    cases thin <;> cases t <;>
      simp only [Bool.false_eq_true, if_false, if_true, List.filter_append, List.filter_nil, filter_map_type,
        List.append_nil, List.nil_append, reduceCtorEq]
  have hnd : ∀ t, (((recordsOf thin scan fetch).filter (fun r => decide (r.t = t))).map (·.name)).Nodup := by
    intro t
    rw [hfilter t]
    have hs : ∀ t', ((sortBy (·.1) (scan.filterMap (pick t'))).map (·.1)).Nodup := fun t' =>
      ((sortBy_perm (fun x : Str × Sums => x.1) (scan.filterMap (pick t'))).map (fun x : Str × Sums => x.1)).nodup_iff.mpr
        (picked_names_nodup t' scan hd.paths)
    cases t
    · simp only [List.map_map, Function.comp_def]
      exact ((sortBy_perm _ fetch).map fun f => baseName f.filename).nodup_iff.mpr hd.dist
    all_goals
      cases thin
      · simp only [Bool.false_eq_true, if_false, List.map_map, Function.comp_def]; exact hs _
      · simp
  obtain ⟨p, hp, hb⟩ := parse_recs (recordsOf thin scan fetch) hok hnd
  refine ⟨_, p, manifestText_records thin scan fetch hd, hp, ?_, ?_, ?_, ?_⟩
  · -- DIST
    have := hb .dist
    simp only [bucket] at this
    rw [this, hfilter .dist]
    have e : (expected thin scan fetch).dist = entries .dist scan fetch := by cases thin <;> rfl
    rw [e]
    simp only [entries, List.map_map, Function.comp_def]
    exact ((sortBy_perm _ fetch).map _).trans (sortBy_perm _ _).symm
  all_goals
    first
    | (have := hb .aux; simp only [bucket] at this; rw [this, hfilter .aux])
    | (have := hb .ebuild; simp only [bucket] at this; rw [this, hfilter .ebuild])
    | (have := hb .misc; simp only [bucket] at this; rw [this, hfilter .misc])
  · cases thin
    · simp only [Bool.false_eq_true, if_false, List.map_map, Function.comp_def, expected,
        entries_scan .aux (by simp), ← filterMap_pick_spec .aux (by simp) scan hd.layout]
      exact ((sortBy_perm _ _).map _).trans (sortBy_perm _ _).symm
    · simp [expected]
  · cases thin
    · simp only [Bool.false_eq_true, if_false, List.map_map, Function.comp_def, expected,
        entries_scan .ebuild (by simp), ← filterMap_pick_spec .ebuild (by simp) scan hd.layout]
      exact ((sortBy_perm _ _).map _).trans (sortBy_perm _ _).symm
    · simp [expected]
  · cases thin
    · simp only [Bool.false_eq_true, if_false, List.map_map, Function.comp_def, expected,
        entries_scan .misc (by simp), ← filterMap_pick_spec .misc (by simp) scan hd.layout]
      exact ((sortBy_perm _ _).map _).trans (sortBy_perm _ _).symm
    · simp [expected]

/-- **order independence**: the text does not depend on the order of the directory listing nor on the
order of the fetchables. -/
theorem manifest_order_independent (thin : Bool) (scan scan' : List ScanObj) (fetch fetch' : List Fetchable)
    (hd : Dom scan fetch) (hs : scan'.Perm scan) (hf : fetch'.Perm fetch) :
    manifestText thin scan' fetch' = manifestText thin scan fetch := by
  have hd' : Dom scan' fetch' :=
    { paths := (hs.map (·.path)).nodup_iff.mpr hd.paths
      layout := fun o ho => hd.layout o (hs.mem_iff.mp ho)
      names := fun o ho => hd.names o (hs.mem_iff.mp ho)
      sums := fun o ho => hd.sums o (hs.mem_iff.mp ho)
      dist := (hf.map fun f => baseName f.filename).nodup_iff.mpr hd.dist
      distNames := fun f h => hd.distNames f (hf.mem_iff.mp h) }
  have hfn : (fetch'.map (·.filename)).Nodup := by
    have : (fetch'.map fun f => baseName f.filename) = (fetch'.map (·.filename)).map baseName := by simp [List.map_map]
    have h := hd'.dist
    rw [this] at h
    exact List.Pairwise.of_map baseName (fun a b hne e => hne (by rw [e])) h
  have hsort : sortBy (·.filename) fetch' = sortBy (·.filename) fetch := sortBy_eq_of_perm _ _ _ hf hfn
  have hb : ∀ t, sortBy (·.1) (scan'.filterMap (pick t)) = sortBy (·.1) (scan.filterMap (pick t)) := fun t =>
    sortBy_eq_of_perm _ _ _ (hs.filterMap _) (picked_names_nodup t scan' hd'.paths)
  rw [manifestText_records thin scan' fetch' hd', manifestText_records thin scan fetch hd]
  unfold recordsOf
  rw [hsort, hb .aux, hb .ebuild, hb .misc]

/-- **atomic write**: whenever `update` writes, at every crash point the Manifest is the complete old
file or the complete new one, no other file is touched, and afterwards it is the new one. -/
theorem manifest_write_atomic (thin nofetch : Bool) (fs : Fs) (dir text : Str) (chunks : List Str)
    (hc : chunks.flatten = text) (k : Nat) :
    let target := targetName dir (tag "Manifest")
    let ops := updateOps thin nofetch (fs.read target) text dir chunks
    ((run (ops.take k) fs).read target = fs.read target ∨ (run (ops.take k) fs).read target = some text) ∧
    (∀ q, q ≠ tmpName dir (tag "Manifest") → q ≠ target → (run (ops.take k) fs).read q = fs.read q) ∧
    (ops ≠ [] → (run ops fs).read target = some text ∧ (run ops fs).read (tmpName dir (tag "Manifest")) = none) := by
  intro target ops
  have hnil : ∀ l : List FsOp, l = [] → ((run (l.take k) fs).read target = fs.read target ∨
      (run (l.take k) fs).read target = some text) ∧
      (∀ q, q ≠ tmpName dir (tag "Manifest") → q ≠ target → (run (l.take k) fs).read q = fs.read q) ∧
      (l ≠ [] → (run l fs).read target = some text ∧ (run l fs).read (tmpName dir (tag "Manifest")) = none) :=
    fun l hl => by subst hl; exact ⟨Or.inl (by simp [run]), fun _ _ _ => by simp [run], fun h => absurd rfl h⟩
  show (_ ∧ _ ∧ _)
  by_cases h1 : (thin && nofetch) = true
  · exact hnil ops (by simp [ops, updateOps, h1])
  · by_cases h2 : fs.read target = some text
    · exact hnil ops (by simp [ops, updateOps, h2])
    · have hops : ops = [FsOp.creat (tmpName dir (tag "Manifest"))] ++ chunks.map (.write (tmpName dir (tag "Manifest")))
          ++ [.close (tmpName dir (tag "Manifest"))] ++ [.rename (tmpName dir (tag "Manifest")) target] := by
        simp [ops, updateOps, h1, h2, writeOps, target]
      have htmp : (run ([FsOp.creat (tmpName dir (tag "Manifest"))] ++ chunks.map (.write (tmpName dir (tag "Manifest")))
          ++ [.close (tmpName dir (tag "Manifest"))]) fs).read (tmpName dir (tag "Manifest")) = some text := by
        rw [run_append, run_append]
        have h0 : (run [.creat (tmpName dir (tag "Manifest"))] fs).read (tmpName dir (tag "Manifest")) = some [] := by
          simp [run, step, read_put]
        have := run_writes (tmpName dir (tag "Manifest")) chunks _ [] h0
        simpa [run, step, hc] using this
      have hun : ∀ q, q ≠ tmpName dir (tag "Manifest") → ∀ op ∈ [FsOp.creat (tmpName dir (tag "Manifest"))]
          ++ chunks.map (.write (tmpName dir (tag "Manifest"))) ++ [.close (tmpName dir (tag "Manifest"))],
          touches op q = false := by
        intro q hq op hop
        have hne : (tmpName dir (tag "Manifest") == q) = false := by simpa using fun e => hq e.symm
        simp only [List.mem_append, List.mem_cons, List.mem_map, List.not_mem_nil, or_false] at hop
        rcases hop with (rfl | ⟨d, _, rfl⟩) | rfl <;> simp [touches, hne]
      have hp := C27.temp_rename_prefix _ _ target text fs (tmp_ne_target dir (tag "Manifest")) hun htmp k
      have hf := C27.temp_rename_final _ _ target text fs (tmp_ne_target dir (tag "Manifest")) htmp
      rw [hops]
      exact ⟨hp.1, hp.2, fun _ => hf⟩

/-- **a failing write keeps the old Manifest**: if the write is aborted by an error or an exception after any
amount of text reached the temp file, the Manifest and every other file are unchanged at every step of the
clean-up, and the temp file is removed. -/
theorem manifest_failed_write_keeps_old (fs : Fs) (dir : Str) (written : List Str) (k : Nat) :
    (∀ q, q ≠ tmpName dir (tag "Manifest") → (run ((abortWriteOps dir written).take k) fs).read q = fs.read q) ∧
    (run (abortWriteOps dir written) fs).read (tmpName dir (tag "Manifest")) = none := by
  have hun : ∀ q, q ≠ tmpName dir (tag "Manifest") → ∀ op ∈ abortWriteOps dir written, touches op q = false := by
    intro q hq op hop
    have hne : (tmpName dir (tag "Manifest") == q) = false := by simpa using fun e => hq e.symm
    simp only [abortWriteOps, List.mem_append, List.mem_cons, List.mem_map, List.not_mem_nil, or_false] at hop
    rcases hop with (rfl | ⟨d, _, rfl⟩) | rfl | rfl <;> simp [touches, hne]
  refine ⟨fun q hq => run_untouched _ fs q (fun op hop => hun q hq op (List.mem_of_mem_take hop)), ?_⟩
  have e : abortWriteOps dir written = ([FsOp.creat (tmpName dir (tag "Manifest"))]
      ++ written.map (.write (tmpName dir (tag "Manifest"))) ++ [.close (tmpName dir (tag "Manifest"))])
      ++ [.unlink (tmpName dir (tag "Manifest"))] := by simp [abortWriteOps]
  rw [e, run_append, run_single]
  simp [step, read_del]

/-- **idempotence**: after a completed `update`, regenerating from the same package (listing and
fetchables in any order) performs no file operation at all. -/
theorem manifest_idempotent (thin : Bool) (scan scan' : List ScanObj) (fetch fetch' : List Fetchable)
    (hd : Dom scan fetch) (hs : scan'.Perm scan) (hf : fetch'.Perm fetch)
    (fs : Fs) (dir text text' : Str) (chunks chunks' : List Str) (hc : chunks.flatten = text)
    (ht : manifestText thin scan fetch = some text) (ht' : manifestText thin scan' fetch' = some text') :
    let target := targetName dir (tag "Manifest")
    let fs' := run (updateOps thin fetch.isEmpty (fs.read target) text dir chunks) fs
    updateOps thin fetch'.isEmpty (fs'.read target) text' dir chunks' = [] := by
  intro target fs'
  have hte : text' = text := by
    have := manifest_order_independent thin scan scan' fetch fetch' hd hs hf
    rw [ht, ht'] at this
    exact Option.some.inj this
  subst hte
  have hemp : fetch'.isEmpty = fetch.isEmpty := by
    have := hf.length_eq
    cases fetch <;> cases fetch' <;> simp_all
  by_cases h1 : (thin && fetch.isEmpty) = true
  · simp [updateOps, hemp, h1]
  · have hread : fs'.read target = some text' := by
      by_cases h2 : fs.read target = some text'
      · have : fs' = fs := by simp [fs', updateOps, h2, run]
        rw [this]; exact h2
      · have hne : updateOps thin fetch.isEmpty (fs.read target) text' dir chunks ≠ [] := by
          simp [updateOps, h1, h2, writeOps]
        exact ((manifest_write_atomic thin fetch.isEmpty fs dir text' chunks hc 0).2.2 hne).1
    simp [updateOps, hread]

/-- **regeneration describes the package as it is now**: whatever Manifest was there to begin with and
whatever states the package went through before (files replaced by others of the same size, entries added
or dropped, …), after regenerating for the current state the Manifest is exactly the text of the current
state, and it parses back to exactly the current files' sizes and checksums: no entry of an earlier state
survives. -/
theorem manifest_regen_describes_current (thin : Bool) (dir : Str) (fs : Fs)
    (hist : List (List ScanObj × List Fetchable)) (scan : List ScanObj) (fetch : List Fetchable)
    (hd : Dom scan fetch) (hne : thin = false ∨ fetch ≠ []) :
    ∃ text r, manifestText thin scan fetch = some text ∧
      (regen thin dir fs (hist ++ [(scan, fetch)])).read (targetName dir (tag "Manifest")) = some text ∧
      parseManifest text = some r ∧
      r.dist.Perm (expected thin scan fetch).dist ∧ r.aux.Perm (expected thin scan fetch).aux ∧
      r.ebuild.Perm (expected thin scan fetch).ebuild ∧ r.misc.Perm (expected thin scan fetch).misc := by
  obtain ⟨text, r, ht, hp, h1, h2, h3, h4⟩ := manifest_parse_render thin scan fetch hd
  refine ⟨text, r, ht, ?_, hp, h1, h2, h3, h4⟩
  have hn : (thin && fetch.isEmpty) = false := by
    rcases hne with h | h
    · simp [h]
    · cases fetch <;> simp_all
  simp only [regen, List.foldl_append, List.foldl_cons, List.foldl_nil, regenStep, ht]
  generalize List.foldl (regenStep thin dir) fs hist = fs0
  by_cases h2 : fs0.read (targetName dir (tag "Manifest")) = some text
  · simp [updateOps, h2, run]
  · have hops : updateOps thin fetch.isEmpty (fs0.read (targetName dir (tag "Manifest"))) text dir [text] ≠ [] := by
      simp [updateOps, hn, h2, writeOps]
    exact ((manifest_write_atomic thin fetch.isEmpty fs0 dir text [text] (by simp) 0).2.2 hops).1

/-- **no dependence on the past**: two package directories that are in the same state now carry the same
Manifest after regeneration, whatever their earlier states and earlier Manifests were -/
theorem manifest_regen_history_independent (thin : Bool) (dir : Str) (fs fs' : Fs)
    (hist hist' : List (List ScanObj × List Fetchable)) (scan : List ScanObj) (fetch : List Fetchable)
    (hd : Dom scan fetch) (hne : thin = false ∨ fetch ≠ []) :
    (regen thin dir fs (hist ++ [(scan, fetch)])).read (targetName dir (tag "Manifest")) =
      (regen thin dir fs' (hist' ++ [(scan, fetch)])).read (targetName dir (tag "Manifest")) := by
  obtain ⟨t, _, ht, h, _⟩ := manifest_regen_describes_current thin dir fs hist scan fetch hd hne
  obtain ⟨t', _, ht', h', _⟩ := manifest_regen_describes_current thin dir fs' hist' scan fetch hd hne
  rw [h, h', Option.some.inj (ht.symm.trans ht')]

/-- the write as it was before the fix (`open(path, "w")`; `write`) is not atomic: after its first
operation the Manifest is empty — neither the old nor the new file -/
theorem manifest_inplace_write_counterexample :
    ∃ (fs : Fs) (dir : Str) (chunks : List Str) (k : Nat),
      (run ((inplaceOps dir chunks).take k) fs).read (targetName dir (tag "Manifest")) ≠ fs.read (targetName dir (tag "Manifest")) ∧
      (run ((inplaceOps dir chunks).take k) fs).read (targetName dir (tag "Manifest")) ≠ some chunks.flatten :=
  ⟨[("/p/Manifest".toList, "DIST old 1\n".toList)], "/p".toList, ["DIST new 2\n".toList], 1, by decide, by decide⟩

/-- a file name containing white space cannot be represented: the generated Manifest does not parse
(recorded as an open finding; `Dom.names` excludes it) -/
theorem manifest_whitespace_name_counterexample :
    ∃ scan text, manifestText false scan [] = some text ∧ parseManifest text = none ∧
      scan = [⟨"/files/my patch".toList, true, ⟨1, []⟩⟩] :=
  ⟨_, "AUX my patch 1\n".toList, by decide, by decide, rfl⟩

/-! ### the hypotheses are satisfiable -/

def exampleScan : List ScanObj :=
  [⟨"/p-1.ebuild".toList, true, ⟨7, [("md5".toList, 5)]⟩⟩,
   ⟨"/files".toList, false, ⟨0, []⟩⟩,
   ⟨"/files/s/b".toList, true, ⟨0, []⟩⟩,
   ⟨"/Manifest".toList, true, ⟨3, []⟩⟩,
   ⟨"/m.xml".toList, true, ⟨4, []⟩⟩]

def exampleFetch : List Fetchable := [⟨"p.tgz".toList, ⟨10, []⟩⟩]

example : manifestText false exampleScan exampleFetch = some
    ("AUX s/b 0\nDIST p.tgz 10\nEBUILD p-1.ebuild 7 MD5 00000000000000000000000000000005\nMISC m.xml 4\n").toList := by decide

/-- a history in which a covered file is replaced by other content of the same size: the stale checksum is gone -/
example : (regen false "/p".toList [("/p/Manifest".toList, "EBUILD p-1.ebuild 7 MD5 00000000000000000000000000000004\n".toList)]
      [([⟨"/p-1.ebuild".toList, true, ⟨7, [("md5".toList, 4)]⟩⟩], []), ([⟨"/p-1.ebuild".toList, true, ⟨7, [("md5".toList, 5)]⟩⟩], [])]).read
        "/p/Manifest".toList = some "EBUILD p-1.ebuild 7 MD5 00000000000000000000000000000005\n".toList := by decide

example : Dom exampleScan exampleFetch := by
  refine ⟨by decide, ?_, ?_, ?_, by decide, ?_⟩
  · intro o ho
    simp only [exampleScan, List.mem_cons, List.not_mem_nil, or_false] at ho
    rcases ho with rfl | rfl | rfl | rfl | rfl <;> decide
  · intro o ho hreg t n hk
    simp only [exampleScan, List.mem_cons, List.not_mem_nil, or_false] at ho
    rcases ho with rfl | rfl | rfl | rfl | rfl
    · have : kindOf "/p-1.ebuild".toList = some (.ebuild, "p-1.ebuild".toList) := by decide
      rw [this] at hk; cases hk; exact ⟨by decide, by decide⟩
    · cases hreg
    · have : kindOf "/files/s/b".toList = some (.aux, "s/b".toList) := by decide
      rw [this] at hk; cases hk; exact ⟨by decide, by decide⟩
    · have : kindOf "/Manifest".toList = none := by decide
      rw [this] at hk; cases hk
    · have : kindOf "/m.xml".toList = some (.misc, "m.xml".toList) := by decide
      rw [this] at hk; cases hk; exact ⟨by decide, by decide⟩
  · intro o ho
    simp only [exampleScan, List.mem_cons, List.not_mem_nil, or_false] at ho
    rcases ho with rfl | rfl | rfl | rfl | rfl <;> exact ⟨by decide, by decide⟩
  · intro f hf
    simp only [exampleFetch, List.mem_singleton] at hf
    subst hf
    exact ⟨⟨by decide, by decide⟩, by decide, by decide⟩

end Pkgcore.C28
