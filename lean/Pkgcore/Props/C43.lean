import Pkgcore.Proofs.C43
/-!
# C43 — config section inheritance resolves to the nearest definition

Property theorems only (helper lemmas: `Pkgcore/Proofs/C43.lean`).  `buildLookup`, `inherited`, `collapse` mirror
`ConfigManager._integrate_config_source`, `_get_inherited_sections`, `collapse_section` (pkgcore/config/central.py);
`Spec.*` is the reference semantics (latest source first, generations of the inheritance graph, first definer wins).
`WF sources` = every source is a mapping (no section name twice in one source).
-/
namespace Pkgcore.C43
open Pkgcore.C43.Spec

/-- config sources are mappings: a section name occurs once per source -/
def WF (sources : List Source) : Prop := ∀ src ∈ sources, (src.map (·.1)).Nodup

/-- **later config sources override earlier ones for the same name**: the stack `sections_lookup[n]` built by
`appendleft` over all sources is the list of all sections named `n`, latest source first. -/
theorem lookup_is_latest_first (sources : List Source) (hwf : WF sources) (n : Name) :
    stkOf (buildLookup sources) n = Spec.stackOf sources n :=
  stkOf_buildLookup sources n hwf

example : WF [[("A", ⟨none, false, [("k", "old")]⟩)], [("A", ⟨some ["A"], false, [("k", "new")]⟩)]] ∧
    Spec.stackOf [[("A", ⟨none, false, [("k", "old")]⟩)], [("A", ⟨some ["A"], false, [("k", "new")]⟩)]] "A"
      = [⟨some ["A"], false, [("k", "new")]⟩, ⟨none, false, [("k", "old")]⟩] := by
  refine ⟨?_, by decide⟩
  intro src h
  simp at h
  rcases h with rfl | rfl <;> simp

theorem stk_eq (sources : List Source) (hwf : WF sources) : stkOf (buildLookup sources) = Spec.stackOf sources :=
  funext (lookup_is_latest_first sources hwf)

/-- **the relevant sections are the inheritance graph in breadth-first order**: whenever
`_get_inherited_sections` returns, it returns the root, then its children left to right, then theirs, … until a
generation is empty (graphs of any size and depth), and every inherit target on the way existed. -/
theorem inherited_is_breadth_first (sources : List Source) (hwf : WF sources) (name : Name) (l : List Entry)
    (h : inherited (buildLookup sources) name = .ok l) :
    ∃ r D, Spec.root (Spec.stackOf sources) name = some r ∧ lev (Spec.stackOf sources) D [r] = [] ∧
      l = upTo (Spec.stackOf sources) D [r] ∧ ∀ e ∈ l, dangling (Spec.stackOf sources) e = false := by
  unfold inherited at h
  cases hs : stackOf (buildLookup sources) name with
  | none => simp [hs] at h
  | some p =>
    obtain ⟨c, r⟩ := p
    simp only [hs] at h
    obtain ⟨D, h1, h2, h3⟩ := loop_sound _ _ _ _ _ h
    rw [stk_eq sources hwf] at h1 h2 h3
    refine ⟨⟨name, c, r⟩, D, ?_, h1, by simpa using h2, by rw [h2]; simpa using h3⟩
    rw [← stk_eq sources hwf, root_eq, hs]; rfl

/-- **nearest definition**: whenever collapsing a named section succeeds, each ordinary key has the value set
by the first section, in breadth-first inheritance order (latest source first for equal names), that sets it —
the section itself if it does; the result has no other keys, and each key once. -/
theorem collapse_nearest_definition (sources : List Source) (hwf : WF sources) (name : Name)
    (cfg : List (String × String)) (h : collapse (buildLookup sources) name = .ok cfg) :
    ∃ r D, Spec.root (Spec.stackOf sources) name = some r ∧ lev (Spec.stackOf sources) D [r] = [] ∧
      (∀ k, k ∉ specialKeys → cfg.lookup k = Spec.value k (upTo (Spec.stackOf sources) D [r])) ∧
      (∀ k, k ∈ specialKeys → cfg.lookup k = none) ∧ (cfg.map (·.1)).Nodup ∧
      (Spec.value "class" (upTo (Spec.stackOf sources) D [r])).isSome = true := by
  obtain ⟨c, r, slist, hs, _, hl, hc, hk, hsp, hnd⟩ := collapse_ok _ _ _ h
  obtain ⟨D, h1, h2, _⟩ := loop_sound _ _ _ _ _ hl
  rw [stk_eq sources hwf] at h1 h2
  have h2' : slist = upTo (Spec.stackOf sources) D [⟨name, c, r⟩] := by simpa using h2
  refine ⟨⟨name, c, r⟩, D, ?_, h1, ?_, hsp, hnd, ?_⟩
  · rw [← stk_eq sources hwf, root_eq, hs]; rfl
  · intro k hk'; rw [hk k hk', h2']; rfl
  · rw [← h2']; exact hc

/-- **tree-shaped graphs of any size collapse**: if the section exists, is not inherit-only, the inheritance graph
below it is tree-shaped (every target exists, no section name inherited twice; `D` bounds its depth) and some
section of it sets `class`, collapsing succeeds — so by `collapse_nearest_definition` it yields the nearest
definitions. -/
theorem tree_shaped_collapses (sources : List Source) (hwf : WF sources) (name : Name) (r : Entry) (D : Nat)
    (hroot : Spec.root (Spec.stackOf sources) name = some r) (hio : r.conf.inheritOnly = false)
    (htree : TreeShaped (Spec.stackOf sources) r D)
    (hclass : (Spec.value "class" (upTo (Spec.stackOf sources) D [r])).isSome = true) :
    ∃ cfg, collapse (buildLookup sources) name = .ok cfg := by
  obtain ⟨h1, h2, h3⟩ := htree
  rw [← stk_eq sources hwf, root_eq] at hroot
  cases hs : stackOf (buildLookup sources) name with
  | none => simp [hs] at hroot
  | some p =>
    obtain ⟨c, rest⟩ := p
    simp only [hs, Option.map_some, Option.some.injEq] at hroot
    subst hroot
    rw [← stk_eq sources hwf] at h1 h2 h3 hclass
    obtain ⟨l, hl⟩ := loop_complete (buildLookup sources) [⟨name, c, rest⟩] [name] [] D h1 h2 (by simpa using h3)
    obtain ⟨D', g1, g2, _⟩ := loop_sound _ _ _ _ _ hl
    have hD : upTo (stkOf (buildLookup sources)) D' [⟨name, c, rest⟩] = upTo (stkOf (buildLookup sources)) D [⟨name, c, rest⟩] := by
      rcases Nat.le_total D D' with hle | hle
      · exact upTo_stable _ D D' _ h1 hle
      · exact (upTo_stable _ D' D _ g1 hle).symm
    have hl' : l = upTo (stkOf (buildLookup sources)) D [⟨name, c, rest⟩] := by rw [← hD]; simpa using g2
    unfold collapse
    simp only [hs]
    have hio' : c.inheritOnly = false := hio
    simp only [hio', Bool.false_eq_true, if_false, hl]
    have hc : (firstDef "class" l).isSome = true := by rw [hl']; exact hclass
    cases hf : firstDef "class" l with
    | none => simp [hf] at hc
    | some v => exact ⟨_, rfl⟩

/-- non-vacuity: a three-source configuration with a self-inherit chain and two other bases is tree-shaped, and
the breadth-first order puts the earlier `A` before `A`'s other base `C`, and `B` last -/
example :
    let sources : List Source :=
      [[("A", ⟨some ["B"], false, [("k1", "a0")]⟩), ("B", ⟨none, false, [("class", "x"), ("k2", "b0")]⟩)],
       [("A", ⟨some ["A", "C"], false, [("k3", "a1")]⟩), ("C", ⟨none, false, [("k1", "c1"), ("k2", "c1")]⟩)]]
    ∃ r, Spec.root (Spec.stackOf sources) "A" = some r ∧ r.conf.inheritOnly = false ∧
      TreeShaped (Spec.stackOf sources) r 3 ∧
      (upTo (Spec.stackOf sources) 3 [r]).map (·.name) = ["A", "A", "C", "B"] ∧
      Spec.value "k1" (upTo (Spec.stackOf sources) 3 [r]) = some "a0" ∧
      Spec.value "k2" (upTo (Spec.stackOf sources) 3 [r]) = some "c1" := by
  refine ⟨⟨"A", ⟨some ["A", "C"], false, [("k3", "a1")]⟩, [⟨some ["B"], false, [("k1", "a0")]⟩]⟩, by decide, rfl, ?_, by decide, by decide, by decide⟩
  exact ⟨by decide, by decide, by decide⟩

/-- **inheritance cycles and missing targets are errors**: if, below the section being collapsed, some section
names a target that does not exist (another section, or itself with no earlier source left) or some section
reaches itself through inherits, collapsing reports an error. -/
theorem cycle_or_missing_is_error (sources : List Source) (hwf : WF sources) (name : Name) (r : Entry)
    (hroot : Spec.root (Spec.stackOf sources) name = some r)
    (hbad : Missing (Spec.stackOf sources) r ∨ Cyclic (Spec.stackOf sources) r) :
    ∃ err, collapse (buildLookup sources) name = .error err := by
  cases hc : collapse (buildLookup sources) name with
  | error err => exact ⟨err, rfl⟩
  | ok cfg =>
    exfalso
    obtain ⟨c, rest, slist, hs, _, hl, _⟩ := collapse_ok _ _ _ hc
    obtain ⟨D, h1, _, h3⟩ := loop_sound _ _ _ _ _ hl
    rw [stk_eq sources hwf] at h1 h3
    have hr : r = ⟨name, c, rest⟩ := by
      rw [← stk_eq sources hwf, root_eq, hs] at hroot
      simpa using hroot.symm
    subst hr
    obtain ⟨hm, hcy⟩ := no_missing_no_cycle (Spec.stackOf sources) _ D h1 h3
    rcases hbad with h | h
    · exact hm h
    · exact hcy h

/-- non-vacuity: a two-cycle reached from the root, and a missing target one level down -/
example :
    let sources : List Source := [[("A", ⟨some ["B"], false, [("class", "x")]⟩), ("B", ⟨some ["C"], false, []⟩),
                                   ("C", ⟨some ["B", "Z"], false, []⟩)]]
    Cyclic (Spec.stackOf sources) ⟨"A", ⟨some ["B"], false, [("class", "x")]⟩, []⟩ ∧
    Missing (Spec.stackOf sources) ⟨"A", ⟨some ["B"], false, [("class", "x")]⟩, []⟩ := by
  intro sources
  have eB : (⟨"B", ⟨some ["C"], false, []⟩, []⟩ : Entry) ∈ kids (Spec.stackOf sources) ⟨"A", ⟨some ["B"], false, [("class", "x")]⟩, []⟩ := by decide
  have eC : (⟨"C", ⟨some ["B", "Z"], false, []⟩, []⟩ : Entry) ∈ kids (Spec.stackOf sources) ⟨"B", ⟨some ["C"], false, []⟩, []⟩ := by decide
  have eB' : (⟨"B", ⟨some ["C"], false, []⟩, []⟩ : Entry) ∈ kids (Spec.stackOf sources) ⟨"C", ⟨some ["B", "Z"], false, []⟩, []⟩ := by decide
  constructor
  · exact ⟨_, Reach.step (Reach.refl _) eB, ReachPlus.step (ReachPlus.one eC) eB'⟩
  · exact ⟨_, Reach.step (Reach.step (Reach.refl _) eB) eC, by decide⟩

/-- **reads follow the current stack of sources**: in any history of collapses, `add_config_source` calls and
reloads, every collapse returns exactly what collapsing from scratch over the sources configured at that moment returns
(so, by `collapse_nearest_definition`, the nearest definitions w.r.t. the *current* sources) — the rendered-section cache
is never stale. -/
theorem history_collapse_is_current (s : List Source) (pre post : List MOp) (n : Name) :
    (Mgr.run (Mgr.init s) (pre ++ MOp.collapse n :: post)).2[pre.length]?
      = some (some (collapse (buildLookup (sourcesAfter s pre)) n)) := by
  rw [mrun_append]
  have hl := mrun_length (Mgr.init s) pre
  rw [List.getElem?_append_right (by omega)]
  simp only [hl, Nat.sub_self, Mgr.run, List.getElem?_cons_zero]
  have hinv := minv_run pre _ (minv_init s)
  rw [step_collapse_of_inv _ hinv, hinv.1, run_sources]
  rfl

/-- non-vacuity: a section collapsed before a source that redefines its base is added must change afterwards -/
example :
    let s0 : List Source := [[("A", ⟨some ["B"], false, [("class", "x")]⟩), ("B", ⟨none, false, [("k", "old")]⟩)]]
    let add : Source := [("B", ⟨none, false, [("k", "new")]⟩)]
    sourcesAfter s0 [.collapse "A", .addSource add] = s0 ++ [add] ∧
    Spec.stackOf (s0 ++ [add]) "B" = [⟨none, false, [("k", "new")]⟩, ⟨none, false, [("k", "old")]⟩] := by
  decide

/-- **the `default` flag follows the same rule**: the raw value the manager turns into `is_default` is the one of the first
section in breadth-first order that sets `default` — an explicit (even false/empty) value in a nearer section shadows
every farther one. -/
theorem default_nearest_definition (sources : List Source) (hwf : WF sources) (name : Name) (l : List Entry)
    (h : inherited (buildLookup sources) name = .ok l) :
    ∃ r D, Spec.root (Spec.stackOf sources) name = some r ∧ lev (Spec.stackOf sources) D [r] = [] ∧
      defaultOf l = Spec.value "default" (upTo (Spec.stackOf sources) D [r]) := by
  obtain ⟨r, D, h1, h2, h3, _⟩ := inherited_is_breadth_first sources hwf name l h
  exact ⟨r, D, h1, h2, by rw [h3]; rfl⟩

/-- an explicitly empty value in the nearer section wins over a non-empty one farther away (values are opaque: "set" means
the key is present), for ordinary keys and for `default` -/
example :
    let sources : List Source := [[("A", ⟨some ["B"], false, [("k", ""), ("default", "false")]⟩),
                                   ("B", ⟨none, false, [("class", "x"), ("k", "b"), ("default", "true")]⟩)]]
    ∃ r, Spec.root (Spec.stackOf sources) "A" = some r ∧ TreeShaped (Spec.stackOf sources) r 2 ∧
      Spec.value "k" (upTo (Spec.stackOf sources) 2 [r]) = some "" ∧
      Spec.value "default" (upTo (Spec.stackOf sources) 2 [r]) = some "false" := by
  refine ⟨⟨"A", ⟨some ["B"], false, [("k", ""), ("default", "false")]⟩, []⟩, by decide, ?_, by decide, by decide⟩
  exact ⟨by decide, by decide, by decide⟩

/-- **anonymous (inline) sections resolve the same way**: whenever `collapse_section([sec])` on an unnamed section succeeds,
the relevant sections are the generations below the node `(None, sec)` in breadth-first order over the current sources, every
target existed, and each ordinary key has the value of the first of them that sets it.  The answer is a function of the
sources and of `sec` alone. -/
theorem anon_collapse_nearest_definition (sources : List Source) (hwf : WF sources) (sec : Sec)
    (cfg : List (String × String)) (h : collapseAnon (buildLookup sources) sec = .ok cfg) :
    ∃ D, lev (Spec.stackOf sources) D [⟨anonName, sec, []⟩] = [] ∧
      (∀ k, k ∉ specialKeys → cfg.lookup k = Spec.value k (upTo (Spec.stackOf sources) D [⟨anonName, sec, []⟩])) ∧
      (∀ k, k ∈ specialKeys → cfg.lookup k = none) ∧ (cfg.map (·.1)).Nodup ∧
      (Spec.value "class" (upTo (Spec.stackOf sources) D [⟨anonName, sec, []⟩])).isSome = true ∧
      ∀ e ∈ upTo (Spec.stackOf sources) D [⟨anonName, sec, []⟩], dangling (Spec.stackOf sources) e = false := by
  obtain ⟨slist, _, hl, hc, hk, hsp, hnd⟩ := collapseAnon_ok _ _ _ h
  obtain ⟨D, h1, h2, h3⟩ := loop_sound _ _ _ _ _ hl
  rw [stk_eq sources hwf] at h1 h2 h3
  have h2' : slist = upTo (Spec.stackOf sources) D [⟨anonName, sec, []⟩] := by simpa using h2
  refine ⟨D, h1, ?_, hsp, hnd, ?_, h3⟩
  · intro k hk'; rw [hk k hk', h2']; rfl
  · rw [← h2']; exact hc

/-- **tree-shaped graphs below an anonymous section collapse** (completeness, so the previous theorem is not vacuous) -/
theorem anon_tree_shaped_collapses (sources : List Source) (hwf : WF sources) (sec : Sec) (D : Nat)
    (hio : sec.inheritOnly = false)
    (htree : TreeShaped (Spec.stackOf sources) ⟨anonName, sec, []⟩ D)
    (hclass : (Spec.value "class" (upTo (Spec.stackOf sources) D [⟨anonName, sec, []⟩])).isSome = true) :
    ∃ cfg, collapseAnon (buildLookup sources) sec = .ok cfg := by
  obtain ⟨h1, h2, h3⟩ := htree
  rw [← stk_eq sources hwf] at h1 h2 h3 hclass
  obtain ⟨l, hl⟩ := loop_complete (buildLookup sources) [⟨anonName, sec, []⟩] [anonName] [] D h1 h2 (by simpa using h3)
  obtain ⟨D', g1, g2, _⟩ := loop_sound _ _ _ _ _ hl
  have hD : upTo (stkOf (buildLookup sources)) D' [⟨anonName, sec, []⟩] = upTo (stkOf (buildLookup sources)) D [⟨anonName, sec, []⟩] := by
    rcases Nat.le_total D D' with hle | hle
    · exact upTo_stable _ D D' _ h1 hle
    · exact (upTo_stable _ D' D _ g1 hle).symm
  have hl' : l = upTo (stkOf (buildLookup sources)) D [⟨anonName, sec, []⟩] := by rw [← hD]; simpa using g2
  unfold collapseAnon
  simp only [hio, Bool.false_eq_true, if_false, hl]
  have hc : (firstDef "class" l).isSome = true := by rw [hl']; exact hclass
  unfold finish
  cases hf : firstDef "class" l with
  | none => simp [hf] at hc
  | some v => exact ⟨_, rfl⟩

/-- non-vacuity: two inline sections with different bases over the same sources are both tree-shaped and get different
values for `a` -/
example :
    let sources : List Source := [[("R", ⟨none, false, [("class", "x"), ("a", "red")]⟩), ("B", ⟨none, false, [("class", "x"), ("a", "blue")]⟩)]]
    TreeShaped (Spec.stackOf sources) ⟨anonName, ⟨some ["R"], false, [("c", "1")]⟩, []⟩ 2 ∧
    TreeShaped (Spec.stackOf sources) ⟨anonName, ⟨some ["B"], false, [("b", "2")]⟩, []⟩ 2 ∧
    Spec.value "a" (upTo (Spec.stackOf sources) 2 [⟨anonName, ⟨some ["R"], false, [("c", "1")]⟩, []⟩]) = some "red" ∧
    Spec.value "a" (upTo (Spec.stackOf sources) 2 [⟨anonName, ⟨some ["B"], false, [("b", "2")]⟩, []⟩]) = some "blue" := by
  refine ⟨⟨by decide, by decide, by decide⟩, ⟨by decide, by decide, by decide⟩, by decide, by decide⟩

/-- **missing targets and cycles below an anonymous section are errors** -/
theorem anon_cycle_or_missing_is_error (sources : List Source) (hwf : WF sources) (sec : Sec)
    (hbad : Missing (Spec.stackOf sources) ⟨anonName, sec, []⟩ ∨ Cyclic (Spec.stackOf sources) ⟨anonName, sec, []⟩) :
    ∃ err, collapseAnon (buildLookup sources) sec = .error err := by
  cases hc : collapseAnon (buildLookup sources) sec with
  | error err => exact ⟨err, rfl⟩
  | ok cfg =>
    exfalso
    obtain ⟨slist, _, hl, _⟩ := collapseAnon_ok _ _ _ hc
    obtain ⟨D, h1, _, h3⟩ := loop_sound _ _ _ _ _ hl
    rw [stk_eq sources hwf] at h1 h3
    obtain ⟨hm, hcy⟩ := no_missing_no_cycle (Spec.stackOf sources) _ D h1 h3
    rcases hbad with h | h
    · exact hm h
    · exact hcy h

example : Missing (Spec.stackOf [[("R", ⟨none, false, [("class", "x")]⟩)]]) ⟨anonName, ⟨some ["R", "Z"], false, []⟩, []⟩ :=
  ⟨_, Reach.refl _, by decide⟩

/-- **an anonymous collapse depends on the current sources only**: in any history of named and anonymous collapses,
`add_config_source` calls and reloads, collapsing an anonymous section returns exactly what it returns on a manager created
over the sources configured at that moment — in particular it does not depend on which sections (named or anonymous) were
collapsed before it. -/
theorem history_anon_collapse_is_current (s : List Source) (pre post : List MOp) (sec : Sec) :
    (Mgr.run (Mgr.init s) (pre ++ MOp.collapseAnon sec :: post)).2[pre.length]?
      = some (some (collapseAnon (buildLookup (sourcesAfter s pre)) sec)) := by
  rw [mrun_append]
  have hl := mrun_length (Mgr.init s) pre
  rw [List.getElem?_append_right (by omega)]
  simp only [hl, Nat.sub_self, Mgr.run, List.getElem?_cons_zero]
  have hinv := minv_run pre _ (minv_init s)
  rw [step_collapseAnon, hinv.1, run_sources]
  rfl

example :
    sourcesAfter [[("R", ⟨none, false, [("class", "x")]⟩)]]
      [.collapseAnon ⟨some ["R"], false, []⟩, .addSource [("B", ⟨none, false, []⟩)], .collapse "R"]
      = [[("R", ⟨none, false, [("class", "x")]⟩)], [("B", ⟨none, false, []⟩)]] := by
  decide

end Pkgcore.C43
