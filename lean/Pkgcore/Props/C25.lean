import Pkgcore.Proofs.C25
/-!
# C25 — binary package tarballs round-trip their contents

Property theorems only (the tar byte format is `tarfile`'s: contract; the relocation below symlinked directories
is proved for archives in which no *symlink* is recorded below another symlink — for the others the code is
order dependent, see `convert_nested_counterexample`).  `addContents`/`addRest` mirror
`add_contents_to_tarfile`, `archiveToFsobj`/`readMember` mirror `archive_to_fsobj`, `convertArchive` mirrors
`convert_archive` (`Model/C25.lean`); an archive is the list of its members.
-/
namespace Pkgcore.C25
open Pkgcore.C24 Pkgcore.C25.Spec

/-- every directory, symlink, fifo and device node converts to a tar member and back unchanged — path,
type, mode, owner, mtime, target, device numbers — without touching the reader's inode table -/
theorem member_roundtrip (dev : Nat) (st : RState) (o : Obj) (hf : o.isReg = false) (hp : PathOK o.loc)
    (hd : ∀ l a c mj mn, o = .dev l a c mj mn → DevModeOK a c) :
    readMember dev st (toMember o) = some (st, some o) :=
  member_roundtrip_aux dev st o hf hp hd

/-- the writer never emits a regular member without its data stream (the defect fixed in the code: a file
sharing (dev, inode) with an earlier one but not link-compatible lost its data), and every hard-link
member names a file stored earlier in the same class -/
theorem write_links_to_first (S : List Obj) (inodes : List (Key × File)) :
    ∀ m ∈ addRest S inodes,
      (m.typ = .reg → m.data.isSome = true) ∧
      (m.typ = .lnk → ∃ x e, .file x ∈ S ∧ m.name = relName x.loc ∧ m.linkname = relName e.loc ∧ canLink x e = true) := by
  induction S generalizing inodes with
  | nil => simp [addRest]
  | cons o rest ih =>
    have lift : ∀ (inodes' : List (Key × File)) m, m ∈ addRest rest inodes' →
        (m.typ = .reg → m.data.isSome = true) ∧
        (m.typ = .lnk → ∃ x e, .file x ∈ o :: rest ∧ m.name = relName x.loc ∧ m.linkname = relName e.loc ∧ canLink x e = true) := by
      intro inodes' m hm
      obtain ⟨h1, h2⟩ := ih inodes' m hm
      exact ⟨h1, fun h => by obtain ⟨x, e, hx, r⟩ := h2 h; exact ⟨x, e, by simp [hx], r⟩⟩
    intro m hm
    cases o with
    | file x =>
      simp only [addRest] at hm
      split at hm
      · rename_i e hl
        split at hm
        · rename_i hcl
          simp only [List.mem_cons] at hm
          rcases hm with rfl | hm
          · exact ⟨fun h => by simp [toMember] at h, fun _ => ⟨x, e, by simp, rfl, rfl, hcl⟩⟩
          · exact lift _ m hm
        · simp only [List.mem_cons] at hm
          rcases hm with rfl | hm
          · exact ⟨fun _ => rfl, fun h => by simp [toMember] at h⟩
          · exact lift _ m hm
      · simp only [List.mem_cons] at hm
        rcases hm with rfl | hm
        · exact ⟨fun _ => rfl, fun h => by simp [toMember] at h⟩
        · exact lift _ m hm
    | dir l a =>
      simp only [addRest, List.mem_cons] at hm
      rcases hm with rfl | hm
      · exact ⟨fun h => by simp [toMember] at h, fun h => by simp [toMember] at h⟩
      · exact lift _ m hm
    | sym l t a =>
      simp only [addRest, List.mem_cons] at hm
      rcases hm with rfl | hm
      · exact ⟨fun h => by simp [toMember] at h, fun h => by simp [toMember] at h⟩
      · exact lift _ m hm
    | fifo l a =>
      simp only [addRest, List.mem_cons] at hm
      rcases hm with rfl | hm
      · exact ⟨fun h => by simp [toMember] at h, fun h => by simp [toMember] at h⟩
      · exact lift _ m hm
    | dev l a c mj mn =>
      simp only [addRest, List.mem_cons] at hm
      rcases hm with rfl | hm
      · exact ⟨fun h => by cases c <;> simp [toMember] at h, fun h => by cases c <;> simp [toMember] at h⟩
      · exact lift _ m hm

/-- reader: a hard link gets the inode and the data of the member it names, also through a chain
`z → y → x` (tar allows a link to name another link) -/
theorem hardlink_chain (dev : Nat) (st : RState) (nx ny nz ly lz : Str) (a1 a2 a3 : Attrs) (d : Nat)
    (hy : absLink ly = absLoc nx) (hz : absLink lz = absLoc ny)
    (hxy : absLoc ny ≠ absLoc nx) :
    readLoop dev [⟨.reg, nx, [], a1, 0, 0, some d⟩, ⟨.lnk, ny, ly, a2, 0, 0, none⟩, ⟨.lnk, nz, lz, a3, 0, 0, none⟩] st
      = some [.file ⟨absLoc nx, a1, some dev, some st.next, d, st.nsrc⟩,
              .file ⟨absLoc ny, a2, some dev, some st.next, d, st.nsrc + 1⟩,
              .file ⟨absLoc nz, a3, some dev, some st.next, d, st.nsrc + 2⟩] := by
  simp only [readLoop, readMember, Option.getD_some, hy, hz, lookup_seenPut, if_true, if_neg hxy.symm, if_neg hxy,
    Option.map_some]

/-- the contents sets the theorem speaks about: distinct locations that survive the name mangling,
well-formed device modes, and files of one (dev, inode) class agreeing on attributes and data (true
of every set scanned from disk) -/
structure Good (S : List Obj) : Prop where
  locs : (S.map Obj.loc).Nodup
  paths : ∀ o ∈ S, PathOK o.loc
  devs : ∀ l a c mj mn, Obj.dev l a c mj mn ∈ S → DevModeOK a c
  links : ∀ x y, .file x ∈ S → .file y ∈ S → keyOf x = keyOf y → keySome x = true → x.a = y.a ∧ x.data = y.data

/-- **write then read**: every entry comes back (directories first, sorted; then the rest in set order)
with the same path, type, mode, owner, mtime, target, device numbers and file data, and two files that
were hard links of one another still share one inode. -/
theorem tar_roundtrip_files (c : Nat) (S : List Obj) (hg : Good S) :
    ∃ R, archiveToFsobj c (addContents S) = some R ∧
      R.map obs = (C28.sortBy Obj.loc (S.filter Obj.isDir) ++ S.filter (fun o => !o.isDir)).map obs ∧
      (∀ x y, .file x ∈ S → .file y ∈ S → linked x y →
        inoAt R x.loc = inoAt R y.loc ∧ (inoAt R x.loc).isSome = true) := by
  let dirs := C28.sortBy Obj.loc (S.filter Obj.isDir)
  let rest := S.filter fun o => !o.isDir
  have hdirs_mem : ∀ o, o ∈ dirs → o ∈ S ∧ o.isDir = true := fun o ho => by
    have := (C28.sortBy_perm Obj.loc _).mem_iff.mp ho
    exact ⟨(List.mem_filter.mp this).1, (List.mem_filter.mp this).2⟩
  have hrest_mem : ∀ o, o ∈ rest → o ∈ S := fun o ho => (List.mem_filter.mp ho).1
  have hrest_locs : (rest.map Obj.loc).Nodup := (List.filter_sublist.map Obj.loc).nodup hg.locs
  have hspec := rt_spec c rest [] [] ⟨c + 1, 0, []⟩
    ⟨fun k e h => by simp [List.lookup] at h, fun k e h => by simp [List.lookup] at h, fun k _ => rfl⟩
    hrest_locs (fun o _ => rfl) (fun o ho => hg.paths o (hrest_mem o ho))
    (fun l a c' mj mn h => hg.devs l a c' mj mn (hrest_mem _ h)) (fun _ _ => Or.inr trivial)
    ⟨fun x _ e h => by simp [List.lookup] at h,
     fun x y hx hy hk hks => (hg.links x y (hrest_mem _ hx) (hrest_mem _ hy) hk hks).1⟩
  have hdirs_nf : ∀ o ∈ dirs, o.isReg = false := fun o ho => by
    have := (hdirs_mem o ho).2
    cases o <;> simp_all [Obj.isDir, Obj.isReg]
  refine ⟨dirs ++ specRest c rest [] (c + 1) 0, ?_, ?_, ?_⟩
  · unfold archiveToFsobj addContents
    rw [readLoop_prefix c dirs _ _ hdirs_nf (fun o ho => hg.paths o (hdirs_mem o ho).1)
      (fun l a c' mj mn h => hg.devs l a c' mj mn (hdirs_mem _ h).1), hspec]
    rfl
  · rw [List.map_append, List.map_append, specRest_obs c rest [] (c + 1) 0
      (fun x _ i d h => by simp [List.lookup] at h)
      (fun x y hx hy hk hks => (hg.links x y (hrest_mem _ hx) (hrest_mem _ hy) hk hks).2)]
  · intro x y hx hy hl
    have hxr : Obj.file x ∈ rest := List.mem_filter.mpr ⟨hx, rfl⟩
    have hyr : Obj.file y ∈ rest := List.mem_filter.mpr ⟨hy, rfl⟩
    have hk : keyOf x = keyOf y := by unfold keyOf; rw [hl.2.2.1, hl.2.2.2]
    have hks : keySome x = true := by unfold keySome; rw [hl.1, hl.2.1]; rfl
    have hshare := specRest_share c rest [] (c + 1) 0 hrest_locs x y hxr hyr hk hks
    -- the directory prefix holds no entry at a file's location
    have skip : ∀ (z : File), Obj.file z ∈ rest → inoAt (dirs ++ specRest c rest [] (c + 1) 0) z.loc
        = inoAt (specRest c rest [] (c + 1) 0) z.loc := by
      intro z hz
      have hno : ∀ o ∈ dirs, (o.loc == z.loc) = false := by
        intro o ho
        have ⟨hoS, hod⟩ := hdirs_mem o ho
        rw [beq_eq_false_iff_ne]
        intro e
        have hzS := hrest_mem _ hz
        -- two members of S with the same location are the same object, but one is a directory
        have : o = Obj.file z := C28.key_inj_of_nodup Obj.loc S hg.locs o (Obj.file z) hoS hzS e
        rw [this] at hod
        simp [Obj.isDir] at hod
      unfold inoAt
      rw [List.find?_append]
      have : dirs.find? (·.loc == z.loc) = none := List.find?_eq_none.mpr (fun o ho => by simp [hno o ho])
      rw [this]; rfl
    rw [skip x hxr, skip y hyr]
    exact hshare

/-- **hard links, both directions**: two different names of the set come back with one inode iff they shared
(dev, inode) and were link-compatible (`_can_be_hardlinked`) before -/
theorem tar_roundtrip_inodes_iff (c : Nat) (S : List Obj) (hg : Good S) :
    ∃ R, archiveToFsobj c (addContents S) = some R ∧
      ∀ x y, .file x ∈ S → .file y ∈ S → x.loc ≠ y.loc →
        (inoAt R x.loc).isSome = true ∧
        (inoAt R x.loc = inoAt R y.loc ↔ canLink x y = true) := by
  let dirs := C28.sortBy Obj.loc (S.filter Obj.isDir)
  let rest := S.filter fun o => !o.isDir
  have hdirs_mem : ∀ o, o ∈ dirs → o ∈ S ∧ o.isDir = true := fun o ho => by
    have := (C28.sortBy_perm Obj.loc _).mem_iff.mp ho
    exact ⟨(List.mem_filter.mp this).1, (List.mem_filter.mp this).2⟩
  have hrest_mem : ∀ o, o ∈ rest → o ∈ S := fun o ho => (List.mem_filter.mp ho).1
  have hrest_locs : (rest.map Obj.loc).Nodup := (List.filter_sublist.map Obj.loc).nodup hg.locs
  have hspec := rt_spec c rest [] [] ⟨c + 1, 0, []⟩
    ⟨fun k e h => by simp [List.lookup] at h, fun k e h => by simp [List.lookup] at h, fun k _ => rfl⟩
    hrest_locs (fun o _ => rfl) (fun o ho => hg.paths o (hrest_mem o ho))
    (fun l a c' mj mn h => hg.devs l a c' mj mn (hrest_mem _ h)) (fun _ _ => Or.inr trivial)
    ⟨fun x _ e h => by simp [List.lookup] at h,
     fun x y hx hy hk hks => (hg.links x y (hrest_mem _ hx) (hrest_mem _ hy) hk hks).1⟩
  have hdirs_nf : ∀ o ∈ dirs, o.isReg = false := fun o ho => by
    have := (hdirs_mem o ho).2
    cases o <;> simp_all [Obj.isDir, Obj.isReg]
  refine ⟨dirs ++ specRest c rest [] (c + 1) 0, ?_, ?_⟩
  · unfold archiveToFsobj addContents
    rw [readLoop_prefix c dirs _ _ hdirs_nf (fun o ho => hg.paths o (hdirs_mem o ho).1)
      (fun l a c' mj mn h => hg.devs l a c' mj mn (hdirs_mem _ h).1), hspec]
    rfl
  · intro x y hx hy hne
    have hxr : Obj.file x ∈ rest := List.mem_filter.mpr ⟨hx, rfl⟩
    have hyr : Obj.file y ∈ rest := List.mem_filter.mpr ⟨hy, rfl⟩
    have skip : ∀ (z : File), Obj.file z ∈ rest → inoAt (dirs ++ specRest c rest [] (c + 1) 0) z.loc
        = inoAt (specRest c rest [] (c + 1) 0) z.loc := by
      intro z hz
      have hno : ∀ o ∈ dirs, (o.loc == z.loc) = false := by
        intro o ho
        have ⟨hoS, hod⟩ := hdirs_mem o ho
        rw [beq_eq_false_iff_ne]
        intro e
        have hzS := hrest_mem _ hz
        have : o = Obj.file z := C28.key_inj_of_nodup Obj.loc S hg.locs o (Obj.file z) hoS hzS e
        rw [this] at hod
        simp [Obj.isDir] at hod
      unfold inoAt
      rw [List.find?_append]
      have : dirs.find? (·.loc == z.loc) = none := List.find?_eq_none.mpr (fun o ho => by simp [hno o ho])
      rw [this]; rfl
    rw [skip x hxr, skip y hyr]
    obtain ⟨i, hi, _⟩ := specRest_ino_src c rest [] (c + 1) 0 hrest_locs x hxr
    refine ⟨by rw [hi]; rfl, ?_, ?_⟩
    · intro heq
      have hconv := specRest_share_conv c rest [] (c + 1) 0
        ⟨fun k i d h => by simp [List.lookup] at h, fun k k' i d d' h => by simp [List.lookup] at h⟩
        hrest_locs x y hxr hyr hne heq
      rw [canLink_iff x y hconv.1.symm, hconv.2, (hg.links x y hx hy hconv.1 hconv.2).1]
      simp
    · intro hcl
      have hk : keyOf x = keyOf y := by
        unfold canLink at hcl
        simp only [Bool.and_eq_true, beq_iff_eq] at hcl
        unfold keyOf; rw [hcl.1.1.2, hcl.1.2]
      have hks : keySome x = true := by
        unfold canLink at hcl
        simp only [Bool.and_eq_true] at hcl
        unfold keySome; rw [hcl.1.1.1.1, hcl.1.1.1.2]; rfl
      exact (specRest_share c rest [] (c + 1) 0 hrest_locs x y hxr hyr hk hks).1

/-- **an empty archive reads as an empty set**, and so does the archive written from the empty set -/
theorem empty_archive_empty (c : Nat) :
    (archiveToFsobj c []).bind convertArchive = some [] ∧ roundTrip c [] = some [] ∧ addContents [] = [] := by
  refine ⟨rfl, rfl, rfl⟩

/-- nothing of the set lies below one of its symlinks, and every parent directory is part of the set -/
structure Plain (raw : List Obj) : Prop where
  locs : (raw.map Obj.loc).Nodup
  nochild : ∀ s ∈ raw, s.isSym = true → childNodes raw s.loc = []
  parents : ∀ o ∈ raw, (raw.any (·.loc == dirName o.loc)) = true ∨ dirName o.loc = ['/'] ∨ dirName o.loc = []

/-- for such a set `convert_archive` neither moves, adds nor drops anything: it only reorders
(directories, then symlinks/fifos/devices, then regular files in archive order) -/
theorem convert_plain (raw : List Obj) (hp : Plain raw) : ∃ R, convertArchive raw = some R ∧ R.Perm raw := by
  have hset : setOf raw = raw := setOf_nodup raw hp.locs
  have hsymsub : ((raw.filter Obj.isSym).map Obj.loc).Nodup := (List.filter_sublist.map Obj.loc).nodup hp.locs
  have hsyms : setOf (raw.filter Obj.isSym) = raw.filter Obj.isSym := setOf_nodup _ hsymsub
  -- removing the symlinks by location removes exactly the symlinks
  have hrem : setRemove raw (raw.filter Obj.isSym) = raw.filter (fun o => !o.isSym) := by
    unfold setRemove
    apply List.filter_congr
    intro x hx
    cases hxs : x.isSym with
    | true =>
      have : (raw.filter Obj.isSym).any (·.loc == x.loc) = true :=
        List.any_eq_true.mpr ⟨x, List.mem_filter.mpr ⟨hx, hxs⟩, by simp⟩
      simp [this]
    | false =>
      have : (raw.filter Obj.isSym).any (·.loc == x.loc) = false := by
        rw [List.any_eq_false]
        intro s hs hk
        have hsl : s.loc = x.loc := by simpa using hk
        have heq := C28.key_inj_of_nodup Obj.loc raw hp.locs s x (List.mem_filter.mp hs).1 hx hsl
        have hss := (List.mem_filter.mp hs).2
        rw [heq, hxs] at hss
        cases hss
      simp [this]
  have hperm : (raw.filter (fun o => !o.isSym) ++ raw.filter Obj.isSym).Perm raw := by
    have := List.filter_append_perm Obj.isSym raw
    exact (List.perm_append_comm.trans this)
  have hupd : setUpdate (raw.filter (fun o => !o.isSym)) (raw.filter Obj.isSym)
      = raw.filter (fun o => !o.isSym) ++ raw.filter Obj.isSym :=
    setUpdate_fresh _ _ ((hperm.map Obj.loc).nodup_iff.mpr hp.locs)
  let t := raw.filter (fun o => !o.isSym) ++ raw.filter Obj.isSym
  have hnoc : ∀ x ∈ raw.filter Obj.isSym, childNodes t x.loc = [] := fun x hx =>
    childNodes_nil_of_perm t raw hperm x.loc (hp.nochild x (List.mem_filter.mp hx).1 (List.mem_filter.mp hx).2)
  have hnoc_syms : ∀ x ∈ raw.filter Obj.isSym, childNodes (raw.filter Obj.isSym) x.loc = [] := fun x hx =>
    childNodes_nil_of_subset _ raw (fun y hy => (List.mem_filter.mp hy).1) x.loc
      (hp.nochild x (List.mem_filter.mp hx).1 (List.mem_filter.mp hx).2)
  have hmiss : ∀ n, missingDirs (n + 1) t = [] := by
    intro n
    have : ((t.map fun x => dirName x.loc).filter fun p => !(t.any (·.loc == p)) && p != ['/'] && !p.isEmpty) = [] := by
      rw [List.filter_eq_nil_iff]
      intro p hpm
      obtain ⟨o, ho, rfl⟩ := List.mem_map.mp hpm
      have hor := hp.parents o (hperm.mem_iff.mp ho)
      rcases hor with h | h | h
      · have : t.any (·.loc == dirName o.loc) = true := by
          obtain ⟨y, hy, hk⟩ := List.any_eq_true.mp h
          exact List.any_eq_true.mpr ⟨y, hperm.mem_iff.mpr hy, hk⟩
        simp [this]
      · simp [h]
      · simp [h]
    simp [missingDirs, this]
  refine ⟨C28.sortBy Obj.loc (t.filter Obj.isDir) ++ C28.sortBy Obj.loc (t.filter fun o => !o.isDir && !o.isReg)
      ++ sortByNat srcOf (t.filter Obj.isReg), ?_, ?_⟩
  · unfold convertArchive
    simp only [hset, hsyms, symLoop_stable _ _ hnoc_syms, hrem, hupd]
    have hrev : ∀ x ∈ (C28.sortBy Obj.loc (raw.filter Obj.isSym)).reverse, childNodes t x.loc = [] := fun x hx =>
      hnoc x ((C28.sortBy_perm Obj.loc _).mem_iff.mp (List.mem_reverse.mp hx))
    rw [relocatePasses_stable _ _ t hrev]
    have hm := hmiss (maxLocLen t)
    simp only [hm, List.eraseDups_nil, List.map_nil]
    rfl
  · refine List.Perm.trans ?_ ((partition_perm t).trans hperm)
    exact ((C28.sortBy_perm _ _).append (C28.sortBy_perm _ _)).append (sortByNat_perm _ _)


/-! ### relocation below symlinked directories

`Relocatable raw` (`Proofs/C25.lean`): distinct locations; the symlinks sit at normalised locations (`LocNorm`) and no
symlink is recorded below another symlink (`flat`); following at most `(symsOf raw).length` symlinks settles every
location (`depth` — no cycle: a chain through every symlink once is that long); different entries resolve to
different places (`inj`).  `placeOf raw e` is `e` at `resolveDir … e.loc` (`Spec/C25.lean`), defined without the
code's loops. -/

/-- **relocation** (guard: `Relocatable.flat` — no symlink recorded below another symlink — and `Relocatable.depth`;
the statement without `flat` is false of the code, `convert_relocates_counterexample`; with longer resolution
chains than the archive has symlinks the passes stop early, `convert_passes_counterexample`; on a cycle among
symlinks recorded below symlinks the code raises, `convert_cycle_rejected`): for an archive whose
symlinked directories form no cycle, `convert_archive` puts every entry at
the resolved location of its recorded path — chains (`current → stable → v2`) and nests included —, loses and
duplicates nothing (the result is a permutation of the relocated entries plus newly created directories, with
pairwise different locations), leaves alone what needed no relocation, and reaches the fixpoint: no entry of the
result (the created directories included) lies below a symlink of the result -/
theorem convert_relocates_partial (raw : List Obj) (h : Relocatable raw) :
    ∃ (R : List Obj) (added : List Str), convertArchive raw = some R ∧
      R.Perm (raw.map (placeOf raw) ++ added.map newDir) ∧
      (R.map Obj.loc).Nodup ∧
      (∀ e ∈ raw, stepLoc (symsOf raw) e.loc = none → e ∈ R) ∧
      (∀ s ∈ R, s.isSym = true → ∀ o ∈ R, isChild s.loc o.loc = false) := by
  obtain ⟨R, added, h1, h2, h3, _, _, h6, h7⟩ := convert_flat_full raw h
  exact ⟨R, added, h1, h2, h3, h6, h7⟩

/-- **`add_missing_directories`, any set**: the directories created are exactly the proper ancestors of the
entries that are not themselves entries (the root excepted), each once -/
theorem missing_dirs_exact (t : List Obj) :
    (addedDirs t).Nodup ∧ ∀ p, p ∈ addedDirs t ↔ p ∉ t.map Obj.loc ∧ p ≠ ['/'] ∧ p ≠ [] ∧ ∃ e ∈ t, p ∈ ancestors e.loc := by
  refine ⟨nodup_eraseDups _, fun p => ?_⟩
  unfold addedDirs
  rw [List.mem_eraseDups, missingDirs_spec]

/-- **missing directories** in `convert_archive` (same guard as `convert_relocates_partial`, which describes the
relocated set): the directories created are exactly the proper ancestors of the
relocated entries that are not themselves entries (the root excepted), each once -/
theorem convert_adds_missing_dirs_partial (raw : List Obj) (h : Relocatable raw) :
    ∃ (R : List Obj) (added : List Str), convertArchive raw = some R ∧
      R.Perm (raw.map (placeOf raw) ++ added.map newDir) ∧ added.Nodup ∧
      ∀ p, p ∈ added ↔ p ∉ (raw.map (placeOf raw)).map Obj.loc ∧ p ≠ ['/'] ∧ p ≠ [] ∧
        ∃ e ∈ raw, p ∈ ancestors (placeOf raw e).loc := by
  obtain ⟨R, added, h1, h2, _, h4, h5, _, _⟩ := convert_flat_full raw h
  exact ⟨R, added, h1, h2, h4, h5⟩

/-- **final ordering** (every archive): directories first, by location; then symlinks, fifos and devices, by
location; then the regular files in the order of their data in the archive -/
theorem convert_order (raw R : List Obj) (h : convertArchive raw = some R) :
    ∃ A B C, R = A ++ B ++ C ∧
      (∀ o ∈ A, o.isDir = true) ∧ A.Pairwise (fun a b => a.loc ≤ b.loc) ∧
      (∀ o ∈ B, o.isDir = false ∧ o.isReg = false) ∧ B.Pairwise (fun a b => a.loc ≤ b.loc) ∧
      (∀ o ∈ C, o.isReg = true) ∧ C.Pairwise (fun a b => srcOf a ≤ srcOf b) := by
  unfold convertArchive at h
  simp only at h
  split at h
  · cases h
  · simp only [Option.some.injEq] at h
    refine ⟨_, _, _, h.symm, ?_, C28.sortBy_pairwise Obj.loc _, ?_, C28.sortBy_pairwise Obj.loc _, ?_, sortByNat_pairwise _ _⟩
    · intro o ho
      exact (List.mem_filter.mp ((C28.sortBy_perm Obj.loc _).mem_iff.mp ho)).2
    · intro o ho
      have := (List.mem_filter.mp ((C28.sortBy_perm Obj.loc _).mem_iff.mp ho)).2
      simpa using this
    · intro o ho
      exact (List.mem_filter.mp ((sortByNat_perm _ _).mem_iff.mp ho)).2

/-- **name mangling**: every normalised absolute location (`/` followed by non-empty components without `/`,
none of them `.` or `..`) survives `"./" + loc.lstrip("/")` followed by `abspath(join("/", name.strip("/")))` — the
hypothesis `PathOK` of the round-trip theorems — and has the child prefix `loc + "/"` — the hypothesis `LocNorm` of
the relocation theorems -/
theorem pathok_normalised (comps : List Str) (hne : comps ≠ []) (h : ∀ c ∈ comps, GoodComp c) :
    PathOK ('/' :: joinWith '/' comps) ∧ LocNorm ('/' :: joinWith '/' comps) :=
  ⟨pathOK_of_normal comps hne h, locNorm_of_normal comps hne h⟩

example : (∀ c ∈ ["usr".toList, "lib64".toList, "a b.so.1".toList], GoodComp c) ∧
    '/' :: joinWith '/' ["usr".toList, "lib64".toList, "a b.so.1".toList] = "/usr/lib64/a b.so.1".toList := by
  refine ⟨?_, by decide⟩
  intro c hc
  simp only [List.mem_cons, List.not_mem_nil, or_false] at hc
  rcases hc with rfl | rfl | rfl <;> exact ⟨by decide, by decide, by decide, by decide⟩

/-! ### the hypotheses are satisfiable -/

def exampleSet : List Obj :=
  [.file ⟨"/usr/a".toList, ⟨420, 0, 0, "7.5".toList⟩, some 1, some 2, 11, 0⟩,
   .dir "/usr".toList ⟨493, 0, 0, "5.0".toList⟩,
   .sym "/usr/l".toList "a".toList ⟨511, 0, 0, "9.0".toList⟩,
   .file ⟨"/usr/b".toList, ⟨420, 0, 0, "7.5".toList⟩, some 1, some 2, 11, 0⟩,
   .dev "/null".toList ⟨8630, 0, 0, "1.0".toList⟩ true 1 3]

example : Good exampleSet := by
  refine ⟨by decide, ?_, ?_, ?_⟩
  · intro o ho
    simp only [exampleSet, List.mem_cons, List.not_mem_nil, or_false] at ho
    rcases ho with rfl | rfl | rfl | rfl | rfl <;> exact ⟨by decide, by decide, by decide⟩
  · intro l a c mj mn h
    simp only [exampleSet, List.mem_cons, List.not_mem_nil, or_false] at h
    rcases h with h | h | h | h | h <;> cases h
    unfold DevModeOK; decide
  · intro x y hx hy hk hks
    simp only [exampleSet, List.mem_cons, List.not_mem_nil, or_false] at hx hy
    rcases hx with hx | hx | hx | hx | hx <;> cases hx <;>
      rcases hy with hy | hy | hy | hy | hy <;> cases hy <;> exact ⟨rfl, rfl⟩

example : Plain [.dir "/usr".toList ⟨493, 0, 0, []⟩, .file ⟨"/usr/a".toList, ⟨420, 0, 0, []⟩, some 1, some 2, 3, 0⟩,
    .sym "/usr/l".toList "a".toList ⟨511, 0, 0, []⟩] := by
  refine ⟨by decide, ?_, ?_⟩
  · intro s hs hsym
    simp only [List.mem_cons, List.not_mem_nil, or_false] at hs
    rcases hs with rfl | rfl | rfl
    · simp [Obj.isSym] at hsym
    · simp [Obj.isSym] at hsym
    · decide
  · intro o ho
    simp only [List.mem_cons, List.not_mem_nil, or_false] at ho
    rcases ho with rfl | rfl | rfl <;> decide

/-! ### chains and nests satisfy the hypotheses; what lies outside them -/

def dirAttrs : Attrs := ⟨493, 0, 0, []⟩

/-- `current → stable → v2`, a symlinked directory inside the resolved directory (`v2/lib → lib64`), and a symlink with
a relative `..` target leading into the chain: the longest resolution follows all four symlinks -/
def chainSet : List Obj :=
  [.dir "/opt".toList dirAttrs,
   .sym "/opt/current".toList "stable".toList dirAttrs,
   .sym "/opt/stable".toList "v2".toList dirAttrs,
   .dir "/opt/v2".toList dirAttrs,
   .sym "/opt/v2/lib".toList "lib64".toList dirAttrs,
   .sym "/srv/app".toList "../opt/current".toList dirAttrs,
   .dir "/opt/current/bin".toList dirAttrs,
   .file ⟨"/opt/current/bin/tool".toList, dirAttrs, some 1, some 2, 7, 0⟩,
   .file ⟨"/srv/app/lib/y.so".toList, dirAttrs, some 1, some 3, 8, 1⟩]

example : Relocatable chainSet := relocatable_of_check chainSet (by decide)

example : chainSet.map (fun e => (placeOf chainSet e).loc) =
    ["/opt", "/opt/current", "/opt/stable", "/opt/v2", "/opt/v2/lib", "/srv/app", "/opt/v2/bin", "/opt/v2/bin/tool",
     "/opt/v2/lib64/y.so"].map String.toList := by decide

example : (convertArchive chainSet).map (·.map Obj.loc) = some (["/opt", "/opt/v2", "/opt/v2/bin", "/opt/v2/lib64", "/srv",
    "/opt/current", "/opt/stable", "/opt/v2/lib", "/srv/app", "/opt/v2/bin/tool", "/opt/v2/lib64/y.so"].map String.toList) := by
  decide

/-- a symlink recorded below a symlinked directory (`/p/a/b/c` below `/p/a/b`), whose carrier `/p/a/b` is itself
relocated later (`/q/a → /w` lands on `/p/a`) -/
def nestedSet : List Obj :=
  [.sym "/p/a/b".toList "../z".toList dirAttrs, .sym "/p/a/b/c".toList "tc".toList dirAttrs,
   .sym "/q".toList "/p".toList dirAttrs, .sym "/q/a".toList "/w".toList dirAttrs]

/-- the statement without `flat` is false: the symlinks are relocated in sorted order, `/p/a/b/c` is moved through
`/p/a/b → ../z` while `/p/a/b` still sits at its recorded place, and ends at `/p/z/c`; `/p/a/b` then moves to `/w/b`, so
a live merge (`Spec.mergedLocs`) puts the entry at `/z/c` (open finding C25-symlink-below-symlink-order) -/
theorem convert_relocates_counterexample :
    (convertArchive nestedSet).map (·.map Obj.loc) = some (["/p", "/p/z", "/w", "/p/a", "/p/z/c", "/q", "/w/b"].map String.toList) ∧
    (mergedLocs nestedSet).map (·.lookup "/p/a/b/c".toList) = some (some "/z/c".toList) := by decide

/-- a symlink to an ancestor directory (`/d/m → /`) lets a resolution run through the same symlinks twice -/
def ancestorLinkSet : List Obj :=
  [.sym "/l".toList "/d".toList dirAttrs, .sym "/d/m".toList "/".toList dirAttrs,
   .file ⟨"/l/m/l/m/x".toList, dirAttrs, none, none, 1, 0⟩]

/-- `range(len(syms) + 1)` passes are not enough then: the file is left at `/d/m/x`, below the symlink `/d/m` (a live
merge resolves it to `/x`; open finding C25-resolution-longer-than-symlinks) -/
theorem convert_passes_counterexample :
    (convertArchive ancestorLinkSet).map (fun R => R.any fun s => s.isSym && R.any fun o => isChild s.loc o.loc) = some true ∧
    relocatableB ancestorLinkSet = false := by decide

/-- a symlink pointing below itself with a symlink recorded below it -/
def cycleSet : List Obj := [.sym "/a".toList "/a/x".toList dirAttrs, .sym "/a/x".toList "foo".toList dirAttrs]

/-- the loop over the symlinks (formerly `while True`: the code never returned, fixed finding C25-symlink-cycle-hang)
uses up its passes on it and `convert_archive` raises the symlink-loop `AssertionError` -/
theorem convert_cycle_rejected : convertArchive cycleSet = none := by decide

/-- **termination**: every loop of `convert_archive` is bounded (the model recurses on the bounds of the code, there is
no modelling fuel left), so it returns a result or raises; it raises (`none`) exactly when the loop relocating symlinks
recorded below symlinks uses up its `n² + n + 2` passes, and when that loop ends normally no symlink of its result
lies below another one -/
theorem convert_terminates (raw : List Obj) :
    (convertArchive raw = none ↔
      symLoop (((setOf raw).filter Obj.isSym).length * ((setOf raw).filter Obj.isSym).length
        + ((setOf raw).filter Obj.isSym).length + 2) (setOf ((setOf raw).filter Obj.isSym)) = none) ∧
    (∀ fuel syms F, symLoop fuel syms = some F → ∀ x ∈ F, childNodes F x.loc = []) :=
  ⟨convertArchive_none_iff raw, symLoop_settled⟩

example : (roundTrip 100 exampleSet).map (List.map inodeOf) = some [none, none, none, some 101, some 101] := by decide

end Pkgcore.C25
