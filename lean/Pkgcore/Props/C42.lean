import Pkgcore.Proofs.C42
/-!
# C42 — package move updates follow move chains in file order

Property theorems only (helper lemmas and the heap invariant live in `Pkgcore/Proofs/C42.lean`).
`readUpdates` mirrors `pkgcore.ebuild.pkg_updates.read_updates` (deque graph = heap of nodes);
`Spec.reference` is the sequential per-name reference.
-/
namespace Pkgcore.C42
open Spec

/-- **files are processed chronologically**: `_scan_directory` returns exactly the correctly named files
(each once), ordered by year and then quarter — whatever the order of the directory listing. -/
theorem scan_chronological (files : List UFile) :
    (scan files).Perm (files.filter fun f => f.key.isSome) ∧ (scan files).Pairwise chronLe := by
  refine ⟨List.mergeSort_perm _ _, ?_⟩
  have := List.pairwise_mergeSort le_trans' le_total' (files.filter fun f => f.key.isSome)
  exact this.imp (fun h => le_chron _ _ h)

/-- **the mapping returned by `read_updates` is the sequential reference**: for every list of update files (any
number, any content, any listing order) and every package name `k`, the commands reported for `k` are exactly
the chain of accepted moves and slotmoves that apply to the package originally called `k`, in file order; names
with an empty chain are absent. -/
theorem updates_eq_reference (files : List UFile) (k : Key) :
    assoc k (readUpdates files) = reference ((scan files).flatMap (·.lines)) k := by
  have inv := processAll_inv files
  unfold readUpdates reference
  simp only
  rw [assoc_map_filter (fun e => flatten (processAll files).heap e.2.1) (fun e => !e.2.isEmpty) k _ inv.nodup]
  cases h : assoc k (processAll files).mods with
  | none =>
    simp only
    rw [(inv.absent h).1]; rfl
  | some v =>
    obtain ⟨hd, tl⟩ := v
    simp only
    rw [inv.flatten_head h]
    cases chain k (accepted ((scan files).flatMap (·.lines))) <;> rfl

/-- every name is reported at most once -/
theorem updates_keys_nodup (files : List UFile) : ((readUpdates files).map (·.1)).Nodup := by
  have inv := processAll_inv files
  unfold readUpdates
  simp only
  refine List.Nodup.sublist (List.Sublist.map _ List.filter_sublist) ?_
  rw [List.map_map]
  exact inv.nodup

-- the reference is not trivial: a chain through a cycle, with a redundant and a malformed line in between
example :
    let a : Atom := ⟨"c/a", "c/a", false, false⟩
    let b : Atom := ⟨"c/b", "c/b", false, false⟩
    let tk (x : Atom) : Tok := ⟨x.text, some x, false⟩
    let w (s : String) : Tok := ⟨s, none, true⟩
    reference [[w "slotmove", tk b, w "2", w "3"], [w "move", tk a, tk b], [w "move", tk b, tk a],
               [w "slotmove", tk a, w "0", w "1"], [w "move", tk b]] "c/a" = some [.move a b, .move b a] := by
  decide

/-- **redundant moves are ignored**: a well-formed `move`/`slotmove` whose source name has already been moved
changes nothing. -/
theorem redundant_moves_ignored (st : St) (line : List Tok) (c : Cmd)
    (hwf : wellFormed line = some c) (hmoved : c.srcKey ∈ st.moved) : processLine st line = st :=
  processLine_redundant st line c hwf hmoved

example : wellFormed [⟨"move", none, false⟩, ⟨"c/a", some ⟨"c/a", "c/a", false, false⟩, false⟩,
    ⟨"c/b", some ⟨"c/b", "c/b", false, false⟩, false⟩] = some (.move ⟨"c/a", "c/a", false, false⟩ ⟨"c/b", "c/b", false, false⟩) := by
  decide

/-- **malformed lines are skipped**: a line that is not a well-formed command (blank, unknown command, wrong number
of arguments, unparsable or versioned atom, slotted slotmove source, invalid slot) changes nothing. -/
theorem malformed_lines_skipped (st : St) (line : List Tok) (hbad : wellFormed line = none) :
    processLine st line = st :=
  processLine_malformed st line hbad

example : wellFormed [⟨"move", none, false⟩, ⟨"=c/a-1", some ⟨"=c/a-1", "c/a", true, false⟩, false⟩,
    ⟨"c/b", some ⟨"c/b", "c/b", false, false⟩, false⟩] = none := by decide

/-- … hence the malformed lines of a file can be deleted without changing the outcome, from any state -/
theorem malformed_lines_removable (st : St) (lines : List (List Tok)) :
    lines.foldl processLine st = (lines.filter fun l => (wellFormed l).isSome).foldl processLine st := by
  induction lines generalizing st with
  | nil => rfl
  | cons l ls ih =>
    cases h : wellFormed l with
    | none => simp only [List.foldl_cons, List.filter_cons, h, Option.isSome_none]; rw [processLine_malformed st l h]; exact ih st
    | some c => simp only [List.foldl_cons, List.filter_cons, h, Option.isSome_some, if_true]; exact ih _

/-- **the deque graph is acyclic**: in every reachable state each nested deque is younger than the deque that
contains it, so `iflatten_instance` terminates and the guard in `flatten` is always true. -/
theorem deque_graph_acyclic (files : List UFile) (i j : Nat)
    (h : Item.ref j ∈ node (processAll files).heap i) : i < j ∧ j < (processAll files).heap.length :=
  (processAll_inv files).refs i j h

end Pkgcore.C42
