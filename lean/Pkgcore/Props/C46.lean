import Pkgcore.Proofs.C46
/-!
# C46 — distfile cleaning never deletes a distfile that must be kept

Property theorems only.  `removed` mirrors the list of paths `pclean dist` hands to `os.remove`
(`_dist_validate_args` + file filters), `left` the distdir afterwards.
-/
namespace Pkgcore.C46
open Spec

/-- **only selected files that pass the filters are removed** — for every distdir, repository, installed set and
option combination -/
theorem removed_subset_targets (i : Input) (f : String) (h : f ∈ removed i) :
    selectedByTargets i f ∧ passesFilters i f := by
  obtain ⟨h1, h2, _, h4⟩ := (mem_removed i f).1 h
  refine ⟨⟨h1, fun hr => ?_⟩, passes_spec i f h4⟩
  unfold targetFiles at h2
  rw [if_pos hr] at h2
  by_cases ht : i.repo.any (·.targeted) = true
  · rw [if_pos ht] at h2
    rw [List.any_eq_true] at ht
    exact ⟨h2, ht⟩
  · rw [if_neg ht] at h2; cases h2

/-- **targets that match no package remove nothing**: a mistyped name, a version nobody provides, or a target that an
exclusion cancels again never falls back to "clean everything" -/
theorem no_targeted_package_removes_nothing (i : Input) (hr : i.opts.hasRestrict = true)
    (hnone : ∀ p ∈ i.repo, p.targeted = false) : removed i = [] := by
  have hany : i.repo.any (·.targeted) = false := by
    rw [List.any_eq_false]
    intro p hp; simp [hnone p hp]
  cases h : removed i with
  | nil => rfl
  | cons f l =>
    have hf : f ∈ removed i := by rw [h]; simp
    have := ((mem_removed i f).1 hf).2.1
    unfold targetFiles at this
    rw [if_pos hr, hany] at this
    cases this

/-- **a needed file is never removed**: with `--installed` no distfile of an installed package, with `--exists` no
distfile of any package in the repositories (with or without targets), with `--fetch-restricted` no distfile of a
fetch-restricted package, and no distfile of a package matched by an exclusion pattern -/
theorem never_removes_needed (i : Input) (f : String) (h : needed i f) : f ∉ removed i := by
  intro hr
  exact ((mem_removed i f).1 hr).2.2.1 (needed_saved i f h)

/-- … hence it is still in the distdir afterwards -/
theorem needed_files_left (i : Input) (f : String) (hf : f ∈ names i) (h : needed i f) : f ∈ left i := by
  unfold left
  rw [List.mem_filter]
  refine ⟨hf, ?_⟩
  cases hc : (removed i).contains f with
  | false => rfl
  | true => exact absurd (List.contains_iff_mem.1 hc) (never_removes_needed i f h)

/-- exactly the removed files are gone -/
theorem left_exactly (i : Input) (f : String) : f ∈ left i ↔ f ∈ names i ∧ f ∉ removed i := by
  unfold left
  rw [List.mem_filter]
  constructor
  · rintro ⟨h1, h2⟩
    refine ⟨h1, fun hm => ?_⟩
    have := List.contains_iff_mem.2 hm
    rw [this] at h2; cases h2
  · rintro ⟨h1, h2⟩
    refine ⟨h1, ?_⟩
    cases hc : (removed i).contains f with
    | false => rfl
    | true => exact absurd (List.contains_iff_mem.1 hc) h2

/-- the cleaning is not vacuous: every selected file that passes the filters and is not saved *is* removed -/
theorem removed_exactly (i : Input) (f : String) :
    f ∈ removed i ↔ f ∈ names i ∧ f ∈ targetFiles i ∧ f ∉ saving i ∧ passes i f = true :=
  mem_removed i f

def exInput : Input :=
  ⟨[⟨"foo-1.tar.gz", 10, 5⟩, ⟨"foo-bar-1.tar.gz", 10, 5⟩, ⟨"foo-0.9.tar.gz", 10, 5⟩, ⟨"big.iso", 10, 5000⟩],
   ["foo-1.tar.gz", "foo-bar-1.tar.gz", "foo-0.9.tar.gz"], [],
   [⟨["foo-1.tar.gz"], false, true, false⟩, ⟨["foo-bar-1.tar.gz"], false, false, false⟩],
   ⟨false, true, false, true, false, none, some 100⟩⟩

/-- `pclean dist cat/foo --exists --size 100B`: the stale `foo-0.9.tar.gz` goes, the distfile of the existing
ebuild `cat/foo-bar` — which the guessed pattern selects — stays (this is the defect fixed in /repo) -/
example : needed exInput "foo-bar-1.tar.gz" ∧ "foo-0.9.tar.gz" ∈ names exInput ∧ ¬ needed exInput "foo-0.9.tar.gz" := by
  refine ⟨Or.inr (Or.inl ⟨rfl, ⟨["foo-bar-1.tar.gz"], false, false, false⟩, by simp [exInput], by simp⟩), by simp [exInput, names], ?_⟩
  rintro (⟨h, _⟩ | ⟨_, p, hp, hf⟩ | ⟨h, _⟩ | ⟨h, _⟩)
  · simp [exInput] at h
  · simp [exInput] at hp
    rcases hp with rfl | rfl <;> simp at hf
  · simp [exInput] at h
  · simp [exInput] at h

end Pkgcore.C46
