import Pkgcore.Proofs.C46
/-!
# C46 — distfile cleaning never deletes a distfile that must be kept

Property theorems only.  `removed` mirrors the list of paths `pclean dist` hands to `os.remove`
(`_dist_validate_args` + file filters), `left` the distdir afterwards.
-/
namespace Pkgcore.C46
open Spec

/-- **only selected files that pass the filters are removed** — for every distdir, repository, installed set and
option combination -/
theorem removed_subset_targets (i : Input) (f : String) (h : f ∈ removed i) :
    selectedByTargets i f ∧ passesFilters i f := by
  obtain ⟨h1, h2, _, h4⟩ := (mem_removed i f).1 h
  refine ⟨⟨h1, fun hr => ?_⟩, passes_spec i f h4⟩
  unfold targetFiles at h2
  rw [if_pos hr] at h2
  by_cases ht : i.repo.any (·.targeted) = true
  · rw [if_pos ht] at h2
    rw [List.any_eq_true] at ht
    exact ⟨h2, ht⟩
  · rw [if_neg ht] at h2; cases h2

/-- **targets that match no package remove nothing**: a mistyped name, a version nobody provides, or a target that an
exclusion cancels again never falls back to "clean everything" -/
theorem no_targeted_package_removes_nothing (i : Input) (hr : i.opts.hasRestrict = true)
    (hnone : ∀ p ∈ i.repo, p.targeted = false) : removed i = [] := by
  have hany : i.repo.any (·.targeted) = false := by
    rw [List.any_eq_false]
    intro p hp; simp [hnone p hp]
  cases h : removed i with
  | nil => rfl
  | cons f l =>
    have hf : f ∈ removed i := by rw [h]; simp
    have := ((mem_removed i f).1 hf).2.1
    unfold targetFiles at this
    rw [if_pos hr, hany] at this
    cases this

/-- **a needed file is never removed**: with `--installed` no distfile of an installed package, with `--exists` no
distfile of any package in the repositories (with or without targets), with `--fetch-restricted` no distfile of a
fetch-restricted package, and no distfile of a package matched by an exclusion pattern -/
theorem never_removes_needed (i : Input) (f : String) (h : needed i f) : f ∉ removed i := by
  intro hr
  exact ((mem_removed i f).1 hr).2.2.1 (needed_saved i f h)

/-- … hence it is still in the distdir afterwards -/
theorem needed_files_left (i : Input) (f : String) (hf : f ∈ names i) (h : needed i f) : f ∈ left i := by
  unfold left
  rw [List.mem_filter]
  refine ⟨hf, ?_⟩
  cases hc : (removed i).contains f with
  | false => rfl
  | true => exact absurd (List.contains_iff_mem.1 hc) (never_removes_needed i f h)

/-- exactly the removed files are gone -/
theorem left_exactly (i : Input) (f : String) : f ∈ left i ↔ f ∈ names i ∧ f ∉ removed i := by
  unfold left
  rw [List.mem_filter]
  constructor
  · rintro ⟨h1, h2⟩
    refine ⟨h1, fun hm => ?_⟩
    have := List.contains_iff_mem.2 hm
    rw [this] at h2; cases h2
  · rintro ⟨h1, h2⟩
    refine ⟨h1, ?_⟩
    cases hc : (removed i).contains f with
    | false => rfl
    | true => exact absurd (List.contains_iff_mem.1 hc) h2

/-- the cleaning is not vacuous: every selected file that passes the filters and is not saved *is* removed -/
theorem removed_exactly (i : Input) (f : String) :
    f ∈ removed i ↔ f ∈ names i ∧ f ∈ targetFiles i ∧ f ∉ saving i ∧ passes i f = true :=
  mem_removed i f

def exInput : Input :=
  ⟨[⟨"foo-1.tar.gz", 10, 5⟩, ⟨"foo-bar-1.tar.gz", 10, 5⟩, ⟨"foo-0.9.tar.gz", 10, 5⟩, ⟨"big.iso", 10, 5000⟩],
   ["foo-1.tar.gz", "foo-bar-1.tar.gz", "foo-0.9.tar.gz"], [],
   [⟨["foo-1.tar.gz"], false, true, false, false⟩, ⟨["foo-bar-1.tar.gz"], false, false, false, false⟩],
   ⟨false, true, false, true, false, none, some 100⟩⟩

/-- `pclean dist cat/foo --exists --size 100B`: the stale `foo-0.9.tar.gz` goes, the distfile of the existing
ebuild `cat/foo-bar` — which the guessed pattern selects — stays (this is the defect fixed in /repo) -/
example : needed exInput "foo-bar-1.tar.gz" ∧ "foo-0.9.tar.gz" ∈ names exInput ∧ ¬ needed exInput "foo-0.9.tar.gz" := by
  refine ⟨Or.inr (Or.inl ⟨rfl, ⟨["foo-bar-1.tar.gz"], false, false, false, false⟩, by simp [exInput], by simp⟩), by simp [exInput, names], ?_⟩
  rintro (⟨h, _⟩ | ⟨_, p, hp, hf⟩ | ⟨h, _⟩ | ⟨h, _⟩)
  · simp [exInput] at h
  · simp [exInput] at hp
    rcases hp with rfl | rfl <;> simp at hf
  · simp [exInput] at h
  · simp [exInput] at h

/-! ## Repositories containing packages whose metadata cannot be read (unparsable SRC_URI)

`run` / `leftAfter` are the whole command: argument validation, which raises `MetadataException` as soon as one of
its loops evaluates `.distfiles` of such a package (`aborts`), followed by `_remove`. -/

/-- **a needed file survives the command, whatever the repository contains**: also when some packages have unreadable
metadata, no distfile needed by an installed / existing / fetch-restricted / excluded package is gone afterwards —
the run either stops before removing anything or protects every package, it never carries on with part of them. -/
theorem needed_files_survive (i : Input) (f : String) (hf : f ∈ names i) (h : needed i f) : f ∈ leftAfter i := by
  unfold leftAfter run
  cases ha : aborts i with
  | true => simpa using hf
  | false =>
    simp only [Bool.false_eq_true, if_false]
    exact needed_files_left i f hf h

/-- whatever is removed was selected by the targets and passes the filters — also in such repositories -/
theorem run_removes_only_selected (i : Input) (r : List String) (hr : run i = some r) (f : String) (hf : f ∈ r) :
    selectedByTargets i f ∧ passesFilters i f := by
  unfold run at hr
  cases ha : aborts i with
  | true => simp [ha] at hr
  | false =>
    simp only [ha, Bool.false_eq_true, if_false, Option.some.injEq] at hr
    subst hr
    exact removed_subset_targets i f hf

/-- **a package with unreadable metadata that the run has to look at stops the run before anything is removed** -/
theorem unreadable_metadata_removes_nothing (i : Input) (p : RepoPkg) (hp : p ∈ i.repo) (hb : p.broken = true)
    (ht : touched i p = true) : run i = none ∧ leftAfter i = names i := by
  have ha : aborts i = true := by
    unfold aborts
    rw [List.any_eq_true]
    exact ⟨p, hp, by simp [hb, ht]⟩
  unfold leftAfter run
  simp [ha]

/-- **… and when the run goes through, the distfiles of such packages were never read**: the outcome is that of the same
scenario with those lists blanked (so the needed sets of the packages that *can* be read are complete, not cut short
at the first unreadable one). -/
theorem unreadable_distfiles_never_read (i : Input) (r : List String) (hr : run i = some r) :
    run (visible i) = some r ∨ aborts (visible i) = true := by
  unfold run at hr
  cases ha : aborts i with
  | true => simp [ha] at hr
  | false =>
    simp only [ha, Bool.false_eq_true, if_false, Option.some.injEq] at hr
    cases hv : aborts (visible i) with
    | true => exact Or.inr rfl
    | false =>
      left
      unfold run
      simp only [hv, Bool.false_eq_true, if_false]
      rw [removed_visible i ha, hr]

def exBroken : Input :=
  ⟨[⟨"other-1.tar.gz", 10, 5⟩, ⟨"keepme-1.tar.gz", 10, 5⟩, ⟨"stale-0.1.tar.gz", 10, 5⟩], [], [],
   [⟨["other-1.tar.gz"], false, false, false, false⟩, ⟨["abroken-1.tar.gz"], false, false, false, true⟩,
    ⟨["keepme-1.tar.gz"], false, false, false, false⟩],
   ⟨false, true, false, false, false, none, none⟩⟩

/-- `pclean dist --exists` on a repository with one unparsable ebuild: the run stops, all three files are left;
without `--exists` nobody looks at the package and the run goes through -/
example : run exBroken = none ∧ leftAfter exBroken = ["other-1.tar.gz", "keepme-1.tar.gz", "stale-0.1.tar.gz"] := by decide
example : (run { exBroken with opts := ⟨false, false, false, false, false, none, none⟩ }).isSome = true := by decide

end Pkgcore.C46
