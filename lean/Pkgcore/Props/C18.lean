import Pkgcore.Proofs.C18
/-!
# C18 — merging places exactly the package contents on the live filesystem

Property theorems only (helper lemmas: `Pkgcore/Proofs/C18.lean`).  `mergeContents` mirrors
`pkgcore.fs.ops.merge_contents` (with `copyfile`, `do_link`, `ensure_perms`, `mkdir`, snakeoil's `ensure_dirs`)
over the abstract file system of `Model/C18.lean`; `Spec.Placed` is the property.
-/
namespace Pkgcore.C18
open Pkgcore.C18.Spec

/-- **Merging places exactly the contents** — for every well-formed pre-existing file system `pre`, every
contents set `es` (any size, any mix of directories, files with hard-link keys, symlinks, fifos, any names),
every process identity/umask and with or without an offset: if `merge_contents` returns normally, then every
entry is at its location with its type, data/target, mode, ownership and mtime; pre-existing directories keep
their inode and permissions; source inodes are hard-linked; no other path is created, changed or removed
(except missing parents, created as directories, and the `'#new'` temporaries, gone afterwards).

`_partial`: stated under `NoTmpClash` and `NoSymOverDir`; the full statement

    pre.WF → DistinctLocs es → TreeShaped es → HardlinkConsistent es → SymAtDirSolo pre es → RootGuard off pre es →
    mergeContents env off es pre = (s, .ok ()) → Placed pre es s.fs

is false of the model (and of the code): see the two counterexamples below (open findings
`C18-tmp-name-clash`, `C18-symlink-over-directory`).  The remaining hypotheses are well-formedness of the
inputs: a contents set is keyed by location (`DistinctLocs`), describes a tree (`TreeShaped`), entries of one
source inode carry the same bytes (`HardlinkConsistent`), a symlink under a directory entry has one name
(`SymAtDirSolo`), and a root that the merge itself creates is not also an entry (`RootGuard`). -/
theorem merge_places_contents_partial (env : Env) (off : Bool) (pre : Fs) (es : List Entry) (s : St)
    (hpre : pre.WF) (hdist : DistinctLocs es) (hclash : NoTmpClash es) (htree : TreeShaped es)
    (hsym : NoSymOverDir pre es) (hhl : HardlinkConsistent es) (hsolo : SymAtDirSolo pre es)
    (hroot : RootGuard off pre es)
    (h : mergeContents env off es pre = (s, .ok ())) : Placed pre es s.fs := by
  obtain ⟨c, m, hc, _⟩ := merge_main hpre ⟨hclash, htree, hsym, hhl, hsolo⟩ hdist hroot h
  exact placed_of_mid m hc

/-! non-vacuity: a concrete merge that satisfies every hypothesis and succeeds — a directory kept, a file
replaced through its `'#new'` sibling, a second name hard-linked, a symlink and a missing parent created -/
example : (mergeContents exEnv true exEs exPre).2.isOk = true ∧
    DistinctLocs exEs ∧ NoTmpClash exEs ∧ TreeShaped exEs ∧ NoSymOverDir exPre exEs ∧ HardlinkConsistent exEs ∧
    SymAtDirSolo exPre exEs ∧ RootGuard true exPre exEs ∧
    placedFailures exPre exEs (mergeContents exEnv true exEs exPre).1.fs = [] := by decide

/-- the full statement fails: contents with both `f#new` and `f`, where `f` exists — the entry `f#new` is used
as the temporary of `f` and is gone after a successful merge -/
theorem merge_places_contents_counterexample_tmpclash :
    ∃ (env : Env) (pre : Fs) (es : List Entry),
      DistinctLocs es ∧ TreeShaped es ∧ NoSymOverDir pre es ∧ HardlinkConsistent es ∧ SymAtDirSolo pre es ∧
      RootGuard true pre es ∧ (mergeContents env true es pre).2.isOk = true ∧
      ¬ Placed pre es (mergeContents env true es pre).1.fs := by
  refine ⟨⟨0o022, 0, 0⟩,
    ⟨[([], 1, ⟨.dir, 0o755, 0, 0, 0⟩), (["f"], 2, ⟨.file "78", 0o644, 0, 0, 1000⟩)], 3⟩,
    [⟨["f#new"], .reg "65" none, 0o644, 0, 0, 7⟩, ⟨["f"], .reg "6e" none, 0o644, 0, 0, 7⟩],
    by decide, by decide, by decide, by decide, by decide, by decide, by decide, ?_⟩
  rw [placed_iff_failures]
  decide

/-- the full statement fails: a symlink entry whose location is an existing directory (and `<location>/<target>`
is a directory) is skipped, the merge still reports success -/
theorem merge_places_contents_counterexample_symoverdir :
    ∃ (env : Env) (pre : Fs) (es : List Entry),
      DistinctLocs es ∧ NoTmpClash es ∧ TreeShaped es ∧ HardlinkConsistent es ∧ SymAtDirSolo pre es ∧
      RootGuard true pre es ∧ (mergeContents env true es pre).2.isOk = true ∧
      ¬ Placed pre es (mergeContents env true es pre).1.fs := by
  refine ⟨⟨0o022, 0, 0⟩,
    ⟨[([], 1, ⟨.dir, 0o755, 0, 0, 0⟩), (["d"], 2, ⟨.dir, 0o755, 0, 0, 0⟩), (["t", "d"], 3, ⟨.dir, 0o755, 0, 0, 0⟩)], 4⟩,
    [⟨["d"], .sym "t", 0o777, 0, 0, 7⟩],
    by decide, by decide, by decide, by decide, by decide, by decide, by decide, ?_⟩
  rw [placed_iff_failures]
  decide

/-! ### set-group-ID directories

The abstract file system gives an object created inside a directory that carries `S_ISGID` the *directory's*
group (and a sub-directory the bit as well), as Linux does — so `merge_places_contents_partial` above, which
quantifies over every `pre`, states in particular that entries merged into a set-group-ID directory of a foreign
group end up with their **recorded** group: that is the work of the unconditional `lchown` of `ensure_perms`. -/

/-- **Group inheritance**: a file, symlink or fifo created at a free path whose parent is a set-group-ID directory of
group `g` belongs to group `g`, whatever the group of the creating process is; a directory as well, and it carries
the set-group-ID bit itself. -/
theorem sgid_dir_group_inherited (env : Env) (fs fs' : Fs) (p : Path) (g : Nat) (op : Op)
    (hg : fs.sgidParent p = some g)
    (hop : (∃ m, op = .creat p m) ∨ (∃ t, op = .symlink t p) ∨ (∃ m, op = .mkfifo p m) ∨ (∃ m, op = .mkdir p m))
    (hv : fs.view p = none) (hs : step env fs op = .ok fs') :
    ∃ j nd, fs'.view p = some (j, nd) ∧ nd.gid = g ∧ (nd.kind = .dir → nd.mode &&& 0o2000 ≠ 0) := by
  have hgid : newGid env fs p = g := by simp [newGid, hg]
  rcases hop with ⟨m, rfl⟩ | ⟨t, rfl⟩ | ⟨m, rfl⟩ | ⟨m, rfl⟩
  · simp only [step, hv] at hs
    split at hs
    · cases hs
    · injection hs with hs; subst hs
      exact ⟨fs.next, ⟨.file "", m, env.uid, newGid env fs p, 0⟩, by simp, hgid, by simp⟩
  · simp only [step, hv] at hs
    split at hs
    · cases hs
    · simp at hs; subst hs
      exact ⟨fs.next, ⟨.sym t, 0o777, env.uid, newGid env fs p, 0⟩, by simp, hgid, by simp⟩
  · simp only [step, hv] at hs
    split at hs
    · cases hs
    · simp at hs; subst hs
      exact ⟨fs.next, ⟨.fifo, m, env.uid, newGid env fs p, 0⟩, by simp, hgid, by simp⟩
  · simp only [step, hv] at hs
    split at hs
    · cases hs
    · simp at hs; subst hs
      refine ⟨fs.next, ⟨.dir, newDirMode fs p (m &&& 0o1777), env.uid, newGid env fs p, 0⟩, by simp, hgid, fun _ => ?_⟩
      simp only [newDirMode, hg, Option.isSome_some, if_true]
      intro h0
      have h1 : ∀ k : Nat, (k ||| 0o2000) &&& 0o2000 = 0o2000 := by
        intro k
        apply Nat.eq_of_testBit_eq; intro i
        simp only [Nat.testBit_and, Nat.testBit_or]
        cases k.testBit i <;> cases (0o2000 : Nat).testBit i <;> rfl
      have h1 := h1 (m &&& 0o1777)
      rw [h0] at h1; exact absurd h1 (by decide)

/-- a root with the set-group-ID directory `games` (root:35, `02775`) holding a file of the previous build -/
def exSgidPre : Fs :=
  ⟨[([], 1, ⟨.dir, 0o755, 0, 0, 0⟩), (["games"], 2, ⟨.dir, 0o2775, 0, 35, 0⟩),
    (["score", "games"], 3, ⟨.file "6f6c64", 0o664, 0, 35, 1000⟩)], 4⟩
/-- entries recorded as `0:0` (the identity of the merging process) that go below `games`: a replaced file, a new
file, a symlink, a fifo, a sub-directory and a file below two parents that are not recorded -/
def exSgidEs : List Entry :=
  [⟨["games"], .dir, 0o2775, 0, 35, 9⟩, ⟨["score", "games"], .reg "6e6577" none, 0o644, 0, 0, 77⟩,
   ⟨["new", "games"], .reg "6e" none, 0o4711, 0, 0, 77⟩, ⟨["l", "games"], .sym "new" , 0o777, 0, 0, 8⟩,
   ⟨["p", "games"], .fifo, 0o600, 0, 0, 8⟩, ⟨["sub", "games"], .dir, 0o755, 0, 0, 8⟩,
   ⟨["f", "deep", "auto", "games"], .reg "" none, 0o644, 0, 0, 8⟩]

/-- non-vacuity for set-group-ID roots: the merge succeeds, every entry carries its recorded `0:0` although each
was *created* with group 35 (log: the `creat` is followed by `lchown … 0 0`), and the only path left with the
inherited group are the unrecorded parents `games/auto` (bit inherited) and `games/auto/deep` (snakeoil's `ensure_dirs`
re-applies `0750` to the last directory it makes below a set-group-ID one) -/
example : (mergeContents exEnv true exSgidEs exSgidPre).2.isOk = true ∧
    placedFailures exSgidPre exSgidEs (mergeContents exEnv true exSgidEs exSgidPre).1.fs = [] ∧
    ((mergeContents exEnv true exSgidEs exSgidPre).1.fs.view ["new", "games"]).map (·.2.gid) = some 0 ∧
    ((applyOp exEnv exSgidPre (.creat ["new", "games"] 0o644)).view ["new", "games"]).map (·.2.gid) = some 35 ∧
    ((mergeContents exEnv true exSgidEs exSgidPre).1.fs.view ["auto", "games"]).map (fun v => (v.2.gid, v.2.mode)) =
      some (35, 0o2750) ∧
    ((mergeContents exEnv true exSgidEs exSgidPre).1.fs.view ["deep", "auto", "games"]).map (fun v => (v.2.gid, v.2.mode)) =
      some (35, 0o750) := by decide

/-- **Frame**: a successful merge leaves every path alone that is not an entry location, a missing parent of
one, or the `'#new'` sibling of a replaced entry — stated for *all* paths, including their inode numbers (so
no unrelated file is modified through a shared inode either). -/
theorem merge_frame (env : Env) (off : Bool) (pre : Fs) (es : List Entry) (s : St)
    (hpre : pre.WF) (hdist : DistinctLocs es) (hclash : NoTmpClash es) (htree : TreeShaped es)
    (hsym : NoSymOverDir pre es) (hhl : HardlinkConsistent es) (hsolo : SymAtDirSolo pre es)
    (hroot : RootGuard off pre es)
    (h : mergeContents env off es pre = (s, .ok ())) :
    ∀ q : Path, q ∉ locs es → ¬ MissingParent pre es q → ¬ TouchedTmp pre es q → s.fs.view q = pre.view q :=
  fun q h1 h2 h3 =>
    (merge_places_contents_partial env off pre es s hpre hdist hclash htree hsym hhl hsolo hroot h).frame q ⟨h1, h2, h3⟩

example : Untouchable exPre exEs ["u"] ∧
    (mergeContents exEnv true exEs exPre).1.fs.view ["u"] = exPre.view ["u"] := by decide

/-- **Hard-link groups**: two regular entries with the same source `(dev, inode)` and the same
uid/gid/mode/mtime end up as two names of one inode. -/
theorem hardlink_groups (env : Env) (off : Bool) (pre : Fs) (es : List Entry) (s : St)
    (hpre : pre.WF) (hdist : DistinctLocs es) (hclash : NoTmpClash es) (htree : TreeShaped es)
    (hsym : NoSymOverDir pre es) (hhl : HardlinkConsistent es) (hsolo : SymAtDirSolo pre es)
    (hroot : RootGuard off pre es)
    (h : mergeContents env off es pre = (s, .ok ()))
    (a b : Entry) (ha : a ∈ es) (hb : b ∈ es) (hab : SameSourceInode a b) :
    ∃ i na nb, s.fs.view a.loc = some (i, na) ∧ s.fs.view b.loc = some (i, nb) := by
  have hp := merge_places_contents_partial env off pre es s hpre hdist hclash htree hsym hhl hsolo hroot h
  have hna : a.isDir = false := by
    unfold SameSourceInode at hab; unfold Entry.isDir; split at hab <;> simp_all
  have hnb : b.isDir = false := by
    unfold SameSourceInode at hab; unfold Entry.isDir; split at hab <;> simp_all
  obtain ⟨i, hi⟩ := hp.nondirs a ha hna
  obtain ⟨j, hj⟩ := hp.nondirs b hb hnb
  have := hp.hardlinks a ha b hb hab
  rw [hi, hj] at this
  simp only [Option.map_some, Option.some.injEq] at this
  exact ⟨i, _, _, hi, by rw [hj, this]⟩

example : SameSourceInode exEs[0] exEs[2] ∧
    ((mergeContents exEnv true exEs exPre).1.fs.view ["f", "d"]).map (·.1) =
    ((mergeContents exEnv true exEs exPre).1.fs.view ["g", "d"]).map (·.1) := by decide

/-- **The log is the trace**: the file system the model ends in is the replay, from `pre`, of the system calls it
logged (this is what the harness compares with the interposed `os.*` calls of the real merge) — for every
outcome that is `ok`. -/
theorem merge_log_consistent (env : Env) (off : Bool) (pre : Fs) (es : List Entry) (s : St)
    (hpre : pre.WF) (hdist : DistinctLocs es) (hclash : NoTmpClash es) (htree : TreeShaped es)
    (hsym : NoSymOverDir pre es) (hhl : HardlinkConsistent es) (hsolo : SymAtDirSolo pre es)
    (hroot : RootGuard off pre es)
    (h : mergeContents env off es pre = (s, .ok ())) :
    s.fs = run env pre (s.log.map Prod.fst) := by
  obtain ⟨c, _, _, ops, h1, h2, _⟩ := merge_main hpre ⟨hclash, htree, hsym, hhl, hsolo⟩ hdist hroot h
  simp only [List.nil_append] at h1
  rw [h1]; exact h2

example : (mergeContents exEnv true exEs exPre).1.log.length = 14 := by decide

/-- **The driver evaluates the specification itself**: the clause list computed on the finitely many paths
present before or after is empty exactly when `Placed` (quantified over all paths) holds. -/
theorem frame_bounded_iff (pre : Fs) (es : List Entry) (fin : Fs) :
    Placed pre es fin ↔ placedFailures pre es fin = [] := placed_iff_failures pre es fin

example : placedFailures exPre exEs exPre ≠ [] := by decide

end Pkgcore.C18
