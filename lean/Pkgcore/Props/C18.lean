import Pkgcore.Proofs.C18
/-!
# C18 — merging places exactly the package contents on the live filesystem

Property theorems only (helper lemmas: `Pkgcore/Proofs/C18.lean`).  `mergeContents` mirrors
`pkgcore.fs.ops.merge_contents` (with `copyfile`, `do_link`, `ensure_perms`, `mkdir`, snakeoil's `ensure_dirs`)
over the abstract file system of `Model/C18.lean`; `Spec.Placed` is the property.
-/
namespace Pkgcore.C18
open Pkgcore.C18.Spec

/-- **Merging places exactly the contents** — for every well-formed pre-existing file system `pre`, every
contents set `es` (any size, any mix of directories, files with hard-link keys, symlinks, fifos, any names),
every process identity/umask and with or without an offset: if `merge_contents` returns normally, then every
entry is at its location with its type, data/target, mode, ownership and mtime; pre-existing directories keep
their inode and permissions; source inodes are hard-linked; no other path is created, changed or removed
(except missing parents, created as directories, and the `'#new'` temporaries, gone afterwards).

`_partial`: stated under `NoTmpClash` and `NoSymOverDir`; the full statement

    pre.WF → DistinctLocs es → TreeShaped es → HardlinkConsistent es → SymAtDirSolo pre es → RootGuard off pre es →
    mergeContents env off es pre = (s, .ok ()) → Placed pre es s.fs

is false of the model (and of the code): see the two counterexamples below (open findings
`C18-tmp-name-clash`, `C18-symlink-over-directory`).  The remaining hypotheses are well-formedness of the
inputs: a contents set is keyed by location (`DistinctLocs`), describes a tree (`TreeShaped`), entries of one
source inode carry the same bytes (`HardlinkConsistent`), a symlink under a directory entry has one name
(`SymAtDirSolo`), and a root that the merge itself creates is not also an entry (`RootGuard`). -/
theorem merge_places_contents_partial (env : Env) (off : Bool) (pre : Fs) (es : List Entry) (s : St)
    (hpre : pre.WF) (hdist : DistinctLocs es) (hclash : NoTmpClash es) (htree : TreeShaped es)
    (hsym : NoSymOverDir pre es) (hhl : HardlinkConsistent es) (hsolo : SymAtDirSolo pre es)
    (hroot : RootGuard off pre es)
    (h : mergeContents env off es pre = (s, .ok ())) : Placed pre es s.fs := by
  obtain ⟨c, m, hc, _⟩ := merge_main hpre ⟨hclash, htree, hsym, hhl, hsolo⟩ hdist hroot h
  exact placed_of_mid m hc

/-! non-vacuity: a concrete merge that satisfies every hypothesis and succeeds — a directory kept, a file
replaced through its `'#new'` sibling, a second name hard-linked, a symlink and a missing parent created -/
example : (mergeContents exEnv true exEs exPre).2.isOk = true ∧
    DistinctLocs exEs ∧ NoTmpClash exEs ∧ TreeShaped exEs ∧ NoSymOverDir exPre exEs ∧ HardlinkConsistent exEs ∧
    SymAtDirSolo exPre exEs ∧ RootGuard true exPre exEs ∧
    placedFailures exPre exEs (mergeContents exEnv true exEs exPre).1.fs = [] := by decide

/-- the full statement fails: contents with both `f#new` and `f`, where `f` exists — the entry `f#new` is used
as the temporary of `f` and is gone after a successful merge -/
theorem merge_places_contents_counterexample_tmpclash :
    ∃ (env : Env) (pre : Fs) (es : List Entry),
      DistinctLocs es ∧ TreeShaped es ∧ NoSymOverDir pre es ∧ HardlinkConsistent es ∧ SymAtDirSolo pre es ∧
      RootGuard true pre es ∧ (mergeContents env true es pre).2.isOk = true ∧
      ¬ Placed pre es (mergeContents env true es pre).1.fs := by
  refine ⟨⟨0o022, 0, 0⟩,
    ⟨[([], 1, ⟨.dir, 0o755, 0, 0, 0⟩), (["f"], 2, ⟨.file "78", 0o644, 0, 0, 1000⟩)], 3⟩,
    [⟨["f#new"], .reg "65" none, 0o644, 0, 0, 7⟩, ⟨["f"], .reg "6e" none, 0o644, 0, 0, 7⟩],
    by decide, by decide, by decide, by decide, by decide, by decide, by decide, ?_⟩
  rw [placed_iff_failures]
  decide

/-- the full statement fails: a symlink entry whose location is an existing directory (and `<location>/<target>`
is a directory) is skipped, the merge still reports success -/
theorem merge_places_contents_counterexample_symoverdir :
    ∃ (env : Env) (pre : Fs) (es : List Entry),
      DistinctLocs es ∧ NoTmpClash es ∧ TreeShaped es ∧ HardlinkConsistent es ∧ SymAtDirSolo pre es ∧
      RootGuard true pre es ∧ (mergeContents env true es pre).2.isOk = true ∧
      ¬ Placed pre es (mergeContents env true es pre).1.fs := by
  refine ⟨⟨0o022, 0, 0⟩,
    ⟨[([], 1, ⟨.dir, 0o755, 0, 0, 0⟩), (["d"], 2, ⟨.dir, 0o755, 0, 0, 0⟩), (["t", "d"], 3, ⟨.dir, 0o755, 0, 0, 0⟩)], 4⟩,
    [⟨["d"], .sym "t", 0o777, 0, 0, 7⟩],
    by decide, by decide, by decide, by decide, by decide, by decide, by decide, ?_⟩
  rw [placed_iff_failures]
  decide

/-- **Frame**: a successful merge leaves every path alone that is not an entry location, a missing parent of
one, or the `'#new'` sibling of a replaced entry — stated for *all* paths, including their inode numbers (so
no unrelated file is modified through a shared inode either). -/
theorem merge_frame (env : Env) (off : Bool) (pre : Fs) (es : List Entry) (s : St)
    (hpre : pre.WF) (hdist : DistinctLocs es) (hclash : NoTmpClash es) (htree : TreeShaped es)
    (hsym : NoSymOverDir pre es) (hhl : HardlinkConsistent es) (hsolo : SymAtDirSolo pre es)
    (hroot : RootGuard off pre es)
    (h : mergeContents env off es pre = (s, .ok ())) :
    ∀ q : Path, q ∉ locs es → ¬ MissingParent pre es q → ¬ TouchedTmp pre es q → s.fs.view q = pre.view q :=
  fun q h1 h2 h3 =>
    (merge_places_contents_partial env off pre es s hpre hdist hclash htree hsym hhl hsolo hroot h).frame q ⟨h1, h2, h3⟩

example : Untouchable exPre exEs ["u"] ∧
    (mergeContents exEnv true exEs exPre).1.fs.view ["u"] = exPre.view ["u"] := by decide

/-- **Hard-link groups**: two regular entries with the same source `(dev, inode)` and the same
uid/gid/mode/mtime end up as two names of one inode. -/
theorem hardlink_groups (env : Env) (off : Bool) (pre : Fs) (es : List Entry) (s : St)
    (hpre : pre.WF) (hdist : DistinctLocs es) (hclash : NoTmpClash es) (htree : TreeShaped es)
    (hsym : NoSymOverDir pre es) (hhl : HardlinkConsistent es) (hsolo : SymAtDirSolo pre es)
    (hroot : RootGuard off pre es)
    (h : mergeContents env off es pre = (s, .ok ()))
    (a b : Entry) (ha : a ∈ es) (hb : b ∈ es) (hab : SameSourceInode a b) :
    ∃ i na nb, s.fs.view a.loc = some (i, na) ∧ s.fs.view b.loc = some (i, nb) := by
  have hp := merge_places_contents_partial env off pre es s hpre hdist hclash htree hsym hhl hsolo hroot h
  have hna : a.isDir = false := by
    unfold SameSourceInode at hab; unfold Entry.isDir; split at hab <;> simp_all
  have hnb : b.isDir = false := by
    unfold SameSourceInode at hab; unfold Entry.isDir; split at hab <;> simp_all
  obtain ⟨i, hi⟩ := hp.nondirs a ha hna
  obtain ⟨j, hj⟩ := hp.nondirs b hb hnb
  have := hp.hardlinks a ha b hb hab
  rw [hi, hj] at this
  simp only [Option.map_some, Option.some.injEq] at this
  exact ⟨i, _, _, hi, by rw [hj, this]⟩

example : SameSourceInode exEs[0] exEs[2] ∧
    ((mergeContents exEnv true exEs exPre).1.fs.view ["f", "d"]).map (·.1) =
    ((mergeContents exEnv true exEs exPre).1.fs.view ["g", "d"]).map (·.1) := by decide

/-- **The log is the trace**: the file system the model ends in is the replay, from `pre`, of the system calls it
logged (this is what the harness compares with the interposed `os.*` calls of the real merge) — for every
outcome that is `ok`. -/
theorem merge_log_consistent (env : Env) (off : Bool) (pre : Fs) (es : List Entry) (s : St)
    (hpre : pre.WF) (hdist : DistinctLocs es) (hclash : NoTmpClash es) (htree : TreeShaped es)
    (hsym : NoSymOverDir pre es) (hhl : HardlinkConsistent es) (hsolo : SymAtDirSolo pre es)
    (hroot : RootGuard off pre es)
    (h : mergeContents env off es pre = (s, .ok ())) :
    s.fs = run env pre (s.log.map Prod.fst) := by
  obtain ⟨c, _, _, ops, h1, h2, _⟩ := merge_main hpre ⟨hclash, htree, hsym, hhl, hsolo⟩ hdist hroot h
  simp only [List.nil_append] at h1
  rw [h1]; exact h2

example : (mergeContents exEnv true exEs exPre).1.log.length = 14 := by decide

/-- **The driver evaluates the specification itself**: the clause list computed on the finitely many paths
present before or after is empty exactly when `Placed` (quantified over all paths) holds. -/
theorem frame_bounded_iff (pre : Fs) (es : List Entry) (fin : Fs) :
    Placed pre es fin ↔ placedFailures pre es fin = [] := placed_iff_failures pre es fin

example : placedFailures exPre exEs exPre ≠ [] := by decide

end Pkgcore.C18
