import Pkgcore.Proofs.C44
/-!
# C44 — query strings select exactly the packages they describe

Property theorems only (helper lemmas in `Pkgcore/Proofs/C44.lean`).  `parseMatch` mirrors
`pkgcore.util.parserestrict.parse_match` on strings; `Spec.selects` is the whole-string shell-pattern semantics of a
structured query, `Spec.render` its concrete syntax.
-/
namespace Pkgcore.C44
open Spec

/-- **the regular expression built by `convert_glob` is shell matching of the whole string**: for every token and
every string (no bound on lengths), the compiled item list matches iff the `*`-pattern does. -/
theorem glob_regex_eq_fnmatch (token s : Str) : matchItems (compileGlob token) s = globMatch token s :=
  matchItems_eq_globMatch token s

example : globMatch "a.b*-x*".toList "a.b-1-x".toList = true ∧ globMatch "a.b*".toList "axb".toList = false := by
  rw [← glob_regex_eq_fnmatch, ← glob_regex_eq_fnmatch]; decide

/-- **a glob query selects exactly the packages it describes**: for every well-formed query `q` — any patterns over
the glob alphabet with `*` in the category or package position, optional slot / sub-slot patterns, optional
repository, optional version operator (then the whole text must not itself be an atom) — parsing the text of `q`
succeeds, and the resulting restriction matches a package iff every field matches its pattern as a whole-string shell
pattern, the version stands in the operator's relation (PMS order), and the repository is the named one.
Holds for every atom parser/matcher `env`. -/
theorem query_selects_exactly {A : Type} (env : AtomEnv A) (q : Query) (hq : Wf q)
    (hatom : q.op.isSome = true → env.parse (render q) = none) :
    ∃ r, parseMatch env (render q) = .ok r ∧ ∀ pk, r.eval env pk = selects q pk := by
  rcases hop : q.op with _ | ⟨o, vt, v⟩
  · rcases hc : q.cat with _ | c
    · exact glob_a env q hq hop hc
    · exact glob_b env q hq hop c hc
  · exact glob_c env q hq o vt v hop (hatom (by simp [hop]))

/-- the hypotheses are satisfiable: `>=*/alsa-*-1.1.7:2/1*::gentoo` is a well-formed glob query -/
example : Wf ⟨some (">=".toList, "1.1.7".toList, ⟨["1".toList, "1".toList, "7".toList], none, []⟩), some "*".toList,
    "alsa-*".toList, some ("2".toList, some "1*".toList), some "gentoo".toList⟩ := by
  refine ⟨⟨by decide, by decide, fun _ => by decide⟩, ?_, ⟨?_, ?_⟩, ?_, ?_⟩
  · intro c h; cases h; exact ⟨by decide, by decide, fun _ => by decide⟩
  · intro s ss h; cases h
    exact ⟨⟨by decide, by decide, fun _ => by decide⟩, fun x hx => by cases hx; exact ⟨by decide, by decide, fun _ => by decide⟩⟩
  · intro r h; cases h; decide
  · intro o vt v h; cases h
    exact ⟨by unfold IsOp; decide, by decide, by decide, by decide, by decide, rfl⟩
  · right; decide

/-- **a plain atom string selects what the atom matches**: whenever the text in front of the slot part contains a
`/`, starts with a version operator or has no `*`, and the atom parser accepts the (stripped) string, `parse_match`
returns that atom itself. -/
theorem atom_query_selects_atom {A : Type} (env : AtomEnv A) (s : Str) (p : Prep A) (hp : prep s = .ok p)
    (c n : Str) (hs : rsplit1 '/' p.text = some (c, n))
    (hcond : (p.text.head?.map isOpChar).getD false = true ∨ '*' ∉ p.text)
    (a : A) (ha : env.parse (strip s) = some a) :
    parseMatch env s = .ok (.atom a) ∧ ∀ pk, (R.atom a).eval env pk = env.isMatch a pk := by
  refine ⟨parseMatch_atom env hp hs hcond (by rw [prep_orig hp]; exact ha), fun pk => rfl⟩

example : (prep (A := Nat) "=dev-libs/boost-1.60:0/1.60::gentoo".toList).toOption.map (·.text) = some "=dev-libs/boost-1.60".toList := by
  decide

/-- **category-less atom strings** (`>=portage-2.1`, `boost:0/1.60`): the query selects the packages with the
described slot, sub-slot and repository that satisfy every restriction of the atom `[ops]category/text` except the
one on the category; under the recorded contract of the atom parameter that is: the packages the atom matches once
their category is taken to be the atom's. -/
theorem categoryless_atom_query {A : Type} (env : AtomEnv A) (ops t : Str) (hops : ∀ c ∈ ops, isOpChar c = true)
    (ht : PartOk t) (hns : '*' ∉ t) (tl : Tail) (htl : tl.Wf) (a : A)
    (ha : env.parse (ops ++ "category/".toList ++ t) = some a)
    (contract : ∀ pk, env.isMatchNoCat a pk = env.isMatch a { pk with category := "category".toList }) :
    ∃ r, parseMatch env (ops ++ t ++ tl.render) = .ok r ∧
      ∀ pk, r.eval env pk = (tl.slotOK pk && tl.repoOK pk && env.isMatch a { pk with category := "category".toList }) := by
  obtain ⟨r, h1, h2⟩ := nocat_atom env ops t hops ht hns tl htl a ha
  exact ⟨r, h1, fun pk => by rw [h2 pk, contract pk]⟩

example : PartOk "portage-2.1".toList ∧ (⟨some ("0".toList, some "1.60".toList), none⟩ : Tail).Wf := by
  refine ⟨⟨by decide, by decide, fun _ => by decide⟩, ⟨?_, ?_⟩⟩
  · intro s ss h; cases h
    exact ⟨⟨by decide, by decide, fun _ => by decide⟩, fun x hx => by cases hx; exact ⟨by decide, by decide, fun _ => by decide⟩⟩
  · intro r h; cases h

/-- **slot globs next to a plain atom** (`dev-libs/boost:1*`, `=cat/pkg-1.0:*/2*::repo`): when the whole string is
no atom because of the glob but the text in front of the colon is, the query selects the packages that atom matches
whose slot and sub-slot match the patterns and whose repository is the named one. -/
theorem slot_glob_atom_query {A : Type} (env : AtomEnv A) (b : Str) (hb : SafeS b) (hsl : '/' ∈ b) (hns : '*' ∉ b)
    (tl : Tail) (htl : tl.Wf) (hglob : tl.slotGlob = true)
    (hwhole : env.parse (b ++ tl.render) = none) (a : A) (ha : env.parse b = some a) :
    ∃ r, parseMatch env (b ++ tl.render) = .ok r ∧
      ∀ pk, r.eval env pk = (tl.slotOK pk && tl.repoOK pk && env.isMatch a pk) :=
  slotglob_atom env b hb hsl hns tl htl hglob hwhole a ha

example : SafeS "=dev-libs/boost-1.0".toList ∧ (⟨some ("*".toList, some "1.6*".toList), none⟩ : Tail).slotGlob = true := by
  refine ⟨?_, by decide⟩
  intro c hc
  simp at hc
  rcases hc with rfl | rfl | rfl | rfl | rfl | rfl | rfl | rfl | rfl | rfl | rfl | rfl | rfl | rfl | rfl | rfl | rfl | rfl | rfl <;> decide

/-- **strings containing blockers are rejected**: any `!` anywhere in the (stripped) text makes `parse_match` fail. -/
theorem blockers_rejected {A : Type} (env : AtomEnv A) (s : Str) (h : '!' ∈ strip s) : parseMatch env s = .error .parse :=
  parseMatch_err env (prep_bang h)

example : '!' ∈ strip " !!dev-libs/boost ".toList := by decide

/-- the generated tables the model relies on: `atom.valid_ops` is exactly the six operators `longestOp` knows, and the
extra characters of the glob alphabet `[\w+-.]` are `+ , - .` -/
theorem ops_table :
    Generated.C44.validOps.map String.toList = [['<'], ['<', '='], ['='], ['>'], ['>', '='], ['~']] ∧
    Generated.C44.globExtra = ['+', ',', '-', '.'] ∧
    (∀ o ∈ Generated.C44.validOps.map String.toList, ∀ rest : Str, rest.head? ≠ some '=' → longestOp (o ++ rest) = some (o, rest)) := by
  refine ⟨by decide, by decide, ?_⟩
  intro o ho rest hr
  have : IsOp o := by
    have h : Generated.C44.validOps.map String.toList = [['<'], ['<', '='], ['='], ['>'], ['>', '='], ['~']] := by decide
    rw [h] at ho
    simp only [List.mem_cons, List.not_mem_nil, or_false] at ho
    unfold IsOp
    rcases ho with rfl | rfl | rfl | rfl | rfl | rfl <;> simp
  exact longestOp_isOp this hr

end Pkgcore.C44
