import Pkgcore.Proofs.C34
/-!
# C34 — saved-environment filtering removes exactly the named definitions

Property theorems only (helper lemmas: `Pkgcore/Proofs/C34.lean`).  `mainRun`, `processScope`, the
`walk*` functions mirror `pkgcore.ebuild.filter_env` (after the `fix:` commits); `Spec.removeRegions`
is "the input minus these index regions".  `data` is the text handed to `main_run`; the model appends the
NUL sentinel as `main_run` does.  The theorems speak about every run that returns (`= .ok …`); `fuel_suffices` shows the only other
outcome is `Err.index` (an uncaught `IndexError` of the Python code).
-/
namespace Pkgcore.C34
open Pkgcore.C34.Spec

/-- **every walker only moves forward**, at every fuel: the position a walker returns is not before the
position it was started at (strictly behind it for `walk_here_statement` and the `${…}` walker) -/
theorem positions_advance (n : Nat) : Mono n := mono n

/-- **the output is a concatenation of disjoint input windows in order**: what `main_run` writes is
`buff[a₁:b₁] + buff[a₂:b₂] + …` with `a₁ ≤ b₁ ≤ a₂ ≤ b₂ ≤ … ≤ len(data)` — in particular no window reaches
the appended NUL and nothing but pieces of the input is written -/
theorem output_is_window_concat (data : List Char) (vm fm : Option (List Char → Bool)) (out : List Char)
    (r : ScopeResult) (hno : '\x00' ∉ data) (h : mainRun data vm fm = .ok (out, r)) :
    out = (r.windows.map fun w => slice (data ++ ['\x00']) w.1 w.2).flatten ∧
    (∀ w ∈ r.windows, w.1 ≤ w.2 ∧ w.2 ≤ data.length) ∧
    r.windows.Pairwise (fun w1 w2 => w1.2 ≤ w2.1) := by
  obtain ⟨h1, h2, _⟩ := mainRun_final data vm fm out r hno h
  refine ⟨h1, ?_, h2.pw⟩
  intro w hw
  have := h2.wins w hw
  simpa using this

example : '\x00' ∉ "A=1\nf() { :; }\nB=2\n".toList := by decide

/-- **nothing outside a filtered statement is dropped, nothing is added**: the output is the input with
exactly the index regions `[start, stop)` of the statements marked filtered removed -/
theorem filtered_windows_are_statements (data : List Char) (vm fm : Option (List Char → Bool))
    (out : List Char) (r : ScopeResult) (hno : '\x00' ∉ data) (h : mainRun data vm fm = .ok (out, r)) :
    out = removeRegions (filteredRegions r.stmts) data := by
  obtain ⟨h1, h2, _⟩ := mainRun_final data vm fm out r hno h
  rw [h1, h2.text]
  unfold removeRegions
  simp

/-- **no stray bytes**: every character written is a character of the input; the NUL sentinel never is -/
theorem sentinel_never_emitted (data : List Char) (vm fm : Option (List Char → Bool)) (out : List Char)
    (r : ScopeResult) (hno : '\x00' ∉ data) (h : mainRun data vm fm = .ok (out, r)) :
    (∀ c ∈ out, c ∈ data) ∧ '\x00' ∉ out := by
  have h3 := filtered_windows_are_statements data vm fm out r hno h
  have hsub : ∀ c ∈ out, c ∈ data := by
    rw [h3]; exact removeFrom_subset _ data 0
  exact ⟨hsub, fun hc => hno (hsub _ hc)⟩

/-- **a statement is filtered exactly when its name is selected**: functions by the function predicate,
assignments by the variable predicate (no predicate: nothing is filtered); its region is well formed -/
theorem statements_selected_by_name (data : List Char) (vm fm : Option (List Char → Bool)) (out : List Char)
    (r : ScopeResult) (hno : '\x00' ∉ data) (h : mainRun data vm fm = .ok (out, r)) :
    ∀ st ∈ r.stmts, st.filtered = applyMatch (if st.isFunc then fm else vm) st.name ∧ st.start ≤ st.stop :=
  (mainRun_final data vm fm out r hno h).2.2

/-- **the scanner terminates**: with the fuel `mainRun` uses (`6·len + 16`; one unit per call and per loop
iteration) no walker ever runs out — every loop iteration of every function moves at least one character
forward, which for the comment walks depends on the NUL sentinel `main_run` appends.  So a run either
returns or stops with an uncaught `IndexError`; it never spins (the empty here-document word used to) -/
theorem fuel_suffices (data : List Char) (vm fm : Option (List Char → Bool)) :
    mainRun data vm fm ≠ .error .fuel ∧
    ((∃ out r, mainRun data vm fm = .ok (out, r)) ∨ mainRun data vm fm = .error .index) := by
  have h := mainRun_nofuel data vm fm
  refine ⟨h, ?_⟩
  cases hm : mainRun data vm fm with
  | ok x => left; exact ⟨x.1, x.2, rfl⟩
  | error e =>
    cases e with
    | index => right; rfl
    | fuel => exact absurd hm h

/-- the generated `str.isspace` / `str.isalnum` tables, on ASCII: blanks are 9–13 and 28–32, alphanumerics
are the digits and letters -/
theorem space_tables_ascii :
    ((List.range 128).all fun i =>
      (isSpace (Char.ofNat i) == (decide (9 ≤ i ∧ i ≤ 13) || decide (28 ≤ i ∧ i ≤ 32))) &&
      (isAlnum (Char.ofNat i) == (decide (48 ≤ i ∧ i ≤ 57) || decide (65 ≤ i ∧ i ≤ 90) || decide (97 ≤ i ∧ i ≤ 122)))) = true := by
  decide +kernel

end Pkgcore.C34
