import Pkgcore.Proofs.C34
/-!
# C34 — saved-environment filtering removes exactly the named definitions

Property theorems only (helper lemmas: `Pkgcore/Proofs/C34.lean`).  `mainRun`, `processScope`, the
`walk*` functions mirror `pkgcore.ebuild.filter_env` (after the `fix:` commits); `Spec.removeRegions`
is "the input minus these index regions".  `data` is the text handed to `main_run`; the model appends the
NUL sentinel as `main_run` does.  The theorems speak about every run that returns (`= .ok …`); `fuel_suffices` shows the only other
outcome is `Err.index` (an uncaught `IndexError` of the Python code).
-/
namespace Pkgcore.C34
open Pkgcore.C34.Spec

/-- **every walker only moves forward**, at every fuel: the position a walker returns is not before the
position it was started at (strictly behind it for `walk_here_statement` and the `${…}` walker) -/
theorem positions_advance (n : Nat) : Mono n := mono n

/-- **the output is a concatenation of disjoint input windows in order**: what `main_run` writes is
`buff[a₁:b₁] + buff[a₂:b₂] + …` with `a₁ ≤ b₁ ≤ a₂ ≤ b₂ ≤ … ≤ len(data)` — in particular no window reaches
the appended NUL and nothing but pieces of the input is written -/
theorem output_is_window_concat (data : List Char) (vm fm : Option (List Char → Bool)) (out : List Char)
    (r : ScopeResult) (hno : '\x00' ∉ data) (h : mainRun data vm fm = .ok (out, r)) :
    out = (r.windows.map fun w => slice (data ++ ['\x00']) w.1 w.2).flatten ∧
    (∀ w ∈ r.windows, w.1 ≤ w.2 ∧ w.2 ≤ data.length) ∧
    r.windows.Pairwise (fun w1 w2 => w1.2 ≤ w2.1) := by
  obtain ⟨h1, h2, _⟩ := mainRun_final data vm fm out r hno h
  refine ⟨h1, ?_, h2.pw⟩
  intro w hw
  have := h2.wins w hw
  simpa using this

example : '\x00' ∉ "A=1\nf() { :; }\nB=2\n".toList := by decide

/-- **nothing outside a filtered statement is dropped, nothing is added**: the output is the input with
exactly the index regions `[start, stop)` of the statements marked filtered removed -/
theorem filtered_windows_are_statements (data : List Char) (vm fm : Option (List Char → Bool))
    (out : List Char) (r : ScopeResult) (hno : '\x00' ∉ data) (h : mainRun data vm fm = .ok (out, r)) :
    out = removeRegions (filteredRegions r.stmts) data := by
  obtain ⟨h1, h2, _⟩ := mainRun_final data vm fm out r hno h
  rw [h1, h2.text]
  unfold removeRegions
  simp

/-- **no stray bytes**: every character written is a character of the input; the NUL sentinel never is -/
theorem sentinel_never_emitted (data : List Char) (vm fm : Option (List Char → Bool)) (out : List Char)
    (r : ScopeResult) (hno : '\x00' ∉ data) (h : mainRun data vm fm = .ok (out, r)) :
    (∀ c ∈ out, c ∈ data) ∧ '\x00' ∉ out := by
  have h3 := filtered_windows_are_statements data vm fm out r hno h
  have hsub : ∀ c ∈ out, c ∈ data := by
    rw [h3]; exact removeFrom_subset _ data 0
  exact ⟨hsub, fun hc => hno (hsub _ hc)⟩

/-- **the bytes written are the UTF-8 encoding of the filtered text, character by character**: `process_scope` hands
`out.write` one `buff[a:b].encode("utf-8")` per window; their concatenation is the encoding of the output text, i.e. of the
input minus the filtered statements — every character that is kept is written with its complete byte sequence, no byte of a
removed character is written, whatever multi-byte text precedes a cut (the cuts are made in the text, not in its encoding) -/
theorem written_bytes_are_encoded_text (data : List Char) (vm fm : Option (List Char → Bool)) (out : List Char)
    (r : ScopeResult) (hno : '\x00' ∉ data) (h : mainRun data vm fm = .ok (out, r)) :
    writtenBytes data r = utf8 out ∧
    writtenBytes data r = utf8 (removeRegions (filteredRegions r.stmts) data) := by
  have h1 := (output_is_window_concat data vm fm out r hno h).1
  have h3 := filtered_windows_are_statements data vm fm out r hno h
  have hb : writtenBytes data r = utf8 out := by
    rw [h1, utf8_flatten]
    simp [writtenBytes, List.map_map, Function.comp_def]
  exact ⟨hb, by rw [hb, ← h3]⟩

/-- a run the theorem speaks about, with two- and three-byte characters before the cut: `é=1`, `B=→`, `C=2` filtered by the
variable token `B` — the bytes written are `é=1\n` (5 bytes), `\nC=2\n` -/
example : (match mainRunNames ['é', '=', '1', '\n', 'B', '=', '→', '\n', 'C', '=', '2', '\n'] [['B']] [] false false with
    | .ok (_, r) => writtenBytes ['é', '=', '1', '\n', 'B', '=', '→', '\n', 'C', '=', '2', '\n'] r ==
        [0xc3, 0xa9, 0x3d, 0x31, 0x0a, 0x0a, 0x43, 0x3d, 0x32, 0x0a]
    | .error _ => false) = true := by decide +kernel

/-- cutting the *encoded* dump at the character offsets instead (what an "encode once" shortcut does) is a different
function as soon as a multi-byte character precedes the cut: for `é=1␤B=2␤` and the window `[4, 8)` (the text `B=2␤`) it
yields the bytes of `␤B=2` -/
theorem byte_cut_at_char_offsets_counterexample :
    ((utf8 ['é', '=', '1', '\n', 'B', '=', '2', '\n']).take 8).drop 4 ≠ utf8 (slice ['é', '=', '1', '\n', 'B', '=', '2', '\n'] 4 8) := by
  decide

/-- **no NUL byte is written** (and so none of the appended sentinel): the bytes written contain a zero byte only if the
dump did -/
theorem no_nul_byte_written (data : List Char) (vm fm : Option (List Char → Bool)) (out : List Char)
    (r : ScopeResult) (hno : '\x00' ∉ data) (h : mainRun data vm fm = .ok (out, r)) :
    (0 : UInt8) ∉ writtenBytes data r := by
  rw [(written_bytes_are_encoded_text data vm fm out r hno h).1]
  exact utf8_no_nul out (sentinel_never_emitted data vm fm out r hno h).2

/-- **a statement is filtered exactly when the predicate of its kind selects its name**: functions by the function
predicate, assignments by the variable predicate (no predicate: nothing is filtered); its region is well formed -/
theorem statements_follow_matchers (data : List Char) (vm fm : Option (List Char → Bool)) (out : List Char)
    (r : ScopeResult) (hno : '\x00' ∉ data) (h : mainRun data vm fm = .ok (out, r)) :
    ∀ st ∈ r.stmts, st.filtered = applyMatch (if st.isFunc then fm else vm) st.name ∧ st.start ≤ st.stop :=
  (mainRun_final data vm fm out r hno h).2.2

/-- **the pattern `build_regex_string` builds selects by whole-name match**: for tokens that are alternations
`p₁|p₂|…` of simple patterns (plain names, escaped punctuation, `.`, `*`/`+`/`?` on one character) the text built by
`build_regex_string` is inside the modelled `re` subset and `.match` on it selects exactly the names some token
matches **as a whole** (whitelist mode: the names no token matches), whatever the number and order of the tokens and
however the names share prefixes, suffixes or infixes with them.  (Full strength since the fix that groups a single token
too; before it the statement failed for one token with a top-level `|`, see `ungrouped_single_token_counterexample`.) -/
theorem patterns_select_whole_name (ts : List Token) (hp : ∀ t ∈ ts, renderToken t ≠ []) (whitelist : Bool) :
    ∃ m, mkMatcher (ts.map renderToken) whitelist = .ok m ∧
      ∀ name, '\n' ∉ name → applyMatch m name = (!ts.isEmpty && selects ts whitelist name) :=
  mkMatcher_selects ts hp whitelist

example : ∀ t ∈ [[literal "CFLAGS".toList], [literal "T".toList, literal "D".toList],
    [[(.lit 'P', .one), (.lit '_', .one), (.any, .star)]]], renderToken t ≠ [] := by decide

/-- the text the code built before the fix for the single token `A|B` (`^A|B$`, not grouped) selects `AX`; the
specification (whole-name match of the token) does not, and neither does the grouped text built now -/
theorem ungrouped_single_token_counterexample :
    (parseRe ['^', 'A', '|', 'B', '$']).map (·.matches ['A', 'X']) = some true ∧
    selectsText [['A', '|', 'B']] false ['A', 'X'] = some false ∧
    buildRegexString [['A', '|', 'B']] false = some ['^', '(', '?', ':', 'A', '|', 'B', ')', '$'] ∧
    (match mkMatcher [['A', '|', 'B']] false with
      | .ok m => applyMatch m ['A', 'X']
      | .error _ => true) = false := by
  decide +kernel

/-- the runs of `main_run` are runs of the scanner with some pair of predicates: the window theorems above apply -/
theorem names_run_is_scanner_run (data : List Char) (vtoks ftoks : List (List Char)) (vwl fwl : Bool)
    (out : List Char) (r : ScopeResult) (h : mainRunNames data vtoks ftoks vwl fwl = .ok (out, r)) :
    ∃ vm fm, mkMatcher vtoks vwl = .ok vm ∧ mkMatcher ftoks fwl = .ok fm ∧ mainRun data vm fm = .ok (out, r) := by
  unfold mainRunNames at h
  cases hv : mkMatcher vtoks vwl with
  | error e => simp [hv] at h
  | ok vm =>
    cases hf : mkMatcher ftoks fwl with
    | error e => simp [hv, hf] at h
    | ok fm =>
      cases hm : mainRun data vm fm with
      | error e => simp [hv, hf, hm] at h
      | ok x =>
        simp only [hv, hf, hm, Except.ok.injEq] at h
        exact ⟨vm, fm, rfl, rfl, by rw [hm, h]⟩

/-- **a statement is filtered exactly when the token list of its kind selects its name** — `main_run` with the token
lists actually passed: an assignment / a function definition is removed iff some variable / function
token matches its whole name (whitelist mode: iff none does); with no tokens of a kind nothing of that kind is removed -/
theorem statements_selected_by_name (data : List Char) (vts fts : List Token) (hv : ∀ t ∈ vts, renderToken t ≠ [])
    (hf : ∀ t ∈ fts, renderToken t ≠ []) (vwl fwl : Bool) (out : List Char) (r : ScopeResult) (hno : '\x00' ∉ data)
    (h : mainRunNames data (vts.map renderToken) (fts.map renderToken) vwl fwl = .ok (out, r)) :
    ∀ st ∈ r.stmts, st.filtered =
      if st.isFunc then (!fts.isEmpty && selects fts fwl st.name)
      else (!vts.isEmpty && selects vts vwl st.name) := by
  obtain ⟨vm, fm, h1, h2, h3⟩ := names_run_is_scanner_run _ _ _ _ _ _ _ h
  obtain ⟨vm', hv1, hv2⟩ := mkMatcher_selects vts hv vwl
  obtain ⟨fm', hf1, hf2⟩ := mkMatcher_selects fts hf fwl
  rw [h1] at hv1; rw [h2] at hf1
  cases hv1; cases hf1
  intro st hst
  have hname := mainRun_names data vm fm out r h3 st hst
  have hsel := (statements_follow_matchers data vm fm out r hno h3 st hst).1
  rw [hsel]
  split
  · exact hf2 _ hname
  · exact hv2 _ hname

/-- a run the theorem speaks about: `A=1`, `AB=2` filtered by the variable tokens `A`, `C` — only `A=1` goes -/
example : (match mainRunNames ['A', '=', '1', '\n', 'A', 'B', '=', '2', '\n'] [['A'], ['C']] [] false false with
    | .ok (out, _) => out == ['\n', 'A', 'B', '=', '2', '\n']
    | .error _ => false) = true := by decide +kernel

example : [[literal ['A']], [literal ['C']]].map renderToken = [['A'], ['C']] := by decide

/-- **plain names select exactly themselves**: when the tokens are plain names (no regular-expression character),
an assignment / function is removed iff its name **is** one of the names passed (whitelist mode: iff it is not) — a name
that merely starts with, ends with or contains one of them is not affected -/
theorem plain_names_selected_exactly (data : List Char) (vnames fnames : List (List Char))
    (hv : ∀ n ∈ vnames, n ≠ [] ∧ ∀ c ∈ n, isSpecial c = false)
    (hf : ∀ n ∈ fnames, n ≠ [] ∧ ∀ c ∈ n, isSpecial c = false) (vwl fwl : Bool) (out : List Char) (r : ScopeResult)
    (hno : '\x00' ∉ data) (h : mainRunNames data vnames fnames vwl fwl = .ok (out, r)) :
    ∀ st ∈ r.stmts, st.filtered =
      if st.isFunc then (!fnames.isEmpty && (fwl != fnames.contains st.name))
      else (!vnames.isEmpty && (vwl != vnames.contains st.name)) := by
  have hmap : ∀ names : List (List Char), (∀ n ∈ names, n ≠ [] ∧ ∀ c ∈ n, isSpecial c = false) →
      (names.map fun n => [literal n]).map renderToken = names ∧
      (∀ t ∈ names.map fun n => [literal n], renderToken t ≠ []) ∧
      ∀ wl name, selects (names.map fun n => [literal n]) wl name = (wl != names.contains name) := by
    intro names hn
    have hr : ∀ n ∈ names, renderToken [literal n] = n := by
      intro n hmem
      simp only [renderToken, List.map_cons, List.map_nil, joinBar]
      exact literal_render n (hn n hmem).2
    refine ⟨?_, ?_, ?_⟩
    · rw [List.map_map]
      conv => rhs; rw [← List.map_id names]
      apply List.map_congr_left
      intro n hmem
      exact hr n hmem
    · intro t ht
      obtain ⟨n, hmem, rfl⟩ := List.mem_map.mp ht
      rw [hr n hmem]
      exact (hn n hmem).1
    · intro wl name
      clear hr
      simp only [selects, List.any_map, Function.comp_def, matchToken, List.any_cons, List.any_nil, Bool.or_false,
        literal_match]
      congr 1
      induction names with
      | nil => rfl
      | cons n ns ih =>
        simp only [List.any_cons, List.contains_cons]
        rw [ih (fun m hm => hn m (by simp [hm]))]
        congr 1
        by_cases hnn : name = n <;> simp [hnn]
  obtain ⟨ev, nv, sv⟩ := hmap vnames hv
  obtain ⟨ef, nf, sf⟩ := hmap fnames hf
  rw [← ev, ← ef] at h
  have := statements_selected_by_name data _ _ nv nf vwl fwl out r hno h
  intro st hst
  rw [this st hst, sv, sf]
  simp

example : ∀ n ∈ ["CFLAGS".toList, "LDFLAGS".toList, "T".toList], n ≠ [] ∧ ∀ c ∈ n, isSpecial c = false := by decide

/-- **the scanner terminates**: with the fuel `mainRun` uses (`6·len + 16`; one unit per call and per loop
iteration) no walker ever runs out — every loop iteration of every function moves at least one character
forward, which for the comment walks depends on the NUL sentinel `main_run` appends.  So a run either
returns or stops with an uncaught `IndexError`; it never spins (the empty here-document word used to) -/
theorem fuel_suffices (data : List Char) (vm fm : Option (List Char → Bool)) :
    mainRun data vm fm ≠ .error .fuel ∧
    ((∃ out r, mainRun data vm fm = .ok (out, r)) ∨ mainRun data vm fm = .error .index) := by
  have h := mainRun_nofuel data vm fm
  refine ⟨h, ?_⟩
  cases hm : mainRun data vm fm with
  | ok x => left; exact ⟨x.1, x.2, rfl⟩
  | error e =>
    cases e with
    | index => right; rfl
    | fuel => exact absurd hm h

/-- **only ASCII whitespace separates words**: the scanner's `isspace` (generated from the code's own predicate) is true for
the characters 9–13 and 28–32 and for nothing else — in particular for no printable non-ASCII space (U+00A0, U+3000, …), which
bash writes raw into a dump and does not split words at -/
theorem space_only_ascii (c : Char) : isSpace c = (decide (9 ≤ c.toNat ∧ c.toNat ≤ 13) || decide (28 ≤ c.toNat ∧ c.toNat ≤ 32)) := by
  simp [isSpace, inRanges, Generated.C34.spaceRanges]

/-- the generated `str.isspace` / `str.isalnum` tables, on ASCII: blanks are 9–13 and 28–32, alphanumerics
are the digits and letters -/
theorem space_tables_ascii :
    ((List.range 128).all fun i =>
      (isSpace (Char.ofNat i) == (decide (9 ≤ i ∧ i ≤ 13) || decide (28 ≤ i ∧ i ≤ 32))) &&
      (isAlnum (Char.ofNat i) == (decide (48 ≤ i ∧ i ≤ 57) || decide (65 ≤ i ∧ i ≤ 90) || decide (97 ≤ i ∧ i ≤ 122)))) = true := by
  decide +kernel

end Pkgcore.C34
