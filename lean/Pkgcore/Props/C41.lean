import Pkgcore.Proofs.C41
/-!
# C41 — the parallel map processes every item exactly once

Property theorems only.  `Reachable f fin items n s`: `s` is reached from the initial state of `map_async` (all `n`
workers started, nothing put) by *some* interleaving of the atomic steps of the producer and the workers — the
theorems quantify over every such state, hence over every thread schedule.
-/
namespace Pkgcore.C41
open Spec

/-- **every item exactly once, under every schedule**: whenever `map_async` returns (everything put, every thread
joined), the items handed to the worker function are — as a multiset — exactly the input items; for any item list,
any worker function and any number `n ≥ 1` of threads (or no items at all). -/
theorem every_item_once {α β : Type} (f : α → List β) (fin : Nat → List α → Option β) (items : List α) (n : Nat)
    (hn : n ≥ 1 ∨ items = []) (s : State α β) (hr : Reachable f fin items n s) (ht : Terminal s) :
    EachOnce items s := by
  have inv := inv_reachable f fin items n s hr
  obtain ⟨hrem, hsl, hdone⟩ := ht
  obtain ⟨hb, hd⟩ := all_done s.workers hdone
  obtain ⟨qi, k, hq, hcount, hqi⟩ := inv.fifo
  have hc := inv.conserve
  rw [hrem, hb, hq, queueItems_map_item] at hc
  simp only [List.append_nil] at hc
  unfold EachOnce
  rcases hn with hn | hn
  · have : qi = [] := hqi (by rw [hd, inv.lenW]; exact hn)
    rw [this] at hc
    simpa using hc
  · subst hn
    have hnil := List.Perm.eq_nil hc
    have : handledAll s = [] := by
      cases h : handledAll s with
      | nil => rfl
      | cons a l => rw [h] at hnil; cases hnil
    rw [this]

/-- **every result is returned** (worker functions that yield their results or return `None`, as both call sites do):
at return the result deque holds, in some order, exactly the results of all items. -/
theorem results_complete {α β : Type} (f : α → List β) (fin : Nat → List α → Option β) (hfin : ∀ w l, fin w l = none)
    (items : List α) (n : Nat) (hn : n ≥ 1 ∨ items = []) (s : State α β)
    (hr : Reachable f fin items n s) (ht : Terminal s) : ResultsComplete f items s := by
  have inv := inv_reachable f fin items n s hr
  exact (inv.resultsOk hfin).trans (List.Perm.flatMap_right f (every_item_once f fin items n hn s hr ht))

theorem step_of_isSome {α β : Type} {f : α → List β} {fin : Nat → List α → Option β} {s : State α β} (e : Event α)
    (h : (apply f fin s e).isSome = true) : ∃ s', Step f fin s s' := by
  cases ha : apply f fin s e with
  | none => simp [ha] at h
  | some s' => exact ⟨s', e, ha⟩

/-- **no schedule gets stuck**: in every reachable state that is not yet final some thread can take a step
(no deadlock on the queue: there is always an item or a sentinel for a waiting worker once the producer is done) -/
theorem no_deadlock {α β : Type} (f : α → List β) (fin : Nat → List α → Option β) (items : List α) (n : Nat)
    (s : State α β) (hr : Reachable f fin items n s) (hnt : ¬ Terminal s) : ∃ s', Step f fin s s' := by
  have inv := inv_reachable f fin items n s hr
  by_cases h1 : s.remaining = []
  · by_cases h2 : s.sentinelsLeft = 0
    · have hnd : ¬ ∀ w ∈ s.workers, w = WState.done := fun hall => hnt ⟨h1, h2, hall⟩
      obtain ⟨i, u, hi, hu, hlt⟩ := not_all_done s.workers hnd
      obtain ⟨qi, k, hq, hcount, _⟩ := inv.fifo
      cases u with
      | done => exact absurd rfl hu
      | busy x => exact step_of_isSome (.finish i) (by simp [apply, hi])
      | idle =>
        have hk : k ≥ 1 := by rw [inv.lenW] at hlt; omega
        cases hqq : s.queue with
        | nil =>
          rw [hqq] at hq
          cases qi with
          | nil =>
            cases k with
            | zero => omega
            | succ k => simp [List.replicate_succ] at hq
          | cons y qi => simp at hq
        | cons hd q =>
          cases hd with
          | item x => exact step_of_isSome (.get i) (by simp [apply, hi, hqq])
          | sentinel => exact step_of_isSome (.get i) (by simp [apply, hi, hqq])
    · cases hs : s.sentinelsLeft with
      | zero => exact absurd hs h2
      | succ k' => exact step_of_isSome .put (by simp [apply, h1, hs])
  · cases hrm : s.remaining with
    | nil => exact absurd hrm h1
    | cons x rest => exact step_of_isSome .put (by simp [apply, hrm])

/-- **every schedule ends**: each step decreases a natural-number measure, so no interleaving runs forever and
`map_async` returns after at most `measure (init items n)` steps -/
theorem every_schedule_terminates {α β : Type} (f : α → List β) (fin : Nat → List α → Option β) (s s' : State α β)
    (h : Step f fin s s') : measure s' < measure s := by
  obtain ⟨e, he⟩ := h
  exact step_decreases f fin s s' e he

/-- the number of threads actually started: **at least one whenever there is an item** — for every `threads`
argument, also `0` or negative ones (the defect fixed in /repo) — and never more than the items -/
theorem parallelism_enough (len : Option Nat) (threads : Int) (hl : ∀ l, len = some l → l ≥ 1) :
    parallelism len threads ≥ 1 ∧ (∀ l, len = some l → parallelism len threads ≤ l) := by
  unfold parallelism
  cases len with
  | none => simp only; constructor <;> (try intro l h; cases h) <;> omega
  | some l =>
    have := hl l rfl
    simp only
    refine ⟨by omega, fun l' h => ?_⟩
    cases h
    omega

/-- … so for a sized input `map_async` always satisfies the hypothesis of `every_item_once` -/
theorem map_async_every_item_once {α β : Type} (f : α → List β) (fin : Nat → List α → Option β) (items : List α)
    (threads : Int) (s : State α β)
    (hr : Reachable f fin items (parallelism (some items.length) threads) s) (ht : Terminal s) : EachOnce items s := by
  apply every_item_once f fin items _ ?_ s hr ht
  cases items with
  | nil => exact Or.inr rfl
  | cons x xs => exact Or.inl (parallelism_enough (some (x :: xs).length) threads (by intro l h; cases h; simp)).1

/-- the hypothesis `n ≥ 1` of `every_item_once` is needed: with no worker the items are put and never handled, and
the run ends with an empty result (what `threads=0` did before the fix) -/
theorem zero_threads_counterexample :
    ∃ s : State Nat Nat, Reachable (fun x => [x]) (fun _ _ => none) [7] 0 s ∧ Terminal s ∧ ¬ EachOnce [7] s := by
  refine ⟨⟨[], 0, [.item 7], [], [], []⟩, ?_, ⟨rfl, rfl, by intro w hw; cases hw⟩, ?_⟩
  · exact Reachable.step Reachable.start ⟨.put, rfl⟩
  · intro h
    have := h.length_eq
    simp [handledAll] at this

/-- a complete run exists and is validated step by step: two workers, three items -/
example : (replay (fun x => [x * 10]) (fun _ _ => (none : Option Nat)) (init [1, 2, 3] 2)
    [.put, .get 0, .put, .get 1, .finish 1, .put, .get 1, .finish 0, .put, .put, .get 0, .finish 1, .get 1]).map
      (fun s => (s.handled, s.results)) = some ([[1], [2, 3]], [20, 10, 30]) := by decide

/-! ## Calls one after the other, inputs that raise, and the regeneration caller -/

/-- **a call is not affected by the calls before it**: in a process that has made any calls of `map_async` before — each
with any input, any number of threads, ended in any way, also with its input iterable raising (which sets that call's
kill event) — a call whose own input does not raise hands every one of its items to the worker function exactly once and
returns every result, under every schedule. -/
theorem later_call_every_item_once {α β : Type} (f : α → List β) (fin : Nat → List α → Option β)
    (hist : List (Call α)) (c : Call α) (xs : XState α β) (hs : SessionReach f fin hist c xs)
    (ht : XTerminal xs) (hk : xs.kill = false) (hn : c.n ≥ 1 ∨ c.items = []) :
    EachOnce c.items xs.base ∧ ((∀ w l, fin w l = none) → ResultsComplete f c.items xs.base) := by
  have hx := session_is_call f fin hist c xs hs
  obtain ⟨hr, _⟩ := clean_is_base f fin c.items c.n xs hx hk
  exact ⟨every_item_once f fin c.items c.n hn xs.base hr ht,
    fun hfin => results_complete f fin hfin c.items c.n hn xs.base hr ht⟩

/-- **a call whose input raises never hands an item to the worker function twice and invents none**: in every state
reachable by any schedule, the items handled so far together with those still queued, in a worker's hands, not yet
fed or never delivered are the input. -/
theorem failed_call_at_most_once {α β : Type} (f : α → List β) (fin : Nat → List α → Option β) (items : List α) (n : Nat)
    (xs : XState α β) (hr : XReachable f fin items n xs) : ∃ rest, (handledAll xs.base ++ rest).Perm items := by
  have := (xinv_reachable f fin items n xs hr).1
  refine ⟨busyItems xs.base.workers ++ queueItems xs.base.queue ++ xs.base.remaining ++ xs.dropped, ?_⟩
  simpa [pool, List.append_assoc] using this

/-- the kill event of a call is set only by that call's own input raising: a run without a `raise` step never has it
set, and is a run of the plain system -/
theorem kill_clear_is_plain_run {α β : Type} (f : α → List β) (fin : Nat → List α → Option β) (items : List α) (n : Nat)
    (xs : XState α β) (hr : XReachable f fin items n xs) (hk : xs.kill = false) :
    Reachable f fin items n xs.base ∧ xs.dropped = [] :=
  clean_is_base f fin items n xs hr hk

/-- a failing call, step by step: two workers, the iterable raises after two of three items; worker 1 had passed its
test of the event and still takes item 2, worker 0 finds the event set and leaves; item 3 was never delivered -/
example : (xreplay (fun x => [x * 10]) (fun _ _ => (none : Option Nat)) (xinit [1, 2, 3] 2)
    [.base .put, .base (.get 0), .base .put, .raise, .base (.finish 0), .quit 0, .base (.get 1), .base .put,
     .base (.finish 1), .base .put, .quit 1]).map
      (fun s => (s.base.handled, s.base.results, s.kill, s.dropped, s.base.queue.length)) =
      some ([[1], [2]], [10, 20], true, [3], 2) := by decide

/-- … and the call after it starts clean -/
example : SessionReach (fun x => [x * 10]) (fun _ _ => (none : Option Nat)) [⟨[], 0⟩] ⟨[7], 1⟩ (xinit [7] 1) :=
  SessionReach.next (hist := []) ⟨[7], 1⟩ (SessionReach.first ⟨[], 0⟩) ⟨rfl, rfl, by intro w hw; cases hw⟩

theorem flatMap_regenF {α ε : Type} (outcome : α → Option ε) (pkgs : List α) :
    pkgs.flatMap (regenF outcome) = pkgs.filterMap (fun p => (outcome p).map (fun e => (p, e))) := by
  induction pkgs with
  | nil => rfl
  | cons p ps ih =>
    simp only [List.flatMap_cons, List.filterMap_cons, ih, regenF]
    cases outcome p <;> simp

/-- **metadata regeneration reaches every package**: `regen_repository` over any package list (sized or not), any
`threads` argument and any schedule calls the regen helper on every package exactly once and yields exactly the
`(pkg, exception)` pairs of the packages whose regeneration failed. -/
theorem regen_every_pkg_once {α ε : Type} (outcome : α → Option ε) (pkgs : List α) (len : Option Nat)
    (hlen : len = none ∨ len = some pkgs.length) (threads : Int) (s : State α (α × ε))
    (hr : Reachable (regenF outcome) (fun _ _ => none) pkgs (parallelism len threads) s) (ht : Terminal s) :
    EachOnce pkgs s ∧ s.results.Perm (pkgs.filterMap (fun p => (outcome p).map (fun e => (p, e)))) := by
  have hn : parallelism len threads ≥ 1 ∨ pkgs = [] := by
    cases pkgs with
    | nil => exact Or.inr rfl
    | cons x xs =>
      left
      refine (parallelism_enough len threads ?_).1
      intro l hl
      rcases hlen with h | h
      · rw [h] at hl; cases hl
      · rw [h] at hl; cases hl; simp
  refine ⟨every_item_once _ _ pkgs _ hn s hr ht, ?_⟩
  have := results_complete (regenF outcome) (fun _ _ => none) (fun _ _ => rfl) pkgs _ hn s hr ht
  unfold ResultsComplete at this
  rwa [flatMap_regenF] at this

end Pkgcore.C41
