import Pkgcore.Proofs.C12
/-!
# C12 — incremental token expansion is left to right; the condensed forms agree

Property theorems only (helper lemmas live in `Pkgcore/Proofs/C12.lean`).  `expand` mirrors
`incremental_expansion`, `optimize` `optimize_incrementals`, `splitNegations` snakeoil's `split_negations`,
`expandLic` `incremental_expansion_license`, `collapse`/`pullData`/`iterPullData` `collapsed_restrict_to_data`.
"On" below always refers to flags (`isFlag`: non-empty, not starting with `-`); sets are lists up to membership.
-/
namespace Pkgcore.C12
open Pkgcore.C12.Spec

/-- **Expansion is sequential**: expanding `a ++ b` is expanding `a` and then `b` from its result, with the first
error winning — for both modes, every stream and every initial set. -/
theorem expansion_is_fold (fin : Bool) (a b : List Tok) (s : TSet) :
    expand fin (a ++ b) s = (match expand fin a s with | .error e => .error e | .ok s' => expand fin b s') :=
  expand_append fin a b s

/-- **Left-to-right semantics, per flag**: every well-formed stream is accepted, and afterwards a flag is on
iff the last token speaking about it (`f`, `-f`, `-*`) switches it on, or no token does and it was on
initially. -/
theorem expansion_last_writer (toks : List Tok) (orig : TSet) (h : wellFormed toks = true) :
    ∃ s, expand true toks orig = .ok s ∧ ∀ f, isFlag f = true → (f ∈ s ↔ holds f toks orig = true) :=
  expand_holds toks orig h

example : wellFormed ["a".toList, "-*".toList, "b".toList, "-b".toList, "c".toList] = true := by decide
example : expand true ["a".toList, "-*".toList, "b".toList, "-b".toList, "c".toList] ["x".toList] = .ok ["c".toList] := by decide
example : holds "c".toList ["a".toList, "-*".toList, "b".toList, "-b".toList, "c".toList] ["x".toList] = true
    ∧ holds "x".toList ["a".toList, "-*".toList] ["x".toList] = false
    ∧ holds "x".toList ["a".toList, "-b".toList] ["x".toList] = true := by decide

/-- **The condensed form has the same members** (`"test" in domain.features`): a flag is in what
`optimize_incrementals` yields iff the stream, expanded from nothing, switches it on. -/
theorem optimize_membership (toks : List Tok) (h : wellFormed toks = true) :
    ∃ c, optimize toks = .ok c ∧ ∀ f, isFlag f = true → (f ∈ c ↔ lastEffect f toks = some true) := by
  obtain ⟨c, hc, hch⟩ := optimize_char toks h
  refine ⟨c, hc, fun f hf => ?_⟩
  rw [hch.pos f hf, (lastEffect_of_hit f hf toks).1]
  simp

/-- **The condensed form expands to the same set**: re-expanding what `optimize_incrementals` yields (what it
removes first, then what it adds) on top of *any* initial set switches on exactly the flags the original stream
does. -/
theorem optimize_equiv (toks : List Tok) (orig : TSet) (h : wellFormed toks = true) :
    ∃ c s s', optimize toks = .ok c ∧ expand true (negsFirst c) orig = .ok s ∧ expand true toks orig = .ok s' ∧
      ∀ f, isFlag f = true → (f ∈ s ↔ f ∈ s') :=
  optimize_reexpand toks orig h

example : optimize ["a".toList, "b".toList, "-a".toList, "-*".toList, "-b".toList, "c".toList, "-c".toList, "c".toList]
    = .ok ["c".toList, "-b".toList, "-*".toList] := by decide

/-- **… also as `domain.use` reads it**: `split_negations` of the condensed form is one chunk `(neg, pos)`;
a flag is on after the chunk (clear on `*`, remove `neg`, add `pos`) iff it is on after the stream. -/
theorem optimize_split_equiv (toks : List Tok) (orig : TSet) (h : wellFormed toks = true) :
    ∃ c neg pos, optimize toks = .ok c ∧ splitNegations c = .ok (neg, pos) ∧
      ∀ f, isFlag f = true →
        ((f ∈ pos ∨ (f ∈ orig ∧ star ∉ neg ∧ f ∉ neg)) ↔ holds f toks orig = true) :=
  optimize_split toks orig h

/-- **License expansion is sequential** (same shape as `expansion_is_fold`). -/
theorem license_expansion_is_fold (licenses : List Tok) (groups : List (Tok × List Tok)) (a b : List Tok) (s : TSet) :
    expandLicFrom licenses groups (a ++ b) s =
      (match expandLicFrom licenses groups a s with
       | .error e => .error e
       | .ok s' => expandLicFrom licenses groups b s') := by
  induction a generalizing s with
  | nil => simp [expandLicFrom]
  | cons t ts ih =>
    simp only [List.cons_append, expandLicFrom]
    cases licStep licenses groups s t with
    | error e => rfl
    | ok s' => exact ih s'

/-- **ACCEPT_LICENSE, per license**: every well-formed stream is accepted, and a license is accepted iff the
last token speaking about it — the license itself, `-license`, a group `@g` / `-@g` containing it (a missing
group contains nothing), `*` if it is a known license, `-*` — is a positive one. -/
theorem license_expansion_last_writer (licenses : List Tok) (groups : List (Tok × List Tok)) (toks : List Tok)
    (h : wellFormedLic toks = true) :
    ∃ s, expandLic licenses groups toks = .ok s ∧
      ∀ l, (l ∈ s ↔ lastLicEffect licenses groups l toks = some true) := by
  obtain ⟨s, hs, hl⟩ := expandLicFrom_spec licenses groups toks [] h
  exact ⟨s, hs, fun l => by rw [hl l]; simp⟩

example : expandLic ["L1".toList, "L2".toList, "L3".toList] [("g".toList, ["L1".toList, "L2".toList])]
    ["*".toList, "-@g".toList, "L2".toList, "@nosuch".toList] = .ok ["L3".toList, "L2".toList] := by decide

/-- **Incomplete negations are rejected** by every one of them: a bare `-` anywhere in the stream (for
ACCEPT_LICENSE also `-@` and `@`). -/
theorem incomplete_negation_rejected (toks : List Tok) (hne : ∀ t ∈ toks, t ≠ []) :
    (['-'] ∈ toks → ∀ fin s, expand fin toks s = .error .incomplete) ∧
    (['-'] ∈ toks → optimize toks = .error .incomplete) ∧
    ((['-'] ∈ toks ∨ ['-', '@'] ∈ toks ∨ ['@'] ∈ toks) →
      ∀ licenses groups, expandLic licenses groups toks = .error .incomplete) := by
  refine ⟨fun h fin s => expand_rejects fin toks s hne h, fun h => ?_, fun h licenses groups => ?_⟩
  · exact optLoop_rejects toks.reverse [] (fun t ht => hne t (by simpa using ht)) (by simpa using h)
  · exact expandLicFrom_rejects licenses groups toks [] hne h

example : optimize ["a".toList, "-".toList, "-*".toList, "b".toList] = .error .incomplete := by decide

/-- **… and nothing else is**: a stream without empty tokens and bare `-` (`-@`, `@`) is accepted. -/
theorem well_formed_accepted (toks : List Tok) :
    (wellFormed toks = true → (∀ s, ∃ r, expand true toks s = .ok r) ∧ ∃ c, optimize toks = .ok c) ∧
    (wellFormedLic toks = true → ∀ licenses groups, ∃ r, expandLic licenses groups toks = .ok r) := by
  refine ⟨fun h => ⟨fun s => ?_, ?_⟩, fun h licenses groups => ?_⟩
  · obtain ⟨r, hr, _⟩ := expand_holds toks s h; exact ⟨r, hr⟩
  · obtain ⟨c, hc, _⟩ := optimize_char toks h; exact ⟨c, hc⟩
  · obtain ⟨r, hr, _⟩ := expandLicFrom_spec licenses groups toks [] h; exact ⟨r, hr⟩

/- Full statement (false of the model for `finalize_defaults=False`, see the counterexample; open finding
   C12-unfinalized-defaults-set-order):
     ∀ fin entries c key pre order, collapse fin entries = .ok c → … → sameFlags (pullData …) (expand true (iterPullData …) []) -/
/-- **`collapsed_restrict_to_data.pull_data` is the expansion of the stream `iter_pull_data` yields** — defaults,
then the matching repo / category / package / multi entries, then the matching atoms — whatever order the
`set` of (finalized) defaults is iterated in.  Guard: `finalize_defaults=True` (the only mode used in the tree). -/
theorem pull_data_eq_stream_partial (entries : List (RKind × List Tok)) (c : Collapsed) (key : Tok)
    (pre order : List Tok) (hc : collapse true entries = .ok c) (hpre : ∀ x ∈ pre, isFlag x = true)
    (hord : ∀ x, x ∈ order ↔ x ∈ c.defaults) :
    sameFlags (pullData c key pre order) (expand true (iterPullData c key pre order) []) :=
  pullData_stream entries c key pre order hc hpre hord

example : ∃ c, collapse true [(.always true, ["x".toList, "-*".toList, "y".toList]), (.atom "a/b".toList true, ["-y".toList, "z".toList])]
    = .ok c ∧ c.defaults = ["y".toList] ∧ pullData c "a/b".toList [] c.defaults = .ok ["z".toList] := by
  refine ⟨_, rfl, ?_, ?_⟩ <;> decide

/-- with `finalize_defaults=False` the stored defaults `{-*, b}` of the stream `-* b` may be replayed as `b, -*`:
on top of `pre_defaults = [a]` that gives nothing, while the stream `a -* b` gives `b` -/
theorem pull_data_eq_stream_counterexample :
    ∃ c, collapse false [(.always true, ["-*".toList, "b".toList])] = .ok c ∧
      (∀ x, x ∈ ["b".toList, "-*".toList] ↔ x ∈ c.defaults) ∧
      pullData c [] ["a".toList] ["b".toList, "-*".toList] = .ok [] ∧
      expand true (["a".toList] ++ ["-*".toList, "b".toList]) [] = .ok ["b".toList] := by
  refine ⟨_, rfl, ?_, ?_, ?_⟩
  · intro x; simp [collapse, collectStep, expand, expandStep, sAdd, sDiscard, star]
    constructor <;> (rintro (h | h) <;> simp [h])
  · decide
  · decide

end Pkgcore.C12
