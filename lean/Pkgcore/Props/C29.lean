import Pkgcore.Proofs.C29
/-!
# C29 — package database updates are crash-consistent

Property theorems only (helper lemmas: `Pkgcore/Proofs/C29.lean`).  A routine is the list of file-system
operations it performs on one category directory (`Model/C29.lean`, mirroring the repaired code); a crash
point is any prefix of that list; the reader is the fresh-scan view `viewVdb` / `viewBin`, which includes
every metadata file (resp. the whole tarball) of each listed package.  `CrashConsistent view ops st new`
says: at every crash point the view is the old one or `new`, and the completed routine shows `new`.
-/
namespace Pkgcore.C29
open Pkgcore.C29.Spec

/-- crash points are exactly the prefixes of the operation list -/
theorem crash_states_are_prefixes (ops : List Op) (st s : Store) :
    s ∈ states ops st ↔ ∃ k, k ≤ ops.length ∧ s = run (ops.take k) st :=
  mem_states_iff_prefix ops st s

/-- **vdb install**: whatever is in the category (including a leftover `.tmp.` directory of an interrupted
run), every crash point lists the old packages or the old packages plus the complete new entry. -/
theorem vdb_install_crash_consistent (st : Store) (name : Name) (files : List (Name × Content))
    (hn : hiddenVdb name = false) (habs : st name = none) (hok : ∀ c, st (tmpOf name) ≠ some (.file c)) :
    CrashConsistent viewVdb (vdbInstall st name files) st (addPkg (viewVdb st) name (written files)) :=
  vdb_install_aux st name files hn habs hok

/-- **vdb uninstall**: every crash point lists the complete old entry or no entry (never a partly removed one) -/
theorem vdb_uninstall_crash_consistent (st : Store) (name : Name) (fs : List (Name × Content))
    (hn : hiddenVdb name = false) (h0 : st name = some (.dir fs)) (hok : ∀ c, st (hidOf name) ≠ some (.file c)) :
    CrashConsistent viewVdb (vdbUninstall st name) st (removePkg (viewVdb st) name) :=
  vdb_uninstall_aux st name fs hn h0 hok

/-- **binpkg install / uninstall / same-version replace**: old or new at every crash point -/
theorem binpkg_install_crash_consistent (st : Store) (tmp final : Name) (pre : List Content) (c : Content)
    (ht : hiddenBin tmp = true) (hf : hiddenBin final = false) (habs : st final = none)
    (hnd : ∀ fs, st tmp ≠ some (.dir fs)) :
    CrashConsistent viewBin (binInstall tmp final pre c) st (addPkg (viewBin st) final c) :=
  bin_install_aux st tmp final pre c ht hf habs hnd

theorem binpkg_uninstall_crash_consistent (st : Store) (final : Name) (c0 : Content) (h0 : st final = some (.file c0)) :
    CrashConsistent viewBin (binUninstall final) st (removePkg (viewBin st) final) :=
  bin_uninstall_aux st final c0 h0

theorem binpkg_replace_same_version_crash_consistent (st : Store) (tmp name : Name) (pre : List Content) (c c0 : Content)
    (ht : hiddenBin tmp = true) (hf : hiddenBin name = false) (h0 : st name = some (.file c0))
    (hnd : ∀ fs, st tmp ≠ some (.dir fs)) :
    CrashConsistent viewBin (binReplace tmp name name pre c) st (addPkg (viewBin st) name c) :=
  bin_replace_same_aux st tmp name pre c c0 ht hf h0 hnd

/-- the entry that becomes visible holds exactly the metadata files handed to `add_data` (distinct file names) -/
theorem new_entry_is_exactly_the_metadata (files : List (Name × Content)) (hd : (files.map (·.1)).Nodup) :
    written files = files := written_of_nodup files hd

/-- the temp names the code uses are hidden from the listings, for every package name and pid -/
theorem temp_names_hidden (n : Name) (pid : List Char) :
    hiddenVdb (tmpOf n) = true ∧ hiddenVdb (hidOf n) = true ∧ hiddenBin (binTmpOf pid n) = true :=
  ⟨hiddenVdb_tmpOf n, hiddenVdb_hidOf n, hiddenBin_binTmpOf pid n⟩

/-- the statement `repo_update_crash_consistent` of the design, for the routines where it holds in full:
every crash point of install and uninstall (vdb, binpkg) and of a same-version binpkg replace shows the old
or the new state. -/
theorem repo_update_crash_consistent (st : Store) (name : Name) :
    (∀ files, hiddenVdb name = false → st name = none → (∀ c, st (tmpOf name) ≠ some (.file c)) →
      CrashConsistent viewVdb (vdbInstall st name files) st (addPkg (viewVdb st) name (written files))) ∧
    (∀ fs, hiddenVdb name = false → st name = some (.dir fs) → (∀ c, st (hidOf name) ≠ some (.file c)) →
      CrashConsistent viewVdb (vdbUninstall st name) st (removePkg (viewVdb st) name)) ∧
    (∀ pid pre c, hiddenBin name = false → st name = none → (∀ fs, st (binTmpOf pid name) ≠ some (.dir fs)) →
      CrashConsistent viewBin (binInstall (binTmpOf pid name) name pre c) st (addPkg (viewBin st) name c)) ∧
    (∀ c0, st name = some (.file c0) →
      CrashConsistent viewBin (binUninstall name) st (removePkg (viewBin st) name)) ∧
    (∀ pid pre c c0, hiddenBin name = false → st name = some (.file c0) → (∀ fs, st (binTmpOf pid name) ≠ some (.dir fs)) →
      CrashConsistent viewBin (binReplace (binTmpOf pid name) name name pre c) st (addPkg (viewBin st) name c)) :=
  ⟨fun files h1 h2 h3 => vdb_install_aux st name files h1 h2 h3,
   fun fs h1 h2 h3 => vdb_uninstall_aux st name fs h1 h2 h3,
   fun pid pre c h1 h2 h3 => bin_install_aux st _ name pre c (hiddenBin_binTmpOf pid name) h1 h2 h3,
   fun c0 h => bin_uninstall_aux st name c0 h,
   fun pid pre c c0 h1 h2 h3 => bin_replace_same_aux st _ name pre c c0 (hiddenBin_binTmpOf pid name) h1 h2 h3⟩

/-! Concrete instances (non-vacuity): a category with package directory `a` (two metadata files), a leftover
temp directory of an interrupted install of `b`, and a stray file. -/

def exStore : Store := fun n =>
  if n = ['a'] then some (.dir [(['S'], ['0']), (['D'], ['x'])])
  else if n = tmpOf ['b'] then some (.dir [(['N'], ['s', 't', 'a', 'l', 'e'])])
  else none

example : hiddenVdb ['b'] = false ∧ exStore ['b'] = none ∧ ∀ c, exStore (tmpOf ['b']) ≠ some (.file c) :=
  ⟨by decide, by decide, by intro c h; simp [exStore, tmpOf, tmpPrefix] at h⟩
example : viewVdb (run (vdbInstall exStore ['b'] [(['S'], ['1'])]) exStore) ['b'] = some [(['S'], ['1'])] := by decide
example : hiddenVdb ['a'] = false ∧ exStore ['a'] = some (.dir [(['S'], ['0']), (['D'], ['x'])]) := ⟨by decide, by decide⟩
example : viewVdb (run (vdbUninstall exStore ['a']) exStore) ['a'] = none := by decide

/-! ## replace: what is provable, and what is not -/

/- Full statement (FALSE for both replace shapes below, see the `_counterexample`/`_gap` theorems):
   `CrashConsistent viewVdb (vdbReplace st old new files) st newView`. -/

/-- **vdb replace by another version** (partial): every crash point shows the old state, the new state, or —
between the two renames — both complete entries; never none of them, never a partial entry. -/
theorem vdb_replace_crash_consistent_partial (st : Store) (old new : Name) (files fsO : List (Name × Content))
    (hne : old ≠ new) (ho : hiddenVdb old = false) (hn : hiddenVdb new = false)
    (h0 : st old = some (.dir fsO)) (habs : st new = none)
    (hokT : ∀ c, st (tmpOf new) ≠ some (.file c)) (hokH : ∀ c, st (hidOf old) ≠ some (.file c))
    (hth : hidOf old ≠ tmpOf new) :
    CrashConsistentVia viewVdb (vdbReplace st old new files) st
      (addPkg (viewVdb st) new (written files))
      (removePkg (addPkg (viewVdb st) new (written files)) old) :=
  vdb_replace_diff_aux st old new files fsO hne ho hn h0 habs hokT hokH hth

/-- … and in that window the package is never unlisted: at every crash point the old or the new entry is there, complete -/
theorem vdb_replace_never_neither (st : Store) (old new : Name) (files fsO : List (Name × Content))
    (hne : old ≠ new) (ho : hiddenVdb old = false) (hn : hiddenVdb new = false)
    (h0 : st old = some (.dir fsO)) (habs : st new = none)
    (hokT : ∀ c, st (tmpOf new) ≠ some (.file c)) (hokH : ∀ c, st (hidOf old) ≠ some (.file c))
    (hth : hidOf old ≠ tmpOf new) :
    ∀ s ∈ states (vdbReplace st old new files) st,
      viewVdb s old = some fsO ∨ viewVdb s new = some (written files) := by
  intro s hs
  have hvo : viewVdb st old = some fsO := by simp [viewVdb, ho, h0]
  rcases (vdb_replace_diff_aux st old new files fsO hne ho hn h0 habs hokT hokH hth).1 s hs with h | h | h
  · left; rw [h, hvo]
  · right; rw [h]; simp [addPkg]
  · right; rw [h]; simp [removePkg, addPkg, hne.symm]

/-- **vdb replace by the same version** (partial): old, new, or — between the two renames — the package missing -/
theorem vdb_replace_same_version_partial (st : Store) (name : Name) (files fsO : List (Name × Content))
    (hn : hiddenVdb name = false) (h0 : st name = some (.dir fsO))
    (hokT : ∀ c, st (tmpOf name) ≠ some (.file c)) (hokH : ∀ c, st (hidOf name) ≠ some (.file c)) :
    CrashConsistentVia viewVdb (vdbReplace st name name files) st
      (removePkg (viewVdb st) name) (addPkg (viewVdb st) name (written files)) :=
  vdb_replace_same_aux st name files fsO hn h0 hokT hokH

/-- the full statement is false for a same-version vdb replace — for *every* input there is a crash point at
which the package is not listed (open finding `C29-vdb-replace-same-version-gap`: two directories cannot
be exchanged with one `rename`) -/
theorem vdb_replace_same_version_gap (st : Store) (name : Name) (files fsO : List (Name × Content))
    (hn : hiddenVdb name = false) (h0 : st name = some (.dir fsO))
    (hokT : ∀ c, st (tmpOf name) ≠ some (.file c)) (hokH : ∀ c, st (hidOf name) ≠ some (.file c)) :
    ∃ s ∈ states (vdbReplace st name name files) st, viewVdb s name = none :=
  vdb_replace_same_gap_aux st name files fsO hn h0 hokT hokH

theorem vdb_replace_same_version_counterexample :
    viewVdb (run ((vdbReplace exStore ['a'] ['a'] [(['S'], ['1'])]).take 7) exStore) ['a'] = none ∧
    viewVdb exStore ['a'] ≠ none ∧
    viewVdb (run (vdbReplace exStore ['a'] ['a'] [(['S'], ['1'])]) exStore) ['a'] = some [(['S'], ['1'])] := by decide

/-- the window of a different-version replace really shows both (open finding `C29-replace-other-version-both`) -/
theorem vdb_replace_other_version_counterexample :
    let s := run ((vdbReplace exStore ['a'] ['b'] [(['S'], ['1'])]).take 9) exStore
    viewVdb s ['a'] ≠ none ∧ viewVdb s ['b'] = some [(['S'], ['1'])] ∧
    viewVdb (run (vdbReplace exStore ['a'] ['b'] [(['S'], ['1'])]) exStore) ['a'] = none := by decide

/-- **binpkg replace by another version** (partial): old, both tarballs, or new -/
theorem binpkg_replace_crash_consistent_partial (st : Store) (tmp old new : Name) (pre : List Content) (c cO : Content)
    (hne : old ≠ new) (ht : hiddenBin tmp = true) (hn : hiddenBin new = false) (ho : hiddenBin old = false)
    (h0 : st old = some (.file cO)) (habs : st new = none) (hnd : ∀ fs, st tmp ≠ some (.dir fs)) :
    CrashConsistentVia viewBin (binReplace tmp old new pre c) st
      (addPkg (viewBin st) new c) (removePkg (addPkg (viewBin st) new c) old) :=
  bin_replace_diff_aux st tmp old new pre c cO hne ht hn ho h0 habs hnd

def exBin : Store := fun n => if n = "a-1.tbz2".toList then some (.file ['o', 'l', 'd']) else none

example : hiddenBin "a-1.tbz2".toList = false ∧ hiddenBin "a-2.tbz2".toList = false ∧ hiddenBin (binTmpOf ['7'] "a-2.tbz2".toList) = true := by
  decide

theorem binpkg_replace_other_version_counterexample :
    let ops := binReplace (binTmpOf ['7'] "a-2.tbz2".toList) "a-1.tbz2".toList "a-2.tbz2".toList [[]] ['n', 'e', 'w']
    let s := run (ops.take 6) exBin
    viewBin s "a-1.tbz2".toList = some ['o', 'l', 'd'] ∧ viewBin s "a-2.tbz2".toList = some ['n', 'e', 'w'] ∧
    viewBin (run ops exBin) "a-1.tbz2".toList = none ∧ viewBin (run ops exBin) "a-2.tbz2".toList = some ['n', 'e', 'w'] := by
  decide

/-! ## the defects repaired by the `fix:` commits, on the routines as they were -/

/-- `shutil.rmtree` on the live entry: a crash point lists the package with one of its two metadata files gone -/
theorem vdb_uninstall_unfixed_counterexample :
    viewVdb (run ((vdbUninstallUnfixed exStore ['a']).take 2) exStore) ['a'] = some [(['D'], ['x'])] ∧
    viewVdb exStore ['a'] = some [(['S'], ['0']), (['D'], ['x'])] := by decide

/-- old `replace.finalize_data` (wipe old, then rename new in): a crash point lists neither version -/
theorem vdb_replace_unfixed_counterexample :
    let s := run ((vdbReplaceUnfixed exStore ['a'] ['c'] [(['S'], ['1'])]).take 9) exStore
    viewVdb s ['a'] = none ∧ viewVdb s ['c'] = none ∧
    viewVdb (run (vdbReplaceUnfixed exStore ['a'] ['c'] [(['S'], ['1'])]) exStore) ['c'] = some [(['S'], ['1'])] := by decide

/-- old binpkg `replace.finalize_data` (rename only): the *completed* replace still lists the replaced version -/
theorem binpkg_replace_unfixed_counterexample :
    let ops := binReplaceUnfixed (binTmpOf ['7'] "a-2.tbz2".toList) "a-2.tbz2".toList [[]] ['n', 'e', 'w']
    viewBin (run ops exBin) "a-1.tbz2".toList = some ['o', 'l', 'd'] ∧
    viewBin (run ops exBin) "a-2.tbz2".toList = some ['n', 'e', 'w'] := by decide

end Pkgcore.C29
