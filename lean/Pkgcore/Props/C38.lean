import Pkgcore.Proofs.C38
/-!
# C38 — package-list rewriting touches only the lines it must

Property theorems only (helper lemmas live in `Pkgcore/Proofs/C38.lean`).
`parse`, `Entry.withKeywords`, `expandLoop`/`expandText`, `buildText` mirror `pkgcore.bugzilla.pkglist`;
`scan`/`splitComment` are the structural recognisers of its two regular expressions; `Spec.rewrittenItems` is
the layout a rewritten line must have.
-/
namespace Pkgcore.C38
open Pkgcore.C38.Spec

variable {α : Type}

/-! ## parse / render -/

/-- splitting into lines loses nothing (whatever line boundaries the text uses) -/
theorem lines_identity (text : Str) : (splitLines text).flatten = text := splitLines_flatten text

/-- **parsing a package list and rendering it back reproduces the text exactly**: for every text that parses,
`"".join(e.raw + e.eol for e in entries) == text` — all line endings (`\n`, `\r\n`, `\r`, form feed, …),
blank lines, comments and spacing included. -/
theorem parse_render_identity (parseAtom : Str → Option α) (text : Str) (es : List (Entry α))
    (h : parse parseAtom text = .ok es) : renderEntries es = text := by
  unfold parse at h
  rw [parseLines_render parseAtom 1 _ es h, splitLines_flatten]

example : (parse (fun t => if t = "a/b".toList then some 1 else none) "  a/b x  # c\r\n\n#z".toList).toOption
    = some [⟨1, "  a/b x  # c".toList, some 1, ["x".toList], "# c".toList, "\r\n".toList⟩,
           ⟨2, [], none, [], [], "\n".toList⟩, ⟨3, "#z".toList, none, [], "#z".toList, []⟩] := by decide

/-- **building a list from entries parses back to those entries**: for package atoms whose string form is a
proper token that `parse_atom` maps back to the atom, and proper keyword tokens, the text written by `build` parses
without error into one entry per input entry, in order, with that package, exactly those keywords and no comment;
and (by `parse_render_identity`) rendering those entries gives the built text again. -/
theorem build_parse_roundtrip (parseAtom : Str → Option α) (strAtom : α → Str) (entries : List (α × List Str))
    (hatom : ∀ e ∈ entries, Tok (strAtom e.1) ∧ parseAtom (strAtom e.1) = some e.1)
    (hk : ∀ e ∈ entries, ∀ k ∈ e.2, Tok k) :
    ∃ es, parse parseAtom (buildText strAtom entries) = .ok es ∧
      es.map (fun e => (e.pkg, e.keywords, e.comment)) = entries.map (fun e => (some e.1, e.2, [])) := by
  -- `.rstrip()` has nothing to strip
  have hlines : entries.map (fun e => rstrip isSpace (joinSp (strAtom e.1 :: e.2)))
      = entries.map (fun e => joinSp (strAtom e.1 :: e.2)) := by
    apply List.map_congr_left
    intro e he
    obtain ⟨c, hc1, hc2⟩ := render_last_nonspace (strAtom e.1) e.2 (hatom e he).1 (hk e he)
    exact rstrip_of_last _ _ c hc1 hc2
  have hgood : ∀ l ∈ entries.map (fun e => joinSp (strAtom e.1 :: e.2)), l ≠ [] ∧ BreakFree l := by
    intro l hl
    obtain ⟨e, he, rfl⟩ := List.mem_map.1 hl
    obtain ⟨c, hc1, _⟩ := render_last_nonspace (strAtom e.1) e.2 (hatom e he).1 (hk e he)
    refine ⟨(by rintro h; rw [h] at hc1; cases hc1), joinSp_breakFree _ ?_⟩
    intro t ht
    rcases List.mem_cons.1 ht with rfl | ht
    · exact (hatom e he).1.2.1
    · exact (hk e he t ht).2.1
  unfold parse buildText
  rw [hlines, splitLines_joinNl _ hgood]
  -- parse the lines one by one
  have key : ∀ (n : Nat) (ents : List (α × List Str)),
      (∀ e ∈ ents, Tok (strAtom e.1) ∧ parseAtom (strAtom e.1) = some e.1) → (∀ e ∈ ents, ∀ k ∈ e.2, Tok k) →
      ∃ es, parseLines parseAtom n (nlLines (ents.map fun e => joinSp (strAtom e.1 :: e.2))) = .ok es ∧
        es.map (fun e => (e.pkg, e.keywords, e.comment)) = ents.map (fun e => (some e.1, e.2, [])) := by
    intro n ents
    induction ents generalizing n with
    | nil => intro _ _; exact ⟨[], rfl, rfl⟩
    | cons e rest ih =>
      intro ha hk'
      have hae := ha e List.mem_cons_self
      have hke := hk' e List.mem_cons_self
      obtain ⟨es, hes, hmap⟩ := ih (n + 1) (fun x hx => ha x (List.mem_cons_of_mem _ hx))
        (fun x hx => hk' x (List.mem_cons_of_mem _ hx))
      cases rest with
      | nil =>
        have hl := parseLine_built parseAtom n (strAtom e.1) e.2 e.1 hae.1 hke hae.2 [] (Or.inl rfl)
        rw [List.append_nil] at hl
        refine ⟨[⟨n, joinSp (strAtom e.1 :: e.2), some e.1, e.2, [], []⟩], ?_, rfl⟩
        simp [nlLines, parseLines, hl, Except.map]
      | cons e2 rest2 =>
        have hl := parseLine_built parseAtom n (strAtom e.1) e.2 e.1 hae.1 hke hae.2 ['\n'] (Or.inr rfl)
        refine ⟨⟨n, joinSp (strAtom e.1 :: e.2), some e.1, e.2, [], ['\n']⟩ :: es, ?_, by simp [hmap]⟩
        simp only [List.map_cons, nlLines] at hes ⊢
        simp only [parseLines, hl, hes]
        rfl
  exact key 1 entries hatom hk

example : buildText (fun (a : Nat) => if a = 0 then "=dev-libs/a-1".toList else "dev-libs/b".toList)
    [(0, ["amd64".toList, "x86".toList]), (1, [])] = "=dev-libs/a-1 amd64 x86\ndev-libs/b".toList := by decide

/-! ## rewriting one line -/

/-- **rewriting the keywords of a line preserves its package spec, spacing, comment and line ending.**
For every entry naming a package and all proper keyword tokens `kws`: line number, package, comment field and
line ending are untouched; and *reading the rewritten line back* — splitting off the comment with the code's
own comment recogniser, then tokenising — gives the same comment text and exactly the layout
`Spec.rewrittenItems`: the same leading whitespace, the same spec token as written, the same separator after it
(a single space if the line had no keywords), the new keywords separated by single spaces, and the same
whitespace in front of the comment. -/
theorem rewrite_preserves_spec_spacing_comment_eol (e : Entry α) (hp : e.pkg ≠ none)
    (hne : (scan (splitComment e.raw).1).items ≠ []) (kws : List Str) (hk : ∀ k ∈ kws, Tok k) :
    (e.withKeywords kws).lineno = e.lineno ∧ (e.withKeywords kws).pkg = e.pkg ∧
    (e.withKeywords kws).comment = e.comment ∧ (e.withKeywords kws).eol = e.eol ∧
    (e.withKeywords kws).keywords = kws ∧
    splitComment (e.withKeywords kws).raw
      = ((rewrittenItems (scan (splitComment e.raw).1) kws).render, (splitComment e.raw).2) ∧
    scan (rewrittenItems (scan (splitComment e.raw).1) kws).render = rewrittenItems (scan (splitComment e.raw).1) kws := by
  cases hpk : e.pkg with
  | none => exact absurd hpk hp
  | some pkg =>
    obtain ⟨hraw, hkw, hpkg, hln, hcm, heol⟩ := withKeywords_raw e pkg hpk kws hne
    have hs := splitCommentAux_spec true e.raw (splitComment e.raw).1 (splitComment e.raw).2 rfl
    have hwf := scan_wf (splitComment e.raw).1
    have hR := rewrittenItems_wf _ hwf kws hk
    have hbody : splitCommentAux true (Segs.render (scan (splitComment e.raw).1))
        = (Segs.render (scan (splitComment e.raw).1), []) := by rw [scan_render]; exact hs.2.1
    have hheads := rewrittenItems_heads (scan (splitComment e.raw).1) kws hk
      (fun ws0 t0 rest hi => first_token_no_hash _ hs.2.1 ws0 t0 rest hi)
    have hD := splitCommentAux_render _ hR hheads true
    refine ⟨hln, by rw [hpkg, hpk], hcm, heol, hkw, ?_, scan_of_wf _ hR⟩
    rw [hraw]
    apply splitComment_recompose _ _ hD.1
    rcases hs.2.2 with hnil | ⟨hhash, hend⟩
    · exact Or.inl hnil
    · refine Or.inr ⟨hhash, ?_⟩
      -- the old body ended in whitespace, and that trailing whitespace is kept
      have hold := (splitCommentAux_render (scan (splitComment e.raw).1) hwf
        (fun it hit => (scan_body_tok e.raw it hit).2.2) true).2
      rw [scan_render, hend] at hold
      have htrail : (scan (splitComment e.raw).1).trail ≠ [] := by
        intro h0
        simp only [h0, ne_eq, not_true_eq_false, if_false, hne, not_false_eq_true, if_true] at hold
        cases hold
      rw [hD.2]
      simp [rewrittenItems_trail_ne _ kws htrail]

example : (Entry.withKeywords (α := Nat) ⟨1, "  a/b-1   *   # keep".toList, some 0, ["*".toList], "# keep".toList, "\r\n".toList⟩
    ["amd64".toList, "~x86".toList]).raw = "  a/b-1   amd64 ~x86   # keep".toList := by decide

example : Tok "~amd64".toList ∧ Tok "a#b".toList :=
  ⟨⟨by decide, by decide, by decide⟩, ⟨by decide, by decide, by decide⟩⟩

/-- a line without package (blank, comment) is never rewritten -/
theorem rewrite_blank_noop (e : Entry α) (h : e.pkg = none) (kws : List Str) : e.withKeywords kws = e :=
  withKeywords_noop e kws (Or.inl h)

/-! ## expanding the sentinels -/

/-- on success the expanded keywords of a line are the per-keyword expansions, in order
(`*` ↦ suggestions or `-`, `^` ↦ the previous package line's expanded keywords, others unchanged) -/
theorem expand_keywords_semantics (suggested : List Str) (previous : Option (List Str)) (lineno n : Nat)
    (ks kws : List Str) (h : expandKeywords suggested previous lineno n ks = .ok kws) :
    kws = ks.flatMap (expandOne suggested (previous.getD [])) :=
  expandKeywords_eq_flatMap suggested previous lineno n ks kws h

/-- **expanding rewrites only lines whose keywords change, and leaves lines without sentinels byte-identical**:
if the expansion succeeds, the result is the rendering of as many entries as were parsed, and each of them is
either the parsed entry itself — same `raw`, same line ending — or the rewriting (`with_keywords`) of a package
line that carried a sentinel and whose keywords really changed. -/
theorem expand_touches_only_changed (parseAtom : Str → Option α) (suggest : α → List Str) (text out : Str)
    (h : expandText parseAtom suggest text = .ok out) :
    ∃ es es', parse parseAtom text = .ok es ∧ Forall2 Touched es es' ∧ out = renderEntries es' := by
  unfold expandText at h
  cases hp : parse parseAtom text with
  | error n => rw [hp] at h; cases h
  | ok es =>
    rw [hp] at h
    simp only at h
    cases he : expandLoop suggest none es with
    | error err => rw [he] at h; cases h
    | ok r =>
      obtain ⟨es', ch⟩ := r
      rw [he] at h
      simp only [Except.ok.injEq] at h
      have hparsed : ∀ e ∈ es, e.pkg ≠ none → (scan (splitComment e.raw).1).items ≠ [] := by
        intro e hmem hpn
        obtain ⟨k, line, hl⟩ := parseLines_mem parseAtom 1 _ es hp e hmem
        exact parseLine_has_token parseAtom k line e hl hpn
      obtain ⟨h1, h2⟩ := expandLoop_touched suggest none es es' ch hparsed he
      refine ⟨es, es', rfl, h1, ?_⟩
      cases ch with
      | true => simpa using h.symm
      | false =>
        rw [h2 rfl]
        simp only [Bool.false_eq_true, if_false] at h
        rw [← h]
        exact (parse_render_identity parseAtom text es hp).symm

/-- lines without sentinels come out byte-identical -/
theorem expand_keeps_sentinel_free_lines (e e' : Entry α) (h : Touched e e')
    (hno : ∀ k ∈ e.keywords, isSentinel k = false) : e' = e := by
  rcases h with h | ⟨_, ⟨k, hk, hs⟩, _⟩
  · exact h
  · rw [hno k hk] at hs; cases hs

/-- the two statements together, end to end: for suggestion functions returning proper keyword tokens, every line
of the expansion is the parsed line itself, or reads back with the same line number, package, comment, line
ending, leading whitespace, spec token, separator and trailing whitespace, and the expanded keywords -/
theorem expand_rewritten_lines_keep_layout (parseAtom : Str → Option α) (suggest : α → List Str)
    (hsug : ∀ pkg, ∀ k ∈ suggest pkg, Tok k) (text : Str) (es es' : List (Entry α)) (ch : Bool)
    (hp : parse parseAtom text = .ok es) (he : expandLoop suggest none es = .ok (es', ch)) :
    Forall2 (fun e e' => e' = e ∨
      (e'.lineno = e.lineno ∧ e'.pkg = e.pkg ∧ e'.comment = e.comment ∧ e'.eol = e.eol ∧
       splitComment e'.raw = ((rewrittenItems (scan (splitComment e.raw).1) e'.keywords).render, (splitComment e.raw).2) ∧
       scan (splitComment e'.raw).1 = rewrittenItems (scan (splitComment e.raw).1) e'.keywords)) es es' := by
  have hparsed : ∀ e ∈ es, e.pkg ≠ none → (scan (splitComment e.raw).1).items ≠ [] := by
    intro e hmem hpn
    obtain ⟨k, line, hl⟩ := parseLines_mem parseAtom 1 _ es hp e hmem
    exact parseLine_has_token parseAtom k line e hl hpn
  have hktok : ∀ e ∈ es, ∀ k ∈ e.keywords, Tok k := by
    intro e hmem k hk
    obtain ⟨n, line, hl⟩ := parseLines_mem parseAtom 1 _ es hp e hmem
    by_cases hpn : e.pkg = none
    · -- blank entries carry no keywords
      unfold parseLine at hl
      simp only at hl
      split at hl
      · cases hl; cases hk
      · split at hl
        · cases hl
        · cases hl; simp at hpn
    · obtain ⟨ws0, t0, rest, hi, _, hkw⟩ := parseLine_tokens parseAtom n line e hl hpn
      rw [hkw] at hk
      obtain ⟨it, hit, rfl⟩ := List.mem_map.1 hk
      exact scan_body_tok e.raw it (by rw [hi]; exact List.mem_cons_of_mem _ hit)
  have htok' := expandLoop_tok suggest none es es' ch hsug (fun _ h => by cases h) hktok hparsed he
  have ht := (expandLoop_touched suggest none es es' ch hparsed he).1
  refine ht.imp ?_
  intro e e' hmem hmem' hT
  rcases hT with h | ⟨hpn, _, _, heq⟩
  · exact Or.inl h
  · right
    have := rewrite_preserves_spec_spacing_comment_eol e hpn (hparsed e hmem hpn) e'.keywords (htok' e' hmem')
    rw [← heq] at this
    obtain ⟨a, b, c, d, _, f, g⟩ := this
    exact ⟨a, b, c, d, f, by rw [f]; exact g⟩

end Pkgcore.C38
