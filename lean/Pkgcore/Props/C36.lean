import Pkgcore.Proofs.C36
/-!
# C36 — fetching returns only verified files and uses every allowed attempt

Property theorems only (helper lemmas: `Pkgcore/Proofs/C36.lean`).  `fetch t n f outs` mirrors
`pkgcore.fetch.custom.fetcher.fetch` with `attempts = n`, `f` the file initially at
`distdir/filename` and `outs` the behaviour of the external fetch command for each URI in turn
(any file state, any exit status).  All theorems hold for every target, every attempt budget,
every initial file and every outcome sequence of any length.
-/
namespace Pkgcore.C36
open Pkgcore.C36.Spec

/-- **a path is returned only for a verified file**: the file then at the path has the stated size and
every stated checksum, is not a wrong-checksum file, and is the file that was there initially or the
one some run of the fetch command left. -/
theorem fetch_returns_only_verified (t : Target) (n : Nat) (f : File) (outs : List Outcome)
    (h : (fetch t n f outs).result = .returned) :
    Verified t (fetch t n f outs).final = true ∧ Wrong t (fetch t n f outs).final = false ∧
      ((fetch t n f outs).final = f ∨ ∃ o ∈ outs, (fetch t n f outs).final = o.file) := by
  have he := (fetch_end t n f outs).1 (by rw [h]; decide)
  have hv : verify t (lastLeft f (fetch t n f outs).steps) = .ok := by
    have := he.1; rw [h] at this
    cases hx : verify t (lastLeft f (fetch t n f outs).steps) <;> simp [hx, V.toResult] at this ⊢
  rw [he.2]
  refine ⟨((verify_ok_iff _ _).1 hv).1, ?_, ?_⟩
  · cases hw : Wrong t (lastLeft f (fetch t n f outs).steps) with
    | false => rfl
    | true => rw [(verify_chksum_iff _ _).2 hw] at hv; cases hv
  · rcases lastLeft_cases f (fetch t n f outs).steps with h0 | ⟨s, hs, hl⟩
    · exact Or.inl h0
    · right
      have hsp := fetch_steps_spec t n f outs s hs
      have hmem : s.out ∈ outs := by
        have : s.out ∈ (fetch t n f outs).steps.map (·.out) := List.mem_map.2 ⟨s, hs, rfl⟩
        rw [fetch_steps_outs] at this
        exact List.mem_of_mem_take this
      refine ⟨s.out, hmem, ?_⟩
      rw [hl, hsp.2.2.1]
      unfold leftOf
      split
      · rename_i hc; rw [hl, hsp.2.2.1, leftOf, if_pos hc] at hv; simp [verify] at hv
      · rfl

example : (fetch ⟨some 5, true⟩ 1 .missing [⟨.present 5 true, false⟩]).result = .returned := by decide

/-- **… and the returned file is one an attempt really "left"**, also for targets that state no size or no
checksum at all (where `Verified` alone says little): the file at the returned path is never empty unless a
size of 0 is stated, and it is either the initial file — then no fetch command was run — or the file written
by the *last* executed run, and that outcome is `Acceptable` (for a target without checksums: the run exited
0).  So the loop stops early only on an acceptable file; it never hands out a file that `_verify` rejects. -/
theorem fetch_returned_file_acceptable (t : Target) (n : Nat) (f : File) (outs : List Outcome)
    (h : (fetch t n f outs).result = .returned) :
    (t.size.isSome = true ∨ File.nonEmpty (fetch t n f outs).final = true) ∧
    (((fetch t n f outs).steps = [] ∧ (fetch t n f outs).final = f ∧ Acceptable t ⟨f, true⟩ = true) ∨
      ∃ s, (fetch t n f outs).steps.getLast? = some s ∧ (fetch t n f outs).final = s.out.file ∧
        Acceptable t s.out = true) := by
  have he := (fetch_end t n f outs).1 (by rw [h]; decide)
  have hv : verify t (lastLeft f (fetch t n f outs).steps) = .ok := by
    have := he.1; rw [h] at this
    cases hx : verify t (lastLeft f (fetch t n f outs).steps) <;> simp [hx, V.toResult] at this ⊢
  rw [he.2]
  refine ⟨((verify_ok_iff _ _).1 hv).2, ?_⟩
  rcases lastLeft_getLast f (fetch t n f outs).steps with ⟨h0, hl⟩ | ⟨s, hs, hl⟩
  · left
    refine ⟨h0, hl, ?_⟩
    rw [hl] at hv
    rw [← verify_left_ok_iff]; simpa [leftOf] using hv
  · right
    have hsp := fetch_steps_spec t n f outs s (List.mem_of_getLast? hs)
    have hacc : Acceptable t s.out = true := by
      rw [← verify_left_ok_iff, ← hsp.2.2.1, ← hl]; exact hv
    refine ⟨s, hs, ?_, hacc⟩
    rw [hl, hsp.2.2.1]
    unfold leftOf
    split
    · rename_i hc; rw [hl, hsp.2.2.1, leftOf, if_pos hc] at hv; simp [verify] at hv
    · rfl

example : (fetch ⟨none, false⟩ 3 .missing [⟨.present 0 true, true⟩, ⟨.present 7 true, true⟩]).result = .returned ∧
    (fetch ⟨none, false⟩ 3 .missing [⟨.present 0 true, true⟩, ⟨.present 7 true, true⟩]).final = .present 7 true := by decide

/-- **a fetch returns whenever some attempt leaves a verified file** — also the very last allowed one
(this is what failed before the `fix:` commit), also when the fetch command exits non-zero
(checksums are trusted, not the exit status), also when the file was already there. -/
theorem fetch_returns_if_any_attempt_correct (t : Target) (n : Nat) (f : File) (outs : List Outcome)
    (h : Acceptable t ⟨f, true⟩ = true ∨ ∃ s ∈ (fetch t n f outs).steps, Acceptable t s.out = true) :
    (fetch t n f outs).result = .returned := by
  rcases h with h | h
  · exact fetch_of_verify_ok t n f outs (by rw [← verify_left_ok_iff] at h; simpa [leftOf] using h)
  · exact fetch_step_acceptable t n f outs h

example : ∃ s ∈ (fetch ⟨some 5, true⟩ 3 (.present 2 false)
      [⟨.present 4 false, true⟩, ⟨.missing, false⟩, ⟨.present 5 true, false⟩, ⟨.missing, true⟩]).steps,
    Acceptable ⟨some 5, true⟩ s.out = true :=
  ⟨⟨.missing, .missing, .fresh, ⟨.present 5 true, false⟩, .present 5 true⟩, by decide, by decide⟩

/-- **exact characterisation** in terms of the inputs alone: among the initial file and the results of
the first `min n outs.length` runs, the fetch returns iff some state is acceptable and no earlier state
is a wrong-checksum file (where the code deliberately gives up with `ChksumFailure`). -/
theorem fetch_returns_iff (t : Target) (n : Nat) (f : File) (outs : List Outcome) :
    (fetch t n f outs).result = .returned ↔ specReturns t n f outs = true := by
  rw [fetch_returned_iff_aux, specReturns, firstDecisive]
  have h1 : verify t f = .ok ↔ Acceptable t ⟨f, true⟩ = true := by
    rw [← verify_left_ok_iff]; simp [leftOf]
  have h2 := verify_chksum_iff t f
  by_cases ha : Acceptable t ⟨f, true⟩ = true
  · simp [ha, h1.2 ha]
  · have : verify t f ≠ .ok := fun h => ha (h1.1 h)
    by_cases hw : Wrong t f = true
    · simp [ha, hw, h2.2 hw]
    · have hc : verify t f ≠ .chksum := fun h => hw (h2.1 h)
      simp [ha, hw, this, hc]

theorem fetch_returns_iff_exists (t : Target) (n : Nat) (f : File) (outs : List Outcome) :
    (fetch t n f outs).result = .returned ↔
      ∃ k, ∃ h : k < ((⟨f, true⟩ : Outcome) :: outs.take n).length,
        Acceptable t (((⟨f, true⟩ : Outcome) :: outs.take n)[k]) = true ∧
        ∀ j, ∀ hj : j < k, Wrong t ((((⟨f, true⟩ : Outcome) :: outs.take n)[j]'(by omega)).file) = false := by
  rw [fetch_returns_iff, specReturns, firstDecisive_iff]

/-- **every allowed attempt is used**: a fetch gives up with a "not there / too small / empty" failure
only after `n` runs of the fetch command, and with "ran out of urls" only after one run per URI; it never
runs the command more than `n` times, and the runs consume the URIs (outcomes) in order. -/
theorem fetch_uses_every_attempt (t : Target) (n : Nat) (f : File) (outs : List Outcome) :
    let r := fetch t n f outs
    (r.result = .missing ∨ r.result = .tooSmall ∨ r.result = .empty → r.steps.length = n) ∧
    (r.result = .outOfUris → r.steps.length = outs.length ∧ r.steps.length < n) ∧
    r.steps.length ≤ n ∧ r.steps.map (·.out) = outs.take r.steps.length ∧ Chained f r.steps := by
  refine ⟨(fetch_end t n f outs).2.2, fun h => ?_, (fetch_steps_le t n f outs).1, fetch_steps_outs t n f outs,
    fetch_chained t n f outs⟩
  have := (fetch_end t n f outs).2.1 h
  exact ⟨this.1, this.2.1⟩

example : (fetch ⟨some 5, true⟩ 2 .missing [⟨.missing, true⟩, ⟨.present 3 false, true⟩, ⟨.present 5 true, true⟩]).result
    = .tooSmall := by decide
example : (fetch ⟨some 5, true⟩ 4 .missing [⟨.missing, true⟩]).result = .outOfUris := by decide

/-- **resumable partial files are kept for the resume command**: a file shorter than the stated size is
handed untouched to the *resume* command, the resume command is used for nothing else, and the only file
the loop ever removes before a run is an empty one whose size is not stated. -/
theorem partial_kept_for_resume (t : Target) (n : Nat) (f : File) (outs : List Outcome) :
    ∀ s ∈ (fetch t n f outs).steps,
      (Partial t s.seen = true → s.handed = s.seen ∧ s.cmd = .resume) ∧
      (s.cmd = .resume → Partial t s.seen = true) ∧
      (s.handed ≠ s.seen → t.size = none ∧ s.handed = .missing ∧ ∃ ok, s.seen = .present 0 ok) := by
  intro s hs
  obtain ⟨hh, hc, _, _, _⟩ := fetch_steps_spec t n f outs s hs
  refine ⟨fun hp => ?_, fun hr => ?_, fun hne => ?_⟩
  · have := (verify_tooSmall_iff t s.seen).2 hp
    rw [hh, hc, this]; simp [handedOf, cmdOf]
  · rw [hc] at hr
    by_cases hv : verify t s.seen = .tooSmall
    · exact (verify_tooSmall_iff _ _).1 hv
    · simp [cmdOf, hv] at hr
  · rw [hh] at hne ⊢
    by_cases hv : verify t s.seen = .empty
    · obtain ⟨h1, h2⟩ := (verify_empty_iff _ _).1 hv
      exact ⟨h1, by simp [handedOf, hv], h2⟩
    · simp [handedOf, hv] at hne

example : (fetch ⟨some 5, true⟩ 2 (.present 2 false) [⟨.present 5 true, true⟩]).steps
    = [⟨.present 2 false, .present 2 false, .resume, ⟨.present 5 true, true⟩, .present 5 true⟩] := by decide

/-- … and when checksums are stated, whatever the fetch command leaves is never removed by the loop,
so a partial file that remains when the fetch fails is still in place afterwards. -/
theorem partial_survives_failed_fetch (t : Target) (n : Nat) (f : File) (outs : List Outcome) :
    (t.noChksums = false → ∀ s ∈ (fetch t n f outs).steps, s.left = s.out.file) ∧
    (Partial t (lastLeft f (fetch t n f outs).steps) = true →
      (fetch t n f outs).final = lastLeft f (fetch t n f outs).steps ∧
      ((fetch t n f outs).result = .tooSmall ∨ (fetch t n f outs).result = .outOfUris)) := by
  refine ⟨fun hn s hs => ?_, fun hp => ?_⟩
  · rw [(fetch_steps_spec t n f outs s hs).2.2.1]; simp [leftOf, hn]
  · have hv := (verify_tooSmall_iff _ _).2 hp
    have he := fetch_end t n f outs
    by_cases ho : (fetch t n f outs).result = .outOfUris
    · have := he.2.1 ho
      exact ⟨by rw [this.2.2.1, hv]; simp [handedOf], Or.inr ho⟩
    · have := he.1 ho
      exact ⟨this.2, Or.inl (by rw [this.1, hv]; rfl)⟩

example : Partial ⟨some 5, true⟩ (lastLeft .missing
    (fetch ⟨some 5, true⟩ 1 .missing [⟨.present 3 false, false⟩]).steps) = true := by decide

/-- **a file with a wrong checksum is never reported as fetched**: whenever the initial file or the file
left by an executed run is oversized or fails a stated checksum, the fetch ends with `ChksumFailure`. -/
theorem wrong_checksum_never_reported (t : Target) (n : Nat) (f : File) (outs : List Outcome)
    (h : Wrong t f = true ∨ ∃ s ∈ (fetch t n f outs).steps, Wrong t s.out.file = true) :
    (fetch t n f outs).result = .chksum := by
  rcases h with h | h
  · exact fetch_of_verify_chksum t n f outs ((verify_chksum_iff _ _).2 h)
  · exact fetch_step_wrong t n f outs h

example : (fetch ⟨some 5, true⟩ 3 .missing [⟨.present 5 false, true⟩, ⟨.present 5 true, true⟩]).result = .chksum := by
  decide

/-- **any exit status**: for a target without checksums every non-zero value returned by `spawn_bash` — exit
codes 1..255 and `signal <<< 8` for a command killed by a signal, whose low byte is 0 — makes the run a failure:
what it wrote is discarded and it is never an acceptable download. -/
theorem nonzero_status_is_failure (t : Target) (f : File) (ret : Nat) (h : ret ≠ 0) (hn : t.noChksums = true) :
    leftOf t (.ofStatus f ret) = .missing ∧ Acceptable t (.ofStatus f ret) = false := by
  have h0 : (ret == 0) = false := by simpa using h
  simp [Outcome.ofStatus, leftOf, Acceptable, h0, hn]

example : Acceptable ⟨none, false⟩ (.ofStatus (.present 7 true) (15 <<< 8)) = false ∧
    (fetch ⟨none, false⟩ 2 .missing [.ofStatus (.present 7 true) (15 <<< 8), .ofStatus (.present 20 true) 0]).final
      = .present 20 true := by decide

/-- **histories on one fetcher object**: however many fetches were made before on the same object and distdir —
of the same file name with the same or with other checksums, with the file left in place or replaced —, a fetch
that returns a path does so only for a file that has the size and checksums of *its own* target. -/
theorem fetchSeq_each_verified (f : File) (rs : List Request) :
    (fetchSeq f rs).length = rs.length ∧
    ∀ p ∈ rs.zip (fetchSeq f rs), p.2.result = .returned →
      Verified p.1.t p.2.final = true ∧ Wrong p.1.t p.2.final = false := by
  induction rs generalizing f with
  | nil => simp [fetchSeq]
  | cons r rs ih =>
    simp only [fetchSeq, List.length_cons, List.zip_cons_cons, List.mem_cons]
    refine ⟨by rw [(ih _).1], ?_⟩
    rintro p (rfl | hp) h
    · have := fetch_returns_only_verified r.t r.n _ r.outs h
      exact ⟨this.1, this.2.1⟩
    · exact (ih _).2 p hp h

/-- the file verified for the first target is not handed out for a re-rolled one of the same name and size -/
example : ((fetchSeq .missing [⟨none, ⟨some 5, true⟩, 2, [⟨.present 5 true, true⟩]⟩,
      ⟨none, ⟨some 5, true⟩, 2, []⟩, ⟨some (.present 5 false), ⟨some 5, true⟩, 2, [⟨.present 5 true, true⟩]⟩]).map (·.result))
    = [.returned, .returned, .chksum] := by decide

/-- the loop as it was before the `fix:` commit (verification only *before* each run, `raise last_exc`
after the last one) loses a correct download made by the final attempt -/
theorem unfixed_loop_counterexample :
    (fetchUnfixed ⟨some 5, true⟩ 2 .missing .unknown [⟨.missing, false⟩, ⟨.present 5 true, true⟩]) = (.missing, .present 5 true) ∧
    (fetch ⟨some 5, true⟩ 2 .missing [⟨.missing, false⟩, ⟨.present 5 true, true⟩]).result = .returned := by decide

end Pkgcore.C36
