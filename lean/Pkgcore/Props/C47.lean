import Pkgcore.Proofs.C47
/-!
# C47 — tarball sync: old or new, never neither; a failed sync changes nothing; the next sync completes

Property theorems only (helper lemmas: `Pkgcore/Proofs/C47.lean`).  `syncOps st repo d u files etag modified` is
the list of operations one `tar_syncer.sync()` performs on the repos directory `st`, for a download outcome `d`,
an unpack outcome `u`, the files of the tarball and the optional ETag / Last-Modified values; crash points are
the elements of `states` (= prefixes); `treeAt s repo` is what a reader finds at the repository path.
-/
namespace Pkgcore.C47
open Pkgcore.C29 Pkgcore.C47.Spec

/- Full statement (FALSE for every repository that already exists, see `sync_gap`):
   `OldOrNew (syncOps st repo .ok .ok files etag modified) st repo (content (extracted files))`. -/

/-- **a successful sync shows the old tree, the new tree, or — only between its two renames — no
repository path at all** (partial; open finding `C47-tar-sync-gap`); the finished sync shows the new tree. -/
theorem sync_old_or_new_partial (st : Store) (repo : Name) (X files : List (Name × Content)) (etag modified : Option Content)
    (hr : st repo = some (.dir X)) (hnf : NoFiles st repo) :
    OldGapOrNew (syncOps st repo .ok .ok files etag modified) st repo (content (extracted files)) :=
  (sync_ok_no_recover st repo files etag modified (recover_nil_of_some st repo _ hr) hnf).1

/-- the full statement is false whenever a repository exists: some crash point has no repository path -/
theorem sync_gap (st : Store) (repo : Name) (X files : List (Name × Content)) (etag modified : Option Content)
    (hr : st repo = some (.dir X)) (hnf : NoFiles st repo) :
    ∃ s ∈ states (syncOps st repo .ok .ok files etag modified) st, s repo = none :=
  (sync_ok_no_recover st repo files etag modified (recover_nil_of_some st repo _ hr) hnf).2 (by rw [hr]; simp)

/-- **the first sync of a repository is atomic**: nothing, then the complete new tree -/
theorem first_sync_old_or_new (st : Store) (repo : Name) (files : List (Name × Content)) (etag modified : Option Content)
    (hr : st repo = none) (hrec : recoverOps st repo = []) (hnf : NoFiles st repo) :
    OldOrNew (syncOps st repo .ok .ok files etag modified) st repo (content (extracted files)) := by
  obtain ⟨h1, h2⟩ := (sync_ok_no_recover st repo files etag modified hrec hnf).1
  have h0 : treeAt st repo = [] := by simp [treeAt, hr]
  refine ⟨fun s hs => ?_, h2⟩
  rcases h1 s hs with h | h | h
  · exact Or.inl h
  · exact Or.inl (by rw [h0]; simp [treeAt, h])
  · exact Or.inr h

/-- **a failed download or unpack leaves the previous tree untouched** — unreachable server, unchanged
content, connection lost while reading, tar failing after any number of files: at every crash point and at
the end the reader sees exactly the old tree -/
theorem failed_sync_keeps_old (st : Store) (repo : Name) (X : List (Name × Content)) (d : Download) (u : Unpack)
    (files : List (Name × Content)) (etag modified : Option Content)
    (hr : st repo = some (.dir X)) (hnf : NoFiles st repo) (hfail : d ≠ .ok ∨ ∃ k, u = .fails k) :
    Untouched (syncOps st repo d u files etag modified) st repo ∧
    treeAt (run (syncOps st repo d u files etag modified) st) repo = content X := by
  have h := failed_no_recover st repo d u files etag modified (recover_nil_of_some st repo _ hr) hnf hfail
  exact ⟨h, by rw [h _ (run_mem_states _ _)]; exact treeAt_dir st repo X hr⟩

/-- **the next sync completes**, from *any* state of the repos directory — leftovers of interrupted or failed
runs in `.repo.update` / `.repo.old`, missing repository path, anything but regular files in the way: it ends
with the complete new tree in place and no staging directory left -/
theorem next_sync_completes (st : Store) (repo : Name) (files : List (Name × Content)) (etag modified : Option Content)
    (hnf : NoFiles st repo) :
    treeAt (run (syncOps st repo .ok .ok files etag modified) st) repo = content (extracted files) ∧
    run (syncOps st repo .ok .ok files etag modified) st (updOf repo) = none :=
  next_sync_completes_aux st repo files etag modified hnf

/-- **after an interruption in the gap the old tree comes back first**: when the repository path is missing
and `.repo.old` holds a tree, the first operation of the next sync — whatever its outcome — restores that
tree, and if that sync then fails the restored tree stays -/
theorem interrupted_sync_recovers (s : Store) (repo : Name) (p : Name × Content) (fs : List (Name × Content))
    (hr : s repo = none) (ho : s (oldOf repo) = some (.dir (p :: fs))) (hu : ∀ c, s (updOf repo) ≠ some (.file c))
    (d : Download) (u : Unpack) (files : List (Name × Content)) (etag modified : Option Content) :
    (∃ rest, syncOps s repo d u files etag modified = .rename (oldOf repo) repo :: rest) ∧
    treeAt (step s (.rename (oldOf repo) repo)) repo = content (p :: fs) ∧
    ((d ≠ .ok ∨ ∃ k, u = .fails k) →
      treeAt (run (syncOps s repo d u files etag modified) s) repo = content (p :: fs)) := by
  obtain ⟨h1, h2, h3, h4⟩ := recover_aux s repo p fs hr ho hu d u files etag modified
  refine ⟨⟨_, h2⟩, h1, fun hfail => ?_⟩
  rw [h2, run_cons]
  have := failed_no_recover _ repo d u files etag modified h3 h4 hfail
  rw [this _ (run_mem_states _ _)]
  exact h1

/-- the tree that becomes visible is exactly the tarball's file list (distinct paths, no bookkeeping names) -/
theorem new_tree_is_the_tarball (files : List (Name × Content)) (hd : (files.map (·.1)).Nodup)
    (hb : ∀ p ∈ files, p.1 ∉ bookkeeping) : content (extracted files) = files := by
  rw [extracted_of_nodup files hd]
  unfold content
  rw [List.filter_eq_self]
  intro p hp
  simpa using hb p hp

/-! concrete instances -/

def exRepos : Store := fun n =>
  if n = ['r'] then some (.dir [(['a'], ['1']), (bookkeeping[0], ['e'])])
  else if n = oldOf ['r'] then some (.dir [(['z'], ['0'])])          -- leftover of an earlier run
  else none

example : NoFiles exRepos ['r'] := by
  refine ⟨?_, ?_, ?_⟩ <;> intro c h <;> simp [exRepos, updOf, oldOf] at h

example : treeAt (run (syncOps exRepos ['r'] .ok .ok [(['a'], ['2']), (['b'], ['3'])] (some ['E']) none) exRepos) ['r']
    = [(['a'], ['2']), (['b'], ['3'])] := by decide

theorem sync_gap_counterexample :
    let ops := syncOps exRepos ['r'] .ok .ok [(['a'], ['2'])] none none
    (run (ops.take 7) exRepos) ['r'] = none ∧ treeAt exRepos ['r'] = [(['a'], ['1'])] ∧
    treeAt (run ops exRepos) ['r'] = [(['a'], ['2'])] := by decide

/-- before the `fix:` commit a leftover staging directory made the sync stop at `os.makedirs`: the tree stays
the old one although the download and the tarball were fine; the repaired routine installs the new tree -/
theorem unfixed_sync_stuck_counterexample :
    treeAt (run (syncUnfixed exRepos ['r'] [(['a'], ['2'])]) exRepos) ['r'] = [(['a'], ['1'])] ∧
    treeAt (run (syncOps exRepos ['r'] .ok .ok [(['a'], ['2'])] none none) exRepos) ['r'] = [(['a'], ['2'])] := by decide

end Pkgcore.C47
