import Pkgcore.Proofs.C13
/-!
# C13 — package visibility follows mask, keyword and license configuration

Property theorems only (helper lemmas: `Pkgcore/Proofs/C13.lean`).  `visible` mirrors `domain.filter_repo` +
`generate_filter` + the keywords and license filters of `_pkg_filters` (pkgcore/ebuild/domain.py, misc.py) for one package
(restriction matching is a parameter); `Spec.Visible` is the property sentence.
-/
namespace Pkgcore.C13
open Pkgcore.C13.Spec

/-- **mask stacking is "last writer wins"**: after repository masks, every profile node's removals and additions and
`package.mask`, an atom masks iff the last step mentioning it added it (any number of steps and atoms). -/
theorem masks_last_writer (ops : List MaskOp) (a : Str) :
    a ∈ applyOps ops [] ↔ inEffect ops a false = true := by
  simpa using mem_applyOps ops [] a

/-- **not masked, net of unmasks** -/
theorem maskOk_eq_spec (m : Str → Bool) (maskOps unmaskOps : List MaskOp) :
    maskOk m maskOps unmaskOps = true ↔ MaskVisible m maskOps unmaskOps := by
  unfold maskOk MaskVisible
  rw [Bool.or_eq_true, Bool.not_eq_true', any_applyOps m unmaskOps]
  refine or_congr ?_ Iff.rfl
  rw [← any_applyOps m maskOps]
  cases (applyOps maskOps []).any m <;> simp

example :
    let ops : List MaskOp := [⟨[], ["cat/a".toList, "cat/b".toList]⟩, ⟨["cat/a".toList], ["cat/c".toList]⟩, ⟨[], ["=cat/a-2".toList]⟩]
    inEffect ops "cat/a".toList false = false ∧ inEffect ops "cat/b".toList false = true ∧
    inEffect ops "=cat/a-2".toList false = true ∧ applyOps ops [] = ["cat/b".toList, "cat/c".toList, "=cat/a-2".toList] := by
  decide

/-- **the accepted keyword set**: on either branch (stable: incremental collapse with empty entry ⇒ `~ARCH`; unstable: plain
union) the set `_apply_keywords_filter` consults is `ARCH ∪ ACCEPT_KEYWORDS ∪` the keywords of all matching entries, for
any number of entries of any kind. -/
theorem allowed_eq_spec (c : KwConfig) (h : KwPlain c) (x : Str) :
    (x ∈ (if !((defaultKeys c.arch c.accept).contains ('~' :: c.arch))
          then allowedStable (defaultKeys c.arch c.accept)
                 (effective (!((defaultKeys c.arch c.accept).contains ('~' :: c.arch))) ('~' :: c.arch) c.entries)
          else allowedUnstable (defaultKeys c.arch c.accept)
                 (effective (!((defaultKeys c.arch c.accept).contains ('~' :: c.arch))) ('~' :: c.arch) c.entries)))
      ↔ Allowed c x :=
  mem_allowed c h x

/-- **some keyword is accepted** (`**` anything, `*` any stable keyword, `~*` any testing keyword) -/
theorem kwOk_eq_spec (c : KwConfig) (h : KwPlain c) (kws : List Str) :
    kwOk c kws = true ↔ KwVisible c kws := by
  unfold kwOk
  simp only []
  by_cases hs : (c.entries.isEmpty && !c.profileKeywords && !(wildcards.any (defaultKeys c.arch c.accept).contains)) = true
  · -- the containment shortcut: no entries, no wildcard among the defaults
    simp only [hs, if_true]
    simp only [Bool.and_eq_true, Bool.not_eq_true', List.isEmpty_iff] at hs
    obtain ⟨⟨hent, _⟩, hw⟩ := hs
    have hall : ∀ k, Allowed c k ↔ k ∈ defaultKeys c.arch c.accept := by
      intro k; unfold Allowed; rw [hent]; simp
    have hnw : ∀ k ∈ wildcards, ¬ Allowed c k := by
      intro k hk hal
      have := (hall k).1 hal
      have hcon : wildcards.any (defaultKeys c.arch c.accept).contains = true :=
        List.any_eq_true.2 ⟨k, hk, by simpa using this⟩
      rw [hcon] at hw
      exact Bool.noConfusion hw
    unfold KwVisible
    rw [List.any_eq_true]
    constructor
    · rintro ⟨k, hk, hin⟩
      exact Or.inr (Or.inr (Or.inr ⟨k, hk, (hall k).2 (by simpa using hin)⟩))
    · rintro (h1 | ⟨h1, _⟩ | ⟨h1, _⟩ | ⟨k, hk, hal⟩)
      · exact absurd h1 (hnw _ (by simp [wildcards]))
      · exact absurd h1 (hnw _ (by simp [wildcards]))
      · exact absurd h1 (hnw _ (by simp [wildcards]))
      · exact ⟨k, hk, by simpa using (hall k).1 hal⟩
  · simp only [hs, Bool.false_eq_true, if_false]
    exact keywordsAccepted_iff _ (Allowed c) (mem_allowed c h) kws

/-- **"stable" is about `~ARCH` only, and there an empty entry means `~ARCH`**: whatever else `ACCEPT_KEYWORDS` accepts
(foreign stable or testing keywords, `*`, `~*`), as long as `~ARCH` is not among the default keys a package that carries `~ARCH`
and is matched by an entry without keywords passes the keywords filter. -/
theorem empty_entry_means_testing_arch (c : KwConfig) (h : KwPlain c) (kws : List Str)
    (hst : ('~' :: c.arch) ∉ defaultKeys c.arch c.accept)
    (e : KwEntry) (he : e ∈ c.entries) (hhit : e.hit = true) (hemp : e.tokens = [])
    (hk : ('~' :: c.arch) ∈ kws) : kwOk c kws = true := by
  rw [kwOk_eq_spec c h]
  exact Or.inr (Or.inr (Or.inr ⟨_, hk, Or.inr ⟨e, he, hhit, Or.inr ⟨hemp, hst, rfl⟩⟩⟩))

/-- ... and only there: when `~ARCH` is already accepted the accepted set is the default keys plus the tokens written in the
matching entries; an entry without keywords contributes nothing. -/
theorem empty_entry_means_nothing_when_unstable (c : KwConfig) (hun : ('~' :: c.arch) ∈ defaultKeys c.arch c.accept) (k : Str) :
    Allowed c k ↔ (k ∈ defaultKeys c.arch c.accept ∨ ∃ e ∈ c.entries, e.hit = true ∧ k ∈ e.tokens) := by
  unfold Allowed Stable
  constructor
  · rintro (h1 | ⟨e, he, hh, (h2 | ⟨_, hns, _⟩)⟩)
    · exact Or.inl h1
    · exact Or.inr ⟨e, he, hh, h2⟩
    · exact absurd hun hns
  · rintro (h1 | ⟨e, he, hh, h2⟩)
    · exact Or.inl h1
    · exact Or.inr ⟨e, he, hh, Or.inl h2⟩

/-- hypotheses satisfiable, and the boundary itself: ACCEPT_KEYWORDS="amd64 ~x86" is a stable amd64 system (a bare entry lets a
`~amd64` package in, and nothing else), ACCEPT_KEYWORDS="amd64 ~amd64 ~x86" is not (the bare entry is void) -/
example :
    let e : KwEntry := ⟨.atom, true, true, []⟩
    let stableForeign : KwConfig := ⟨"amd64".toList, ["amd64".toList, "~x86".toList], [e], false⟩
    let unstable : KwConfig := ⟨"amd64".toList, ["amd64".toList, "~amd64".toList, "~x86".toList], [], false⟩
    ('~' :: stableForeign.arch) ∉ defaultKeys stableForeign.arch stableForeign.accept ∧
    kwOk stableForeign ["~amd64".toList] = true ∧ kwOk stableForeign ["~arm64".toList] = false ∧
    kwOk { stableForeign with entries := [] } ["~amd64".toList] = false ∧
    ('~' :: unstable.arch) ∈ defaultKeys unstable.arch unstable.accept ∧
    kwOk { unstable with entries := [e] } ["~arm64".toList] = false := by
  decide

/-- **license acceptance is pointwise**: for a license of the alternative under test, being in the set built by
`incremental_expansion_license` (with `@group`, `-@group`, `*`, `-*`) is decided by the last token that concerns it. -/
theorem license_accept_pointwise (groups : Str → List Str) (andPair : List Str) (l : Str) (hl : l ∈ andPair)
    (toks : List Str) :
    l ∈ licExpand groups andPair toks [] ↔ accepts groups toks l false = true := by
  simpa using mem_licExpand groups andPair l hl toks []

/-- **alternatives = the LICENSE expression**: some `dnf_solutions()` alternative consists of accepted licenses only iff
the and/or expression is satisfied by the accepted licenses (expressions of any depth). -/
theorem license_dnf_to_formula (acc : Str → Bool) (t : LTree) :
    (∃ alt ∈ t.dnf, ∀ l ∈ alt, acc l = true) ↔ eval acc t = true :=
  dnf_eval acc t

/-- **some LICENSE alternative is fully accepted** -/
theorem licOk_eq_spec (groups : Str → List Str) (c : LicConfig) (t : LTree) :
    licOk groups c t = true ↔ LicVisible groups c t := by
  unfold licOk LicVisible
  by_cases hcfg : (c.master.isEmpty && c.entries.isEmpty) = true
  · simp only [hcfg, if_true, true_iff]
    simp only [Bool.and_eq_true, List.isEmpty_iff] at hcfg
    exact Or.inl hcfg
  · simp only [hcfg, Bool.false_eq_true, if_false]
    have hne : ¬ (c.master = [] ∧ c.entries = []) := by
      simpa [Bool.and_eq_true, List.isEmpty_iff] using hcfg
    rw [← dnf_eval]
    simp only [hne, false_or, List.any_eq_true, List.all_eq_true, Sat]
    constructor
    · rintro ⟨alt, halt, hall⟩
      refine ⟨alt, halt, fun l hl => ?_⟩
      have := (mem_licExpand groups alt l hl (c.master ++ (c.entries.filter (·.1)).flatMap (·.2)) []).1 (by simpa using hall l hl)
      simpa using this
    · rintro ⟨alt, halt, hall⟩
      refine ⟨alt, halt, fun l hl => ?_⟩
      have := (mem_licExpand groups alt l hl (c.master ++ (c.entries.filter (·.1)).flatMap (·.2)) []).2 (by simpa using hall l hl)
      simpa using this

example :
    let groups : Str → List Str := fun g => if g = "FREE".toList then ["GPL-2".toList, "MIT".toList] else []
    let c : LicConfig := ⟨["-*".toList, "@FREE".toList], [(true, ["EULA".toList, "-MIT".toList]), (false, ["*".toList])]⟩
    licOk groups c (.any [.lic "MIT".toList, .all [.lic "EULA".toList, .lic "GPL-2".toList]]) = true ∧
    licOk groups c (.all [.lic "MIT".toList, .lic "GPL-2".toList]) = false ∧
    licOk groups ⟨[], []⟩ (.lic "ANY".toList) = true := by
  decide

/-- **Visibility = masks ∧ keywords ∧ licenses**, for every configuration without negated keyword tokens: the package
passes the filters built by `filter_repo` iff it is not masked (net of unmasks), one of its keywords is accepted, and its
LICENSE expression is satisfied by the accepted licenses. -/
theorem visible_eq_spec (groups : Str → List Str) (c : Config) (p : Pkg) (h : KwPlain c.kw) :
    visible groups c p = true ↔ Visible groups c p := by
  unfold visible Visible
  rw [Bool.and_eq_true, Bool.and_eq_true, maskOk_eq_spec, kwOk_eq_spec c.kw h, licOk_eq_spec]
  exact and_assoc

/-- non-vacuity: a stable system with a wildcard default, an empty entry and entries of several kinds is `KwPlain` -/
example : KwPlain ⟨"amd64".toList, ["amd64".toList, "~*".toList],
    [⟨.always, false, true, []⟩, ⟨.atom, true, true, ["~x86".toList]⟩, ⟨.cat, false, false, ["**".toList]⟩], false⟩ := by
  refine ⟨by decide, ?_, ?_⟩
  · intro k hk
    simp at hk
    rcases hk with rfl | rfl <;> decide
  · intro e he
    simp at he
    rcases he with rfl | rfl | rfl <;> refine ⟨?_, by decide, by decide⟩ <;> intro t ht <;> simp at ht <;> (try subst ht) <;> decide

end Pkgcore.C13
