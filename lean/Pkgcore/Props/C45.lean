import Pkgcore.Proofs.C45
/-!
# C45 — security advisories flag exactly the vulnerable installed versions

Property theorems only (helper lemmas in `Pkgcore/Proofs/C45.lean`).  `entryMatch` mirrors what
`GlsaDirSet.__iter__` yields for one `<package>` node (`generate_intersects_from_pkg_node`,
`generate_restrict_from_range`); `Spec.affected` is the reference evaluator of the GLSA format.

Open finding `C45-glob-string-prefix`: the code reads `eq V*` as a *string* prefix; the property demands a
version-component prefix.  The existing test-suite pins the string reading, so the full-strength theorem is false
of the model; it is proved under the guard `¬ LoosePrefix` and refuted on a witness.
-/
namespace Pkgcore.C45
open Spec

/-- **the entry as evaluated by the code is the GLSA reference evaluator with `eq V*` read as a string prefix** —
for every package entry whose operators are GLSA operators and every package: same decision whether anything is
reported at all (no vulnerable range, malformed range, unparsable name ⇒ nothing), and the same verdict: name, at
least one vulnerable range (version relation in PMS order, r-forms on revisions of the same version, slot), one of
the named arches, and no unaffected range. -/
theorem affected_eq_loose_spec (n : PkgNode) (hs : StdOps n) (p : Pkg) : entryMatch n p = affected true n p :=
  entry_eq_loose n hs p

/-- **one range, component-prefix reading** (partial: outside the input class of the finding) -/
theorem range_eq_spec_partial (r : RangeNode) (hv : rangeValid r = true) (neg : Bool) (p : Pkg)
    (hguard : ¬ LoosePrefix r p) :
    ∃ rr, restrictFromRange r neg = .ok rr ∧ rr.eval p = (rangeHolds false r p != neg) := by
  obtain ⟨rr, h1, _, h3⟩ := range_ok r hv neg
  exact ⟨rr, h1, by rw [h3 p, rangeHolds_strict r p hguard]⟩

/- full statement (false of the model, see `affected_eq_spec_counterexample`):
   theorem affected_eq_spec (n : PkgNode) (hs : StdOps n) (p : Pkg) : entryMatch n p = affected false n p -/

/-- **the property, partial**: a package is reported as affected exactly when the GLSA format says so, provided no
`eq V*` range of the entry has a base that is a string prefix of the package's version ending inside a component. -/
theorem affected_eq_spec_partial (n : PkgNode) (hs : StdOps n) (p : Pkg)
    (hguard : ∀ r ∈ n.vulnerable ++ n.unaffected, ¬ LoosePrefix r p) :
    entryMatch n p = affected false n p := by
  rw [entry_eq_loose n hs p, affected_strict n p hguard]

def exVer (cs : List String) : C01.Ver := ⟨cs.map String.toList, none, []⟩
def exRange (op text : String) (glob : Bool) (v : C01.Ver) (rev : String) : RangeNode :=
  ⟨op.toList, [], some ⟨glob, some (text.toList, v, rev.toList)⟩⟩
def exPkg (fullver : String) (v : C01.Ver) (rev : String) : Pkg :=
  ⟨"app-misc/foo".toList, fullver.toList, v, rev.toList, "0".toList, []⟩
def exEntry : PkgNode :=
  ⟨"app-misc/foo".toList, true, none, [exRange "eq" "1.2" true (exVer ["1", "2"]) ""], []⟩

/-- the hypotheses are satisfiable by a non-trivial range: `eq 1.2*` against an installed `1.2.3` -/
example : StdOp (exRange "eq" "1.2" true (exVer ["1", "2"]) "") ∧
    ¬ LoosePrefix (exRange "eq" "1.2" true (exVer ["1", "2"]) "") (exPkg "1.2.3" (exVer ["1", "2", "3"]) "") := by
  constructor
  · intro h; revert h; decide
  · rintro ⟨fv, v, rev, h1, _, h3⟩
    unfold exRange at h1
    cases h1
    revert h3; decide

/-- **the full statement fails**: `<vulnerable range="eq">1.2*</vulnerable>` flags an installed 1.20 in the model of
the code; the reference evaluator does not. -/
theorem affected_eq_spec_counterexample :
    entryMatch exEntry (exPkg "1.20" (exVer ["1", "20"]) "") = some true ∧
    affected false exEntry (exPkg "1.20" (exVer ["1", "20"]) "") = some false := by
  constructor <;> decide

/-- **a malformed range skips the whole entry**: unknown operator, missing or invalid version, `*` with an
operator other than `eq`, or `rlt` of revision 0 in any vulnerable or unaffected node ⇒ nothing is reported. -/
theorem malformed_range_skips_entry (n : PkgNode) (hs : StdOps n) (r : RangeNode)
    (hr : r ∈ n.vulnerable ++ n.unaffected) (hbad : rangeValid r = false) (p : Pkg) : entryMatch n p = none := by
  rw [entry_eq_loose n hs p]
  unfold affected
  by_cases he : n.vulnerable.isEmpty = true
  · simp [he]
  · have hall : (n.vulnerable.all rangeValid && n.unaffected.all rangeValid) = false := by
      rw [List.mem_append] at hr
      rcases hr with hr | hr
      · have : n.vulnerable.all rangeValid = false := by
          rw [List.all_eq_false]; exact ⟨r, hr, by simp [hbad]⟩
        simp [this]
      · have : n.unaffected.all rangeValid = false := by
          rw [List.all_eq_false]; exact ⟨r, hr, by simp [hbad]⟩
        simp [this]
    simp [he, hall]

example : rangeValid (exRange "rlt" "1.0" false (exVer ["1", "0"]) "") = false ∧
    rangeValid (exRange "gt" "1" true (exVer ["1"]) "") = false ∧
    rangeValid ⟨"foo".toList, [], none⟩ = false := by decide

/-- the generated `op_translate` table is the GLSA one, and every GLSA operator is translated as the model assumes -/
theorem op_table :
    Generated.C45.opTranslate = [("ge", ">="), ("gt", ">"), ("lt", "<"), ("le", "<="), ("eq", "=")] ∧
    ∀ r c, ¬ (r = true ∧ c = Cmp.eq) → opTranslate (lstripR (opName r c)) = some (sym c) ∧ parseOp (opName r c) = some (r, c) := by
  refine ⟨by decide, ?_⟩
  intro r c h
  cases r <;> cases c <;> first | (constructor <;> decide) | exact absurd ⟨rfl, rfl⟩ h

/-- **a directory of advisories is judged advisory by advisory**: for any number of advisory files read by one
`GlsaDirSet`, the verdicts on a package are — in order, one per reported entry — those of the reference evaluator on
each entry taken on its own; in particular the verdict of an entry does not depend on which other advisories the
directory holds, on their order, or on what was evaluated before (the same version text may occur as an exact range in
one advisory and as a glob in the next, with or without slot, as vulnerable and as unaffected range). -/
theorem directory_eq_loose_spec (files : List (List PkgNode)) (hs : ∀ nodes ∈ files, ∀ n ∈ nodes, StdOps n) (p : Pkg) :
    dirMatch files p = files.flatMap (fun nodes => nodes.filterMap (fun n => affected true n p)) ∧
    ∀ before after nodes, files = before ++ nodes :: after →
      dirMatch files p = dirMatch before p ++ nodes.filterMap (fun n => affected true n p) ++ dirMatch after p := by
  have key : ∀ fs : List (List PkgNode), (∀ nodes ∈ fs, ∀ n ∈ nodes, StdOps n) →
      dirMatch fs p = fs.flatMap (fun nodes => nodes.filterMap (fun n => affected true n p)) := by
    intro fs h
    unfold dirMatch
    induction fs with
    | nil => rfl
    | cons nodes fs ih =>
      simp only [List.flatMap_cons]
      rw [ih (fun ns hns => h ns (by simp [hns]))]
      congr 1
      have hn : ∀ n ∈ nodes, StdOps n := fun n hnn => h nodes (by simp) n hnn
      clear ih h
      induction nodes with
      | nil => rfl
      | cons n ns ihn =>
        simp only [List.filterMap_cons]
        rw [affected_eq_loose_spec n (hn n (by simp)) p, ihn (fun m hm => hn m (by simp [hm]))]
  refine ⟨key files hs, ?_⟩
  intro before after nodes hf
  subst hf
  have h1 : dirMatch (before ++ nodes :: after) p = dirMatch before p ++ dirMatch [nodes] p ++ dirMatch after p := by
    unfold dirMatch
    simp [List.flatMap_append, List.flatMap_cons]
  rw [h1]
  have h2 := key [nodes] (by
    intro ns hns n hn
    rw [List.mem_singleton] at hns
    subst hns
    exact hs ns (by simp) n hn)
  rw [h2]
  simp

end Pkgcore.C45
