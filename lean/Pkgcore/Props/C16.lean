import Pkgcore.Proofs.C16
/-!
# C16 — resolver choice policy

Property theorems only.  `upgradeStream` / `reuseStream` mirror the candidate streams the resolver walks for one atom
(`prefer_highest_version_strategy`, `prefer_reuse_strategy`: per-repository `sorted(reverse=True)`, `iter_sort` with
`highest_iter_sort`); `Before` / `UpgradeOrdered` are the policy stated with the PMS order of C01's specification.
Hypotheses: versions are well formed (`CandWF`, what `isvalid_version_re` accepts) and every repository is
homogeneous in `repo.livefs` (`RepoOk`).  Any number of repositories and candidates.

That the resolver *takes* the first candidate of the stream that resolves is not proved (the search is not modelled, see
C15); it is checked on the real resolver by the harness.
-/
namespace Pkgcore.C16
open List

def vv0 : Pkgcore.C01.Ver := ⟨[['1']], none, []⟩

/-- **The upgrade stream is the policy order**: it offers exactly the matching candidates, each version before every
lower one, and among equal versions the installed instance first. -/
theorem upgrade_stream_ordered (dbs : List Repo) (hw : ∀ r ∈ dbs, ∀ c ∈ r, CandWF c) (ho : ∀ r ∈ dbs, RepoOk r) :
    upgradeStream dbs ~ dbs.flatten ∧ UpgradeOrdered (upgradeStream dbs) := by
  have hp := preferLivefs_perm dbs
  obtain ⟨p, o⟩ := merged_spec (dbs := preferLivefs dbs) (fun r hr => hw r (hp.mem_iff.mp hr)) (fun r hr => ho r (hp.mem_iff.mp hr))
  exact ⟨p.trans hp.flatten, o⟩

/-- **Highest first, installed first among equals**: the first candidate offered has a maximal version, and if an installed
candidate has that version the first candidate is an installed one. -/
theorem highest_first (dbs : List Repo) (hw : ∀ r ∈ dbs, ∀ c ∈ r, CandWF c) (ho : ∀ r ∈ dbs, RepoOk r)
    (h : Cand) (rest : List Cand) (hs : upgradeStream dbs = h :: rest) :
    h ∈ dbs.flatten ∧ ∀ c ∈ dbs.flatten, pms c h ≠ .gt ∧ (pms c h = .eq → c.livefs = true → h.livefs = true) := by
  obtain ⟨p, o⟩ := upgrade_stream_ordered dbs hw ho
  rw [hs] at p o
  refine ⟨p.mem_iff.mp (by simp), ?_⟩
  intro c hc
  have hcw : CandWF c := by obtain ⟨r, hr, hcr⟩ := List.mem_flatten.mp hc; exact hw r hr c hcr
  have hhw : CandWF h := by
    obtain ⟨r, hr, hcr⟩ := List.mem_flatten.mp (p.mem_iff.mp (by simp : h ∈ h :: rest)); exact hw r hr h hcr
  rcases List.mem_cons.mp (p.mem_iff.mpr hc) with rfl | hcr
  · have : pms c c = .eq := by
      have := lawsPkg.swap c c hcw hcw
      rw [cmpPkg_eq_pms] at this
      cases hq : pms c c <;> rw [hq] at this <;> simp [Ordering.swap] at this ⊢
    exact ⟨by rw [this]; decide, fun _ hl => hl⟩
  · have hb : Before h c := (List.pairwise_cons.mp o).1 c hcr
    have hsw : pms c h = (pms h c).swap := by
      have := lawsPkg.swap c h hcw hhw
      rwa [cmpPkg_eq_pms, cmpPkg_eq_pms] at this
    rcases hb with hgt | ⟨heq, hl⟩
    · rw [hsw, hgt]; exact ⟨by decide, fun h' => by cases h'⟩
    · rw [hsw, heq]; exact ⟨by decide, fun _ => hl⟩

/-- **Reuse first**: the minimal-install stream offers every installed candidate before any other one (each group in
policy order), and offers exactly the matching candidates. -/
theorem reuse_first (dbs : List Repo) (hw : ∀ r ∈ dbs, ∀ c ∈ r, CandWF c) (ho : ∀ r ∈ dbs, RepoOk r) :
    ∃ inst other, reuseStream dbs = inst ++ other ∧ (∀ c ∈ inst, c.livefs = true) ∧ (∀ c ∈ other, c.livefs = false) ∧
      UpgradeOrdered inst ∧ UpgradeOrdered other ∧ inst ++ other ~ dbs.flatten := by
  have mem_f : ∀ (q : Repo → Bool) r, r ∈ dbs.filter q → r ∈ dbs := fun q r hr => (List.mem_filter.mp hr).1
  obtain ⟨p1, o1⟩ := merged_spec (dbs := dbs.filter isLivefs) (fun r hr => hw r (mem_f _ r hr)) (fun r hr => ho r (mem_f _ r hr))
  obtain ⟨p2, o2⟩ := merged_spec (dbs := dbs.filter fun r => !isLivefs r) (fun r hr => hw r (mem_f _ r hr)) (fun r hr => ho r (mem_f _ r hr))
  refine ⟨_, _, rfl, ?_, ?_, o1, o2, ?_⟩
  · intro c hc
    obtain ⟨r, hr, hcr⟩ := List.mem_flatten.mp (p1.mem_iff.mp hc)
    obtain ⟨hrd, hl⟩ := List.mem_filter.mp hr
    obtain ⟨y, hy, hyl⟩ := List.any_eq_true.mp hl
    rw [ho r hrd c hcr y hy]; exact hyl
  · intro c hc
    obtain ⟨r, hr, hcr⟩ := List.mem_flatten.mp (p2.mem_iff.mp hc)
    obtain ⟨_, hl⟩ := List.mem_filter.mp hr
    cases hcl : c.livefs with
    | false => rfl
    | true =>
      have : isLivefs r = true := List.any_eq_true.mpr ⟨c, hcr, hcl⟩
      simp [this] at hl
  · exact (p1.append p2).trans ((List.flatten_append ..).symm ▸ (preferLivefs_perm dbs).flatten)

/-- **Determinism w.r.t. listing order**: if no two distinct candidates tie (same version and same `livefs`), the stream
does not depend on the order in which repositories are given or list their packages — only on the set of candidates. -/
theorem stream_order_independent (dbs dbs' : List Repo) (hw : ∀ r ∈ dbs, ∀ c ∈ r, CandWF c) (ho : ∀ r ∈ dbs, RepoOk r)
    (hw' : ∀ r ∈ dbs', ∀ c ∈ r, CandWF c) (ho' : ∀ r ∈ dbs', RepoOk r) (same : dbs.flatten ~ dbs'.flatten)
    (strict : ∀ x ∈ dbs.flatten, ∀ y ∈ dbs.flatten, fHighest x y = .eq → x = y) :
    upgradeStream dbs = upgradeStream dbs' := by
  obtain ⟨p, o⟩ := upgrade_stream_ordered dbs hw ho
  obtain ⟨p', o'⟩ := upgrade_stream_ordered dbs' hw' ho'
  refine desc_unique lawsHighest (p.trans (same.trans p'.symm)) ?_ ?_ ((desc_iff_ordered _).mpr o) ((desc_iff_ordered _).mpr o')
  · intro x hx
    obtain ⟨r, hr, hxr⟩ := List.mem_flatten.mp (p.mem_iff.mp hx)
    exact hw r hr x hxr
  · intro x hx y hy
    exact strict x (p.mem_iff.mp hx) y (p.mem_iff.mp hy)

/-- **The resolver's memory of insoluble atoms is history independent**: after any sequence of lookups (any number of targets
resolved on one resolver, lookups limited to the installed repositories or not, in any order), an atom is remembered as
insoluble only if some lookup found that *no* repository offers a candidate for it — so pruning by `insoluble` never removes a
candidate that an earlier target merely failed to find among the installed packages. -/
theorem insoluble_sound (ls : List Lookup) (a : Nat) (h : a ∈ insolubleAfter ls) :
    ∃ l ∈ ls, l.atom = a ∧ l.cands = [] := by
  have gen : ∀ (ls : List Lookup) (ins : List Nat), a ∈ ls.foldl markInsoluble ins →
      a ∈ ins ∨ ∃ l ∈ ls, l.atom = a ∧ l.cands = [] := by
    intro ls
    induction ls with
    | nil => intro ins h; exact .inl h
    | cons l ls ih =>
      intro ins h
      simp only [List.foldl_cons] at h
      rcases ih _ h with h1 | ⟨l', hl', e⟩
      · unfold markInsoluble at h1
        by_cases hc : (!l.limited && (lookupMatches l).isEmpty) = true
        · rw [if_pos hc] at h1
          rcases List.mem_cons.mp h1 with rfl | h1
          · simp only [Bool.and_eq_true, Bool.not_eq_true', List.isEmpty_iff] at hc
            refine .inr ⟨l, by simp, rfl, ?_⟩
            have := hc.2
            simpa [lookupMatches, hc.1] using this
          · exact .inl h1
        · rw [if_neg hc] at h1; exact .inl h1
      · exact .inr ⟨l', List.mem_cons_of_mem _ hl', e⟩
  rcases gen ls [] h with h | h
  · cases h
  · exact h

/-- a lookup limited to the installed packages that finds nothing leaves no trace, an unlimited one without candidates does -/
example : insolubleAfter [⟨7, [⟨0, vv0, [], false⟩], true⟩, ⟨8, [], false⟩, ⟨7, [⟨0, vv0, [], false⟩], false⟩] = [8] := by decide

/-! non-vacuity: two source repos and the installed repo, with a tie between an installed and a source 1.10, `1.9 < 1.10` -/

def vv (cs : List String) : Pkgcore.C01.Ver := ⟨cs.map String.toList, none, []⟩
def exDbs : List Repo :=
  [ [⟨0, vv ["1", "9"], [], false⟩, ⟨1, vv ["1", "10"], [], false⟩],
    [⟨2, vv ["1", "10"], [], true⟩, ⟨3, vv ["1", "2"], ['1'], true⟩],
    [⟨4, vv ["2"], [], false⟩] ]

example : (upgradeStream exDbs).map (·.id) = [4, 2, 1, 0, 3] := by decide
example : (reuseStream exDbs).map (·.id) = [2, 3, 4, 1, 0] := by decide
instance (r : Repo) : Decidable (RepoOk r) := by unfold RepoOk; infer_instance
example : ∀ r ∈ exDbs, RepoOk r := by decide

end Pkgcore.C16
