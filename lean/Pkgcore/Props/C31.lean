import Pkgcore.Proofs.C31
/-!
# C31 — the environment handed to the build daemon arrives exactly

Property theorems only (helper lemmas: `Pkgcore/Proofs/C31.lean`).  Python side = `_quote_value`,
`_generate_env_str`, `_byte_len`, `send_env`, `_run_depend_like_phase` as fixed; bash side = the evaluator and
the daemon's receive steps of `Pkgcore/Model/C31.lean`; values reach bash as UTF-8 bytes.
-/
namespace Pkgcore.C31
open Pkgcore.C31.Spec

/-- **quote_roundtrip** — for every text `v` without NUL (quotes, backslashes, `$`, backquotes, newlines,
control and non-ASCII characters included) the bytes of `_quote_value(v)`, followed by anything that ends a
word, are read by bash as one word whose value is exactly the bytes of `v`. -/
theorem quote_roundtrip (v : Str) (h0 : NoNul v) (rest : Str) (hr : WordEnd rest) :
    word (utf8 (quoteValue v) ++ rest) = some (utf8 v, rest) :=
  word_quoteValue v h0 rest hr

example : NoNul "it's a \\n `x` $y \"q\"\n\tß€😀\x01\x7f".toList ∧ WordEnd " B=1".toList :=
  ⟨by unfold NoNul; decide, Or.inr ⟨' ', "B=1".toList, rfl, rfl⟩⟩

/-- the same for an array element (`"v"` for alphanumerics, the scalar forms otherwise) -/
theorem quote_elem_roundtrip (v : Str) (h0 : NoNul v) (rest : Str) (hr : WordEnd rest) :
    word (utf8 (quoteElem v) ++ rest) = some (utf8 v, rest) :=
  word_quoteElem v h0 rest hr

/-- **env_text_evaluates** — for every mapping in the property's domain `_generate_env_str` succeeds and bash
evaluates its bytes to exactly the intended assignments: the non-exported names first (plain assignments),
then the others under `export`, each with the bytes of its value (arrays element by element). -/
theorem env_text_evaluates (ro : List Str) (env : List (Str × Val)) (hok : EnvOk env) :
    ∃ text nonexp, nonexportedOf env = .ok nonexp ∧ genEnvStr ro env = .ok text ∧
      evalScript (utf8 text) = some (executed ro env nonexp) := by
  obtain ⟨nonexp, hn, _⟩ := nonexportedOf_ok hok.marker_str
  obtain ⟨text, h1, h2⟩ := evalScript_genEnvStr ro env hok nonexp hn
  exact ⟨text, nonexp, hn, h1, h2⟩

/-- a concrete mapping in the domain (used by the non-vacuity examples) -/
def sampleEnv : List (Str × Val) :=
  [("VT_b".toList, .scalar "it's a \\n backslash-n".toList), ("A1".toList, .scalar "abc".toList),
   ("_arr".toList, .array ["x".toList, "c\"d $HOME `id`".toList, [], "é'\\".toList]),
   (marker, .scalar "A1 other".toList)]

theorem sampleEnv_ok : EnvOk sampleEnv := by
  refine ⟨?_, by decide, ?_, ?_⟩
  rotate_left 2
  · intro vs h
    have : sampleEnv.lookup marker = some (.scalar "A1 other".toList) := by decide
    rw [this] at h
    exact absurd h (by simp)
  · intro kv hkv
    simp only [sampleEnv, List.mem_cons, List.not_mem_nil, or_false] at hkv
    rcases hkv with rfl | rfl | rfl | rfl
    all_goals exact ⟨⟨_, _, rfl, by decide⟩, by decide⟩
  · intro kv hkv
    simp only [sampleEnv, List.mem_cons, List.not_mem_nil, or_false] at hkv
    rcases hkv with rfl | rfl | rfl | rfl
    all_goals simp only [ValOk, NoNul]
    all_goals decide

/-- **env_arrives_exactly** — evaluating the generated text in a daemon whose shell does not already export
the transferred names leaves every wanted variable with exactly its value (as bytes), exported unless marked
non-exported, and changes nothing else (the marker itself and readonly names are not set). -/
theorem env_arrives_exactly (ro : List Str) (env : List (Str × Val)) (hok : EnvOk env)
    (st0 : Store) (hfresh : Fresh ro env st0) :
    ∃ text asg, genEnvStr ro env = .ok text ∧ evalScript (utf8 text) = some asg ∧
      Arrives ro env st0 (st0.run asg) := by
  obtain ⟨nonexp, hn, _⟩ := nonexportedOf_ok hok.marker_str
  obtain ⟨text, h1, h2⟩ := evalScript_genEnvStr ro env hok nonexp hn
  exact ⟨text, _, h1, h2, arrives_executed ro env hok nonexp hn st0 hfresh⟩

example : EnvOk sampleEnv ∧ Fresh ["UID".toList] sampleEnv (fun _ => none) :=
  ⟨sampleEnv_ok, fun _ _ h => by simp at h⟩

/-- **env_arrives_from_inside_a_function** — the daemon evaluates the text inside one of its functions
(`__ebd_process_ebuild_phases`, `__ebd_process_metadata`); bash assigns to the nearest dynamic scope that has the
name.  Provided no transferred name is a local of the receiving frame (`frame`: the daemon keeps the names it uses
there — `line`, `cont`, `phases`, `is_depends`, `__data`, `__ret`, … — in its blacklist `PKGCORE_BLACKLIST_VARS`, i.e.
outside the property's domain), the transfer arrives exactly as in `env_arrives_exactly`. -/
theorem env_arrives_from_inside_a_function (frame ro : List Str) (env : List (Str × Val)) (hok : EnvOk env)
    (hframe : ∀ kv ∈ env, kv.1 ∉ frame) (st0 : Store) (hfresh : Fresh ro env st0) :
    ∃ text asg, genEnvStr ro env = .ok text ∧ evalScript (utf8 text) = some asg ∧
      Arrives ro env st0 (st0.runIn frame asg) := by
  obtain ⟨nonexp, hn, _⟩ := nonexportedOf_ok hok.marker_str
  obtain ⟨text, h1, h2⟩ := evalScript_genEnvStr ro env hok nonexp hn
  refine ⟨text, _, h1, h2, ?_⟩
  rw [runIn_eq_run]
  · exact arrives_executed ro env hok nonexp hn st0 hfresh
  · intro a ha
    obtain ⟨kv, hkv, hk⟩ := executed_keys ha
    rw [hk]
    exact hframe kv hkv

example : ∀ kv ∈ sampleEnv, kv.1 ∉ ["line".toList, "cont".toList, "__data".toList] := by decide

/-- the hypothesis is needed: a transferred variable whose name is a local of the receiving frame (here an ordinary
name, `data`) ends up in that local and is unset in the daemon's shell afterwards, while its neighbours arrive -/
theorem receiving_frame_counterexample :
    let st := Store.runIn ["size".toList, "data".toList] (fun _ => none)
      [⟨"data".toList, .scalar "v".toList, true⟩, ⟨"VT_a".toList, .scalar "w".toList, true⟩]
    st "data".toList = none ∧ st "VT_a".toList = some ⟨.scalar "w".toList, true⟩ := by
  simp [Store.runIn, Store.run, Store.assign]

/-- **framing_length_correct** — for *every* text (any characters) and whatever follows in the pipe, the count
announced by `send_env` is exactly what `read -N` consumes: the daemon obtains the bytes of the text and the
pipe is left at the first byte after it. -/
theorem framing_length_correct (fs : Str → Option Str) (data rest : Str) :
    recvEnv fs (sendEnvInline data ++ rest) = some (utf8 data, rest) := by
  rw [sendEnvInline_bytes, List.append_assoc, List.cons_append, recvEnv_header, readSize_exact]

/-- the same for `gen_metadata N` / `gen_ebuild_env N` (`_run_depend_like_phase`) -/
theorem framing_depend_correct (cmd : Str) (hc : cmd = "gen_metadata".toList ∨ cmd = "gen_ebuild_env".toList)
    (data rest : Str) :
    recvDepend (sendDepend cmd data ++ rest) = some (cmd, utf8 data, rest) := by
  have hasc : ∀ c ∈ cmd, c.toNat < 128 := by rcases hc with rfl | rfl <;> decide
  rw [sendDepend_bytes cmd data hasc]
  have : cmd ++ ' ' :: digits (utf8 data).length ++ '\n' :: utf8 data ++ rest
      = cmd ++ ' ' :: digits (utf8 data).length ++ '\n' :: (utf8 data ++ rest) := by simp
  rw [this, recvDepend_header cmd hc, readSize_exact]
  rfl

/-- file mode: the daemon sources exactly the file Python named, and the pipe is left right after the line -/
theorem file_transfer_correct (fs : Str → Option Str) (path rest : Str) (hp : PathOk (utf8 path)) :
    recvEnv fs (sendEnvFile path ++ rest) = (fs (utf8 path)).map fun t => (t, rest) := by
  rw [sendEnvFile_bytes, List.append_assoc, List.singleton_append, recvEnv_file fs _ hp]

example : PathOk (utf8 "/var/tmp/portage/cät/pkg-1/temp/ebd-env-transfer".toList) := by
  refine ⟨by decide, by decide, by decide, by decide⟩

/-- **transfer_exact_and_synchronised (inline)** — `send_env(env)` without tmpdir: the daemon ends up with
exactly the wanted variables *and* the command pipe is left exactly at what Python writes next (`rest`), so
the next request is read in full and from its first byte. -/
theorem transfer_inline_exact (ro : List Str) (env : List (Str × Val)) (hok : EnvOk env)
    (st0 : Store) (hfresh : Fresh ro env st0) (fs : Str → Option Str) (rest : Str) :
    ∃ text st', genEnvStr ro env = .ok text ∧
      daemonReceive fs st0 (sendEnvInline text ++ rest) = some (st', rest) ∧ Arrives ro env st0 st' := by
  obtain ⟨text, asg, h1, h2, h3⟩ := env_arrives_exactly ro env hok st0 hfresh
  refine ⟨text, _, h1, ?_, h3⟩
  simp only [daemonReceive, framing_length_correct, h2]

/-- **… (file)** — `send_env(env, tmpdir=…)`: the same, the text going through the transfer file -/
theorem transfer_file_exact (ro : List Str) (env : List (Str × Val)) (hok : EnvOk env)
    (st0 : Store) (hfresh : Fresh ro env st0) (path rest : Str) (hp : PathOk (utf8 path)) :
    ∃ text st', genEnvStr ro env = .ok text ∧
      (∀ fs : Str → Option Str, fs (utf8 path) = some (utf8 text) →
        daemonReceive fs st0 (sendEnvFile path ++ rest) = some (st', rest)) ∧ Arrives ro env st0 st' := by
  obtain ⟨text, asg, h1, h2, h3⟩ := env_arrives_exactly ro env hok st0 hfresh
  refine ⟨text, _, h1, ?_, h3⟩
  intro fs hfs
  simp only [daemonReceive, file_transfer_correct fs path rest hp, hfs, Option.map_some, h2]

/-- **… (depend-like phases)** — `gen_metadata` / `gen_ebuild_env` -/
theorem transfer_depend_exact (ro : List Str) (env : List (Str × Val)) (hok : EnvOk env)
    (st0 : Store) (hfresh : Fresh ro env st0) (cmd : Str)
    (hc : cmd = "gen_metadata".toList ∨ cmd = "gen_ebuild_env".toList) (rest : Str) :
    ∃ text st', genEnvStr ro env = .ok text ∧
      daemonReceiveDepend st0 (sendDepend cmd text ++ rest) = some (cmd, st', rest) ∧ Arrives ro env st0 st' := by
  obtain ⟨text, asg, h1, h2, h3⟩ := env_arrives_exactly ro env hok st0 hfresh
  refine ⟨text, _, h1, ?_, h3⟩
  simp only [daemonReceiveDepend, framing_depend_correct cmd hc, h2]

/-! ## one mapping object handed over many times (`ebd.py` passes `self.env` to `run_phase` for every phase) -/

/-- **handover_leaves_callers_mapping** — `_generate_env_str` works on its own copy (`env_dict = dict(env_dict)`): after
the call every object that existed before it — in particular the caller's mapping at `a`, marker entry included — has
exactly the entries it had, and the text is the one `genEnvStr` gives for those entries. -/
theorem handover_leaves_callers_mapping (ro : List Str) (h : Heap) (a : Nat) :
    (genEnvStrCall true ro h a).1 = genEnvStr ro (h.get a) ∧
    ∀ b, b < h.length → (genEnvStrCall true ro h a).2.get b = h.get b :=
  ⟨(genEnvStrCall_copy ro h a).1, (genEnvStrCall_copy ro h a).2.2⟩

/-- **every_handover_of_a_build_arrives** — however many times the same mapping object is handed over, *every* one of
the texts sent (the first, and the k-th after k-1 earlier hand-overs) evaluates in a daemon that does not already export
the names to exactly the variables the mapping asks for, exported unless marked: the result of hand-over k does not
depend on the hand-overs before it. -/
theorem every_handover_of_a_build_arrives (ro : List Str) (h : Heap) (a : Nat) (ha : a < h.length)
    (hok : EnvOk (h.get a)) (n : Nat) (t : Except Err Str) (ht : t ∈ handovers true ro n h a)
    (st0 : Store) (hfresh : Fresh ro (h.get a) st0) :
    ∃ text asg, t = .ok text ∧ evalScript (utf8 text) = some asg ∧ Arrives ro (h.get a) st0 (st0.run asg) := by
  rw [handovers_copy ro n h a ha] at ht
  obtain ⟨text, asg, h1, h2, h3⟩ := env_arrives_exactly ro (h.get a) hok st0 hfresh
  exact ⟨text, asg, (List.eq_of_mem_replicate ht).trans h1, h2, h3⟩

example : (0 : Nat) < [sampleEnv].length ∧ EnvOk (Heap.get [sampleEnv] 0) ∧
    (handovers true ["UID".toList] 3 [sampleEnv] 0).length = 3 :=
  ⟨by decide, sampleEnv_ok, by simp [handovers]⟩

/-- the copy is needed: without `env_dict = dict(env_dict)` the pop removes the marker from the caller's own object; the
first hand-over of `{VT_a: "abc", PKGCORE_NONEXPORTED_VARS: "VT_a"}` is right, the second sends `export VT_a=abc`, which
bash evaluates to an *exported* `VT_a` although the mapping the caller built marks it non-exported -/
theorem handover_nocopy_counterexample :
    let env : Env := [("VT_a".toList, .scalar "abc".toList), (marker, .scalar "VT_a".toList)]
    (handovers false [] 2 [env] 0).map Except.toOption = [some "VT_a=abc".toList, some "export VT_a=abc".toList] ∧
    (handovers true [] 2 [env] 0).map Except.toOption = [some "VT_a=abc".toList, some "VT_a=abc".toList] ∧
    evalScript (utf8 "export VT_a=abc".toList) = some [⟨"VT_a".toList, .scalar "abc".toList, true⟩] ∧
    wanted [] env "VT_a".toList = some ⟨.scalar "abc".toList, false⟩ := by decide

/-! ## what was wrong before the `fix:` commits (witnesses, on the same bash model) -/

/-- pre-fix `$'…'` form: `it's \n` (backslash, n) is read back with a newline -/
theorem legacy_quote_counterexample :
    word (utf8 (quoteValueLegacy "it's \\n".toList)) = some ("it's \n".toList, []) ∧
    "it's \n".toList ≠ utf8 "it's \\n".toList := by decide

/-- pre-fix array element `"c"d"`: not even a complete word; `"$x"` would be expanded (outside the fragment) -/
theorem legacy_elem_counterexample :
    word (utf8 (quoteElemLegacy "c\"d".toList) ++ [')']) = none ∧
    word (utf8 (quoteElemLegacy "$x".toList) ++ [')']) = none := by decide

/-- pre-fix framing (`len(str)`): for `é` the daemon reads one byte of two; the second byte stays in the
pipe in front of the next command -/
theorem legacy_framing_counterexample :
    recvEnv (fun _ => none) (sendEnvInlineLegacy "é".toList ++ "alive\n".toList)
      = some ([Char.ofNat 0xC3], Char.ofNat 0xA9 :: "alive\n".toList) := by
  rw [sendEnvInlineLegacy_bytes, List.append_assoc, List.cons_append, recvEnv_header]
  decide

end Pkgcore.C31
