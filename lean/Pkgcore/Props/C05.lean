import Pkgcore.Spec.C05
