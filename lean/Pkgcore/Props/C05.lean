import Pkgcore.Proofs.C05
/-!
# C05 — `atom.intersects` is symmetric, complete and witnessed

Property theorems only (helpers: `Pkgcore/Proofs/C05.lean`).  `intersects` mirrors `atom.intersects`
(`Model/C05.lean`); "matches" is C04's PMS semantics `matchSpec`; `witness` is the explicit package of
`Spec/C05.lean`.
-/
namespace Pkgcore.C05
open Pkgcore.C01 Pkgcore.C01.Spec Pkgcore.C04 Pkgcore.C04.Spec Pkgcore.C05.Spec Std
open Pkgcore.C02 (Op Str)

theorem vcok_of_atomOk (a : Atom) (ha : AtomOk a) (c : VC) (h : a.vop = some c) : VCok c := by
  obtain ⟨o, v, r⟩ := c
  refine ⟨?_, ?_⟩
  · have := ha.1.1; rw [h] at this; exact this
  · intro e; simp only at e; subst e; exact ha.2.2 v r h

theorem optEq_pick_left (x y : Option Str) (h : bothDiffer x y = false) : optEq x (pick x y) = true := by
  cases x <;> cases y <;> simp_all [optEq, pick, bothDiffer]

theorem optEq_pick_right (x y : Option Str) (h : bothDiffer x y = false) : optEq y (pick x y) = true := by
  cases x <;> cases y <;> simp_all [optEq, pick, bothDiffer]

/-- the version clause of `matchSpec` -/
def verPart (a : Atom) (p : Pkg) : Bool :=
  match a.vop with
  | none => true
  | some c => opSpec c.1 c.2.1 c.2.2 p.ver p.rev

theorem matchSpec_eq (a : Atom) (p : Pkg) :
    matchSpec a p = (a.cat == p.cat && a.pkg == p.pkg && verPart a p && optEq a.slot p.slot &&
      optEq a.subslot p.subslot && optEq a.repo p.repo && (useList a).all (useHolds p)) := by
  unfold matchSpec verPart useList
  cases hv : a.vop with
  | none => cases a.use <;> rfl
  | some c => obtain ⟨o, v, r⟩ := c; cases a.use <;> rfl

/-- **witnessed**: whenever `intersects` answers `True`, the package `witness a b` — key of the atoms, a
version built from theirs (the version itself, with `_alpha` appended, or at the next revision), the slot /
sub-slot / repository either of them names, and the USE state read off the per-flag table — is a valid
package matched by both atoms. -/
theorem intersects_witness (a b : Atom) (ha : AtomOk a) (hb : AtomOk b) (h : intersects a b = true) :
    PkgOk (witness a b) ∧ matchSpec a (witness a b) = true ∧ matchSpec b (witness a b) = true := by
  unfold intersects at h
  by_cases k1 : (a.cat != b.cat || a.pkg != b.pkg) = true
  · simp [k1] at h
  by_cases k2 : bothDiffer a.slot b.slot = true
  · simp [k1, k2] at h
  by_cases k3 : bothDiffer a.subslot b.subslot = true
  · simp [k1, k2, k3] at h
  by_cases k4 : bothDiffer a.repo b.repo = true
  · simp [k1, k2, k3, k4] at h
  have k5 : useOk (useList a ++ useList b) = true := by
    cases hk : useOk (useList a ++ useList b)
    · simp [k1, k2, k3, k4, hk] at h
    · rfl
  simp only [k1, k2, k3, k4, k5, Bool.false_eq_true, if_false, Bool.not_true] at h
  simp only [Bool.not_eq_true] at k2 k3 k4
  have hcat : b.cat = a.cat ∧ b.pkg = a.pkg := by
    simp only [Bool.or_eq_true, bne_iff_ne, ne_eq, not_or, Decidable.not_not] at k1
    exact ⟨k1.1.symm, k1.2.symm⟩
  -- the version
  have hver : verPart a (witness a b) = true ∧ verPart b (witness a b) = true ∧ WF (witness a b).ver := by
    unfold verPart
    cases hx : a.vop with
    | none =>
      cases hy : b.vop with
      | none =>
        simp only [witness, hx, hy]
        refine ⟨trivial, trivial, by simp, ?_⟩
        intro c hc; simp at hc; subst hc; exact ⟨by simp, by decide⟩
      | some y =>
        have := ownWitness_sat y (vcok_of_atomOk b hb y hy)
        simp only [witness, hx, hy]
        exact ⟨trivial, this.1, this.2⟩
    | some x =>
      cases hy : b.vop with
      | none =>
        have := ownWitness_sat x (vcok_of_atomOk a ha x hx)
        simp only [witness, hx, hy]
        exact ⟨this.1, trivial, this.2⟩
      | some y =>
        rw [hx, hy] at h
        have := vInter_sound x y (vcok_of_atomOk a ha x hx) (vcok_of_atomOk b hb y hy) h
        simp only [witness, hx, hy]
        exact ⟨this.1, this.2.1, this.2.2⟩
  -- USE
  have huse := all_hold_of_useOk (useList a ++ useList b) (witness a b) rfl rfl k5
  rw [List.all_append, Bool.and_eq_true] at huse
  refine ⟨⟨hver.2.2, witness_use_valid _⟩, ?_, ?_⟩
  · rw [matchSpec_eq, huse.1, hver.1]
    simp only [witness, beq_self_eq_true, Bool.and_true, Bool.true_and, Bool.and_eq_true]
    exact ⟨⟨optEq_pick_left _ _ k2, optEq_pick_left _ _ k3⟩, optEq_pick_left _ _ k4⟩
  · rw [matchSpec_eq, huse.2, hver.2.1]
    simp only [witness, hcat.1, hcat.2, beq_self_eq_true, Bool.and_true, Bool.true_and, Bool.and_eq_true]
    exact ⟨⟨optEq_pick_right _ _ k2, optEq_pick_right _ _ k3⟩, optEq_pick_right _ _ k4⟩

example : AtomOk ⟨['a'], ['b'], some (.tilde, ⟨[['1'], ['0']], none, []⟩, []), false, false, false,
    some ['0'], none, none, none, some [⟨['x'], true, some true⟩]⟩ := by
  refine ⟨⟨⟨by simp, ?_⟩, fun h => by simp at h⟩, rfl, ?_⟩
  · intro c hc; simp at hc; rcases hc with rfl | rfl <;> exact ⟨by simp, by decide⟩
  · intro v r h; simp at h; rw [h.2]; rfl

theorem optEq_both (x y : Option Str) (s : Str) (h1 : optEq x s = true) (h2 : optEq y s = true) :
    bothDiffer x y = false := by
  cases x <;> cases y <;> simp_all [optEq, bothDiffer]

/-- **complete**: if any valid package (a version of any length, any revision, any IUSE and USE ⊆ IUSE)
is matched by both atoms, `intersects` answers `True`. -/
theorem intersects_complete (a b : Atom) (ha : AtomOk a) (hb : AtomOk b) (p : Pkg) (hp : PkgOk p)
    (ma : matchSpec a p = true) (mb : matchSpec b p = true) : intersects a b = true := by
  rw [matchSpec_eq] at ma mb
  simp only [Bool.and_eq_true, beq_iff_eq] at ma mb
  obtain ⟨⟨⟨⟨⟨⟨ac, ap⟩, av⟩, asl⟩, ass⟩, ar⟩, au⟩ := ma
  obtain ⟨⟨⟨⟨⟨⟨bc, bp⟩, bv⟩, bsl⟩, bss⟩, br⟩, bu⟩ := mb
  have k1 : (a.cat != b.cat || a.pkg != b.pkg) = false := by
    rw [ac, bc, ap, bp]; simp
  have k5 : useOk (useList a ++ useList b) = true := by
    apply useOk_of_all_hold _ p hp.2
    rw [List.all_append, au, bu]; rfl
  unfold intersects
  simp only [k1, optEq_both _ _ _ asl bsl, optEq_both _ _ _ ass bss, optEq_both _ _ _ ar br, k5,
    Bool.false_eq_true, if_false, Bool.not_true]
  cases hx : a.vop with
  | none => rfl
  | some x =>
    cases hy : b.vop with
    | none => rfl
    | some y =>
      simp only
      unfold verPart at av bv
      rw [hx] at av; rw [hy] at bv
      exact vInter_complete x y (vcok_of_atomOk a ha x hx) (vcok_of_atomOk b hb y hy) (p.ver, p.rev) hp.1 av bv

/-- **the answer is exactly "some valid package matches both"** -/
theorem intersects_iff (a b : Atom) (ha : AtomOk a) (hb : AtomOk b) : intersects a b = true ↔ Intersect a b := by
  constructor
  · intro h
    have := intersects_witness a b ha hb h
    exact ⟨witness a b, this.1, this.2.1, this.2.2⟩
  · rintro ⟨p, hp, m1, m2⟩
    exact intersects_complete a b ha hb p hp m1 m2

/-- **symmetric**: the answer does not depend on the argument order. -/
theorem intersects_symm (a b : Atom) (ha : AtomOk a) (hb : AtomOk b) : intersects a b = intersects b a := by
  rw [Bool.eq_iff_iff, intersects_iff a b ha hb, intersects_iff b a hb ha]
  constructor
  · rintro ⟨p, hp, m1, m2⟩; exact ⟨p, hp, m2, m1⟩
  · rintro ⟨p, hp, m1, m2⟩; exact ⟨p, hp, m2, m1⟩

/-- the USE-dep test of `intersects` is exact: the per-flag table leaves every flag a state iff some valid
package satisfies all the deps (defaults included: `[x(-)]`/`[-x(+)]` conflict, `[x(+)]`/`[-x]` do not) -/
theorem useOk_iff_satisfiable (deps : List UseDep) :
    useOk deps = true ↔ ∃ p : Pkg, (∀ f, p.use.contains f = true → p.iuse.contains f = true) ∧ deps.all (useHolds p) = true := by
  constructor
  · intro h
    let p : Pkg := ⟨[], [], ⟨[['0']], none, []⟩, [], [], [], [], witnessIuse deps, witnessUse deps⟩
    exact ⟨p, witness_use_valid deps, all_hold_of_useOk deps p rfl rfl h⟩
  · rintro ⟨p, hv, h⟩
    exact useOk_of_all_hold deps p hv h

theorem useOk_examples :
    useOk [⟨['x'], true, some false⟩, ⟨['x'], false, some true⟩] = false ∧     -- [x(-)] vs [-x(+)]
    useOk [⟨['x'], true, none⟩, ⟨['x'], false, some false⟩] = false ∧          -- [x] vs [-x(-)]
    useOk [⟨['x'], true, some true⟩, ⟨['x'], false, none⟩] = true ∧            -- [x(+)] vs [-x]
    useOk [⟨['x'], true, none⟩, ⟨['y'], false, none⟩] = true := by decide

/-- **the versions a revision-less `=*` glob matches are contiguous in the PMS order** (what makes the
"range against glob" case decidable from the two end points) -/
theorem glob_versions_convex (gv : Ver) (x y z : Ver × Str) (hg : WF gv) (hx : WF x.1) (hy : WF y.1) (hz : WF z.1)
    (mx : globSpec gv [] x.1 x.2 = true) (mz : globSpec gv [] z.1 z.2 = true)
    (h1 : (pmsCmp x.1 (some x.2) y.1 (some y.2)).isLE = true) (h2 : (pmsCmp y.1 (some y.2) z.1 (some z.2)).isLE = true) :
    globSpec gv [] y.1 y.2 = true := by
  rw [← verGlobMatch_eq_spec gv [] _ _ hg hx] at mx
  rw [← verGlobMatch_eq_spec gv [] _ _ hg hz] at mz
  rw [← verGlobMatch_eq_spec gv [] _ _ hg hy]
  rw [pms_eq_PK _ _ _ _ hx hy] at h1
  rw [pms_eq_PK _ _ _ _ hy hz] at h2
  exact glob_convex gv x y z hg hx hy hz mx mz h1 h2

/-- **no version lies strictly between two consecutive revisions of one version** — why `>V-rN` and
`<V-r(N+1)` do not intersect although each matches the other's end point -/
theorem adjacent_revisions_empty (v x : Ver) (r r' rx : Str) (hv : WF v) (hx : WF x)
    (hr : natOfDigits r' = natOfDigits r + 1) :
    ¬ (pmsCmp v (some r) x (some rx) = .lt ∧ pmsCmp x (some rx) v (some r') = .lt) := by
  rintro ⟨h1, h2⟩
  rw [pms_eq_PK _ _ _ _ hv hx] at h1
  rw [pms_eq_PK _ _ _ _ hx hv] at h2
  have l1 : LT (v, r) (x, rx) := h1
  have l2 : LT (x, rx) (v, r') := h2
  have hvk : VK x = VK v := sandwich_VK (a := (v, r)) (y := (x, rx)) (c := (v, r')) l1.le l2.le rfl
  have a1 := (LT_sameV (a := (v, r)) (b := (x, rx)) hvk.symm).mp l1
  have a2 := (LT_sameV (a := (x, rx)) (b := (v, r')) hvk).mp l2
  simp only at a1 a2
  omega

end Pkgcore.C05
