import Pkgcore.Proofs.C03
/-!
# C03 — atom syntax acceptance matches the PMS grammar for each EAPI and round-trips

Property theorems only (helpers: `Pkgcore/Proofs/C03*.lean`).  `parseAtom e s` mirrors `atom(s, eapi=e)` at the
level of strings (`Model/C03.lean`), `render` mirrors `str(atom)`; `Grammar`/`WF0`/`WF` are the PMS grammar
(`Spec/C03.lean`).  `e : Eapi` is `none` (no EAPI given) or `some n`; `KnownEapi e` is "`none` or `n ≤ 9`".

Two dialects of the grammar are stated: `lenient` is what pkgcore implements, `pms` is the PMS text.  They
differ in exactly two points that pkgcore's own test-suite pins (upper-case version letter, slot names starting
with `+`), recorded as open findings; the theorems about `pms` are therefore `_partial` with exactly that guard
and come with `_counterexample`s; the theorems about `lenient` hold at full strength, in both directions.
-/
namespace Pkgcore.C03
open Pkgcore.C01 Pkgcore.C02 Pkgcore.C03.Spec

/-! ## EAPI feature gates and pinned tables -/

/-- **the feature gates regenerated from `eapi.py` are the PMS table**: slot deps from EAPI 1, USE deps and strong
blockers from 2, USE-dep defaults from 4, sub-slots and the `:=`/`:*` operators from 5; everything when no EAPI is
given; repository ids only when no EAPI is given.  The generated table lists exactly EAPIs 0–9. -/
theorem eapi_gates :
    (∀ e, KnownEapi e → optsOf e = pmsOpts e ∧ repoAllowed e = pmsRepoIds e) ∧
      Generated.C03.eapiOpts.map (·.1) = [0, 1, 2, 3, 4, 5, 6, 7, 8, 9] := by
  refine ⟨?_, by decide⟩
  intro e h
  cases e with
  | none => exact ⟨by decide, rfl⟩
  | some n =>
    have h' : n ≤ 9 := h
    have : n = 0 ∨ n = 1 ∨ n = 2 ∨ n = 3 ∨ n = 4 ∨ n = 5 ∨ n = 6 ∨ n = 7 ∨ n = 8 ∨ n = 9 := by omega
    rcases this with rfl | rfl | rfl | rfl | rfl | rfl | rfl | rfl | rfl | rfl <;> exact ⟨by decide, rfl⟩

example : KnownEapi (some 4) ∧ (pmsOpts (some 4)).useDepDefaults = true ∧ (pmsOpts (some 4)).subSlotting = false :=
  ⟨show 4 ≤ 9 by omega, rfl, rfl⟩

/-- **the character sets and patterns of the code are the ones the model's recognisers implement**:
`atom.valid_slot_chars` / `valid_repo_chars` are exactly the ASCII characters satisfying `slotChar` / `repoChar`
(and those predicates are false outside ASCII), `valid_ops` are the six operators, and the four regular
expressions of `cpv.py` / `eapi.py` have the text that `validCat`, `validPkgChunk`, `lexVer`, `validUseFlag` were
written from.  (For the version pattern the PMS spelling `[a-z]?` of the letter is admitted as well: it is the repair
of the open finding `C03-uppercase-version-letter`, whose input class the correspondence tolerates in both readings.) -/
theorem tables_pinned :
    Generated.C03.validSlotChars = (List.range 128).filter (fun n => slotChar (Char.ofNat n)) ∧
    Generated.C03.validRepoChars = (List.range 128).filter (fun n => repoChar (Char.ofNat n)) ∧
    Generated.C03.validOps = ["<", "<=", "=", ">", ">=", "~"] ∧
    (Generated.C03.versionPattern = "^(?:[0-9]+)(?:\\.[0-9]+)*[a-zA-Z]?(?:_(p(?:re)?|beta|alpha|rc)[0-9]*)*\\Z" ∨
      Generated.C03.versionPattern = "^(?:[0-9]+)(?:\\.[0-9]+)*[a-z]?(?:_(p(?:re)?|beta|alpha|rc)[0-9]*)*\\Z") ∧
    Generated.C03.categoryPattern = "^(?:[A-Za-z0-9_][A-Za-z0-9+_.-]*)\\Z" ∧
    Generated.C03.packagePattern = "^[a-zA-Z0-9+_]+\\Z" ∧
    Generated.C03.useFlagPattern = "^[A-Za-z0-9][A-Za-z0-9+_@-]*\\Z" := by
  refine ⟨by decide, by decide, by decide, by decide, by decide, by decide, by decide⟩

/-- the recognisers are ASCII-only: no character from 128 up is a slot, repo, package or USE-flag character -/
theorem classes_ascii (c : Char) (h : 128 ≤ c.toNat) :
    slotChar c = false ∧ repoChar c = false ∧ pkgChunkChar c = false ∧ useFlagChar c = false ∧ c.isDigit = false := by
  have hal : c.isAlphanum = false := by
    simp only [Char.isAlphanum, Char.isAlpha, Char.isUpper, Char.isLower, Char.isDigit, Bool.or_eq_false_iff,
      Bool.and_eq_false_iff, decide_eq_false_iff_not, UInt32.le_iff_toNat_le]
    have : c.val.toNat = c.toNat := rfl
    simp
    omega
  have hd : c.isDigit = false := by
    simp only [Char.isAlphanum, Bool.or_eq_false_iff] at hal; exact hal.2
  have hne : ∀ x : Char, x.toNat < 128 → c ≠ x := by
    intro x hx e; subst e; omega
  have e1 := hne '.' (by decide)
  have e2 := hne '+' (by decide)
  have e3 := hne '_' (by decide)
  have e4 := hne '-' (by decide)
  have e5 := hne '@' (by decide)
  simp [slotChar, repoChar, pkgChunkChar, useFlagChar, isAlnum, hal, hd, e1, e2, e3, e4, e5]

/-! ## acceptance = grammar (pkgcore's reading), all EAPIs -/

/-- **completeness**: every atom that is well-formed under the grammar with EAPI `e`'s features is accepted:
its text parses, under EAPI `e`, to exactly that atom (USE tokens sorted, as `atom.use` is). -/
theorem parse_complete (e : Eapi) (he : KnownEapi e) (a : Atom)
    (h : WF0 lenient (pmsOpts e) (pmsRepoIds e) a) : parseAtom e (render a) = .ok (norm a) := by
  obtain ⟨h1, h2⟩ := eapi_gates.1 e he
  unfold parseAtom
  rw [h1, h2]
  exact parseWith_complete h

/-- **soundness**: every accepted string is the text of an atom that is well-formed under the grammar with EAPI
`e`'s features, and the parse result is that atom (USE tokens sorted). -/
theorem parse_sound (e : Eapi) (he : KnownEapi e) (s : Str) (a : Atom) (h : parseAtom e s = .ok a) :
    ∃ a0, WF0 lenient (pmsOpts e) (pmsRepoIds e) a0 ∧ render a0 = s ∧ norm a0 = a := by
  obtain ⟨h1, h2⟩ := eapi_gates.1 e he
  unfold parseAtom at h
  rw [h1, h2] at h
  exact parseWith_sound h

/-- **a string is accepted as an atom under EAPI `e` exactly when it is in the grammar with that EAPI's features** -/
theorem accept_iff_grammar (e : Eapi) (he : KnownEapi e) (s : Str) :
    (∃ a, parseAtom e s = .ok a) ↔ Grammar lenient (pmsOpts e) (pmsRepoIds e) s := by
  constructor
  · rintro ⟨a, h⟩
    obtain ⟨a0, hw, hr, _⟩ := parse_sound e he s a h
    exact ⟨a0, hw, hr⟩
  · rintro ⟨a0, hw, rfl⟩
    exact ⟨norm a0, parse_complete e he a0 hw⟩


/-! ## round trip -/

/-- accepted atoms are well-formed and in normal form -/
theorem parse_wf (e : Eapi) (he : KnownEapi e) (s : Str) (a : Atom) (h : parseAtom e s = .ok a) :
    WF lenient (pmsOpts e) (pmsRepoIds e) a := by
  obtain ⟨a0, hw, _, rfl⟩ := parse_sound e he s a h
  exact ⟨WF0_norm hw, norm_norm a0⟩

/-- **every accepted atom renders to text that parses back to the same atom** (the identical record: category,
package, operator, version and revision *text*, blocker flags, slot, sub-slot, slot operator, sorted USE tokens,
repository) -/
theorem render_parse_roundtrip (e : Eapi) (he : KnownEapi e) (s : Str) (a : Atom) (h : parseAtom e s = .ok a) :
    parseAtom e (render a) = .ok a := by
  obtain ⟨hw, hn⟩ := parse_wf e he s a h
  rw [parse_complete e he a hw, hn]

example : parseAtom (some 7) "!!>=dev-lang/python-3.1_rc2-r03:3/3.1=".toList =
    .ok ⟨"dev-lang".toList, "python".toList, some (.ge, ⟨[['3'], ['1']], none, [(.rc, ['2'])]⟩, ['0', '3']), true, true,
      false, some ['3'], some ['3', '.', '1'], some ['='], none, none⟩ := rfl

/-- a written atom and the atom parsed from its text are equal in the sense of `atom.__eq__` (C02) whatever the
order of the USE deps: the corollary of `parse_complete` for `==` and `hash` -/
theorem parse_equal_to_written (e : Eapi) (he : KnownEapi e) (a0 a : Atom)
    (h0 : WF0 lenient (pmsOpts e) (pmsRepoIds e) a0) (h : parseAtom e (render a0) = .ok a) :
    C02.atomEq a0 a = some true ∧ C02.atomHashKey a0 = C02.atomHashKey a := by
  rw [parse_complete e he a0 h0] at h
  simp only [Except.ok.injEq] at h
  subst h
  have hwf : C02.Spec.Atom.WF a0 := by
    show C02.Spec.vrWF a0.vr
    obtain ⟨_, _, h3, _⟩ := h0
    cases hv : a0.vop with
    | none => simp [Atom.vr, hv, C02.Spec.vrWF]
    | some q =>
      obtain ⟨op, v, r⟩ := q
      rw [hv] at h3
      simp only [Atom.vr, hv, Option.map_some, C02.Spec.vrWF]
      exact ((verOk_lenient_iff v).mp h3.1).1
  have hwf2 : C02.Spec.Atom.WF (norm a0) := hwf
  have hcanon : C02.Spec.atomCanon a0 = C02.Spec.atomCanon (norm a0) := by
    cases hu : a0.use with
    | none => simp [C02.Spec.atomCanon, norm, hu, Atom.useAttr, Atom.opStr, Atom.vr]
    | some u => simp [C02.Spec.atomCanon, norm, hu, Atom.useAttr, Atom.opStr, Atom.vr, sortUse_idem]
  have heq : C02.atomEq a0 (norm a0) = some true := by
    rw [C02.atomEq, C02.atomCmp_eq a0 (norm a0) hwf hwf2, Option.map_some, Option.some.injEq, beq_iff_eq,
      C02.atomOrd_eq_iff]
    exact hcanon
  exact ⟨heq, C02.atomHashKey_of_canon a0 (norm a0) hwf hwf2 hcanon⟩

/-- **the round-tripped atom is equal to the original and matches exactly the same packages**: `atom(str(a))`
compares equal to `a` (`atom.__eq__`, C02), hashes alike, and `atom.match` (C04) gives the same verdict on every
package.  (By `render_parse_roundtrip` the re-parsed record is identical, which is why this holds for all of
`==`, `hash` and `match` at once.) -/
theorem roundtrip_equal_same_matches (e : Eapi) (he : KnownEapi e) (s : Str) (a : Atom)
    (h : parseAtom e s = .ok a) :
    ∃ a', parseAtom e (render a) = .ok a' ∧ C02.atomEq a a' = some true ∧
      C02.atomHashKey a = C02.atomHashKey a' ∧ ∀ p : C04.Pkg, C04.atomMatch (toC04 a) p = C04.atomMatch (toC04 a') p := by
  obtain ⟨hw, _⟩ := parse_wf e he s a h
  have hrt := render_parse_roundtrip e he s a h
  obtain ⟨h1, h2⟩ := parse_equal_to_written e he a a hw (by rw [hrt])
  exact ⟨a, hrt, h1, h2, fun _ => rfl⟩

/-- what an accepted atom (without conditional USE deps) matches is the PMS dependency semantics of C04: accepted
atoms are inside the domain of C04's `match_eq_spec` -/
theorem parsed_atom_match_is_pms (e : Eapi) (he : KnownEapi e) (s : Str) (a : Atom) (h : parseAtom e s = .ok a)
    (p : C04.Pkg) (hp : C04.Spec.Pkg.WF p) : C04.atomMatch (toC04 a) p = C04.Spec.matchSpec (toC04 a) p := by
  obtain ⟨⟨_, _, h3, _, h5, h6, _⟩, _⟩ := parse_wf e he s a h
  refine c04_match_eq_spec (toC04 a) p ⟨?_, ?_⟩ hp h5
  · show C04.Spec.vopWF a.vop
    cases hv : a.vop with
    | none => trivial
    | some q =>
      obtain ⟨op, v, r⟩ := q
      rw [hv] at h3
      exact ((verOk_lenient_iff v).mp h3.1).1
  · show a.subslot.isSome = true → a.slot.isSome = true
    intro hs
    rw [slotOk_eq] at h6
    cases hsl : a.slot with
    | some _ => rfl
    | none =>
      rw [hsl] at h6
      rw [h6.1] at hs
      cases hs


/-! ## the PMS reading: two documented deviations (open findings), everything else exact -/

/-- **soundness against the PMS text** — `_partial`: guarded by `PmsStrict a` (the version letter, if any, is lower
case; slot and sub-slot do not start with `+`).
Full statement: `parseAtom e s = .ok a → WF pms (pmsOpts e) (pmsRepoIds e) a`; it is false of the model and of the
code, see `parse_sound_pms_counterexample` (open findings `C03-uppercase-version-letter`, `C03-slot-leading-plus`,
both pinned by pkgcore's own tests). -/
theorem parse_sound_pms_partial (e : Eapi) (he : KnownEapi e) (s : Str) (a : Atom) (h : parseAtom e s = .ok a)
    (hs : PmsStrict a) : WF pms (pmsOpts e) (pmsRepoIds e) a := by
  obtain ⟨hw, hn⟩ := parse_wf e he s a h
  exact ⟨WF0_pms_of_lenient hw hs, hn⟩

/-- `=a/b-1A` and `a/b:+1` are accepted, yet not in the PMS grammar -/
theorem parse_sound_pms_counterexample :
    (∃ a, parseAtom none ['=', 'a', '/', 'b', '-', '1', 'A'] = .ok a ∧ ¬ WF pms (pmsOpts none) (pmsRepoIds none) a) ∧
    (∃ a, parseAtom none ['a', '/', 'b', ':', '+', '1'] = .ok a ∧ ¬ WF pms (pmsOpts none) (pmsRepoIds none) a) := by
  refine ⟨⟨_, rfl, ?_⟩, ⟨_, rfl, ?_⟩⟩
  · rintro ⟨⟨_, _, h3, _⟩, _⟩
    have := h3.1
    simp [verOk, pms] at this
  · rintro ⟨⟨_, _, _, _, _, h6, _⟩, _⟩
    have := h6.2.1
    simp [slotNameOk, pms, startsWithAny] at this

/-- **completeness against the PMS text** — `_partial`: guarded by "the package name is also valid in pkgcore's
reading" (`pkgOk lenient a.pkg`, i.e. no hyphen is followed by a version with an UPPER-case letter).
Full statement: `WF0 pms (pmsOpts e) (pmsRepoIds e) a → parseAtom e (render a) = .ok (norm a)`; false, see
`parse_complete_pms_counterexample` (the other half of `C03-uppercase-version-letter`). -/
theorem parse_complete_pms_partial (e : Eapi) (he : KnownEapi e) (a : Atom)
    (h : WF0 pms (pmsOpts e) (pmsRepoIds e) a) (hp : pkgOk lenient a.pkg) :
    parseAtom e (render a) = .ok (norm a) :=
  parse_complete e he a (WF0_lenient_of_pms h hp)

/-- `a/b-1A` is in the PMS grammar (`1A` is not a PMS version, so `b-1A` is a package name) and is rejected -/
theorem parse_complete_pms_counterexample :
    ∃ a, WF0 pms (pmsOpts none) (pmsRepoIds none) a ∧ render a = ['a', '/', 'b', '-', '1', 'A'] ∧
      ∃ err, parseAtom none (render a) = .error err := by
  refine ⟨⟨['a'], ['b', '-', '1', 'A'], none, false, false, false, none, none, none, none, none⟩, ?_, rfl, _, rfl⟩
  exact ⟨by decide, pkgOk_pms_b1A, trivial, (fun h => by cases h), rfl, ⟨rfl, Or.inl rfl⟩, trivial, trivial⟩

/-! ## the hypotheses are satisfiable by non-trivial atoms -/

/-- `!!>=dev-lang/python-3.1_rc2-r03:3/3.1=[y,-x(+),!z?]` is well-formed under EAPI 7 (both readings) -/
example : WF0 pms (pmsOpts (some 7)) (pmsRepoIds (some 7))
    ⟨"dev-lang".toList, "python".toList, some (.ge, ⟨[['3'], ['1']], none, [(.rc, ['2'])]⟩, ['0', '3']), true, true, false,
      some ['3'], some ['3', '.', '1'], some ['='], some ["y".toList, "-x(+)".toList, "!z?".toList], none⟩ ∧
    pkgOk lenient "python".toList := by
  have hpk : ∀ d, pkgOk d "python".toList := by
    intro d
    refine ⟨by decide, ?_⟩
    intro p t e _
    have : '-' ∈ "python".toList := by rw [e]; simp
    simp at this
  refine ⟨⟨by decide, hpk pms, ⟨by decide, by decide, (fun h => by cases h)⟩, (fun _ => ⟨rfl, rfl⟩), rfl,
    ⟨rfl, by decide, ⟨rfl, by decide⟩, Or.inr ⟨rfl, rfl⟩⟩, trivial, rfl, by simp, ?_⟩, hpk lenient⟩
  intro t ht
  simp only [List.mem_cons, List.not_mem_nil, or_false] at ht
  rcases ht with rfl | rfl | rfl
  · exact ⟨[], ['y'], [], [], by simp [useForms], by simp [useDefaults, pmsOpts], by decide, rfl⟩
  · exact ⟨['-'], ['x'], ['(', '+', ')'], [], by simp [useForms], by simp [useDefaults, pmsOpts], by decide, rfl⟩
  · exact ⟨['!'], ['z'], [], ['?'], by simp [useForms], by simp [useDefaults, pmsOpts], by decide, rfl⟩

/-- accepted inputs exist for every feature: operator + version + revision, strong blocker, slot/sub-slot/`=`,
repository id (no EAPI), and the EAPI gates reject the same text where the PMS says so -/
example :
    (∃ a, parseAtom none "!!~dev-lang/python-3.1_rc2:3/3.1=::gentoo".toList = .ok a) ∧
    (∃ a, parseAtom (some 1) "!<a/b-r1-1.02b_p-r007:1.2".toList = .ok a) ∧
    (∃ err, parseAtom (some 0) "a/b:1".toList = .error err) ∧ (∃ err, parseAtom (some 1) "!!a/b".toList = .error err) ∧
    (∃ err, parseAtom (some 4) "a/b:1/2".toList = .error err) ∧ (∃ err, parseAtom (some 8) "a/b::gentoo".toList = .error err) ∧
    (∃ err, parseAtom none "a/b-1".toList = .error err) ∧ (∃ err, parseAtom none "~a/b-1-r1".toList = .error err) :=
  ⟨⟨_, rfl⟩, ⟨_, rfl⟩, ⟨_, rfl⟩, ⟨_, rfl⟩, ⟨_, rfl⟩, ⟨_, rfl⟩, ⟨_, rfl⟩, ⟨_, rfl⟩⟩

end Pkgcore.C03
