import Pkgcore.Model.C03
