import Pkgcore.Proofs.C09
/-!
# C09 — dependency strings round-trip; USE evaluation preserves meaning

Property theorems only (helper lemmas live in `Pkgcore/Proofs/C09.lean`).

* `parse`/`parseLoop` mirror `DepSet.parse` (token level), `renderL` mirrors `stringify_boolean`,
  `evaluateDepset` mirrors `DepSet.evaluate_depset` + `evaluate_conditionals`.
* `Spec.wfL` is the grammar of raw trees, `Spec.collapseL` the normal form the parser builds,
  `Spec.satTopAbs` / `Spec.satTopPMS` the two readings of a structure under a flag set.
* every theorem is for an arbitrary operator table satisfying `OpsStd` (all call-site tables do:
  `operator_tables_standard`), with or without SRC_URI renames, and an arbitrary `element_func` acceptance `okEl`.
-/
namespace Pkgcore.C09
open Pkgcore.C09.Spec

/-! ## round trip -/

/-- **Every string of the grammar parses, to the collapsed form of its tree**: rendering any well-formed
raw tree list (any depth, any width; single-child groups and same-kind nesting allowed) and parsing the
tokens gives `collapseL ts`. -/
theorem parse_render (ops : Ops) (ren : Bool) (okEl : Tok → Option Tok → Bool) (hstd : OpsStd ops)
    (ts : List Dep) (h : wfL ops ren okEl ts = true) :
    parse ops ren okEl (renderL ts) = some (collapseL ts) :=
  parse_renderL hstd ts h

/-- the REQUIRED_USE operator table, as `ebuild_src` builds it -/
def ruOps : Ops := [("||".toList, .node .or), ([], .node .and), ("^^".toList, .node .justOne), ("??".toList, .node .atMostOne)]

/-- `|| ( || ( x? ( a ) ) !y? ( ?? ( b ) ) ) c` -/
def exampleTree : List Dep :=
  [.grp .or [.grp .or [.cond false ['x'] [.leaf ['a'] none]], .cond true ['y'] [.grp .atMostOne [.leaf ['b'] none]]],
   .leaf ['c'] none]

example : wfL ruOps false (fun _ _ => true) exampleTree = true := by decide
example : collapseL exampleTree ≠ exampleTree := by decide
example : opsFor "REQUIRED_USE" = some ruOps := by decide

/-- **What `DepSet.parse` returns is a well-formed tree in collapsed normal form**, for every token list. -/
theorem parse_output_wellformed (ops : Ops) (ren : Bool) (okEl : Tok → Option Tok → Bool) (hstd : OpsStd ops)
    (toks : List Tok) (ts : List Dep) (h : parse ops ren okEl toks = some ts) :
    wfL ops ren okEl ts = true ∧ collapseL ts = ts :=
  parse_wf hstd toks ts h

/-- **Round trip**: every token list that parses renders back to tokens that parse to the *same* structure
(hence to an equal `DepSet`, whose `__eq__` compares the sets of top-level nodes). -/
theorem render_parse_roundtrip (ops : Ops) (ren : Bool) (okEl : Tok → Option Tok → Bool) (hstd : OpsStd ops)
    (toks : List Tok) (ts : List Dep) (h : parse ops ren okEl toks = some ts) :
    parse ops ren okEl (renderL ts) = some ts := by
  obtain ⟨hw, hc⟩ := parse_wf hstd toks ts h
  rw [parse_renderL hstd ts hw, hc]

example : parse ruOps false (fun _ _ => true)
    ["||".toList, "(".toList, "x?".toList, "(".toList, "a".toList, ")".toList, "(".toList, "b".toList, ")".toList, ")".toList]
    = some [.grp .or [.cond false ['x'] [.leaf ['a'] none], .leaf ['b'] none]] := by decide

/-- with SRC_URI renames: `x? ( u -> n ) v` -/
example : parse [] true (fun _ _ => true)
    ["x?".toList, "(".toList, "u".toList, "->".toList, "n".toList, ")".toList, "v".toList]
    = some [.cond false ['x'] [.leaf ['u'] (some ['n'])], .leaf ['v'] none] := by decide

/-- **The parser's collapsing of single-child and/or groups does not change the meaning** (absent reading,
every flag set and valuation): together with `parse_render`, a string means what its grammar tree means. -/
theorem collapse_preserves_meaning (F : Tok → Bool) (T : Present) (ts : List Dep) :
    satTopAbs F T (collapseL ts) = satTopAbs F T ts := by
  unfold satTopAbs
  rw [membersAbs_collapseL]

/-! ## rejection -/

/-- **Unbalanced parentheses are rejected**, for every token list, operator table and element class. -/
theorem reject_unbalanced (ops : Ops) (ren : Bool) (okEl : Tok → Option Tok → Bool) (toks : List Tok)
    (h : balanced toks = false) : parse ops ren okEl toks = none := by
  cases hp : parse ops ren okEl toks with
  | none => rfl
  | some r =>
    have := parseLoop_depth toks [] [] r hp
    simp only [List.length_nil] at this
    simp [balanced, this] at h

example : balanced ["(".toList, "a".toList, ")".toList, ")".toList] = false := by decide
example : balanced ["x?".toList, "(".toList, "a".toList] = false := by decide

/-- **A conditional or operator token that is not immediately followed by `(` is rejected** … -/
theorem reject_unfollowed_operator (ops : Ops) (ren : Bool) (okEl : Tok → Option Tok → Bool) (hstd : OpsStd ops)
    (toks : List Tok) (h : openersFollowed ops toks = false) : parse ops ren okEl toks = none := by
  cases hp : parse ops ren okEl toks with
  | none => rfl
  | some r =>
    have := parseLoop_openers hstd toks [] [] r hp
    rw [this] at h; cases h

/-- … in particular **a dangling operator / conditional at the end of the string**. -/
theorem reject_dangling (ops : Ops) (ren : Bool) (okEl : Tok → Option Tok → Bool) (hstd : OpsStd ops)
    (pre : List Tok) (k : Tok) (h : isOpener ops k = true) : parse ops ren okEl (pre ++ [k]) = none :=
  reject_unfollowed_operator ops ren okEl hstd _ (openersFollowed_dangling pre k h)

example : isOpener ruOps "||".toList = true ∧ isOpener ruOps "!x?".toList = true ∧ isOpener [] "x?".toList = true := by decide
example : openersFollowed ruOps ["x?".toList, "a".toList] = false := by decide

/-- **An empty group `( )` is rejected** wherever it stands. -/
theorem reject_empty_group (ops : Ops) (ren : Bool) (okEl : Tok → Option Tok → Bool) (toks : List Tok)
    (h : noEmptyGroup toks = false) : parse ops ren okEl toks = none := by
  cases hp : parse ops ren okEl toks with
  | none => rfl
  | some r =>
    have := parseLoop_noEmpty toks [] [] r hp
    rw [this] at h; cases h

example : noEmptyGroup ["a".toList, "x?".toList, "(".toList, ")".toList] = false := by decide

/-! ## evaluation -/

/-- **The evaluated structure is conditional-free.** -/
theorem evaluate_cond_free (F : Tok → Bool) (ts : List Dep) : hasCondL (evaluateDepset F ts) = false :=
  hasCondL_evaluateDepset F ts

/-- **Evaluation preserves meaning** (absent reading): for every structure, every flag set `F`, every
valuation `T` of the elements — and whatever flag set `F'` the result is later read under, since it has no
conditionals left — the evaluated structure is satisfied iff the original, read under `F`, is.  A group
emptied by conditionals is absent, which at the top level and inside an all-of means satisfied. -/
theorem evaluate_preserves_absent (F F' : Tok → Bool) (T : Present) (ts : List Dep) :
    satTopAbs F' T (evaluateDepset F ts) = satTopAbs F T ts :=
  evaluateDepset_preserves_absent F F' T ts

example : evaluateDepset (fun _ => false) exampleTree
    = [.grp .atMostOne [.leaf ['b'] none], .leaf ['c'] none] := by decide
example : evaluateDepset (fun f => f == ['x'] || f == ['y']) exampleTree
    = [.leaf ['a'] none, .leaf ['c'] none] := by decide

/-- **The absent reading is the literal PMS 8.2 reading on tame structures** (no group that can be emptied
stands directly inside `||`, `^^`, `??`). -/
theorem absent_eq_pms_of_tame (F : Tok → Bool) (T : Present) (ts : List Dep) (h : tameL ts = true) :
    satTopAbs F T ts = satTopPMS F T ts :=
  satTop_tame F T ts h

example : tameL exampleTree = false := by decide
example : tameL [.grp .or [.cond false ['x'] [.leaf ['a'] none, .cond true ['y'] [.leaf ['b'] none]],
    .grp .and [.leaf ['c'] none, .cond false ['z'] [.leaf ['d'] none]]]] = true := by decide

/- Full statement (false of the model, see the counterexample below; open finding
   C09-emptied-group-nested-in-anyof):
     ∀ F F' T ts, satTopPMS F' T (evaluateDepset F ts) = satTopPMS F T ts -/
/-- **Evaluation preserves meaning under the literal PMS reading** — for tame structures. -/
theorem evaluate_preserves_sat_partial (F F' : Tok → Bool) (T : Present) (ts : List Dep) (h : tameL ts = true) :
    satTopPMS F' T (evaluateDepset F ts) = satTopPMS F T ts := by
  rw [← satTop_tame F' T _ (tameL_evaluateDepset F ts h), ← satTop_tame F T ts h]
  exact evaluateDepset_preserves_absent F F' T ts

/-- `|| ( || ( x? ( a ) y? ( b ) ) c )` with no flag on and no element present: the evaluated structure is `c`
(not satisfied), while PMS counts the emptied inner any-of as matched (satisfied). -/
theorem evaluate_preserves_sat_counterexample :
    let ts : List Dep := [.grp .or [.grp .or [.cond false ['x'] [.leaf ['a'] none], .cond false ['y'] [.leaf ['b'] none]],
      .leaf ['c'] none]]
    let F : Tok → Bool := fun _ => false
    let T : Present := fun _ _ => false
    evaluateDepset F ts = [.leaf ['c'] none] ∧ satTopPMS F T (evaluateDepset F ts) = false ∧ satTopPMS F T ts = true := by
  decide

/-- Members spliced into a parent keep their multiplicity: `^^ ( a x? ( a ) b )` with `x` on evaluates to `^^ ( a a b )`
— `a` counts twice, so `{a}` does not satisfy it, exactly as it does not satisfy the original read under `x` —
whereas the de-duplicated `^^ ( a b )` would be satisfied by `{a}`.  (`evaluate_preserves_absent` covers every such
structure; this instance records why the model's `finish` appends and never merges equal members.) -/
theorem evaluate_keeps_repeated_members :
    let ts : List Dep := [.grp .justOne [.leaf ['a'] none, .cond false ['x'] [.leaf ['a'] none], .leaf ['b'] none]]
    let F : Tok → Bool := fun f => f == ['x']
    let T : Present := fun k _ => k == ['a']
    evaluateDepset F ts = [.grp .justOne [.leaf ['a'] none, .leaf ['a'] none, .leaf ['b'] none]]
      ∧ satTopAbs F T ts = false ∧ satTopAbs F T (evaluateDepset F ts) = false
      ∧ satTopAbs F T [.grp .justOne [.leaf ['a'] none, .leaf ['b'] none]] = true := by
  decide

/-! ## tables regenerated from the source tree -/

/-- every group class has its `_evaluate_collapsible` / `_evaluate_wipe_empty` in the generated table, and
they are what the proofs use: and/or are collapsible and wiped when empty, `^^`/`??` neither -/
theorem class_table_complete (k : Kind) :
    (Generated.C09.classFlags.lookup k.className).isSome = true ∧ collapsible k = wipes k ∧ wipeEmpty k = wipes k := by
  cases k <;> decide

/-- every operator table `ebuild_src` hands to `DepSet.parse` names the group classes by the text
`stringify_boolean` prints for them (the hypothesis `OpsStd` of the theorems above) -/
theorem operator_tables_standard (attr : String) (ops : Ops) (h : opsFor attr = some ops) : OpsStd ops := by
  apply opsStd_of_check
  have hall : (Generated.C09.operatorTables.all fun e =>
      match opsFor e.1 with
      | some o => opsStdB o
      | none => false) = true := by decide
  have hmem : ∃ t, (attr, t) ∈ Generated.C09.operatorTables := by
    unfold opsFor at h
    cases hl : Generated.C09.operatorTables.lookup attr with
    | none => simp [hl] at h
    | some t => exact ⟨t, mem_of_lookup _ _ _ hl⟩
  obtain ⟨t, ht⟩ := hmem
  have := List.all_eq_true.mp hall _ ht
  simp only [h] at this
  exact this

example : (opsFor "DEPEND").isSome ∧ (opsFor "SRC_URI") = some [] ∧ (opsFor "REQUIRED_USE_EAPI4").isSome := by decide

/-- `stringify_boolean` opens a group of each class with the text the model renders -/
theorem render_open_table (kind : Kind) :
    (Generated.C09.renderOpen.lookup kind.className).map String.toList
      = some (if kind = .and then tkOpen else kind.sym ++ [' '] ++ tkOpen) := by
  cases kind <;> decide

end Pkgcore.C09
