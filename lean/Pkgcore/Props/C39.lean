import Pkgcore.Proofs.C39
/-!
# C39 — bug update list changes compose like applying them in sequence

Property theorems only (helper lemmas live in `Pkgcore/Proofs/C39.lean`).
`ListChange.or` mirrors `ListChange.__or__` (as repaired in the repo worktree), `ListChange.toWire`
mirrors `to_wire`; `Spec.applyWire` is the reference Bugzilla list update; `BugUpdate.toWire`
mirrors `BugUpdate.to_wire`, `Spec.wire` is "ids, then exactly the fields that were set".
-/
namespace Pkgcore.C39
open Pkgcore.C39.Spec

variable {α β : Type} [DecidableEq α] [DecidableEq β]

/-- **`a | b` is `a` then `b`, or is refused.**  For all valid changes `a`, `b` (add / remove / set, any
values, duplicates allowed) and every current field value `l`: if `a | b` is not refused it is itself a
valid change, and applying its wire form under the reference Bugzilla semantics yields the same set of
values as applying `a`'s wire form and then `b`'s.  (`str` is the rendering of values on the wire.) -/
theorem or_is_sequential_or_refused (str : α → β) (hinj : ∀ x y, str x = str y → x = y)
    (a b c : ListChange α) (hb : b.valid = true) (hc : a.or b = some c) (l : List β) :
    c.valid = true ∧
      SameSet (applyWire (c.toWire str) l) (applyWire (b.toWire str) (applyWire (a.toWire str) l)) := by
  have mem_map : ∀ (x : α) (m : List α), str x ∈ m.map str ↔ x ∈ m := by
    intro x m
    simp only [List.mem_map]
    exact ⟨fun ⟨y, hy, e⟩ => hinj y x e ▸ hy, fun h => ⟨x, h, rfl⟩⟩
  unfold ListChange.or at hc
  cases hbr : b.replace with
  | some s =>
    simp only [hbr, Option.some.injEq] at hc
    subst hc
    refine ⟨hb, fun y => ?_⟩
    simp only [mem_applyWire_toWire, hbr]
  | none =>
    cases har : a.replace with
    | some r =>
      simp only [hbr, har, ListChange.mk?_eq_some] at hc
      obtain ⟨rfl, hv⟩ := hc
      refine ⟨hv, fun y => ?_⟩
      simp only [mem_applyWire_toWire, hbr, har, List.map_append, List.mem_append, List.mem_map, List.mem_filter,
        Bool.not_eq_true', List.contains_eq_mem, decide_eq_false_iff_not, not_and, not_exists]
      constructor
      · rintro (⟨x, ⟨hx, hnx⟩, rfl⟩ | ⟨x, ⟨hx, _⟩, rfl⟩)
        · exact Or.inl ⟨⟨x, hx, rfl⟩, fun z hz e => hnx (hinj z x e ▸ hz)⟩
        · exact Or.inr ⟨x, hx, rfl⟩
      · rintro (⟨⟨x, hx, rfl⟩, hn⟩ | ⟨x, hx, rfl⟩)
        · exact Or.inl ⟨x, ⟨hx, fun h => hn x h rfl⟩, rfl⟩
        · by_cases hk : x ∈ r ∧ x ∉ b.remove
          · exact Or.inl ⟨x, hk, rfl⟩
          · refine Or.inr ⟨x, ⟨hx, ?_⟩, rfl⟩
            intro h h2; exact hk ⟨h, fun h3 => h2 h3⟩
    | none =>
      simp only [hbr, har, ListChange.mk?_eq_some] at hc
      obtain ⟨rfl, hv⟩ := hc
      refine ⟨hv, fun y => ?_⟩
      have hcv := ((ListChange.valid_iff _).1 hv).2
      simp only [List.mem_append, List.mem_filter, Bool.not_eq_true', List.contains_eq_mem,
        decide_eq_false_iff_not] at hcv
      simp only [mem_applyWire_toWire, hbr, har, List.map_append, List.mem_append, List.mem_map, List.mem_filter,
        Bool.not_eq_true', List.contains_eq_mem, decide_eq_false_iff_not, not_or, not_exists, not_and]
      constructor
      · rintro (⟨hy, hn1, hn2⟩ | ⟨x, hx, rfl⟩ | ⟨x, ⟨hx, _⟩, rfl⟩)
        · refine Or.inl ⟨Or.inl ⟨hy, hn1⟩, fun z hz e => ?_⟩
          by_cases hza : z ∈ a.remove
          · exact hn1 z hza e
          · exact hn2 z ⟨hz, hza⟩ e
        · refine Or.inl ⟨Or.inr ⟨x, hx, rfl⟩, fun z hz e => ?_⟩
          have := hinj z x e; subst this
          exact hcv z (Or.inl hx) (by by_cases hza : z ∈ a.remove <;> simp [hza, hz])
        · exact Or.inr ⟨x, hx, rfl⟩
      · rintro (⟨(⟨hy, hn1⟩ | ⟨x, hx, rfl⟩), hn2⟩ | ⟨x, hx, rfl⟩)
        · exact Or.inl ⟨hy, hn1, fun z hz e => hn2 z hz.1 e⟩
        · exact Or.inr (Or.inl ⟨x, hx, rfl⟩)
        · by_cases hxa : x ∈ a.add
          · exact Or.inr (Or.inl ⟨x, hxa, rfl⟩)
          · exact Or.inr (Or.inr ⟨x, ⟨hx, hxa⟩, rfl⟩)

example : (ListChange.mk? ["x", "y"] ["q"] none).isSome ∧
    (⟨[], [], some ["x", "y"]⟩ : ListChange String).or ⟨["y", "z"], ["x"], none⟩ = some ⟨[], [], some ["y", "z"]⟩ := by decide

/-- **when the combination is refused**: exactly when neither operand is a set and some value is added by
one operand and removed by the other (`adding(x) | removing(x)`, `removing(x) | adding(x)`) -/
theorem or_refused_iff (a b : ListChange α) (ha : a.valid = true) (hb : b.valid = true) :
    a.or b = none ↔
      a.replace = none ∧ b.replace = none ∧
        ∃ x, (x ∈ a.add ∧ x ∈ b.remove) ∨ (x ∈ a.remove ∧ x ∈ b.add) := by
  have hav := ((ListChange.valid_iff a).1 ha).2
  have hbv := ((ListChange.valid_iff b).1 hb).2
  unfold ListChange.or
  cases hbr : b.replace with
  | some s => simp
  | none =>
    cases har : a.replace with
    | some r => simp [ListChange.mk?_eq_none, ListChange.valid]
    | none =>
      simp only [ListChange.mk?_eq_none, true_and]
      constructor
      · intro h
        have h' := h
        rw [← Bool.not_eq_true, ListChange.valid_iff] at h'
        simp only [Option.isSome_none, Bool.false_eq_true, false_imp_iff, true_and, List.mem_append, List.mem_filter,
          Bool.not_eq_true', List.contains_eq_mem, decide_eq_false_iff_not, Classical.not_forall] at h'
        obtain ⟨x, hx, hx'⟩ := h'
        have hx' := Classical.not_not.1 hx'
        rcases hx with hx | ⟨hx, _⟩ <;> rcases hx' with hx' | ⟨hx', _⟩
        · exact absurd hx' (hav x hx)
        · exact ⟨x, Or.inl ⟨hx, hx'⟩⟩
        · exact ⟨x, Or.inr ⟨hx', hx⟩⟩
        · exact absurd hx' (hbv x hx)
      · rintro ⟨x, h⟩
        rw [← Bool.not_eq_true]
        intro hv
        have h2 := ((ListChange.valid_iff _).1 hv).2 x
        simp only [List.mem_append, List.mem_filter, Bool.not_eq_true', List.contains_eq_mem,
          decide_eq_false_iff_not] at h2
        rcases h with ⟨h1, h3⟩ | ⟨h1, h3⟩
        · exact h2 (Or.inl h1) (by by_cases hr : x ∈ a.remove <;> simp [hr, h3])
        · exact h2 (by by_cases hr : x ∈ a.add <;> simp [hr, h3]) (Or.inl h1)

example : (⟨["x"], [], none⟩ : ListChange String).or ⟨[], ["x"], none⟩ = none := by decide

/-- a combination involving a set is never refused -/
theorem or_never_refused_with_set (a b : ListChange α) (ha : a.valid = true) (hb : b.valid = true)
    (h : a.replace.isSome = true ∨ b.replace.isSome = true) : ∃ c, a.or b = some c := by
  cases hc : a.or b with
  | some c => exact ⟨c, rfl⟩
  | none =>
    have := (or_refused_iff a b ha hb).1 hc
    rcases h with h | h <;> simp [this.1, this.2.1] at h

/-- the defect of the pinned tree, on the model of the pinned `__or__`: `setting() | ListChange()` applied to
`["a"]` keeps `a`, whereas applying the set and then the empty change clears the field
(same shape as `setting("x") | adding("a") == adding("a")`) -/
theorem or_pinned_counterexample :
    ∃ (a b c : ListChange String) (l : List String), a.valid = true ∧ b.valid = true ∧ a.orPinned b = some c ∧
      ¬ SameSet (applyWire (c.toWire id) l) (applyWire (b.toWire id) (applyWire (a.toWire id) l)) := by
  refine ⟨⟨[], [], some []⟩, ⟨[], [], none⟩, ⟨[], [], none⟩, ["a"], by decide, by decide, by decide, ?_⟩
  intro h
  have := (h "a").1 (by decide)
  revert this
  decide

/-! ## the wire payload of a bug update -/

/-- **the payload is `ids` followed by exactly the fields that were set** (those that differ from the
defaults of `BugUpdate()`), in declaration order, each under its wire name with its rendered value -/
theorem wire_exactly_set_fields (u : BugUpdate) (ids : List Nat) (h : ids ≠ []) :
    u.toWire ids = some (Spec.wire u ids) := by
  have hne : ids.isEmpty = false := by cases ids <;> simp_all
  simp only [BugUpdate.toWire, hne, Spec.wire, Field.all, map_filter_cons, List.filter_nil, List.map_nil,
    optEntry_str, optEntry_nat, optEntry_comment, changeEntry_eq, flagsEntry_eq, Bool.false_eq_true, if_false,
    isSet, proj, Field.wireName, Field.pyName, List.append_assoc, List.append_nil, List.cons_append, List.nil_append]
  rfl

example : (BugUpdate.toWire { summary := some "x", groups := ⟨[], [], some []⟩ } [7]) =
    some [("ids", .ids [7]), ("summary", .str "x"), ("groups", .change { set := some [] })] := by decide

/-- without ids the update is refused -/
theorem wire_needs_ids (u : BugUpdate) : u.toWire [] = none := rfl

/-- the keys of the payload: no key twice; a key is present iff it is `ids` or the wire name of a field that was set -/
theorem wire_keys_exactly_set_fields (u : BugUpdate) (ids : List Nat) (w : List (String × WireVal))
    (hw : u.toWire ids = some w) :
    (w.map Prod.fst).Nodup ∧ ∀ k, k ∈ w.map Prod.fst ↔ k = "ids" ∨ ∃ f : Field, f.wireName = k ∧ isSet u f = true := by
  have hids : ids ≠ [] := by rintro rfl; cases hw
  rw [wire_exactly_set_fields u ids hids, Option.some.injEq] at hw
  subst hw
  have hall : ∀ f : Field, f ∈ Field.all := by intro f; cases f <;> decide
  have hkeys : (Spec.wire u ids).map Prod.fst = "ids" :: ((Field.all.filter (isSet u)).map Field.wireName) := by
    simp [Spec.wire, List.map_map, Function.comp_def]
  rw [hkeys]
  constructor
  · have hnd : ("ids" :: Field.all.map Field.wireName).Nodup := by decide
    exact hnd.sublist (List.Sublist.cons_cons _ (List.filter_sublist.map _))
  · intro k
    simp only [List.mem_cons, List.mem_map, List.mem_filter]
    constructor
    · rintro (h | ⟨f, ⟨_, hf⟩, rfl⟩)
      · exact Or.inl h
      · exact Or.inr ⟨f, rfl, hf⟩
    · rintro (h | ⟨f, rfl, hf⟩)
      · exact Or.inl h
      · exact Or.inr ⟨f, ⟨hall f, hf⟩, rfl⟩

/-- the entries of the payload: `ids` carries the complete id list, and a set field carries its rendered value -/
theorem wire_values (u : BugUpdate) (ids : List Nat) (w : List (String × WireVal)) (hw : u.toWire ids = some w)
    (k : String) (v : WireVal) :
    (k, v) ∈ w ↔ (k = "ids" ∧ v = .ids ids) ∨
      ∃ f : Field, isSet u f = true ∧ k = f.wireName ∧ v = render (proj u f) := by
  have hids : ids ≠ [] := by rintro rfl; cases hw
  rw [wire_exactly_set_fields u ids hids, Option.some.injEq] at hw
  subst hw
  have hall : ∀ f : Field, f ∈ Field.all := by intro f; cases f <;> decide
  simp only [Spec.wire, List.mem_cons, List.mem_map, List.mem_filter, Prod.mk.injEq]
  constructor
  · rintro (h | ⟨f, ⟨_, hf⟩, rfl, rfl⟩)
    · exact Or.inl h
    · exact Or.inr ⟨f, hf, rfl, rfl⟩
  · rintro (h | ⟨f, hf, rfl, rfl⟩)
    · exact Or.inl h
    · exact Or.inr ⟨f, ⟨hall f, hf⟩, rfl, rfl⟩

example : isSet { summary := some "", groups := ⟨[], [], some []⟩ } .summary = true ∧
    isSet { summary := some "", groups := ⟨[], [], some []⟩ } .groups = true ∧
    isSet { summary := some "", groups := ⟨[], [], some []⟩ } .cc = false := by decide

/-- the model's field list, attribute names and wire names are the ones of the code: the table is regenerated on
every run from `dataclasses.fields(BugUpdate)` and from probing the real `to_wire` with one field set at a time -/
theorem field_table_matches_code :
    Field.all.map (fun f => (f.pyName, f.wireName)) = Generated.C39.fieldWire := by decide

/-- the payload keys are exactly the keys declared by `wire.RawBugUpdate` -/
theorem wire_names_declared :
    Generated.C39.rawBugUpdateKeys = "ids" :: Field.all.map Field.wireName := by decide

end Pkgcore.C39
