import Pkgcore.Proofs.C11
/-!
# C11 — stacked USE configuration = apply every applicable entry in the order given

Property theorems only (helper lemmas live in `Pkgcore/Proofs/C11.lean`).  `applyChunk`/`render` mirror
`incremental_chunked`, `build` mirrors `_build_cp_atom_payload`, `update`/`addGlobal`/`merge`/`optimize`/`renderPkg`
mirror `ChunkedDataDict` (`freeze`/`clone` are the identity).  A package is its key and its match function `m`;
`MatchOk` says that `AlwaysTrue` and version-less atoms of the package's key match it.
-/
namespace Pkgcore.C11
open Pkgcore.C11.Spec

/-- **One entry**: after `incremental_chunked` has applied a chunk, a flag is on iff the chunk adds it, or the
chunk says nothing about it (`-flag`, `-*`, `-PREFIX_*` all "say off") and it was on before. -/
theorem chunk_application_is_spec (s : TSet) (c : Chunk) (x : Tok) :
    x ∈ applyChunk s c ↔ (verdict c x = some true ∨ (verdict c x = none ∧ x ∈ s)) :=
  mem_applyChunk s c x

example : applyChunk ["foo_a".toList, "foobar".toList, "z".toList] ⟨0, true, ["foo_*".toList], ["foo_b".toList]⟩
    = ["foobar".toList, "z".toList, "foo_b".toList] := by decide

/-- **A sequence of entries applied in order**: a flag is on iff the last applicable entry speaking about it
switches it on, or none does and it was on initially — for every sequence, package and initial set. -/
theorem render_is_last_writer (m : Nat → Bool) (seq : List Chunk) (s : TSet) (x : Tok) :
    x ∈ render m seq s ↔ holds m seq s x = true :=
  mem_render m seq s x

/-- **Collapsing preserves the rendered set**: the chunks `_build_cp_atom_payload` returns render, for every
package (match function consistent with `simple`) and every initial set, exactly what the original sequence
renders — whatever mix of global, version-less and version specific entries, `-*` and `-PREFIX_*` it has. -/
theorem collapse_preserves_render (m : Nat → Bool) (rk : Nat) (seq : List Chunk) (hm : MatchOk m seq)
    (hrk : m rk = true) (s : TSet) (x : Tok) :
    x ∈ render m (build rk seq) s ↔ x ∈ render m seq s :=
  build_render m rk seq hm hrk s x

/-- `*/* a`, `*/* -* b`  ↦  one chunk `-* b` (the defect of the pinned tree: `a` survived) -/
example : build 0 [⟨0, true, [], ["a".toList]⟩, ⟨0, true, ["*".toList], ["b".toList]⟩]
    = [⟨0, true, ["*".toList], ["b".toList]⟩] := by decide
/-- `*/* x`, `=c/p-1 -x`, `>=c/p-1 x` keeps all three -/
example : build 9 [⟨0, true, [], ["x".toList]⟩, ⟨2, false, ["x".toList], []⟩, ⟨3, false, [], ["x".toList]⟩]
    = [⟨9, true, [], ["x".toList]⟩, ⟨2, false, ["x".toList], []⟩, ⟨3, false, [], ["x".toList]⟩] := by decide

/-- **However the entries were grouped**: two dicts built by any operations (`update_from_stream`, `add_global`,
`merge` of dicts built the same way, `optimize`; `freeze`/`clone` being the identity) from the same flat history
render the same set for every package and every `pre_defaults`. -/
theorem history_independent_of_grouping (cpKid : Tok → Nat) (d d' : CDD) (h : List Entry)
    (hb : Built cpKid d h) (hb' : Built cpKid d' h) (key : Tok) (m : Nat → Bool) (h0 : m 0 = true)
    (hk : m (cpKid key) = true) (hm : MatchOk m (relevant key h)) (pre : List Tok) (x : Tok) :
    x ∈ renderPkg d key m pre ↔ x ∈ renderPkg d' key m pre := by
  obtain ⟨_, b⟩ := (built_inv cpKid hb).getList key m h0 hk hm
  obtain ⟨_, b'⟩ := (built_inv cpKid hb').getList key m h0 hk hm
  exact render_congr m _ _ (fun y => by rw [b y, b' y]) _ x

/-- **… and it is the flat history applied in order**: `render_pkg` of any dict that can be built gives, for
every package, the set obtained by applying the applicable entries of its history one after the other. -/
theorem history_render_is_flat (cpKid : Tok → Nat) (d : CDD) (h : List Entry) (hb : Built cpKid d h)
    (key : Tok) (m : Nat → Bool) (h0 : m 0 = true) (hk : m (cpKid key) = true) (hm : MatchOk m (relevant key h))
    (pre : List Tok) (x : Tok) :
    x ∈ renderPkg d key m pre ↔ holds m (relevant key h) (pre.foldl sAdd []) x = true := by
  obtain ⟨_, b⟩ := (built_inv cpKid hb).getList key m h0 hk hm
  unfold renderPkg
  rw [mem_render, holds_iff, holds_iff]
  simp only [b x]

/-- a history with a merge and an optimize: `*/* a`; merge (`=c/p-1 -a`, `*/* -* b`); `c/p c`; optimize -/
example : ∃ d, Built (fun _ => 1) d
    [⟨none, ⟨0, true, [], ["a".toList]⟩⟩, ⟨some "c/p".toList, ⟨2, false, ["a".toList], []⟩⟩,
     ⟨none, ⟨0, true, ["*".toList], ["b".toList]⟩⟩, ⟨some "c/p".toList, ⟨1, true, [], ["c".toList]⟩⟩] := by
  have h1 := Built.update (cpKid := fun _ => 1) ⟨none, ⟨0, true, [], ["a".toList]⟩⟩ Built.empty
  have h2 := Built.update (cpKid := fun _ => 1) ⟨none, ⟨0, true, ["*".toList], ["b".toList]⟩⟩
    (Built.update ⟨some "c/p".toList, ⟨2, false, ["a".toList], []⟩⟩ Built.empty)
  exact ⟨_, Built.optimize (Built.update ⟨some "c/p".toList, ⟨1, true, [], ["c".toList]⟩⟩ (Built.merge h1 h2))⟩

end Pkgcore.C11
