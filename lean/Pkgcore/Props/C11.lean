import Pkgcore.Proofs.C11
/-!
# C11 — stacked USE configuration = apply every applicable entry in the order given

Property theorems only (helper lemmas live in `Pkgcore/Proofs/C11.lean`).  `applyChunk`/`render` mirror
`incremental_chunked`, `build` mirrors `_build_cp_atom_payload`, `update`/`addGlobal`/`merge`/`optimize`/`renderPkg`
mirror `ChunkedDataDict` (`freeze`/`clone` are the identity).  A package is its key and its match function `m`;
`MatchOk` says that `AlwaysTrue` and version-less atoms of the package's key match it.
-/
namespace Pkgcore.C11
open Pkgcore.C11.Spec

/-- **One entry**: after `incremental_chunked` has applied a chunk, a flag is on iff the chunk adds it, or the
chunk says nothing about it (`-flag`, `-*`, `-PREFIX_*` all "say off") and it was on before. -/
theorem chunk_application_is_spec (s : TSet) (c : Chunk) (x : Tok) :
    x ∈ applyChunk s c ↔ (verdict c x = some true ∨ (verdict c x = none ∧ x ∈ s)) :=
  mem_applyChunk s c x

example : applyChunk ["foo_a".toList, "foobar".toList, "z".toList] ⟨0, true, ["foo_*".toList], ["foo_b".toList]⟩
    = ["foobar".toList, "z".toList, "foo_b".toList] := by decide

/-- **A sequence of entries applied in order**: a flag is on iff the last applicable entry speaking about it
switches it on, or none does and it was on initially — for every sequence, package and initial set. -/
theorem render_is_last_writer (m : Nat → Bool) (seq : List Chunk) (s : TSet) (x : Tok) :
    x ∈ render m seq s ↔ holds m seq s x = true :=
  mem_render m seq s x

/-- **Collapsing preserves the rendered set**: the chunks `_build_cp_atom_payload` returns render, for every
package (match function consistent with `simple`) and every initial set, exactly what the original sequence
renders — whatever mix of global, version-less and version specific entries, `-*` and `-PREFIX_*` it has. -/
theorem collapse_preserves_render (m : Nat → Bool) (rk : Nat) (seq : List Chunk) (hm : MatchOk m seq)
    (hrk : m rk = true) (s : TSet) (x : Tok) :
    x ∈ render m (build rk seq) s ↔ x ∈ render m seq s :=
  build_render m rk seq hm hrk s x

/-- `*/* a`, `*/* -* b`  ↦  one chunk `-* b` (the defect of the pinned tree: `a` survived) -/
example : build 0 [⟨0, true, [], ["a".toList]⟩, ⟨0, true, ["*".toList], ["b".toList]⟩]
    = [⟨0, true, ["*".toList], ["b".toList]⟩] := by decide
/-- `*/* x`, `=c/p-1 -x`, `>=c/p-1 x` keeps all three -/
example : build 9 [⟨0, true, [], ["x".toList]⟩, ⟨2, false, ["x".toList], []⟩, ⟨3, false, [], ["x".toList]⟩]
    = [⟨9, true, [], ["x".toList]⟩, ⟨2, false, ["x".toList], []⟩, ⟨3, false, [], ["x".toList]⟩] := by decide

/-- **However the entries were grouped**: two dicts built by any operations (`update_from_stream`, `add_global`,
`merge` of dicts built the same way, `optimize`; `freeze`/`clone` being the identity) from the same flat history
render the same set for every package and every `pre_defaults`. -/
theorem history_independent_of_grouping (cpKid : Tok → Nat) (d d' : CDD) (h : List Entry)
    (hb : Built cpKid d h) (hb' : Built cpKid d' h) (key : Tok) (m : Nat → Bool) (h0 : m 0 = true)
    (hk : m (cpKid key) = true) (hm : MatchOk m (relevant key h)) (pre : List Tok) (x : Tok) :
    x ∈ renderPkg d key m pre ↔ x ∈ renderPkg d' key m pre := by
  obtain ⟨_, b⟩ := (built_inv cpKid hb).getList key m h0 hk hm
  obtain ⟨_, b'⟩ := (built_inv cpKid hb').getList key m h0 hk hm
  exact render_congr m _ _ (fun y => by rw [b y, b' y]) _ x

/-- **… and it is the flat history applied in order**: `render_pkg` of any dict that can be built gives, for
every package, the set obtained by applying the applicable entries of its history one after the other. -/
theorem history_render_is_flat (cpKid : Tok → Nat) (d : CDD) (h : List Entry) (hb : Built cpKid d h)
    (key : Tok) (m : Nat → Bool) (h0 : m 0 = true) (hk : m (cpKid key) = true) (hm : MatchOk m (relevant key h))
    (pre : List Tok) (x : Tok) :
    x ∈ renderPkg d key m pre ↔ holds m (relevant key h) (pre.foldl sAdd []) x = true := by
  obtain ⟨_, b⟩ := (built_inv cpKid hb).getList key m h0 hk hm
  unfold renderPkg
  rw [mem_render, holds_iff, holds_iff]
  simp only [b x]

/-- a history with a merge and an optimize: `*/* a`; merge (`=c/p-1 -a`, `*/* -* b`); `c/p c`; optimize -/
example : ∃ d, Built (fun _ => 1) d
    [⟨none, ⟨0, true, [], ["a".toList]⟩⟩, ⟨some "c/p".toList, ⟨2, false, ["a".toList], []⟩⟩,
     ⟨none, ⟨0, true, ["*".toList], ["b".toList]⟩⟩, ⟨some "c/p".toList, ⟨1, true, [], ["c".toList]⟩⟩] := by
  have h1 := Built.update (cpKid := fun _ => 1) ⟨none, ⟨0, true, [], ["a".toList]⟩⟩ Built.empty
  have h2 := Built.update (cpKid := fun _ => 1) ⟨none, ⟨0, true, ["*".toList], ["b".toList]⟩⟩
    (Built.update ⟨some "c/p".toList, ⟨2, false, ["a".toList], []⟩⟩ Built.empty)
  exact ⟨_, Built.optimize (Built.update ⟨some "c/p".toList, ⟨1, true, [], ["c".toList]⟩⟩ (Built.merge h1 h2))⟩

/-! ## User `package.use` lines: `package_use_splitter` and the one chunk `domain.pkg_use` makes of a line

`splitUse` mirrors the generator in `package_use_splitter` (outer loop with `start_idx`, inner loop with `use_expand`
and `buffer`), `lineChunk` is `split_negations(stable_unique(tokens))`.  The specification of a line is its tokens —
each rewritten by the `NAME:` section it stands in — applied left to right (`ltr ∘ rewrite`). -/

/-- **Section-wise rewriting**: tokens before the first `NAME:` are unchanged, every value of a section becomes
`name_value` / `-name_value` / `-name_*`, headers vanish — whatever follows. -/
theorem rewrite_sectionwise (pre vals rest : List Tok) (hdr : Tok) (hh : isSection hdr = true)
    (hp : (pre.all fun t => !isSection t) = true) (hv : (vals.all fun t => !isSection t) = true) :
    rewrite (pre ++ hdr :: (vals ++ rest))
      = pre ++ vals.map (expandTok (sectionName hdr)) ++ rewriteFrom (some (sectionName hdr)) rest := by
  unfold rewrite
  rw [rewriteFrom_append none pre _ hp]
  have : rewriteFrom none (hdr :: (vals ++ rest)) = rewriteFrom (some (sectionName hdr)) (vals ++ rest) := by
    simp [rewriteFrom, hh]
  rw [this, rewriteFrom_append _ vals rest hv]
  have h1 : pre.map (inPart none) = pre := by simp [show inPart none = id from rfl]
  have h2 : inPart (some (sectionName hdr)) = expandTok (sectionName hdr) := rfl
  rw [h1, h2, List.append_assoc]

/-- `a -b FOO: x -y -* BAR: z` -/
example : rewrite ["a".toList, "-b".toList, "FOO:".toList, "x".toList, "-y".toList, "-*".toList, "BAR:".toList, "z".toList]
    = ["a".toList, "-b".toList, "foo_x".toList, "-foo_y".toList, "-foo_*".toList, "bar_z".toList] := by decide

/-- **What the splitter hands on** is the rewritten line minus the tokens a later `-*` of the same part overrides:
in the plain head everything before the last `-*`, in a section the values before its last `-*` (look-ahead
specification `splitSpec`; the code keeps a start index and a buffer). -/
theorem splitter_eq_spec (valid : Tok → Bool) (toks out : List Tok) (h : splitUse valid toks = some out) :
    out = splitSpec toks := by
  have := plainLoop_spec valid toks [] out h
  simpa [splitSpec] using this

/-- **… and it rejects a line exactly when a (long form) token is not a valid flag name.** -/
theorem splitter_accepts_iff (valid : Tok → Bool) (toks : List Tok) :
    (splitUse valid toks).isSome = (checkedFrom none toks).all fun t => valid (lstripDash t) :=
  plainLoop_isSome valid toks []

/-- **No token is invented, duplicated or moved**: the output is a subsequence of the rewritten line. -/
theorem splitter_output_sublist (valid : Tok → Bool) (toks out : List Tok) (h : splitUse valid toks = some out) :
    out.Sublist (rewrite toks) := by
  rw [splitter_eq_spec valid toks out h]
  exact splitSpecFrom_sublist toks none

/- Full statement (false of the model, see the counterexample):
     ∀ valid toks out s x, splitUse valid toks = some out → (x ∈ ltr out s ↔ x ∈ ltr (rewrite toks) s) -/
/-- **The dropped tokens do not matter**: applied left to right, the splitter's output and the whole rewritten line
give the same set from every initial set — for every line whose section names do not start with `-`. -/
theorem splitter_preserves_meaning_partial (valid : Tok → Bool) (toks out : List Tok) (hn : plainNames toks = true)
    (h : splitUse valid toks = some out) (s : TSet) (x : Tok) :
    x ∈ ltr out s ↔ x ∈ ltr (rewrite toks) s := by
  rw [splitter_eq_spec valid toks out h]
  exact render_congr _ _ _ (fun y => lastTok_splitSpecFrom toks none y (by simp) hn) s x

/-- `-FOO: a -*`: the header makes `a` the *negative* `-foo_a`, which the splitter drops before `--foo_*` -/
theorem splitter_preserves_meaning_counterexample :
    let toks : List Tok := ["-FOO:".toList, "a".toList, "-*".toList]
    splitUse (fun _ => true) toks = some ["--foo_*".toList] ∧
    ltr ["--foo_*".toList] ["foo_a".toList] = ["foo_a".toList] ∧ ltr (rewrite toks) ["foo_a".toList] = [] := by decide

/-- `x c -* y FOO: q p -* r BAR: s`: everything before the plain `-*` and the values before the section's `-*` go -/
example : splitUse (fun _ => true) ["x".toList, "c".toList, "-*".toList, "y".toList, "FOO:".toList, "q".toList,
      "p".toList, "-*".toList, "r".toList, "BAR:".toList, "s".toList]
    = some ["-*".toList, "y".toList, "-foo_*".toList, "foo_r".toList, "bar_s".toList] := by decide

/- Full statement (false of the model — open finding C11-inline-order-lost):
     ∀ toks s x, x ∈ applyChunk s (lineChunk kid simple toks) ↔ x ∈ ltr toks s -/
/-- **A line stored as one chunk**: `domain.pkg_use` keeps of a line only (negatives, positives).  Applying that
chunk equals applying the tokens in order for every line in which no token switches a flag on that a later token
switches off again (`orderFree`). -/
theorem line_chunk_is_ltr_partial (kid : Nat) (simple : Bool) (toks : List Tok) (h : orderFree toks = true)
    (s : TSet) (x : Tok) :
    x ∈ applyChunk s (lineChunk kid simple toks) ↔ x ∈ ltr toks s := by
  rw [mem_applyChunk, verdict_lineChunk, ← lastTok_eq_vLine toks x h]
  unfold ltr
  rw [mem_render, holds_iff]
  rfl

/-- `a -a`: read as a chunk (remove `a`, then add `a`) the flag stays on -/
theorem line_chunk_counterexample :
    applyChunk [] (lineChunk 0 true ["a".toList, "-a".toList]) = ["a".toList] ∧ ltr ["a".toList, "-a".toList] [] = [] := by
  decide

example : orderFree ["-*".toList, "y".toList, "-foo_*".toList, "foo_r".toList, "bar_s".toList] = true := by decide
example : orderFree ["x".toList, "c".toList, "-*".toList, "y".toList] = false := by decide

/-- **A user `package.use` line, end to end**: the chunk the domain stores for an accepted line whose output is
order-free applies like the line's tokens, each rewritten by its section, applied in the order written. -/
theorem package_use_line_partial (valid : Tok → Bool) (kid : Nat) (simple : Bool) (toks out : List Tok)
    (h : splitUse valid toks = some out) (hn : plainNames toks = true) (hf : orderFree out = true)
    (s : TSet) (x : Tok) :
    x ∈ applyChunk s (lineChunk kid simple out) ↔ x ∈ ltr (rewrite toks) s := by
  rw [line_chunk_is_ltr_partial kid simple out hf s x]
  exact splitter_preserves_meaning_partial valid toks out hn h s x

end Pkgcore.C11
