import Pkgcore.Base.Proto
import Pkgcore.Spec.C08
/-!
C08 driver.

`c08.query {repo, tbl, vtab, ptab, tree, sorter, versioned}` where
* `repo` = `[[cat, [[pkg, [ver…]]…]]…]`,
* `tbl` = leaf table, entry i describes leaf id i: `{"k":"cat"|"pkg","n":bool,"vr":VR}` or `{"k":"other","id":j}`,
  `VR` = `{"k":"exact","s":str,"n":bool}` or `{"k":"other","id":j}`,
* `vtab[j]` = the names opaque value restriction j matches, `ptab[j]` = the packages `[cat, pkg, ver|null]` opaque leaf j matches,
* `tree` = a C06 tree (`leaf/neg/and/or/one/amo/atom`),
* `sorter` = `"iter" | "sorted" | "reversed"`,
answers `{result, answer, candidates, keyed, wf}` (packages as `[cat, pkg, ver|null]`, candidates as `[cat, pkg]`).
-/
namespace Pkgcore.Driver.C08
open Lean Pkgcore.Proto Pkgcore.C08 Pkgcore.C08.Spec
open Pkgcore.C06 (R)

partial def parseR (j : Json) : Option R := do
  let t ← getStr j "t"
  let kids : Option (List R) := do
    let a ← getArr j "cs"
    a.mapM parseR
  match t with
  | "leaf" => (getNat j "id").map R.leaf
  | "neg" => do let r ← (j.getObjVal? "r").toOption; (parseR r).map R.neg
  | "and" => do pure (R.and (← getBool j "n") (← kids))
  | "or" => do pure (R.or (← getBool j "n") (← kids))
  | "one" => do pure (R.justOne (← getBool j "n") (← kids))
  | "amo" => do pure (R.atMostOne (← getBool j "n") (← kids))
  | "atom" => do pure (R.atom (← kids))
  | _ => none

def parseVR (j : Json) : Option VR := do
  match ← getStr j "k" with
  | "exact" => pure (.exact (← chars j "s") (← getBool j "n"))
  | "other" => pure (.other (← getNat j "id"))
  | _ => none

def parseLeaf (j : Json) : Option Leaf := do
  match ← getStr j "k" with
  | "cat" => pure (.cat (← getBool j "n") (← (j.getObjVal? "vr").toOption >>= parseVR))
  | "pkg" => pure (.pkg (← getBool j "n") (← (j.getObjVal? "vr").toOption >>= parseVR))
  | "other" => pure (.other (← getNat j "id"))
  | _ => none

def strOf : Json → Option Str
  | .str s => some s.toList
  | _ => none

def parseRepo (j : Json) : Option Repo := do
  let cats ← match j with | .arr a => some a.toList | _ => none
  let cs ← cats.mapM fun c => match c with
    | .arr #[cn, .arr ps] => do
      let pl ← ps.toList.mapM fun p => match p with
        | .arr #[pn, .arr vs] => do pure ((← strOf pn), (← vs.toList.mapM strOf))
        | _ => none
      pure ((← strOf cn), pl)
    | _ => none
  pure ⟨cs⟩

def parsePkg : Json → Option Pkg
  | .arr #[c, p, .null] => do pure ⟨← strOf c, ← strOf p, none⟩
  | .arr #[c, p, v] => do pure ⟨← strOf c, ← strOf p, some (← strOf v)⟩
  | _ => none

def pkgJ (p : Pkg) : Json :=
  Json.arr #[ofChars p.cat, ofChars p.name, match p.ver with | some v => ofChars v | none => Json.null]

def insertBy {α} (lt : α → α → Bool) (x : α) : List α → List α
  | [] => [x]
  | y :: ys => if lt y x then y :: insertBy lt x ys else x :: y :: ys
def sortBy {α} (lt : α → α → Bool) (l : List α) : List α := l.foldr (insertBy lt) []

def strLt (a b : Str) : Bool := compare a b == .lt
def cpLt (a b : CP) : Bool := strLt a.1 b.1 || (a.1 == b.1 && strLt a.2 b.2)
def verLt : Option Str → Option Str → Bool
  | none, some _ => true
  | some a, some b => strLt a b
  | _, _ => false
def pkgLt (a b : Pkg) : Bool := cpLt (a.cat, a.name) (b.cat, b.name) || ((a.cat, a.name) == (b.cat, b.name) && verLt a.ver b.ver)

def sorterOf : String → Option Sorter
  | "iter" => some ⟨true, id, id, id⟩
  | "sorted" => some ⟨false, sortBy strLt, sortBy cpLt, sortBy pkgLt⟩
  | "reversed" => some ⟨false, fun l => (sortBy strLt l).reverse, fun l => (sortBy cpLt l).reverse, fun l => (sortBy pkgLt l).reverse⟩
  | _ => none

def handle : Handler := fun cmd j =>
  match cmd with
  | "c08.query" => do
    let repo ← (j.getObjVal? "repo").toOption >>= parseRepo
    let tblL ← (← getArr j "tbl").mapM parseLeaf
    let vtab ← (← getArr j "vtab").mapM fun row => match row with
      | .arr xs => xs.toList.mapM strOf
      | _ => none
    let ptab ← (← getArr j "ptab").mapM fun row => match row with
      | .arr xs => xs.toList.mapM parsePkg
      | _ => none
    let tree ← (j.getObjVal? "tree").toOption >>= parseR
    let S ← (getStr j "sorter") >>= sorterOf
    let versioned ← getBool j "versioned"
    let tbl : Nat → Leaf := fun i => tblL.getD i (.other 1000000)
    let env : Env := ⟨fun i s => (vtab.getD i []).contains s, fun i pk => (ptab.getD i []).contains pk⟩
    pure (Json.mkObj [
      ("result", Json.arr ((itermatch env tbl repo S versioned tree).map pkgJ).toArray),
      ("answer", Json.arr ((answer env tbl repo versioned tree).map pkgJ).toArray),
      ("candidates", Json.arr ((candidates env tbl repo S tree).map fun cp => Json.arr #[ofChars cp.1, ofChars cp.2]).toArray),
      ("keyed", toJson (atomsKeyed tbl tree)),
      ("wf", toJson (wfCheck repo))])
  | _ => none
end Pkgcore.Driver.C08
