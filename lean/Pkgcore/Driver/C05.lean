import Pkgcore.Base.Proto
import Pkgcore.Spec.C05
import Pkgcore.Driver.C04
namespace Pkgcore.Driver.C05
open Lean Pkgcore.Proto Pkgcore.C01 Pkgcore.C04 Pkgcore.C05

def verJson (v : Ver) : Json :=
  Json.mkObj [("comps", ofStrs v.comps),
    ("letter", match v.letter with | some c => Json.str (String.singleton c) | none => Json.null),
    ("sufs", Json.arr (v.sufs.map fun x => Json.arr #[Json.str x.1.name, ofChars x.2]).toArray)]

def pkgJson (p : Pkg) : Json :=
  Json.mkObj [("cat", ofChars p.cat), ("pkg", ofChars p.pkg), ("ver", verJson p.ver), ("rev", ofChars p.rev),
    ("slot", ofChars p.slot), ("subslot", ofChars p.subslot), ("repo", ofChars p.repo),
    ("iuse", ofStrs p.iuse), ("use", ofStrs p.use)]

def handle : Handler := fun cmd j =>
  match cmd with
  | "c05.intersects" => do
    let a ← (j.getObjVal? "a").toOption >>= Pkgcore.Driver.C04.parseAtom
    let b ← (j.getObjVal? "b").toOption >>= Pkgcore.Driver.C04.parseAtom
    let w := Spec.witness a b
    pure <| Json.mkObj [
      ("ab", toJson (intersects a b)), ("ba", toJson (intersects b a)),
      ("witness", pkgJson w),
      ("witness_matches", toJson (C04.Spec.matchSpec a w && C04.Spec.matchSpec b w))]
  | _ => none
end Pkgcore.Driver.C05
