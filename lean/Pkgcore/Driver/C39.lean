import Pkgcore.Base.Proto
import Pkgcore.Spec.C39
namespace Pkgcore.Driver.C39
open Lean Pkgcore.Proto Pkgcore.C39

/-- a key that may be absent (→ `dflt`); when present it must parse -/
def optKey {γ : Type} (j : Json) (k : String) (dflt : γ) (parse : Json → Option γ) : Option γ :=
  match j.getObjVal? k with
  | .ok v => parse v
  | .error _ => some dflt

def parseStrList : Json → Option (List String)
  | .arr a => a.toList.mapM fun x => match x with | .str s => some s | _ => none
  | _ => none

def parseOptStr : Json → Option (Option String)
  | .str s => some (some s)
  | .null => some none
  | _ => none

def parseChange (j : Json) : Option (ListChange String) := do
  let add ← (j.getObjVal? "add").toOption >>= parseStrList
  let remove ← (j.getObjVal? "remove").toOption >>= parseStrList
  let replace ← match j.getObjVal? "replace" with
    | .ok .null => some none
    | .ok v => (parseStrList v).map some
    | .error _ => none
  pure ⟨add, remove, replace⟩

def optStrs : Option (List String) → Json
  | none => .null
  | some l => .arr (l.map Json.str).toArray

def changeJson (c : ListChange String) : Json :=
  Json.mkObj [("add", optStrs (some c.add)), ("remove", optStrs (some c.remove)), ("replace", optStrs c.replace)]

def rawJson (w : RawListChange String) : Json :=
  Json.mkObj [("set", optStrs w.set), ("add", optStrs w.add), ("remove", optStrs w.remove)]

def parseFlag (j : Json) : Option FlagChange := do
  let name ← getStr j "name"
  let status ← getStr j "status"
  let req ← (j.getObjVal? "requestee").toOption >>= parseOptStr
  pure ⟨name, status, req⟩

def parseComment (j : Json) : Option (Option NewComment) := do
  let body ← getStr j "body"
  let priv ← getBool j "is_private"
  pure (some ⟨body, priv⟩)

def parseNat : Json → Option (Option Nat)
  | j => match j.getNat? with
    | .ok n => some (some n)
    | .error _ => none

def parseUpdate (j : Json) : Option BugUpdate := do
  let status ← optKey j "status" none parseOptStr
  let resolution ← optKey j "resolution" none parseOptStr
  let dupeOf ← optKey j "dupe_of" none parseNat
  let summary ← optKey j "summary" none parseOptStr
  let assignedTo ← optKey j "assigned_to" none parseOptStr
  let whiteboard ← optKey j "whiteboard" none parseOptStr
  let deadline ← optKey j "deadline" none parseOptStr
  let cc ← optKey j "cc" {} parseChange
  let keywords ← optKey j "keywords" {} parseChange
  let blocks ← optKey j "blocks" {} parseChange
  let dependsOn ← optKey j "depends_on" {} parseChange
  let seeAlso ← optKey j "see_also" {} parseChange
  let groups ← optKey j "groups" {} parseChange
  let flags ← optKey j "flags" [] fun v => match v with
    | .arr a => a.toList.mapM parseFlag
    | _ => none
  let comment ← optKey j "comment" none parseComment
  let packageList ← optKey j "package_list" none parseOptStr
  let rtr ← optKey j "runtime_testing_required" none parseOptStr
  pure { status, resolution, dupeOf, summary, assignedTo, whiteboard, deadline, cc, keywords, blocks, dependsOn,
         seeAlso, groups, flags, comment, packageList, runtimeTestingRequired := rtr }

def wireValJson : WireVal → Json
  | .str s => .str s
  | .nat n => toJson n
  | .ids l => .arr (l.map (toJson ·)).toArray
  | .change c => rawJson c
  | .flags l => .arr (l.map fun f => Json.arr (f.map fun (k, v) => Json.arr #[.str k, .str v]).toArray).toArray
  | .comment body priv => Json.mkObj [("body", .str body), ("is_private", match priv with | some b => .bool b | none => .null)]

def wireJson (w : List (String × WireVal)) : Json :=
  .arr (w.map fun (k, v) => Json.arr #[.str k, wireValJson v]).toArray

def handle : Handler := fun cmd j =>
  match cmd with
  | "c39.or" =>
    match (j.getObjVal? "a").toOption >>= parseChange, (j.getObjVal? "b").toOption >>= parseChange,
          (j.getObjVal? "l").toOption >>= parseStrList with
    | some a, some b, some l =>
      let c := a.or b
      let seq := Spec.applyWire (b.toWire id) (Spec.applyWire (a.toWire id) l)
      some (Json.mkObj [
        ("a_ok", .bool a.valid), ("b_ok", .bool b.valid),
        ("or", match c with | some c => changeJson c | none => .null),
        ("wire", match c with | some c => rawJson (c.toWire id) | none => .null),
        ("combined", match c with | some c => optStrs (some (Spec.canon (Spec.applyWire (c.toWire id) l))) | none => .null),
        ("sequential", optStrs (some (Spec.canon seq)))])
    | _, _, _ => some (Json.str "bad-op")
  | "c39.update" =>
    match (j.getObjVal? "u").toOption >>= parseUpdate, getArr j "ids" >>= (·.mapM fun x => x.getNat?.toOption) with
    | some u, some ids =>
      some (Json.mkObj [
        ("valid", .bool u.valid),
        ("wire", match u.toWire ids with | some w => wireJson w | none => .null),
        ("spec", wireJson (Spec.wire u ids))])
    | _, _ => some (Json.str "bad-op")
  | _ => none
end Pkgcore.Driver.C39
