import Pkgcore.Base.Proto
import Pkgcore.Driver.C18
import Pkgcore.Model.C19
import Pkgcore.Spec.C19
/-! JSON driver for C19: `c19.crash` = all crash points of the model's merge with the specification evaluated
on each, `c19.spec` = the specification evaluated on a real pre / interrupted snapshot pair. -/
namespace Pkgcore.Driver.C19
open Lean Pkgcore.Proto Pkgcore.C18 Pkgcore.C19 Pkgcore.Driver.C18

def pathsJson (l : List Path) : Json := .arr (l.map pathJson).toArray

def handle : Handler := fun cmd j =>
  match cmd with
  | "c19.crash" =>
    match (do
      let env ← parseEnv j
      let fs ← parseFs j "fs"
      let es ← parseEntries j "entries"
      let off ← getBool j "offset"
      pure (env, fs, es, off)) with
    | none => some (Json.str "bad-op")
    | some (env, fs, es, off) =>
      let (s, r) := mergeContents env off es fs
      let states := crashStates env fs s.log
      some (Json.mkObj [("result", .str (excStr r)), ("trace", logJson s.log),
        ("states", .arr (states.map fsJson).toArray),
        ("fail", .arr (states.map fun f => pathsJson (Spec.crashFailures fs es f)).toArray),
        ("failW", .arr (states.map fun f => pathsJson (Spec.crashFailuresW fs es f)).toArray),
        ("guards", .arr (((Pkgcore.C18.Spec.guardFailures fs es) ++
            (if Spec.NoDirOverSymlink fs es then [] else ["dirsym"]) ++
            (if Spec.NonDirsBelowRoot es then [] else ["rootentry"])).map Json.str).toArray)])
  | "c19.spec" =>
    match (do
      let fs ← parseFs j "fs"
      let es ← parseEntries j "entries"
      let cur ← parseFs j "cur"
      pure (fs, es, cur)) with
    | none => some (Json.str "bad-op")
    | some (fs, es, cur) =>
      some (Json.mkObj [("fail", pathsJson (Spec.crashFailures fs es cur)),
        ("failW", pathsJson (Spec.crashFailuresW fs es cur)),
        ("guards", .arr (((Pkgcore.C18.Spec.guardFailures fs es) ++
            (if Spec.NoDirOverSymlink fs es then [] else ["dirsym"])).map Json.str).toArray)])
  | _ => none
end Pkgcore.Driver.C19
