import Pkgcore.Base.Proto
import Pkgcore.Spec.C44
namespace Pkgcore.Driver.C44
open Lean Pkgcore.Proto Pkgcore.C44
open Pkgcore.C01 (Ver Suf)

def sufOfName : String → Option Suf
  | "alpha" => some .alpha | "beta" => some .beta | "pre" => some .pre | "rc" => some .rc | "p" => some .p
  | _ => none

def parseVer (j : Json) : Option Ver := do
  let comps ← getStrs j "comps"
  let letter : Option Char ← match j.getObjVal? "letter" with
    | .ok (.str s) => (match s.toList with | [c] => some (some c) | _ => none)
    | .ok .null => some none
    | _ => none
  let sufsJ ← getArr j "sufs"
  let sufs ← sufsJ.mapM fun x => match x with
    | .arr #[.str n, .str d] => (sufOfName n).map (·, d.toList)
    | _ => none
  pure ⟨comps.map String.toList, letter, sufs⟩

def verJson (v : Ver) : Json :=
  Json.mkObj [("comps", ofStrs v.comps),
    ("letter", match v.letter with | some c => Json.str (String.singleton c) | none => Json.null),
    ("sufs", Json.arr (v.sufs.map fun (s, d) => Json.arr #[.str s.name, ofChars d]).toArray)]

def parsePkg (j : Json) : Option Pkg := do
  let category ← chars j "category"
  let package ← chars j "package"
  let ver ← (j.getObjVal? "ver").toOption >>= parseVer
  let rev ← chars j "rev"
  let slot ← chars j "slot"
  let subslot ← chars j "subslot"
  let repo ← chars j "repo"
  pure ⟨category, package, ver, rev, slot, subslot, repo⟩

def parsePkgs (j : Json) : Option (List Pkg) := do
  let a ← getArr j "pkgs"
  a.mapM parsePkg

def getBools (j : Json) (k : String) : Option (List Bool) := do
  let a ← getArr j k
  a.mapM fun x => match x with | .bool b => some b | _ => none

structure Oracle where
  s : Str
  ok : Bool
  isMatch : List Bool
  nocat : List Bool

def parseOracle (j : Json) : Option Oracle := do
  let s ← chars j "s"
  let ok ← getBool j "ok"
  let m ← getBools j "match"
  let n ← getBools j "nocat"
  pure ⟨s, ok, m, n⟩

def pkgEq (a b : Pkg) : Bool :=
  a.category = b.category && a.package = b.package && a.ver = b.ver && a.rev = b.rev && a.slot = b.slot
    && a.subslot = b.subslot && a.repo = b.repo

def mkEnv (os : List Oracle) (pkgs : List Pkg) : AtomEnv Nat where
  parse s := match os.findIdx? (fun o => o.s = s) with
    | some i => if ((os[i]?).map (·.ok)).getD false then some i else none
    | none => none
  isMatch i p := match os[i]?, pkgs.findIdx? (pkgEq p) with
    | some o, some k => (o.isMatch[k]?).getD false
    | _, _ => false
  isMatchNoCat i p := match os[i]?, pkgs.findIdx? (pkgEq p) with
    | some o, some k => (o.nocat[k]?).getD false
    | _, _ => false

/-- every string `parseMatch` may hand to the atom parser for this text (a superset) -/
def atomQueries (fuel : Nat) (s : Str) : List Str :=
  match fuel with
  | 0 => []
  | fuel + 1 =>
    match prep (A := Nat) s with
    | .error _ => []
    | .ok p =>
      let (ops, t) := collectOps p.text
      let own := [p.orig, p.text, ops ++ "category/".toList ++ t]
      match globbedSplit p.text with
      | .ok (_, _, chunk) => own ++ atomQueries fuel chunk
      | .error _ => own

def parseQuery (j : Json) : Option Spec.Query := do
  let op : Option (Str × Str × Ver) ← match j.getObjVal? "op" with
    | .ok .null => some none
    | .ok o => (do
        let a ← chars o "op"
        let t ← chars o "text"
        let v ← (o.getObjVal? "ver").toOption >>= parseVer
        pure (some (a, t, v)))
    | _ => none
  let optStr (k : String) : Option (Option Str) := match j.getObjVal? k with
    | .ok .null => some none
    | .ok (.str s) => some (some s.toList)
    | _ => none
  let cat ← optStr "cat"
  let pkg ← chars j "pkg"
  let slot ← optStr "slot"
  let subslot ← optStr "subslot"
  let repo ← optStr "repo"
  let slotPart : Option (Str × Option Str) ← match slot, subslot with
    | none, none => some none
    | some s, ss => some (some (s, ss))
    | none, some _ => none
  pure ⟨op, cat, pkg, slotPart, repo⟩

def handle : Handler := fun cmd j =>
  match cmd with
  | "c44.atoms" => do
    let t ← chars j "text"
    pure (ofStrs (atomQueries (t.length + 1) t).eraseDups)
  | "c44.eval" => do
    let t ← chars j "text"
    let pkgs ← parsePkgs j
    let osJ ← getArr j "atoms"
    let os ← osJ.mapM parseOracle
    let env := mkEnv os pkgs
    match parseMatch env t with
    | .error _ => pure (Json.mkObj [("res", "err")])
    | .ok r => pure (Json.mkObj [("res", "ok"), ("matches", toJson (pkgs.map fun p => r.eval env p))])
  | "c44.spec" => do
    let q ← (j.getObjVal? "query").toOption >>= parseQuery
    let pkgs ← parsePkgs j
    pure (Json.mkObj [("text", ofChars (Spec.render q)), ("selects", toJson (pkgs.map (Spec.selects q)))])
  | "c44.glob" => do
    let pat ← chars j "pat"
    let strs ← getStrs j "strs"
    pure (Json.mkObj [("valid", toJson (validGlob pat)),
      ("model", toJson (strs.map fun s => matchItems (compileGlob pat) s.toList)),
      ("spec", toJson (strs.map fun s => Spec.globMatch pat s.toList))])
  | "c44.lexver" => do
    let s ← chars j "s"
    match lexVer s with
    | some v => pure (verJson v)
    | none => pure Json.null
  | _ => none
end Pkgcore.Driver.C44
