import Pkgcore.Base.Proto
import Pkgcore.Spec.C28
import Pkgcore.Driver.C24
namespace Pkgcore.Driver.C28
open Lean Pkgcore.Proto Pkgcore.C24 Pkgcore.C28

def parseOthers (a : List Json) : Option (List (Str × Nat)) :=
  a.mapM fun (x : Json) => match x with
    | Json.arr #[Json.str c, Json.str v] => v.toNat?.map fun n => (c.toList, n)
    | _ => none

/-- `{"size": "<int>", "others": [[chf, "<nat>"]…]}` -/
def parseSums (j : Json) : Option Sums := do
  let size ← (getStr j "size") >>= String.toInt?
  let others ← (getArr j "others") >>= parseOthers
  pure ⟨size, others⟩

def parseScanObj (j : Json) : Option ScanObj := do
  let path ← chars j "path"
  let reg ← getBool j "reg"
  let sums ← parseSums j
  pure ⟨path, reg, sums⟩

def parseFetchable (j : Json) : Option Fetchable := do
  let fname ← chars j "filename"
  let sums ← parseSums j
  pure ⟨fname, sums⟩

def ofSums (s : Sums) : Json :=
  Json.mkObj [("size", .str (toString s.size)),
    ("others", Json.arr (s.others.map fun (c, v) => Json.arr #[ofChars c, .str (toString v)]).toArray)]

def ofBucket (l : List (Str × Sums)) : Json :=
  Json.arr (l.map fun (n, s) => Json.arr #[ofChars n, ofSums s]).toArray

def ofParsed (p : Parsed) : Json :=
  Json.mkObj [("DIST", ofBucket p.dist), ("AUX", ofBucket p.aux), ("EBUILD", ofBucket p.ebuild), ("MISC", ofBucket p.misc)]

def optStrJ : Option Str → Json
  | some s => ofChars s
  | none => .null

def getOptStr (j : Json) (k : String) : Option (Option Str) :=
  match j.getObjVal? k with
  | .ok Json.null => some none
  | .ok (Json.str s) => some (some s.toList)
  | _ => none

def handle : Handler := fun cmd j =>
  match cmd with
  | "c28.text" => do
    -- the text Manifest.update assembles (null = ValueError) and what the property expects parse_manifest to return
    let thin ← getBool j "thin"
    let scan ← (getArr j "scan") >>= fun a => a.mapM parseScanObj
    let fetch ← (getArr j "fetch") >>= fun a => a.mapM parseFetchable
    pure (Json.mkObj [("text", optStrJ (manifestText thin scan fetch)), ("expected", ofParsed (Spec.expected thin scan fetch))])
  | "c28.parse" => do
    let t ← chars j "text"
    pure (match parseManifest t with
      | some p => Json.mkObj [("ok", ofParsed p)]
      | none => Json.str "raise")
  | "c28.ops" => do
    let thin ← getBool j "thin"
    let nofetch ← getBool j "nofetch"
    let old ← getOptStr j "old"
    let text ← chars j "text"
    let dir ← chars j "dir"
    let cs ← getStrs j "chunks"
    pure (Json.arr ((updateOps thin nofetch old text dir (cs.map String.toList)).map Pkgcore.Driver.C24.ofOp).toArray)
  | "c28.abortops" => do
    let dir ← chars j "dir"
    let cs ← getStrs j "written"
    pure (Json.arr ((abortWriteOps dir (cs.map String.toList)).map Pkgcore.Driver.C24.ofOp).toArray)
  | "c28.regen" => do
    -- the Manifest after each regeneration of a history of package states (Model `regen` on every prefix)
    let thin ← getBool j "thin"
    let dir ← chars j "dir"
    let old ← getOptStr j "old"
    let hist ← (getArr j "hist") >>= fun a => a.mapM fun st => do
      let scan ← (getArr st "scan") >>= fun a => a.mapM parseScanObj
      let fetch ← (getArr st "fetch") >>= fun a => a.mapM parseFetchable
      pure (scan, fetch)
    let target := targetName dir (tag "Manifest")
    let fs : Fs := match old with | some o => [(target, o)] | none => []
    pure (Json.arr (((List.range hist.length).map fun i => optStrJ ((regen thin dir fs (hist.take (i + 1))).read target)).toArray))
  | "c28.crash" => do
    -- Manifest and temp file after the first k operations of update()
    let thin ← getBool j "thin"
    let nofetch ← getBool j "nofetch"
    let old ← getOptStr j "old"
    let text ← chars j "text"
    let dir ← chars j "dir"
    let cs ← getStrs j "chunks"
    let k ← getNat j "k"
    let target := targetName dir (tag "Manifest")
    let fs : Fs := match old with | some o => [(target, o)] | none => []
    let ops := updateOps thin nofetch old text dir (cs.map String.toList)
    let fs' := run (ops.take k) fs
    pure (Json.mkObj [("target", optStrJ (fs'.read target)), ("tmp", optStrJ (fs'.read (tmpName dir (tag "Manifest")))),
      ("nops", toJson ops.length)])
  | _ => none
end Pkgcore.Driver.C28
