import Pkgcore.Base.Proto
import Pkgcore.Spec.C29
namespace Pkgcore.Driver.C29
open Lean Pkgcore.Proto Pkgcore.C29

abbrev N := Pkgcore.C29.Name

def pairList (j : Json) : Option (List (N × Content)) :=
  match j with
  | .arr a => a.toList.mapM fun x => match x with
    | .arr #[.str f, .str c] => some (f.toList, c.toList)
    | _ => none
  | _ => none

def parseObj (j : Json) : Option Obj :=
  match j.getObjVal? "file" with
  | .ok (.str c) => some (.file c.toList)
  | _ => match j.getObjVal? "dir" with
    | .ok d => (pairList d).map Obj.dir
    | _ => none

def parseStore (j : Json) : Option (List (N × Obj)) :=
  match j with
  | .arr a => a.toList.mapM fun x => match x with
    | .arr #[.str n, o] => (parseObj o).map (n.toList, ·)
    | _ => none
  | _ => none

def mkStore (l : List (N × Obj)) : Store := fun n => l.lookup n

def opNames : Op → List N
  | .noop _ => []
  | .mkdir n | .rmdir n | .unlink n => [n]
  | .put n _ _ | .del n _ => [n]
  | .write n _ => [n]
  | .rename a b => [a, b]

def opJson (hidden : N → Bool) (op : Op) : Json :=
  let h := Json.bool ((opNames op).all hidden)
  match op with
  | .noop w => Json.arr #["noop", ofChars w, h]
  | .mkdir n => Json.arr #["mkdir", ofChars n, h]
  | .put n f _ => Json.arr #["put", ofChars n, ofChars f, h]
  | .del n f => Json.arr #["del", ofChars n, ofChars f, h]
  | .rmdir n => Json.arr #["rmdir", ofChars n, h]
  | .write n _ => Json.arr #["write", ofChars n, h]
  | .rename a b => Json.arr #["rename", ofChars a, ofChars b, h]
  | .unlink n => Json.arr #["unlink", ofChars n, h]

def pairsJson (l : List (N × Content)) : Json := Json.arr (l.map fun p => Json.arr #[ofChars p.1, ofChars p.2]).toArray

def dedupAdj {α : Type} [DecidableEq α] : List α → List α
  | [] => []
  | [a] => [a]
  | a :: b :: rest => if a = b then dedupAdj (b :: rest) else a :: dedupAdj (b :: rest)

/-- the sequence of *distinct* listings over all crash states (consecutive duplicates removed) -/
def answer (vdb : Bool) (storeL : List (N × Obj)) (ops : List Op) : Json :=
  let st := mkStore storeL
  let names := (storeL.map (·.1) ++ ops.flatMap opNames).eraseDups
  let hidden := if vdb then hiddenVdb else hiddenBin
  let views : Json :=
    if vdb then
      let vs := dedupAdj ((states ops st).map fun s => names.filterMap fun n => (viewVdb s n).map fun fs => (n, fs))
      Json.arr (vs.map fun v => Json.arr (v.map fun p => Json.arr #[ofChars p.1, pairsJson p.2]).toArray).toArray
    else
      let vs := dedupAdj ((states ops st).map fun s => names.filterMap fun n => (viewBin s n).map fun c => (n, c))
      Json.arr (vs.map fun v => Json.arr (v.map fun p => Json.arr #[ofChars p.1, ofChars p.2]).toArray).toArray
  Json.mkObj [("ops", Json.arr (ops.map (opJson hidden)).toArray), ("views", views), ("nstates", toJson (ops.length + 1))]

def handle : Handler := fun cmd j =>
  match cmd with
  | "c29.run" => do
    let kind ← getStr j "kind"
    let storeL ← (j.getObjVal? "store").toOption >>= parseStore
    let st := mkStore storeL
    match kind with
    | "vdb-install" => do
      let name ← chars j "name"
      let files ← (j.getObjVal? "files").toOption >>= pairList
      pure (answer true storeL (vdbInstall st name files))
    | "vdb-uninstall" => do
      let name ← chars j "name"
      pure (answer true storeL (vdbUninstall st name))
    | "vdb-replace" => do
      let old ← chars j "old"
      let new ← chars j "new"
      let files ← (j.getObjVal? "files").toOption >>= pairList
      pure (answer true storeL (vdbReplace st old new files))
    | "bin-install" => do
      let tmp ← chars j "tmp"
      let name ← chars j "name"
      let pre ← getStrs j "pre"
      let c ← chars j "content"
      pure (answer false storeL (binInstall tmp name (pre.map String.toList) c))
    | "bin-uninstall" => do
      let name ← chars j "name"
      pure (answer false storeL (binUninstall name))
    | "bin-replace" => do
      let tmp ← chars j "tmp"
      let old ← chars j "old"
      let new ← chars j "new"
      let pre ← getStrs j "pre"
      let c ← chars j "content"
      pure (answer false storeL (binReplace tmp old new (pre.map String.toList) c))
    | _ => pure (Json.str "err")
  | "c29.hidden" => do
    let name ← chars j "name"
    pure (Json.arr #[Json.bool (hiddenVdb name), Json.bool (hiddenBin name)])
  | _ => none
end Pkgcore.Driver.C29
