import Pkgcore.Base.Proto
import Pkgcore.Spec.C18
/-! JSON driver for C18: `c18.merge` runs the model of `merge_contents`, `c18.spec` evaluates the property's
specification on a (real) final snapshot.  The JSON (de)serialisers are shared with the C19/C20 drivers. -/
namespace Pkgcore.Driver.C18
open Lean Pkgcore.Proto Pkgcore.C18

def parsePath (j : Json) (k : String) : Option Path := (getStrs j k).map List.reverse
def pathJson (p : Path) : Json := .arr (p.reverse.map Json.str).toArray

def parseInode (j : Json) : Option Inode := do
  let k ← getStr j "k"
  let kind ← match k with
    | "dir" => some Kind.dir
    | "file" => (getStr j "data").map Kind.file
    | "sym" => (getStr j "target").map Kind.sym
    | "fifo" => some Kind.fifo
    | _ => none
  pure ⟨kind, ← getNat j "mode", ← getNat j "uid", ← getNat j "gid", ← getNat j "mtime"⟩

def parseFs (j : Json) (k : String) : Option Fs := do
  let a ← getArr j k
  let ents ← a.mapM fun d => do
    let p ← parsePath d "p"
    let i ← getNat d "ino"
    let nd ← parseInode d
    pure ((p, i, nd) : Dirent)
  -- reject duplicate paths (a snapshot is a map)
  if (ents.map (·.1)).eraseDups.length ≠ ents.length then none
  else pure ⟨ents, (ents.foldl (fun m d => max m (d.2.1 + 1)) 1)⟩

def parseEntry (j : Json) : Option Entry := do
  let k ← getStr j "k"
  let kind ← match k with
    | "dir" => some EKind.dir
    | "reg" => do
      let d ← getStr j "data"
      let key ← match j.getObjVal? "key" with
        | .ok .null => some none
        | .ok (.arr #[a, b]) => (do pure (some ((← (a.getNat?).toOption), (← (b.getNat?).toOption))))
        | _ => none
      pure (EKind.reg d key)
    | "sym" => (getStr j "target").map EKind.sym
    | "fifo" => some EKind.fifo
    | _ => none
  pure ⟨← parsePath j "p", kind, ← getNat j "mode", ← getNat j "uid", ← getNat j "gid", ← getNat j "mtime"⟩

def parseEntries (j : Json) (k : String) : Option (List Entry) := do
  (← getArr j k).mapM parseEntry

def parseEnv (j : Json) : Option Env := do
  let e ← (j.getObjVal? "env").toOption
  pure ⟨← getNat e "umask", ← getNat e "uid", ← getNat e "gid"⟩

def errnoStr : Errno → String
  | .ENOENT => "ENOENT" | .EEXIST => "EEXIST" | .ENOTDIR => "ENOTDIR" | .EISDIR => "EISDIR"
  | .ENOTEMPTY => "ENOTEMPTY" | .EPERM => "EPERM" | .EBUSY => "EBUSY" | .EINVAL => "EINVAL" | .ENOSYS => "ENOSYS"

def opJson : Op → List Json
  | .mkdir p m => [.str "mkdir", pathJson p, toJson m]
  | .rmdir p => [.str "rmdir", pathJson p]
  | .unlink p => [.str "unlink", pathJson p]
  | .creat p m => [.str "creat", pathJson p, toJson m]
  | .write p d => [.str "write", pathJson p, .str d]
  | .symlink t p => [.str "symlink", .str t, pathJson p]
  | .mkfifo p m => [.str "mkfifo", pathJson p, toJson m]
  | .link a b => [.str "link", pathJson a, pathJson b]
  | .rename a b => [.str "rename", pathJson a, pathJson b]
  | .lchown p u g => [.str "lchown", pathJson p, toJson u, toJson g]
  | .chmod p m => [.str "chmod", pathJson p, toJson m]
  | .utime p t f => [.str "utime", pathJson p, toJson t, toJson f]

def logJson (l : List (Op × Option Errno)) : Json :=
  .arr (l.map fun (op, e) => Json.arr (opJson op ++ [match e with | none => Json.null | some x => .str (errnoStr x)]).toArray).toArray

def inodeFields (nd : Inode) : List (String × Json) :=
  (match nd.kind with
   | .dir => [("k", Json.str "dir")]
   | .file d => [("k", .str "file"), ("data", .str d)]
   | .sym t => [("k", .str "sym"), ("target", .str t)]
   | .fifo => [("k", .str "fifo")]) ++
  [("mode", toJson nd.mode), ("uid", toJson nd.uid), ("gid", toJson nd.gid), ("mtime", toJson nd.mtime)]

def fsJson (fs : Fs) : Json :=
  .arr (fs.ents.map fun (p, i, nd) => Json.mkObj ([("p", pathJson p), ("ino", toJson i)] ++ inodeFields nd)).toArray

def excStr : Except Exc Unit → String
  | .ok () => "ok"
  | .error .cannotOverwrite => "CannotOverwrite"
  | .error .failedCopy => "FailedCopy"
  | .error (.os e) => "OSError:" ++ errnoStr e

def handle : Handler := fun cmd j =>
  match cmd with
  | "c18.merge" =>
    match (do
      let env ← parseEnv j
      let fs ← parseFs j "fs"
      let es ← parseEntries j "entries"
      let off ← getBool j "offset"
      pure (env, fs, es, off)) with
    | none => some (Json.str "bad-op")
    | some (env, fs, es, off) =>
      let (s, r) := mergeContents env off es fs
      some (Json.mkObj [("result", .str (excStr r)), ("trace", logJson s.log), ("fs", fsJson s.fs),
                        ("placed", .arr ((Spec.placedFailures fs es s.fs).map Json.str).toArray),
                        ("guards", .arr ((Spec.guardFailures fs es).map Json.str).toArray)])
  | "c18.spec" =>
    match (do
      let fs ← parseFs j "fs"
      let es ← parseEntries j "entries"
      let fin ← parseFs j "final"
      pure (fs, es, fin)) with
    | none => some (Json.str "bad-op")
    | some (fs, es, fin) =>
      some (Json.mkObj [("placed", .arr ((Spec.placedFailures fs es fin).map Json.str).toArray),
                        ("guards", .arr ((Spec.guardFailures fs es).map Json.str).toArray)])
  | _ => none
end Pkgcore.Driver.C18
