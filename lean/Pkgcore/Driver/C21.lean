import Pkgcore.Base.Proto
import Pkgcore.Model.C21
/-!
Driver for C21.  `c21.filters`: the two filters on a list of locations.  `c21.install`: the install trigger, the
abstract merge and the restore.  `c21.uninstall`: the uninstall trigger and the abstract unmerge.  `c21.history`: the live file system after each operation of a history (`traceOps`), every operation
with its own settings.
-/
namespace Pkgcore.Driver.C21
open Lean Pkgcore.Proto Pkgcore.C21

def parseSettings (j : Json) : Option Settings := do
  let offset ← chars j "offset"
  let protects ← getStrs j "protects"
  let masks ← getStrs j "masks"
  let ignores ← getStrs j "ignores"
  let dirs ← getStrs j "dirs"
  -- `os.path.isdir` does not mind trailing slashes; `dirs` lists the live directories without them
  let dl := dirs.map String.toList
  pure ⟨offset, protects.map String.toList, masks.map String.toList, ignores.map String.toList, fun p => dl.contains (Pkgcore.C22.rstripSlash p)⟩

def parseLive (j : Json) : Option LiveFile := do
  pure ⟨← chars j "dir", ← chars j "base", ← getNat j "content"⟩

def parseIEntry (j : Json) : Option IEntry := do
  pure ⟨← chars j "dir", ← chars j "base", ← getBool j "reg", ← getNat j "content"⟩

def liveJson (f : LiveFile) : Json := Json.arr #[ofChars f.dir, ofChars f.base, toJson f.content]
def ientryJson (e : IEntry) : Json := Json.arr #[ofChars e.dir, ofChars e.base, toJson e.isReg, toJson e.content]

/-- one operation of a history: `{"op": "edit", "files": […]}`, `{"op": "install", <settings>, "install": […]}`,
`{"op": "uninstall", <settings>, "recorded": […]}` -/
def parseOp (j : Json) : Option Op := do
  let op ← getStr j "op"
  if op = "edit" then
    pure (.edit (← (← getArr j "files").mapM parseLive))
  else if op = "install" then
    pure (.install (← parseSettings j) (← (← getArr j "install").mapM parseIEntry))
  else if op = "uninstall" then
    pure (.uninstall (← parseSettings j) (← (← getArr j "recorded").mapM parseIEntry))
  else none

def handle : Handler := fun cmd j =>
  match cmd with
  | "c21.filters" =>
    match (do
      let s ← parseSettings j
      let locs ← getStrs j "locs"
      pure (Json.arr (locs.map fun l =>
        Json.arr #[toJson (protectedFilter s.offset s.protects s.masks l.toList),
                   toJson (ignoreFilter s.offset s.ignores s.isdir l.toList)]).toArray) : Option Json) with
    | some r => some r
    | none => some (Json.str "bad-op")
  | "c21.install" =>
    match (do
      let s ← parseSettings j
      let live ← (← getArr j "live").mapM parseLive
      let install ← (← getArr j "install").mapM parseIEntry
      let (cset, renames) := protectInstall s live install
      let merged := mergeFs live cset
      let restored := restore cset renames
      pure (Json.mkObj [("cset", Json.arr (cset.map ientryJson).toArray),
        ("renames", Json.arr (renames.map fun p => Json.arr #[ientryJson p.1, ientryJson p.2]).toArray),
        ("merged", Json.arr (merged.map liveJson).toArray),
        ("restored", Json.arr (restored.map ientryJson).toArray)]) : Option Json) with
    | some r => some r
    | none => some (Json.str "bad-op")
  | "c21.uninstall" =>
    match (do
      let s ← parseSettings j
      let live ← (← getArr j "live").mapM parseLive
      let recorded ← (← getArr j "recorded").mapM parseIEntry
      pure (Json.mkObj [("kept", Json.arr ((keptAtUnmerge s live recorded).map liveJson).toArray),
        ("after", Json.arr ((unmergeFs s live recorded).map liveJson).toArray)]) : Option Json) with
    | some r => some r
    | none => some (Json.str "bad-op")
  | "c21.history" =>
    match (do
      let live ← (← getArr j "live").mapM parseLive
      let ops ← (← getArr j "ops").mapM parseOp
      pure (Json.arr ((traceOps live ops).map fun l => Json.arr (l.map liveJson).toArray).toArray) : Option Json) with
    | some r => some r
    | none => some (Json.str "bad-op")
  | "c21.cfg" =>
    match (do
      let name ← chars j "name"
      let n ← getNat j "n"
      let fname ← chars j "fname"
      pure (Json.mkObj [("parse", match parseCfg name with
          | some (k, fn) => Json.arr #[toJson k, ofChars fn]
          | none => Json.null),
        ("name", ofChars (cfgName n fname))]) : Option Json) with
    | some r => some r
    | none => some (Json.str "bad-op")
  | _ => none
end Pkgcore.Driver.C21
