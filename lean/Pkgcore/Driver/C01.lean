import Pkgcore.Base.Proto
import Pkgcore.Spec.C01
import Pkgcore.Model.C01Lex
namespace Pkgcore.Driver.C01
open Lean Pkgcore.Proto Pkgcore.C01

def sufOfName : String → Option Suf
  | "alpha" => some .alpha | "beta" => some .beta | "pre" => some .pre | "rc" => some .rc | "p" => some .p
  | _ => none

def parseVer (j : Json) : Option Ver := do
  let comps ← getStrs j "comps"
  let letter : Option Char ← match j.getObjVal? "letter" with
    | .ok (.str s) => (match s.toList with | [c] => some (some c) | _ => none)
    | .ok .null => some none
    | _ => none
  let sufsJ ← getArr j "sufs"
  let sufs ← sufsJ.mapM fun x => match x with
    | .arr #[.str n, .str d] => (sufOfName n).map (·, d.toList)
    | _ => none
  pure ⟨comps.map String.toList, letter, sufs⟩

def parseRev (j : Json) (k : String) : Option Rev :=
  match j.getObjVal? k with
  | .ok (.str s) => some (some s.toList)
  | .ok .null => some none
  | _ => none

def handle : Handler := fun cmd j =>
  match cmd with
  | "c01.vercmp" => do
    let v1 ← (j.getObjVal? "v1").toOption >>= parseVer
    let v2 ← (j.getObjVal? "v2").toOption >>= parseVer
    let r1 ← parseRev j "r1"
    let r2 ← parseRev j "r2"
    pure (Json.arr #[toJson (ordToInt (verCmp v1 r1 v2 r2)), toJson (ordToInt (Spec.pmsCmp v1 r1 v2 r2))])
  | "c01.match" => do
    let ver ← (j.getObjVal? "ver").toOption >>= parseVer
    let pv ← (j.getObjVal? "pv").toOption >>= parseVer
    let rev ← parseRev j "rev"
    let prev ← parseRev j "prev"
    let op ← getStr j "op"
    let neg ← getBool j "negate"
    match opVals op with
    | none => pure (Json.str "err")
    | some (vals, droprev) => pure (toJson (versionMatch vals droprev neg ver rev pv prev))
  | "c01.lex" => do
    let s ← chars j "s"
    match lexVer s with
    | none => pure Json.null
    | some v => pure (Json.mkObj [
        ("comps", ofStrs v.comps),
        ("letter", match v.letter with | none => Json.null | some c => Json.str c.toString),
        ("sufs", Json.arr (v.sufs.map fun x => Json.arr #[Json.str x.1.name, ofChars x.2]).toArray)])
  | "c01.vercmpstr" => do
    let s1 ← chars j "s1"
    let s2 ← chars j "s2"
    let r1 ← parseRev j "r1"
    let r2 ← parseRev j "r2"
    match verCmpStr s1 r1 s2 r2 with
    | none => pure Json.null
    | some o => pure (toJson (ordToInt o))
  | _ => none
end Pkgcore.Driver.C01
