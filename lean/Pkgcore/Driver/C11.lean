import Pkgcore.Base.Proto
import Pkgcore.Spec.C11
namespace Pkgcore.Driver.C11
open Lean Pkgcore.Proto Pkgcore.C11

def toks (j : Json) (k : String) : Option (List Tok) := (getStrs j k).map (·.map String.toList)

def chunkOfJson (j : Json) : Option Chunk := do
  let kid ← getNat j "kid"
  let simple ← getBool j "simple"
  let neg ← toks j "neg"
  let pos ← toks j "pos"
  pure ⟨kid, simple, neg, pos⟩

def chunkToJson (c : Chunk) : Json :=
  Json.mkObj [("kid", toJson c.kid), ("neg", ofStrs c.neg), ("pos", ofStrs c.pos)]

def entryOfJson (j : Json) : Option Entry := do
  let c ← chunkOfJson j
  let cp : Option Tok := (getStr j "cp").map String.toList
  pure ⟨cp, c⟩

/-- the operations of a history, as the harness performs them on the real object -/
inductive Op
  | update (e : Entry)
  | bare (neg pos : List Tok)
  | merge (ops : List Op)
  | optimize
  | nop                      -- freeze / clone

partial def opOfJson (j : Json) : Option Op := do
  let k ← getStr j "op"
  match k with
  | "update" => (entryOfJson j).map .update
  | "bare" => do pure (.bare (← toks j "neg") (← toks j "pos"))
  | "merge" => do
    let a ← getArr j "ops"
    let ops ← a.mapM opOfJson
    pure (.merge ops)
  | "optimize" => some .optimize
  | "nop" => some .nop
  | _ => none

/-- the identity of `atom.atom(key)`: the harness says which of its keys is the version-less atom of each cp -/
def cpKid (keys : List (Tok × Nat)) (k : Tok) : Nat := (keys.lookup k).getD 0

partial def run (keys : List (Tok × Nat)) : CDD → List Op → CDD × List Entry
  | d, [] => (d, [])
  | d, op :: rest =>
    let (d1, h1) : CDD × List Entry := match op with
      | .update e => (update d e, if e.cp.isNone && e.chunk.neg.isEmpty && e.chunk.pos.isEmpty then [] else [e])
      | .bare n p => (addGlobal d ⟨0, true, n, p⟩, if n.isEmpty && p.isEmpty then [] else [⟨none, ⟨0, true, n, p⟩⟩])
      | .merge ops => let (o, h) := run keys {} ops; (Pkgcore.C11.merge d o, h)
      | .optimize => (optimize (cpKid keys) d, [])
      | .nop => (d, [])
    let (d2, h2) := run keys d1 rest
    (d2, h1 ++ h2)

/-- `_valid_use_flag = ^[A-Za-z0-9][A-Za-z0-9+_@-]*\Z` (eapi.py); the harness compares it with the real
`is_valid_use_flag` on every token the splitter checks -/
def validUse (t : Tok) : Bool :=
  match t with
  | [] => false
  | c :: cs => c.isAlphanum && cs.all fun d => d.isAlphanum || d == '+' || d == '_' || d == '@' || d == '-'

def handle : Handler := fun cmd j =>
  match cmd with
  | "c11.split" => do
    -- the tokens of one package.use line (behind the query) -> splitter output, specification, classification
    let ts ← toks j "toks"
    let out := splitUse validUse ts
    let checked := Spec.checkedFrom none ts
    let outJ : Json := match out with | some o => ofStrs o | none => Json.null
    let chunk := lineChunk 0 true (out.getD [])
    pure (Json.mkObj [("out", outJ), ("spec", ofStrs (Spec.splitSpec ts)), ("rewrite", ofStrs (Spec.rewrite ts)),
      ("checked", .arr (checked.map fun t => Json.arr #[Json.str (String.ofList (lstripDash t)), Json.bool (validUse (lstripDash t))]).toArray),
      ("order_free", .bool (Spec.orderFree (Spec.splitSpec ts))), ("plain_names", .bool (Spec.plainNames ts)),
      ("neg", ofStrs chunk.neg), ("pos", ofStrs chunk.pos)])
  | "c11.ltr" => do
    -- long form tokens applied left to right to `pre`: the set, and per probe the last-writer specification
    let ts ← toks j "toks"
    let pre ← toks j "pre"
    let probes ← toks j "probes"
    let s0 := pre.foldl sAdd []
    pure (Json.mkObj [("set", ofStrs (Spec.ltr ts s0)),
      ("holds", .arr (probes.map fun x => Json.bool (Spec.holds (fun _ => true) (ts.map Spec.tokChunk) s0 x)).toArray)])
  | "c11.build" => do
    let seq ← getArr j "seq" >>= fun a => a.mapM chunkOfJson
    let rk ← getNat j "rk"
    pure (.arr ((build rk seq).map chunkToJson).toArray)
  | "c11.render" => do
    -- items, match set, initial set -> rendered set; per probe: spec `holds`
    let seq ← getArr j "seq" >>= fun a => a.mapM chunkOfJson
    let ms ← (j.getObjValAs? (List Nat) "match").toOption
    let pre ← toks j "pre"
    let probes ← toks j "probes"
    let rk ← getNat j "rk"
    let m : Nat → Bool := fun k => ms.contains k
    let s0 := pre.foldl sAdd []
    pure (Json.mkObj [("render", ofStrs (render m seq s0)),
      ("built", ofStrs (render m (build rk seq) s0)),
      ("holds", .arr (probes.map fun x => Json.bool (Spec.holds m seq s0 x)).toArray)])
  | "c11.history" => do
    let ops ← getArr j "ops" >>= fun a => a.mapM opOfJson
    let keysJ ← getArr j "keys"
    let keys : List (Tok × Nat) ← keysJ.mapM fun x => match x with
      | .arr #[.str k, n] => (n.getNat?).toOption.map fun i => (k.toList, i)
      | _ => none
    let queries ← getArr j "queries"
    let probes ← toks j "probes"
    let (d, h) := run keys {} ops
    let outs ← queries.mapM fun q => do
      let key ← chars q "key"
      let ms ← (q.getObjValAs? (List Nat) "match").toOption
      let pre ← toks q "pre"
      let m : Nat → Bool := fun k => ms.contains k
      let s0 := pre.foldl sAdd []
      pure (Json.mkObj [("render", ofStrs (renderPkg d key m pre)),
        ("holds", .arr (probes.map fun x => Json.bool (Spec.holds m (Spec.relevant key h) s0 x)).toArray)])
    pure (Json.mkObj [("globals", .arr (d.globals.map chunkToJson).toArray), ("out", .arr outs.toArray)])
  | _ => none
end Pkgcore.Driver.C11
