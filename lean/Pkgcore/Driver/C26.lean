import Pkgcore.Base.Proto
import Pkgcore.Spec.C26
namespace Pkgcore.Driver.C26
open Lean Pkgcore.Proto Pkgcore.C26

def hexVal (c : Char) : Option Nat :=
  if '0' ≤ c ∧ c ≤ '9' then some (c.toNat - 48)
  else if 'a' ≤ c ∧ c ≤ 'f' then some (c.toNat - 87)
  else none

def unhex : List Char → Option Bytes
  | [] => some []
  | a :: b :: rest => do
    let x ← hexVal a
    let y ← hexVal b
    let r ← unhex rest
    pure (UInt8.ofNat (16 * x + y) :: r)
  | _ => none

def hexDigit (n : Nat) : Char := if n < 10 then Char.ofNat (48 + n) else Char.ofNat (87 + n)

def hex (b : Bytes) : String :=
  String.ofList (b.flatMap fun x => [hexDigit (x.toNat / 16), hexDigit (x.toNat % 16)])

def getHex (j : Json) (k : String) : Option Bytes := (getStr j k) >>= fun s => unhex s.toList

/-- mapping: array of `[key, "t", text]` or `[key, "b", hex]` -/
def parseMap (j : Json) (k : String) : Option (List (List Char × Val)) := do
  let a ← getArr j k
  a.mapM fun x => match x with
    | .arr #[.str key, .str "t", .str v] => some (key.toList, Val.text v)
    | .arr #[.str key, .str "b", .str v] => (unhex v.toList).map fun b => (key.toList, Val.bytes b)
    | _ => none

def errName : Err → String
  | .oserror => "oserror" | .malformed => "malformed" | .structError => "struct" | .unicode => "unicode"
  | .assertion => "assertion"

def ofVal : Val → Json
  | .text s => Json.arr #[.str "t", .str s]
  | .bytes b => Json.arr #[.str "b", .str (hex b)]

def ofItems (l : List (List Char × Val)) : Json :=
  Json.arr (l.map fun (k, v) => Json.arr #[ofChars k, ofVal v]).toArray

def ofExcept {α} (f : α → Json) : Except Err α → Json
  | .ok a => Json.mkObj [("ok", f a)]
  | .error e => Json.mkObj [("err", .str (errName e))]

def handle : Handler := fun cmd j =>
  match cmd with
  | "c26.write" => do
    -- model of Xpak.write_xpak(path, data): new file content, and the `start` it used
    let f ← getHex j "file"
    let m ← parseMap j "map"
    pure (Json.mkObj [("file", ofExcept (fun b => Json.str (hex b)) (writeXpak f m)),
                      ("start", ofExcept (fun (n : Nat) => toJson n) (startOf f))])
  | "c26.items" => do
    -- model of list(Xpak(path).items())
    let f ← getHex j "file"
    pure (ofExcept ofItems (items f))
  | "c26.history" => do
    -- model of a history of data reads on ONE shared file object (Xpak(fileobj)): "reads" = positions in
    -- keys_dict of the entries read, in the order the real reads happened; "pos" = fd position before the first
    let f ← getHex j "file"
    let rs ← getArr j "reads"
    let p ← getNat j "pos"
    let idx ← rs.mapM fun (x : Json) => x.getNat?.toOption
    match keysDict f with
    | .error e => pure (Json.mkObj [("err", .str (errName e))])
    | .ok d =>
      let slots ← idx.mapM fun i => (d[i]?).map (·.2)
      pure (Json.mkObj [("ok", Json.arr ((readHistory ⟨f, p⟩ slots).map (ofExcept ofVal)).toArray)])
  | "c26.spec" => do
    -- the format and the expected read-back of a mapping, from the specification
    let m ← parseMap j "map"
    pure (Json.mkObj [("segment", .str (hex (Spec.segment m))), ("expected", ofItems (Spec.expected m))])
  | _ => none
end Pkgcore.Driver.C26
