import Pkgcore.Base.Proto
import Pkgcore.Spec.C33
namespace Pkgcore.Driver.C33
open Lean Pkgcore.Proto Pkgcore.C33

def strs (j : Json) (k : String) : Option (List Str) := (getStrs j k).map (·.map String.toList)

partial def parseSrc (j : Json) : Option Src := do
  let t ← getStr j "t"
  match t with
  | "missing" => pure .missing
  | "file" => do pure (.file (← getNat j "id"))
  | "link" => do
    let text ← chars j "text"
    let kind ← match (← getStr j "kind") with
      | "file" => some LinkKind.toFile | "dir" => some LinkKind.toDir | "broken" => some LinkKind.broken
      | _ => none
    pure (.link text kind)
  | "dir" => do
    let ks ← getArr j "kids"
    let kids ← ks.mapM fun k => match k with
      | .arr #[.str n, s] => (parseSrc s).map (n.toList, ·)
      | _ => none
    pure (.dir kids)
  | _ => none

def parseTargets (j : Json) : Option (List Target) := do
  let ts ← getArr j "targets"
  ts.mapM fun t => do
    let arg ← chars t "arg"
    let node ← (t.getObjVal? "node").toOption >>= parseSrc
    pure ⟨arg, node⟩

def parseRaw (j : Json) (k : String) : Option RawOpts := do
  let o ← (j.getObjVal? k).toOption
  let present ← getBool o "present"
  let empty ← getBool o "empty"
  let mode : Option Nat ← match o.getObjVal? "mode" with
    | .ok .null => some none
    | .ok v => (v.getNat?.toOption).map some
    | _ => none
  let optNat : String → Option (Option Nat) := fun k => match o.getObjVal? k with
    | .ok .null => some none
    | .ok v => (v.getNat?.toOption).map some
    | _ => some none
  pure ⟨present, empty, mode, ← optNat "owner", ← optNat "group"⟩

def eapiRow (magic : String) : Option Generated.C33.EapiRow :=
  Generated.C33.eapis.find? (·.magic = magic)

def helperRow (name : String) : Option Generated.C33.HelperRow :=
  Generated.C33.helpers.find? (·.name = name)

def rejName : Rej → String
  | .noTargets => "noTargets" | .nonexistent => "nonexistent" | .isDirectory => "isDirectory"
  | .cannotStat => "cannotStat" | .copyFailed => "copyFailed" | .invalidManPage => "invalidManPage"
  | .missingLinkName => "missingLinkName" | .relNotPermitted => "relNotPermitted" | .relNeedsAbs => "relNeedsAbs"
  | .oserror => "oserror" | .unmodelled => "unmodelled"

/-- context from the request: destination and the effective modes (helper defaults from the generated table) -/
def parseCtx (j : Json) : Option (Ctx × Generated.C33.EapiRow) := do
  let name ← getStr j "name"
  let hr ← helperRow name
  let er ← eapiRow (← getStr j "eapi")
  let dest ← chars j "dest"
  let ins ← parseRaw j "ins"
  let dir ← parseRaw j "dir"
  let insDflt : Option Attr := hr.insMode.map fun m => ⟨m, hr.insOwner, hr.insGroup⟩
  let dirDflt : Option Attr := hr.dirMode.map fun m => ⟨m, none, none⟩
  let insMode := if hr.forcedIns then insDflt else effMode insDflt ins
  pure (⟨dest, insMode, effMode dirDflt dir⟩, er)

/-- the request, and the spec entries it prescribes on image `sfs` -/
def requestOf (sfs : Fs) (j : Json) : Option (Request × Except Rej (List Spec.Entry)) := do
  let (c, er) ← parseCtx j
  let kind ← getStr j "kind"
  match kind with
  | "basename" => do
    let ts ← parseTargets j
    pure (.install .basenameInstall c ts, Spec.prescribed (.basenameInstall) c ts)
  | "doins" => do
    let ts ← parseTargets j
    let r ← getBool j "recursive"
    pure (.install (.doins r) c ts, Spec.prescribed (.doins r) c ts)
  | "dodoc" => do
    let ts ← parseTargets j
    let r ← getBool j "recursive"
    pure (.install (.dodoc er.dodocAllowRecursive r) c ts, Spec.prescribed (.dodoc er.dodocAllowRecursive r) c ts)
  | "dohtml" => do
    let ts ← parseTargets j
    let o : HtmlOpts := ⟨← getBool j "recursive", ← strs j "a", ← strs j "A", ← strs j "f", ← strs j "x", ← chars j "p"⟩
    pure (.install (.dohtml o) c ts, Spec.prescribed (.dohtml o) c ts)
  | "doman" => do
    let ts ← parseTargets j
    let m : ManCtx := ⟨er.domanDetect, er.domanOverride, ← chars j "i18n", er.archiveExts.map String.toList, er.unpackCI⟩
    pure (.install (.doman m) c ts, Spec.prescribed (.doman m) c ts)
  | "domo" => do
    let ts ← parseTargets j
    let pn ← chars j "pn"
    pure (.install (.domo pn) c ts, Spec.prescribed (.domo pn) c ts)
  | "dodir" => do
    let ds ← strs j "dirs"
    pure (.dodir c ds, Spec.dodirEntries c ds)
  | "keepdir" => do
    let ds ← strs j "dirs"
    let cat ← chars j "category"; let pn ← chars j "pn"; let slot ← chars j "slot"
    pure (.keepdir c cat pn slot ds, Spec.keepdirEntries c cat pn slot ds)
  | "dosym" => do
    let s ← chars j "source"; let t ← chars j "target"; let r ← getBool j "relative"
    pure (.dosym c er.dosymRelative r s t, Spec.dosymEntries c sfs er.dosymRelative r s t)
  | "dohard" => do
    let s ← chars j "source"; let t ← chars j "target"
    pure (.dohard c s t, Spec.dohardEntries c s t)
  | _ => none

def prefixes (p : Path) : List Path := (List.range (p.length + 1)).map (p.take ·)

def nodeJson (p : Path) : Node → Json
  | .dir m => .arr #[ofChars (joinWith '/' p), "d", toJson m.mode, "", toJson m.uid, toJson m.gid]
  | .file m id => .arr #[ofChars (joinWith '/' p), "f", toJson m.mode, toJson id, toJson m.uid, toJson m.gid]
  | .link t uid gid => .arr #[ofChars (joinWith '/' p), "l", toJson (0 : Nat), ofChars t, toJson uid, toJson gid]

def snapshot (fs : Fs) (cands : List Path) : Json :=
  .arr (cands.eraseDups.filterMap fun p => if p = [] then none else (fs p).map (nodeJson p)).toArray

/-- run a sequence of requests on one image (model side and spec side separately); stop at the first rejection -/
def runSeq (u : Umask) : List Json → Fs → Fs → List Path → List Path → List Json → Option (List Json)
  | [], _, _, _, _, acc => some acc.reverse
  | j :: rest, mfs, sfs, mc, sc, acc => do
    let (req, entries) ← requestOf sfs j
    let plan := req.plan mfs
    let mres := execute u mfs plan
    let sres := entries.bind fun es => (Spec.imageE u sfs es).map fun fs' => (fs', es.flatMap fun e => prefixes e.path)
    match mres, plan, sres with
    | .ok mfs', .ok ops, .ok (sfs', scand) =>
      let mc' := mc ++ ops.flatMap fun o => prefixes o.path
      let sc' := sc ++ scand
      runSeq u rest mfs' sfs' mc' sc'
        (Json.mkObj [("model", snapshot mfs' mc'), ("spec", snapshot sfs' sc')] :: acc)
    | _, _, _ =>
      let m : Json := match mres with | .ok _ => "ok" | .error e => Json.str ("reject:" ++ rejName e)
      let s : Json := match sres with | .ok _ => "ok" | .error e => Json.str ("reject:" ++ rejName e)
      some ((Json.mkObj [("model", m), ("spec", s), ("stopped", true)] :: acc).reverse)

def handle : Handler := fun cmd j =>
  match cmd with
  | "c33.rel" => do
    let s ← chars j "source"
    let t ← chars j "target"
    if !isAbs s then pure (Json.str "err") else
    let r := relativeDosymTarget s t
    let linkDir := pjoin ['/'] (dirname t)
    pure (Json.mkObj [("rel", ofChars r), ("source", ofStrs (Spec.resolve s)),
      ("via", ofStrs (Spec.resolve (linkDir ++ '/' :: r)))])
  | "c33.man" => do
    let er ← eapiRow (← getStr j "eapi")
    let m : ManCtx := ⟨er.domanDetect, er.domanOverride, ← chars j "i18n", er.archiveExts.map String.toList, er.unpackCI⟩
    let arg ← chars j "arg"
    let enc : Option (Str × Str) → Json := fun r => match r with
      | none => Json.null
      | some (d, n) => .arr #[ofChars d, ofChars n]
    pure (Json.mkObj [("model", enc (manPlace m arg)), ("spec", enc (Spec.manDest m (basename arg)))])
  | "c33.seq" => do
    let uo ← (j.getObjVal? "umask").toOption
    let uid ← getNat uo "uid"
    let gid ← getNat uo "gid"
    let u : Umask := ⟨⟨← getNat uo "dir", uid, gid⟩, ⟨← getNat uo "file", uid, gid⟩⟩
    let reqs ← getArr j "reqs"
    match runSeq u reqs emptyFs emptyFs [] [] [] with
    | some out => pure (.arr out.toArray)
    | none => pure (Json.str "err")
  | _ => none
end Pkgcore.Driver.C33
