import Pkgcore.Base.Proto
import Pkgcore.Spec.C27
import Pkgcore.Driver.C24
namespace Pkgcore.Driver.C27
open Lean Pkgcore.Proto Pkgcore.C24 Pkgcore.C27

def parseKind (j : Json) : Option Kind :=
  match getStr j "kind" with
  | some "flat" => some .flat
  | some "md5" => some .md5
  | _ => none

def parsePairs (a : List Json) : Option (List (Str × Str)) :=
  a.mapM fun x => match x with
    | .arr #[.str p, .str c] => some (p.toList, c.toList)
    | _ => none

def parseEclass : Json → Option Eclass
  | Json.arr #[Json.str n, Json.str d, Json.str c] => c.toInt?.map fun v => ⟨n.toList, d.toList, v⟩
  | _ => none

def parseEclasses (j : Json) : Option (Option (List Eclass)) :=
  match j.getObjVal? "eclasses" with
  | .ok Json.null => some none
  | .ok (Json.arr a) => match a.toList.mapM parseEclass with
    | some l => some (some l)
    | none => none
  | _ => none

/-- `{"vals": [[k, v]…], "chf": "<int>", "eclasses": null | [[name, dir, "<int>"]…]}` -/
def parseEntryJ (j : Json) : Option C27.Entry := do
  let vals ← (getArr j "vals") >>= parsePairs
  let chf ← (getStr j "chf") >>= String.toInt?
  let ecl ← parseEclasses j
  pure ⟨vals, chf, ecl⟩

def ofEntryJ (e : C27.Entry) : Json :=
  Json.mkObj [("vals", Json.arr (e.vals.map fun (a, b) => Json.arr #[ofChars a, ofChars b]).toArray),
    ("chf", .str (toString e.chf)),
    ("eclasses", match e.eclasses with
      | none => .null
      | some es => Json.arr (es.map fun c => Json.arr #[ofChars c.name, ofChars c.dir, .str (toString c.chf)]).toArray)]

def errName : C27.Err → String
  | .missing => "missing" | .corrupt => "corrupt" | .keyError => "keyerror"

def ofRes : Except C27.Err C27.Entry → Json
  | .ok e => Json.mkObj [("ok", ofEntryJ e)]
  | .error e => Json.mkObj [("err", .str (errName e))]

def optStr : Option Str → Json
  | some s => ofChars s
  | none => .null

def handle : Handler := fun cmd j =>
  match cmd with
  | "c27.render" => do
    let k ← parseKind j
    let e ← (j.getObjVal? "entry").toOption >>= parseEntryJ
    pure (Json.mkObj [("text", ofChars (renderEntry k e)), ("expected", ofEntryJ (Spec.expected k e))])
  | "c27.parse" => do
    let k ← parseKind j
    let t ← chars j "text"
    pure (ofRes (parseEntry k t))
  | "c27.keys" => do
    let fs ← (getArr j "fs") >>= parsePairs
    pure (ofStrs (keys fs))
  | "c27.storeops" => do
    let pid ← chars j "pid"
    let cpv ← chars j "cpv"
    let gid ← getInt j "gid"
    let mk ← getStrs j "mkdirs"
    let cs ← getStrs j "chunks"
    pure (Json.arr ((storeOps pid cpv gid (mk.map String.toList) (cs.map String.toList)).map Pkgcore.Driver.C24.ofOp).toArray)
  | "c27.failops" => do
    -- what a failing store does: the first k operations before the rename, optionally the removal of the temp file
    let pid ← chars j "pid"
    let cpv ← chars j "cpv"
    let gid ← getInt j "gid"
    let mk ← getStrs j "mkdirs"
    let cs ← getStrs j "chunks"
    let k ← getNat j "k"
    let cl ← getBool j "cleanup"
    pure (Json.arr ((failedStoreOps pid cpv gid (mk.map String.toList) (cs.map String.toList) k cl).map
      Pkgcore.Driver.C24.ofOp).toArray)
  | "c27.crash" => do
    -- cache directory after the first k operations of a store
    let k ← parseKind j
    let pid ← chars j "pid"
    let cpv ← chars j "cpv"
    let gid ← getInt j "gid"
    let mk ← getStrs j "mkdirs"
    let cs ← getStrs j "chunks"
    let n ← getNat j "k"
    let fs ← (getArr j "fs") >>= parsePairs
    let ops := storeOps pid cpv gid (mk.map String.toList) (cs.map String.toList)
    let fs' := run (ops.take n) fs
    pure (Json.mkObj [("target", optStr (fs'.read cpv)), ("tmp", optStr (fs'.read (tmpOf pid cpv))),
      ("keys", ofStrs (keys fs')), ("item", ofRes (getItem k fs' cpv)), ("nops", toJson ops.length)])
  | _ => none
end Pkgcore.Driver.C27
