import Pkgcore.Base.Proto
import Pkgcore.Spec.C09
namespace Pkgcore.Driver.C09
open Lean Pkgcore.Proto Pkgcore.C09

def kindName : Kind → String
  | .and => "and" | .or => "or" | .justOne => "one" | .atMostOne => "most"

def kindOfName : String → Option Kind
  | "and" => some .and | "or" => some .or | "one" => some .justOne | "most" => some .atMostOne
  | _ => none

mutual
partial def depToJson : Dep → Json
  | .leaf k none => Json.mkObj [("l", ofChars k)]
  | .leaf k (some r) => Json.mkObj [("l", ofChars k), ("r", ofChars r)]
  | .grp kind cs => Json.mkObj [("g", .str (kindName kind)), ("c", depsToJson cs)]
  | .cond n f cs => Json.mkObj [("n", .bool n), ("f", ofChars f), ("c", depsToJson cs)]
partial def depsToJson (l : List Dep) : Json := .arr (l.map depToJson).toArray
end

mutual
partial def depOfJson (j : Json) : Option Dep :=
  match getStr j "l" with
  | some k =>
    match j.getObjVal? "r" with
    | .ok (.str r) => some (.leaf k.toList (some r.toList))
    | .ok _ => none
    | .error _ => some (.leaf k.toList none)
  | none =>
    match getStr j "g" with
    | some g => do
      let kind ← kindOfName g
      let cs ← getArr j "c"
      let cs ← depsOfJson cs
      pure (.grp kind cs)
    | none => do
      let n ← getBool j "n"
      let f ← chars j "f"
      let cs ← getArr j "c"
      let cs ← depsOfJson cs
      pure (.cond n f cs)
partial def depsOfJson (l : List Json) : Option (List Dep) := l.mapM depOfJson
end

/-- explicit operator table `[[token, className | "!"], …]` -/
def opsOfJson (j : Json) (k : String) : Option Ops := do
  let a ← getArr j k
  a.mapM fun x => match x with
    | .arr #[.str t, .str c] => (opOfClassName c).map fun o => (t.toList, o)
    | _ => none

/-- rejected elements `[[k, r | null], …]` ↦ `okEl` -/
def okElOfJson (j : Json) (k : String) : Option (Tok → Option Tok → Bool) := do
  let a ← getArr j k
  let bad : List (Tok × Option Tok) ← a.mapM fun x => match x with
    | .arr #[.str t, .str r] => some (t.toList, some r.toList)
    | .arr #[.str t, .null] => some (t.toList, none)
    | _ => none
  pure fun t r => !(bad.contains (t, r))

def presentOfJson (j : Json) : Option Spec.Present :=
  match j with
  | .arr a => do
    let l : List (Tok × Option Tok) ← a.toList.mapM fun x => match x with
      | .arr #[.str t, .str r] => some (t.toList, some r.toList)
      | .arr #[.str t, .null] => some (t.toList, none)
      | _ => none
    pure fun t r => l.contains (t, r)
  | _ => none

def flagsOfJson (j : Json) : Option (Tok → Bool) :=
  match j with
  | .arr a => do
    let l ← a.toList.mapM fun x => match x with | .str s => some s.toList | _ => none
    pure fun f => l.contains f
  | _ => none

def optDeps : Option (List Dep) → Json
  | none => .str "reject"
  | some ds => Json.mkObj [("ok", depsToJson ds)]

def handle : Handler := fun cmd j =>
  match cmd with
  | "c09.parse" => do
    -- parse, render, re-parse of the rendering
    let ops ← opsOfJson j "ops"
    let ren ← getBool j "ren"
    let okEl ← okElOfJson j "bad"
    let toks ← getStrs j "toks"
    let toks := toks.map String.toList
    let r := parse ops ren okEl toks
    let rendered := r.map renderL
    let again := rendered.bind (parse ops ren okEl)
    pure (Json.mkObj [("parse", optDeps r),
      ("render", match rendered with | none => .null | some t => ofStrs t),
      ("reparse", optDeps again),
      ("balanced", .bool (Spec.balanced toks))])
  | "c09.render" => do
    let ds ← getArr j "deps" >>= depsOfJson
    pure (ofStrs (renderL ds))
  | "c09.opsfor" => do
    let attr ← getStr j "attr"
    match opsFor attr with
    | none => pure (.str "err")
    | some ops => pure (.arr (ops.map fun (t, o) => Json.arr #[ofChars t,
        .str (match o with | .invalid => "!" | .node k => k.className)]).toArray)
  | "c09.eval" => do
    -- evaluate under each flag set; readings of the original and of the evaluated structure under each valuation
    let ds ← getArr j "deps" >>= depsOfJson
    let flagsets ← getArr j "flagsets"
    let presents ← getArr j "presents"
    let Ts ← presents.mapM presentOfJson
    let outs ← flagsets.mapM fun fj => do
      let F ← flagsOfJson fj
      let ev := evaluateDepset F ds
      let noF : Tok → Bool := fun _ => false
      let sats := Ts.map fun T => Json.arr #[
        .bool (Spec.satTopAbs F T ds), .bool (Spec.satTopPMS F T ds),
        .bool (Spec.satTopAbs noF T ev), .bool (Spec.satTopPMS noF T ev)]
      pure (Json.mkObj [("ev", depsToJson ev), ("condfree", .bool (!hasCondL ev)),
        ("tame", .bool (Spec.tameL ds)), ("sat", .arr sats.toArray)])
    pure (.arr outs.toArray)
  | _ => none
end Pkgcore.Driver.C09
