import Pkgcore.Base.Proto
import Pkgcore.Spec.C31
namespace Pkgcore.Driver.C31
open Lean Pkgcore.Proto Pkgcore.C31

def valToJson : Val → Json
  | .scalar v => Json.mkObj [("s", ofChars v)]
  | .array vs => Json.mkObj [("a", ofStrs vs)]

def parseVal (j : Json) : Option Val :=
  match j.getObjVal? "s" with
  | .ok (.str s) => some (.scalar s.toList)
  | _ =>
    match getStrs j "a" with
    | some l => some (.array (l.map String.toList))
    | none => none

def parseEnv (j : Json) (k : String) : Option (List (Str × Val)) := do
  let a ← getArr j k
  a.mapM fun x => match x with
    | .arr #[.str key, v] => (parseVal v).map (key.toList, ·)
    | _ => none

def assignsToJson (as : List Assign) : Json :=
  .arr (as.map fun a => Json.arr #[ofChars a.key, valToJson a.val, toJson a.exported]).toArray

def optAssigns : Option (List Assign) → Json
  | some as => assignsToJson as
  | none => Json.null

def pairToJson : Option (Str × Str) → Json
  | some (a, b) => Json.arr #[ofChars a, ofChars b]
  | none => Json.null

def handle : Handler := fun cmd j =>
  match cmd with
  | "c31.genenv" => do
    let ro ← getStrs j "ro"
    let env ← parseEnv j "env"
    match genEnvStr (ro.map String.toList) env with
    | .error .key => pure (Json.mkObj [("err", "KeyError")])
    | .error .attr => pure (Json.mkObj [("err", "AttributeError")])
    | .ok text =>
      pure (Json.mkObj [("ok", ofChars text), ("bytes", ofChars (utf8 text)),
        ("eval", optAssigns (evalScript (utf8 text)))])
  | "c31.handovers" => do
    -- the texts of `n` hand-overs of ONE mapping object (heap model of `_generate_env_str`, with its defensive copy)
    let ro ← getStrs j "ro"
    let env ← parseEnv j "env"
    let n ← getNat j "n"
    pure (.arr ((handovers true (ro.map String.toList) n [env] 0).map fun
      | .error .key => Json.mkObj [("err", "KeyError")]
      | .error .attr => Json.mkObj [("err", "AttributeError")]
      | .ok text => Json.mkObj [("ok", ofChars text)]).toArray)
  | "c31.bash" => do
    let s ← chars j "script"
    pure (optAssigns (evalScript s))
  | "c31.word" => do
    let s ← chars j "word"
    pure (pairToJson (word s))
  | "c31.quote" => do
    let s ← chars j "value"
    pure (Json.arr #[ofChars (quoteValue s), ofChars (quoteElem s)])
  | "c31.utf8" => do
    let s ← chars j "s"
    pure (ofChars (utf8 s))
  | "c31.frame" => do
    let kind ← getStr j "kind"
    let data ← chars j "data"
    let rest ← chars j "rest"
    match kind with
    | "inline" =>
      let sent := sendEnvInline data
      pure (Json.mkObj [("sent", ofChars sent), ("recv", pairToJson (recvEnv (fun _ => none) (sent ++ rest)))])
    | "legacy" =>
      let sent := sendEnvInlineLegacy data
      pure (Json.mkObj [("sent", ofChars sent), ("recv", pairToJson (recvEnv (fun _ => none) (sent ++ rest)))])
    | "file" =>
      let path ← chars j "path"
      let sent := sendEnvFile path
      let fs : Str → Option Str := fun p => if p == utf8 path then some (utf8 data) else none
      pure (Json.mkObj [("sent", ofChars sent), ("recv", pairToJson (recvEnv fs (sent ++ rest)))])
    | "depend" =>
      let c ← chars j "c"
      let sent := sendDepend c data
      let r := match recvDepend (sent ++ rest) with
        | some (c', d, r') => Json.arr #[ofChars c', ofChars d, ofChars r']
        | none => Json.null
      pure (Json.mkObj [("sent", ofChars sent), ("recv", r)])
    | _ => pure (Json.str "bad-op")
  | _ => none
end Pkgcore.Driver.C31
