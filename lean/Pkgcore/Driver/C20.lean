import Pkgcore.Base.Proto
import Pkgcore.Driver.C18
import Pkgcore.Spec.C20
/-! JSON driver for C20: `c20.unmerge` / `c20.uninstall` / `c20.replace` run the models, `c20.spec.*` evaluate
the specification on real before/after snapshots. -/
namespace Pkgcore.Driver.C20
open Lean Pkgcore.Proto Pkgcore.C18 Pkgcore.C20 Pkgcore.Driver.C18

def strs (l : List String) : Json := .arr (l.map Json.str).toArray

def strPath (x : Json) : Option Path := do
  let a ← (x.getArr?).toOption
  let l ← a.toList.mapM (fun y => (y.getStr?).toOption)
  pure l.reverse

def parsePlanReq (j : Json) : Option (List Entry × List Entry × List (Path × Path × Path)) := do
  let live ← parseEntries j "live"
  let new ← parseEntries j "new"
  let res ← (← getArr j "res").mapM fun r =>
    match r with
    | .arr #[a, b, c] => do pure ((← strPath a), (← strPath b), (← strPath c))
    | _ => none
  pure (live, new, res)

def handle : Handler := fun cmd j =>
  match cmd with
  | "c20.unmerge" =>
    match (do pure (← parseEnv j, ← parseFs j "fs", ← parseEntries j "entries")) with
    | none => some (Json.str "bad-op")
    | some (env, fs, es) =>
      let (s, r) := unmergeContents env es fs
      some (Json.mkObj [("result", .str (excStr r)), ("trace", logJson s.log), ("fs", fsJson s.fs),
        ("fail", strs (Spec.unmergedFailures fs es s.fs))])
  | "c20.uninstall" =>
    match (do pure (← parseEnv j, ← parseFs j "fs", ← parseEntries j "old")) with
    | none => some (Json.str "bad-op")
    | some (env, fs, old) =>
      let (s, r) := engineUninstall env old fs
      some (Json.mkObj [("result", .str (excStr r)), ("trace", logJson s.log), ("fs", fsJson s.fs),
        ("plan", .arr ((uninstallPlan fs old).map fun e => pathJson e.loc).toArray),
        ("fail", strs (Spec.uninstalledFailures fs old s.fs))])
  | "c20.replace" =>
    match (do pure (← parseEnv j, ← parseFs j "fs", ← parseEntries j "old", ← parseEntries j "new")) with
    | none => some (Json.str "bad-op")
    | some (env, fs, old, new) =>
      let (s1, r1) := mergeContents env false new fs
      let (s, r) := engineReplace env old new fs
      some (Json.mkObj [("result", .str (excStr r)), ("merge_result", .str (excStr r1)), ("trace", logJson s.log),
        ("mid", fsJson s1.fs), ("fs", fsJson s.fs),
        ("fail", strs (Spec.replacedFailures s1.fs old new s.fs))])
  | "c20.plan" =>
    -- res: [[path, resolved-parent path, fully resolved path], …]; identity where absent
    match parsePlanReq j with
    | none => some (Json.str "bad-op")
    | some (live, new, res) =>
      let resP : Path → Path := fun p => match res.find? (fun r => r.1 = p) with | some r => r.2.1 | none => p
      let resF : Path → Path := fun p => match res.find? (fun r => r.1 = p) with | some r => r.2.2 | none => p
      some (.arr ((removePlanOf resP resF live new).map fun (e : Entry) => pathJson e.loc).toArray)
  | "c20.spec.unmerge" =>
    match (do pure (← parseFs j "fs", ← parseEntries j "entries", ← parseFs j "final")) with
    | none => some (Json.str "bad-op")
    | some (fs, es, fin) => some (strs (Spec.unmergedFailures fs es fin))
  | "c20.spec.uninstall" =>
    match (do pure (← parseFs j "fs", ← parseEntries j "old", ← parseFs j "final")) with
    | none => some (Json.str "bad-op")
    | some (fs, old, fin) => some (strs (Spec.uninstalledFailures fs old fin))
  | "c20.spec.replace" =>
    match (do pure (← parseFs j "mid", ← parseEntries j "old", ← parseEntries j "new", ← parseFs j "final")) with
    | none => some (Json.str "bad-op")
    | some (mid, old, new, fin) => some (strs (Spec.replacedFailures mid old new fin))
  | _ => none
end Pkgcore.Driver.C20
