import Pkgcore.Base.Proto
import Pkgcore.Spec.C25
namespace Pkgcore.Driver.C25
open Lean Pkgcore.Proto Pkgcore.C24 Pkgcore.C25

def optNat : Json → Option (Option Nat)
  | Json.null => some none
  | j => match j.getNat? with
    | .ok n => some (some n)
    | _ => none

def natJ (j : Json) : Option Nat := (j.getNat?).toOption

def parseAttrs (mode uid gid mt : Json) : Option Attrs := do
  let m ← natJ mode
  let u ← natJ uid
  let g ← natJ gid
  let t ← match mt with | Json.str s => some s.toList | _ => none
  pure ⟨m, u, g, t⟩

/-- `["file", loc, mode, uid, gid, mtime, dev|null, inode|null, data]`, `["dir", loc, mode, uid, gid, mtime]`,
`["sym", loc, target, mode, uid, gid, mtime]`, `["fifo", loc, …]`, `["dev", loc, mode, uid, gid, mtime, chr, major, minor]` -/
def parseObj : Json → Option Obj
  | Json.arr #[Json.str "file", Json.str loc, mode, uid, gid, mt, dev, ino, data] => do
    let a ← parseAttrs mode uid gid mt
    let d ← optNat dev
    let i ← optNat ino
    let dt ← natJ data
    pure (.file ⟨loc.toList, a, d, i, dt, 0⟩)
  | Json.arr #[Json.str "dir", Json.str loc, mode, uid, gid, mt] => (parseAttrs mode uid gid mt).map (.dir loc.toList)
  | Json.arr #[Json.str "sym", Json.str loc, Json.str tgt, mode, uid, gid, mt] =>
    (parseAttrs mode uid gid mt).map (.sym loc.toList tgt.toList)
  | Json.arr #[Json.str "fifo", Json.str loc, mode, uid, gid, mt] => (parseAttrs mode uid gid mt).map (.fifo loc.toList)
  | Json.arr #[Json.str "dev", Json.str loc, mode, uid, gid, mt, Json.bool chr, mj, mn] => do
    let a ← parseAttrs mode uid gid mt
    let x ← natJ mj
    let y ← natJ mn
    pure (.dev loc.toList a chr x y)
  | _ => none

def ofOptNat : Option Nat → Json
  | some n => toJson n
  | none => .null

def ofObj : Obj → Json
  | .file f => .arr #[.str "file", ofChars f.loc, toJson f.a.mode, toJson f.a.uid, toJson f.a.gid, ofChars f.a.mtime,
      ofOptNat f.dev, ofOptNat f.inode, toJson f.data]
  | .dir l a => .arr #[.str "dir", ofChars l, toJson a.mode, toJson a.uid, toJson a.gid, ofChars a.mtime]
  | .sym l t a => .arr #[.str "sym", ofChars l, ofChars t, toJson a.mode, toJson a.uid, toJson a.gid, ofChars a.mtime]
  | .fifo l a => .arr #[.str "fifo", ofChars l, toJson a.mode, toJson a.uid, toJson a.gid, ofChars a.mtime]
  | .dev l a c mj mn => .arr #[.str "dev", ofChars l, toJson a.mode, toJson a.uid, toJson a.gid, ofChars a.mtime,
      .bool c, toJson mj, toJson mn]

def typName : MTyp → String
  | .reg => "reg" | .lnk => "lnk" | .dir => "dir" | .sym => "sym" | .fifo => "fifo" | .chr => "chr" | .blk => "blk"

def typOf : String → Option MTyp
  | "reg" => some .reg | "lnk" => some .lnk | "dir" => some .dir | "sym" => some .sym | "fifo" => some .fifo
  | "chr" => some .chr | "blk" => some .blk | _ => none

def ofMember (m : Member) : Json :=
  .arr #[.str (typName m.typ), ofChars m.name, ofChars m.linkname, toJson m.a.mode, toJson m.a.uid, toJson m.a.gid,
    ofChars m.a.mtime, toJson m.major, toJson m.minor, ofOptNat m.data]

def parseMember : Json → Option Member
  | Json.arr #[Json.str t, Json.str name, Json.str ln, mode, uid, gid, mt, mj, mn, data] => do
    let ty ← typOf t
    let a ← parseAttrs mode uid gid mt
    let x ← natJ mj
    let y ← natJ mn
    let d ← optNat data
    pure ⟨ty, name.toList, ln.toList, a, x, y, d⟩
  | _ => none

def ofObjs : Option (List Obj) → Json
  | some l => Json.mkObj [("ok", Json.arr (l.map ofObj).toArray)]
  | none => Json.str "raise"

def handle : Handler := fun cmd j =>
  match cmd with
  | "c25.write" => do
    -- members add_contents_to_tarfile hands to TarFile.addfile, in order
    let s ← (getArr j "set") >>= fun a => a.mapM parseObj
    pure (Json.arr ((addContents s).map ofMember).toArray)
  | "c25.read" => do
    -- convert_archive(archive) for an archive with these members; c = first value of the inode counter
    let ms ← (getArr j "members") >>= fun a => a.mapM parseMember
    let c ← getNat j "c"
    -- "raise" = AssertionError of archive_to_fsobj (dangling hard link), "symlink-loop" = AssertionError of convert_archive
    pure (match archiveToFsobj c ms with
      | none => Json.str "raise"
      | some raw => match convertArchive raw with
        | none => Json.str "symlink-loop"
        | some l => ofObjs (some l))
  | "c25.roundtrip" => do
    let s ← (getArr j "set") >>= fun a => a.mapM parseObj
    let c ← getNat j "c"
    pure (ofObjs (roundTrip c s))
  | "c25.merged" => do
    -- the specification's "as for a live merge" location of every entry of the set
    let s ← (getArr j "set") >>= fun a => a.mapM parseObj
    pure (match Spec.mergedLocs s with
      | some l => Json.arr (l.map fun (a, b) => Json.arr #[ofChars a, ofChars b]).toArray
      | none => Json.str "loop")
  | "c25.resolve" => do
    -- the relocation theorems' side: do their hypotheses hold for the set, and where does `placeOf` put every entry
    let s ← (getArr j "set") >>= fun a => a.mapM parseObj
    pure (Json.mkObj [("relocatable", Json.bool (Spec.relocatableB s)),
      ("placed", Json.arr (s.map fun e => Json.arr #[ofChars e.loc, ofChars (Spec.placeOf s e).loc]).toArray)])
  | _ => none
end Pkgcore.Driver.C25
