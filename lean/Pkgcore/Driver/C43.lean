import Pkgcore.Base.Proto
import Pkgcore.Spec.C43
namespace Pkgcore.Driver.C43
open Lean Pkgcore.Proto Pkgcore.C43

def parseSec (j : Json) : Option (C43.Name × Sec) := do
  let name ← getStr j "name"
  let inherit : Option (List C43.Name) ← match j.getObjVal? "inherit" with
    | .ok .null => some none
    | .ok (.arr _) => (getStrs j "inherit").map some
    | _ => none
  let io ← getBool j "inherit_only"
  let itemsJ ← getArr j "items"
  let items ← itemsJ.mapM fun x => match x with
    | .arr #[.str k, .str v] => some (k, v)
    | _ => none
  pure (name, ⟨inherit, io, items⟩)

def parseSource (j : Json) : Option Source :=
  match j with
  | .arr a => do
    let src ← a.toList.mapM parseSec
    -- a source is a mapping: section names are unique
    if (src.map (·.1)).eraseDups.length = src.length then some src else none
  | _ => none

def errJson : Err → Json
  | .noSection n => Json.mkObj [("err", "noSection"), ("arg", n)]
  | .inheritOnly => Json.mkObj [("err", "inheritOnly")]
  | .selfMissing n => Json.mkObj [("err", "selfMissing"), ("arg", n)]
  | .recursive n => Json.mkObj [("err", "recursive"), ("arg", n)]
  | .missing n => Json.mkObj [("err", "missing"), ("arg", n)]
  | .noClass => Json.mkObj [("err", "noClass")]

def cfgJson (cfg : List (String × String)) : Json :=
  Json.arr (cfg.map fun (k, v) => Json.arr #[.str k, .str v]).toArray

def verdictJson : Spec.Verdict → Json
  | .noSection => Json.mkObj [("err", "noSection")]
  | .inheritOnly => Json.mkObj [("err", "inheritOnly")]
  | .missing => Json.mkObj [("err", "missing")]
  | .cyclic => Json.mkObj [("err", "cyclic")]
  | .notTree => Json.mkObj [("unspecified", "notTree")]
  | .noClass => Json.mkObj [("err", "noClass")]
  | .ok cfg => Json.mkObj [("ok", cfgJson cfg)]

def handle : Handler := fun cmd j =>
  match cmd with
  | "c43.collapse" => do
    let srcsJ ← getArr j "sources"
    let sources ← srcsJ.mapM parseSource
    let name ← getStr j "name"
    let lk := buildLookup sources
    let model := match collapse lk name with
      | .ok cfg => Json.mkObj [("ok", cfgJson cfg)]
      | .error e => errJson e
    let order := match inherited lk name with
      | .ok l => Json.arr (l.map fun e => Json.arr #[.str e.name, toJson e.rest.length]).toArray
      | .error _ => Json.null
    pure (Json.mkObj [("model", model), ("order", order), ("spec", verdictJson (Spec.collapse sources name))])
  | _ => none
end Pkgcore.Driver.C43
