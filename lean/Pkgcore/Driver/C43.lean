import Pkgcore.Base.Proto
import Pkgcore.Spec.C43
namespace Pkgcore.Driver.C43
open Lean Pkgcore.Proto Pkgcore.C43

def parseSec (j : Json) : Option (C43.Name × Sec) := do
  let name ← getStr j "name"
  let inherit : Option (List C43.Name) ← match j.getObjVal? "inherit" with
    | .ok .null => some none
    | .ok (.arr _) => (getStrs j "inherit").map some
    | _ => none
  let io ← getBool j "inherit_only"
  let itemsJ ← getArr j "items"
  let items ← itemsJ.mapM fun x => match x with
    | .arr #[.str k, .str v] => some (k, v)
    | _ => none
  pure (name, ⟨inherit, io, items⟩)

def parseSource (j : Json) : Option Source :=
  match j with
  | .arr a => do
    let src ← a.toList.mapM parseSec
    -- a source is a mapping: section names are unique
    if (src.map (·.1)).eraseDups.length = src.length then some src else none
  | _ => none

def errJson : Err → Json
  | .noSection n => Json.mkObj [("err", "noSection"), ("arg", n)]
  | .inheritOnly => Json.mkObj [("err", "inheritOnly")]
  | .selfMissing n => Json.mkObj [("err", "selfMissing"), ("arg", n)]
  | .recursive n => Json.mkObj [("err", "recursive"), ("arg", n)]
  | .missing n => Json.mkObj [("err", "missing"), ("arg", n)]
  | .noClass => Json.mkObj [("err", "noClass")]

def cfgJson (cfg : List (String × String)) : Json :=
  Json.arr (cfg.map fun (k, v) => Json.arr #[.str k, .str v]).toArray

def verdictJson : Spec.Verdict → Json
  | .noSection => Json.mkObj [("err", "noSection")]
  | .inheritOnly => Json.mkObj [("err", "inheritOnly")]
  | .missing => Json.mkObj [("err", "missing")]
  | .cyclic => Json.mkObj [("err", "cyclic")]
  | .notTree => Json.mkObj [("unspecified", "notTree")]
  | .noClass => Json.mkObj [("err", "noClass")]
  | .ok cfg => Json.mkObj [("ok", cfgJson cfg)]

def optStr : Option String → Json
  | none => Json.null
  | some v => Json.str v

/-- the reserved name standing for `None` must not be used by the input -/
def usesAnon (sources : List Source) (extra : List Sec) : Bool :=
  sources.any (fun src => src.any (fun p => p.1 == anonName || (p.2.inherit.getD []).contains anonName)) ||
  extra.any (fun s => (s.inherit.getD []).contains anonName)

def modelJson (r : Except Err (List (String × String))) (dflt : Except Err (List Entry)) : Json :=
  match r with
  | .ok cfg => Json.mkObj [("ok", cfgJson cfg), ("default", match dflt with | .ok l => optStr (defaultOf l) | .error _ => Json.null)]
  | .error e => errJson e

def specJson (v : Spec.Verdict × Option String) : Json :=
  match v.1 with
  | .ok cfg => Json.mkObj [("ok", cfgJson cfg), ("default", optStr v.2)]
  | other => verdictJson other

def handle : Handler := fun cmd j =>
  match cmd with
  | "c43.collapse" => do
    let srcsJ ← getArr j "sources"
    let sources ← srcsJ.mapM parseSource
    let name ← getStr j "name"
    if usesAnon sources [] then return Json.str "bad-op"
    let lk := buildLookup sources
    let model := modelJson (collapse lk name) (inherited lk name)
    let order := match inherited lk name with
      | .ok l => Json.arr (l.map fun e => Json.arr #[.str e.name, toJson e.rest.length]).toArray
      | .error _ => Json.null
    pure (Json.mkObj [("model", model), ("order", order), ("spec", specJson (Spec.collapseD sources name))])
  | "c43.history" => do
    -- a manager over time: {"sources": [...], "ops": [{"op":"collapse","name":n} | {"op":"add","source":[...]} | {"op":"reload"}]}
    let srcsJ ← getArr j "sources"
    let sources ← srcsJ.mapM parseSource
    let opsJ ← getArr j "ops"
    let ops ← opsJ.mapM fun o => do
      let k ← getStr o "op"
      match k with
      | "collapse" => (getStr o "name").map MOp.collapse
      | "add" => ((o.getObjVal? "source").toOption >>= parseSource).map MOp.addSource
      | "reload" => some MOp.reload
      | "anon" => ((o.getObjVal? "section").toOption >>= parseSec).map (fun p => MOp.collapseAnon p.2)
      | _ => none
    if usesAnon (sources ++ ops.filterMap (fun o => match o with | .addSource s => some s | _ => none))
        (ops.filterMap (fun o => match o with | .collapseAnon s => some s | _ => none)) then return Json.str "bad-op"
    let rec go (m : Mgr) : List MOp → List Json
      | [] => []
      | op :: rest =>
        let r := m.step op
        let out := match op, r.2 with
          | .collapse n, some res =>
            Json.mkObj [("model", modelJson res (inherited m.lookup n)), ("spec", specJson (Spec.collapseD m.sources n))]
          | .collapseAnon sec, some res =>
            Json.mkObj [("model", modelJson res (inheritedAnon m.lookup sec)), ("spec", specJson (Spec.collapseAnonD m.sources sec))]
          | _, _ => Json.str "ok"
        out :: go r.1 rest
    pure (Json.arr (go (Mgr.init sources) ops).toArray)
  | _ => none
end Pkgcore.Driver.C43
