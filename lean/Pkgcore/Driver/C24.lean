import Pkgcore.Base.Proto
import Pkgcore.Spec.C24
namespace Pkgcore.Driver.C24
open Lean Pkgcore.Proto Pkgcore.C24

/-- entries travel as `["obj", loc, md5 (decimal string), mtime (decimal string)]`, `["sym", loc, target, mtime]`,
`["dir"|"dev"|"fif", loc]` -/
def parseEntry : Json → Option Entry
  | .arr #[.str "obj", .str loc, .str md5, .str mt] => do
    let m ← md5.toNat?
    let t ← mt.toInt?
    pure (.obj loc.toList m t)
  | .arr #[.str "sym", .str loc, .str tgt, .str mt] => do
    let t ← mt.toInt?
    pure (.sym loc.toList tgt.toList t)
  | .arr #[.str "dir", .str loc] => some (.dir loc.toList)
  | .arr #[.str "dev", .str loc] => some (.dev loc.toList)
  | .arr #[.str "fif", .str loc] => some (.fif loc.toList)
  | _ => none

def ofEntry : Entry → Json
  | .obj loc md5 mt => .arr #[.str "obj", ofChars loc, .str (toString md5), .str (toString mt)]
  | .sym loc tgt mt => .arr #[.str "sym", ofChars loc, ofChars tgt, .str (toString mt)]
  | .dir loc => .arr #[.str "dir", ofChars loc]
  | .dev loc => .arr #[.str "dev", ofChars loc]
  | .fif loc => .arr #[.str "fif", ofChars loc]

def parseEntries (j : Json) (k : String) : Option (List Entry) := (getArr j k) >>= fun a => a.mapM parseEntry

def ofOp : FsOp → Json
  | .creat p => .arr #[.str "creat", ofChars p]
  | .write p d => .arr #[.str "write", ofChars p, ofChars d]
  | .close p => .arr #[.str "close", ofChars p]
  | .chmod p m => .arr #[.str "chmod", ofChars p, toJson m]
  | .chown p u g => .arr #[.str "chown", ofChars p, toJson u, toJson g]
  | .utime p t => .arr #[.str "utime", ofChars p, toJson t]
  | .mkdir p => .arr #[.str "mkdir", ofChars p]
  | .rename a b => .arr #[.str "rename", ofChars a, ofChars b]
  | .unlink p => .arr #[.str "unlink", ofChars p]

def optStr : Option Str → Json
  | some s => ofChars s
  | none => .null

def parseFs (j : Json) (k : String) : Option Fs := do
  let a ← getArr j k
  a.mapM fun x => match x with
    | .arr #[.str p, .str c] => some (p.toList, c.toList)
    | _ => none

def parseSetOp : Json → Option SetOp
  | Json.arr #[Json.str "add", e] => (parseEntry e).map .add
  | Json.arr #[Json.str "discard", Json.str l] => some (.discard l.toList)
  | Json.arr #[Json.str "clear"] => some .clear
  | Json.arr #[Json.str "update", Json.arr es] => (es.toList.mapM parseEntry).map .update
  | Json.arr #[Json.str "difference", Json.arr ls] =>
    (ls.toList.mapM fun (x : Json) => match x with | Json.str l => some l.toList | _ => none).map .differenceUpdate
  | Json.arr #[Json.str "intersection", Json.arr ls] =>
    (ls.toList.mapM fun (x : Json) => match x with | Json.str l => some l.toList | _ => none).map .intersectionUpdate
  | Json.arr #[Json.str "symdiff", Json.arr es] => (es.toList.mapM parseEntry).map .symDiffUpdate
  | _ => none

def handle : Handler := fun cmd j =>
  match cmd with
  | "c24.history" => do
    -- the set after a history of mutating operations, and the text flush() writes for it
    let es ← parseEntries j "initial"
    let ops ← (getArr j "ops") >>= fun a => a.mapM parseSetOp
    let fin := applyOps es ops
    pure (Json.mkObj [("set", Json.arr (fin.map ofEntry).toArray), ("text", ofChars (renderFile fin))])
  | "c24.abortops" => do
    let d ← chars j "dir"
    let b ← chars j "base"
    let cs ← getStrs j "written"
    pure (Json.arr ((abortOps d b (cs.map String.toList)).map ofOp).toArray)
  | "c24.render" => do
    -- the text ContentsFile._write produces for the set
    let es ← parseEntries j "entries"
    pure (ofChars (renderFile es))
  | "c24.read" => do
    -- ContentsFile(path) on a file with this text: entries, or "raise"
    let t ← chars j "text"
    pure (match readContents t with
      | some es => Json.mkObj [("ok", Json.arr (es.map ofEntry).toArray)]
      | none => Json.str "raise")
  | "c24.normpath" => do
    let p ← chars j "path"
    pure (ofChars (normpath p))
  | "c24.flushops" => do
    let d ← chars j "dir"
    let b ← chars j "base"
    let cs ← getStrs j "chunks"
    pure (Json.arr ((flushOps d b (cs.map String.toList)).map ofOp).toArray)
  | "c24.crash" => do
    -- state of target and temp file after the first k operations of flush()
    let d ← chars j "dir"
    let b ← chars j "base"
    let cs ← getStrs j "chunks"
    let k ← getNat j "k"
    let fs ← parseFs j "fs"
    let fs' := run ((flushOps d b (cs.map String.toList)).take k) fs
    pure (Json.mkObj [("target", optStr (fs'.read (targetName d b))), ("tmp", optStr (fs'.read (tmpName d b))),
                      ("nops", toJson (flushOps d b (cs.map String.toList)).length)])
  | _ => none
end Pkgcore.Driver.C24
