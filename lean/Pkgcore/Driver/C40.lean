import Pkgcore.Base.Proto
import Pkgcore.Spec.C40
namespace Pkgcore.Driver.C40
open Lean Pkgcore.Proto Pkgcore.C40
open Pkgcore.C01 (Ver Suf)

def sufOfName : String → Option Suf
  | "alpha" => some .alpha | "beta" => some .beta | "pre" => some .pre | "rc" => some .rc | "p" => some .p
  | _ => none

def parseVer (j : Json) : Option Ver := do
  let comps ← getStrs j "comps"
  let letter : Option Char ← match j.getObjVal? "letter" with
    | .ok (.str s) => (match s.toList with | [c] => some (some c) | _ => none)
    | .ok .null => some none
    | _ => none
  let sufsJ ← getArr j "sufs"
  let sufs ← sufsJ.mapM fun x => match x with
    | .arr #[.str n, .str d] => (sufOfName n).map (·, d.toList)
    | _ => none
  pure ⟨comps.map String.toList, letter, sufs⟩

def strs (j : Json) (k : String) : Option (List Str) := (getStrs j k).map (·.map String.toList)

def parsePkg (j : Json) : Option Pkg := do
  let key ← chars j "key"
  let ver ← (j.getObjVal? "ver").toOption >>= parseVer
  let rev ← chars j "rev"
  let kw ← strs j "keywords"
  let live ← getBool j "live"
  pure ⟨key, ver, rev, kw, live⟩

def parseRepo (j : Json) : Option Repo := do
  let known ← strs j "known"
  let ps ← getArr j "pkgs"
  let pkgs ← ps.mapM parsePkg
  pure ⟨known, pkgs⟩

def parseReq (j : Json) : Option Req := do
  let text ← chars j "text"
  let op ← chars j "op"
  let slotted ← getBool j "slotted"
  let ms ← getArr j "matched"
  let matched ← ms.mapM fun x => x.getNat?.toOption
  let written ← strs j "written"
  pure ⟨text, op, slotted, matched, written⟩

def parseOpts (j : Json) : Option Opts := do
  let stable ← getBool j "stable"
  let cc ← strs j "cc"
  let onlyNew ← getBool j "only_new"
  let fa ← strs j "filter_arch"
  let allarches ← getBool j "allarches"
  pure ⟨stable, cc, onlyNew, fa, allarches⟩

def excJson : Exc → Json
  | .packageInvalid => Json.arr #["PackageInvalid"]
  | .packageNoMatch => Json.arr #["PackageNoMatch"]
  | .keywordNoMatch => Json.arr #["KeywordNoMatch"]
  | .keywordNotSpecified ps => Json.arr #["KeywordNotSpecified", ofStrs ps]
  | .keywordNoneLeft => Json.arr #["KeywordNoneLeft"]
  | .packageListEmpty => Json.arr #["PackageListEmpty"]
  | .packageListDoneAlready => Json.arr #["PackageListDoneAlready"]

def handle : Handler := fun cmd j =>
  match cmd with
  | "c40.match" => do
    let repo ← (j.getObjVal? "repo").toOption >>= parseRepo
    let rs ← getArr j "requests"
    let reqs ← rs.mapM parseReq
    let o ← (j.getObjVal? "opts").toOption >>= parseOpts
    let (ys, e) := matchPackages repo o reqs
    pure (Json.mkObj [("yields", Json.arr (ys.map fun (i, k) => Json.arr #[toJson i, ofStrs k]).toArray),
                      ("exc", match e with | some x => excJson x | none => Json.null)])
  | "c40.suggested" => do
    let repo ← (j.getObjVal? "repo").toOption >>= parseRepo
    let stable ← getBool j "stable"
    pure (Json.arr (repo.pkgs.map fun p => ofStrs (sortKw (suggested repo p stable))).toArray)
  | "c40.best" => do
    let repo ← (j.getObjVal? "repo").toOption >>= parseRepo
    let ms ← getArr j "matched"
    let idx ← ms.mapM fun x => x.getNat?.toOption
    let l : List (Nat × Pkg) := idx.filterMap fun i => (repo.pkgs[i]?).map (i, ·)
    pure (match selectBest l with | some (i, _) => toJson i | none => Json.null)
  | _ => none
end Pkgcore.Driver.C40
