import Pkgcore.Base.Proto
import Pkgcore.Spec.C16
/-!
Driver for C16.  Request

    {"cmd":"c16.stream", "repos":[{"livefs":bool, "pkgs":[{"id":n, "ver":{comps,letter,sufs}, "rev":"…"}]}]}

(repositories in the order the resolver was given them, packages in the order the repository lists them).
Reply {"upgrade":[ids], "reuse":[ids]}.
-/
namespace Pkgcore.Driver.C16
open Lean Pkgcore.Proto Pkgcore.C16 Pkgcore.C01

def sufOfName : String → Option Suf
  | "alpha" => some .alpha | "beta" => some .beta | "pre" => some .pre | "rc" => some .rc | "p" => some .p
  | _ => none

def parseVer (j : Json) : Option Ver := do
  let comps ← getStrs j "comps"
  let letter : Option Char ← match j.getObjVal? "letter" with
    | .ok (.str s) => (match s.toList with | [c] => some (some c) | _ => none)
    | .ok .null => some none
    | _ => none
  let sufsJ ← getArr j "sufs"
  let sufs ← sufsJ.mapM fun x => match x with
    | .arr #[.str n, .str d] => (sufOfName n).map (·, d.toList)
    | _ => none
  pure ⟨comps.map String.toList, letter, sufs⟩

def parseRepo (j : Json) : Option Repo := do
  let livefs ← getBool j "livefs"
  let pk ← getArr j "pkgs"
  pk.mapM fun p => do
    let id ← getNat p "id"
    let ver ← (p.getObjVal? "ver").toOption >>= parseVer
    let rev ← getStr p "rev"
    pure ⟨id, ver, rev.toList, livefs⟩

def handle : Handler := fun cmd j =>
  match cmd with
  | "c16.stream" =>
    match (getArr j "repos").bind (·.mapM parseRepo) with
    | some dbs =>
      some (Json.mkObj [("upgrade", toJson ((upgradeStream dbs).map (·.id))), ("reuse", toJson ((reuseStream dbs).map (·.id)))])
    | none => some (Json.str "bad-op")
  | _ => none
end Pkgcore.Driver.C16
