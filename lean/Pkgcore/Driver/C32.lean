import Pkgcore.Base.Proto
import Pkgcore.Spec.C32
namespace Pkgcore.Driver.C32
open Lean Pkgcore.Proto Pkgcore.C32 Pkgcore.C32.Spec
open Pkgcore.C31 (Str)

def parseRet (j : Json) : Option Ret :=
  match j with
  | .null => some .none
  | .str s => some (.str s.toList)
  | .num _ => (j.getInt?.toOption).map .int
  | .arr #[c, .str m] => (c.getInt?.toOption).map (.tuple · m.toList)
  | _ => none

/-- `{"ok": ret}` | `{"err": [code, msg]}` | `"other"` -/
def parseOutcome (j : Json) : Option Outcome :=
  match j with
  | .str "other" => some .otherError
  | _ =>
    match j.getObjVal? "ok" with
    | .ok r => (parseRet r).map .ok
    | .error _ =>
      match j.getObjVal? "err" with
      | .ok (.arr #[c, .str m]) => (c.getInt?.toOption).map (.cmdError · m.toList)
      | _ => none

def retToJson : Ret → Json
  | .none => Json.null
  | .int n => toJson n
  | .str s => ofChars s
  | .tuple c m => Json.arr #[toJson c, ofChars m]

def outcomeToJson : Outcome → Json
  | .ok r => Json.mkObj [("ok", retToJson r)]
  | .cmdError c m => Json.mkObj [("err", Json.arr #[toJson c, ofChars m])]
  | .otherError => Json.str "other"

/-- world: `splits` = table `[option string, null | [words], ValueError message]` (`shlex.split` of the harness'
own Python; unknown strings split to nothing), `badcwds` = directories that do not exist, outcomes keyed by the
NUL-joined parsed arguments (`default` otherwise) -/
def parseWorld (j : Json) : Option World := do
  let sp ← getArr j "splits"
  let splits ← sp.mapM fun (x : Json) => match x with
    | Json.arr #[Json.str k, Json.null, Json.str m] => some (k.toList, (none : Option (List Str)), m.toList)
    | Json.arr #[Json.str k, Json.arr a, Json.str m] =>
      (a.toList.mapM fun (y : Json) => match y with | Json.str w => some w.toList | _ => none).map
        fun ws => (k.toList, some ws, m.toList)
    | _ => none
  let bad ← getStrs j "badcwds"
  let dflt ← (j.getObjVal? "default").toOption >>= parseOutcome
  let tbl ← getArr j "outcomes"
  let table ← tbl.mapM fun (x : Json) => match x with
    | Json.arr #[Json.str k, o] => (parseOutcome o).map (k.toList, ·)
    | _ => none
  pure { split := fun o => match splits.lookup o with | some (r, _) => r | none => some []
         splitMsg := fun o => match splits.lookup o with | some (_, m) => m | none => []
         cwdOk := fun d => !(bad.map String.toList).contains d
         body := fun _ _ _ _ args => (table.lookup (C31.joinSep ['\x00'] args)).getD dflt }

def parseRequest (j : Json) : Option Request := do
  pure ⟨← chars j "nonfatal", ← chars j "cwd", ← chars j "phase", ← chars j "options", ← chars j "args"⟩

def endToJson : SessionEnd → Json
  | .finished ok => Json.mkObj [("finished", toJson ok)]
  | .buildFailed => Json.str "buildFailed"
  | .unhandled l => Json.mkObj [("unhandled", ofChars l)]
  | .eof => Json.str "eof"
  | .outOfFuel => Json.str "outOfFuel"

def handle : Handler := fun cmd j =>
  match cmd with
  | "c32.encode" => do
    let r ← (j.getObjVal? "ret").toOption >>= parseRet
    pure (Json.arr #[ofChars (encodeRet r), ofChars (encodeRetLegacy r)])
  | "c32.serve" => do
    let w ← parseWorld j
    let r ← parseRequest j
    let name ← chars j "name"
    let (replies, go) := serve w name r
    pure (Json.mkObj [("replies", ofStrs replies), ("go", toJson go),
      ("args", ofStrs (parseArgs (strip r.args))), ("outcome", outcomeToJson (outcomeOf w name r))])
  | "c32.session" => do
    let w ← parseWorld j
    let helpers ← getStrs j "helpers"
    let lines ← getStrs j "lines"
    let ls := lines.map String.toList
    let (replies, left, e) := session w (helpers.map String.toList) (ls.length + 1) ls
    pure (Json.mkObj [("replies", ofStrs replies), ("left", ofStrs left), ("end", endToJson e)])
  | "c32.read" => do
    let pipe ← chars j "pipe"
    let n ← getNat j "n"
    match readReplies n pipe with
    | some (oks, rest) => pure (Json.arr #[toJson oks, ofChars rest])
    | none => pure Json.null
  | "c32.install" => do
    let gs ← getArr j "groups"
    let groups ← gs.mapM fun x => match x with
      | .arr #[c, .arr out] => do
        let code ← c.getInt?.toOption
        let lines ← out.toList.mapM fun (y : Json) => match y with | Json.str s => some s.toList | _ => none
        pure (code, lines)
      | _ => none
    pure (Json.arr #[outcomeToJson (installGroups groups), outcomeToJson (installGroupsLegacy groups),
      toJson (succeeded (installGroups groups))])
  | "c32.installdirs" => do
    let w ← (j.getObjVal? "opts").toOption >>= fun x => x.getBool?.toOption
    let ss ← getArr j "steps"
    let optStr : Json → Option (Option Str) := fun x => match x with
      | .null => some none
      | .str e => some (some e.toList)
      | _ => none
    let steps ← ss.mapM fun x => match x with
      | .arr #[.str p, mk, att] => do pure (⟨p.toList, ← optStr mk, ← optStr att⟩ : DirStep)
      | _ => none
    let o := installDirsPy w steps
    pure (Json.arr #[outcomeToJson o, toJson (succeeded o), toJson (dirsDone w steps)])
  | _ => none
end Pkgcore.Driver.C32
