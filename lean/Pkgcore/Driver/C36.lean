import Pkgcore.Base.Proto
import Pkgcore.Spec.C36
namespace Pkgcore.Driver.C36
open Lean Pkgcore.Proto Pkgcore.C36

/-- a file: `null` (missing) or `[size, sumsOk]` -/
def parseFile : Json → Option File
  | .null => some .missing
  | .arr #[sz, .bool ok] => (sz.getNat?.toOption).map (File.present · ok)
  | _ => none

def fileJson : File → Json
  | .missing => .null
  | .present sz ok => .arr #[toJson sz, .bool ok]

def parseTarget (j : Json) : Option Target := do
  let other ← getBool j "other"
  let size : Option Nat ← match j.getObjVal? "size" with
    | .ok .null => some none
    | .ok v => (v.getNat?.toOption).map some
    | _ => none
  pure ⟨size, other⟩

def parseOutcome (j : Json) : Option Outcome := do
  let f ← (j.getObjVal? "file").toOption >>= parseFile
  match j.getObjVal? "status" with       -- the value spawn_bash returned (exit code, or signal <<< 8)
  | .ok v => (v.getNat?.toOption).map (Outcome.ofStatus f)
  | _ => do
    let e ← getBool j "exit0"
    pure ⟨f, e⟩

def resultName : Result → String
  | .returned => "returned" | .missing => "missing" | .tooSmall => "toosmall" | .empty => "empty"
  | .chksum => "chksum" | .outOfUris => "nouris"

def cmdName : Cmd → String
  | .fresh => "fresh" | .resume => "resume"

def handle : Handler := fun cmd j =>
  match cmd with
  | "c36.fetch" => do
    let t ← (j.getObjVal? "target").toOption >>= parseTarget
    let n ← getNat j "attempts"
    let f0 ← (j.getObjVal? "file0").toOption >>= parseFile
    let outs ← (← getArr j "outs").mapM parseOutcome
    let r := fetch t n f0 outs
    pure <| Json.mkObj [
      ("result", Json.str (resultName r.result)),
      ("final", fileJson r.final),
      ("steps", Json.arr (r.steps.map fun s => Json.mkObj [
          ("seen", fileJson s.seen), ("handed", fileJson s.handed), ("cmd", Json.str (cmdName s.cmd)), ("left", fileJson s.left)]).toArray),
      ("spec", Json.bool (Spec.specReturns t n f0 outs)),
      ("verify0", Json.str (resultName (verify t f0).toResult))]
  | "c36.verify" => do
    let t ← (j.getObjVal? "target").toOption >>= parseTarget
    let f ← (j.getObjVal? "file").toOption >>= parseFile
    pure <| Json.mkObj [
      ("verify", Json.str (resultName (verify t f).toResult)),
      ("verified", Json.bool (Spec.Verified t f)),
      ("wrong", Json.bool (Spec.Wrong t f)),
      ("partial", Json.bool (Spec.Partial t f))]
  | _ => none
end Pkgcore.Driver.C36
