import Pkgcore.Base.Proto
import Pkgcore.Spec.C17
/-!
Driver for C17.  Request

    {"cmd":"c17.run", "pkgs":[[key,slot],…], "blks":[[key,[pkg ids matched]],…],
     "steps":[["add",c,p,force] | ["hardref",r] | ["backref",c,p] | ["remove",c,p] | ["replace",c,p,force]
              | ["incref",c,b] | ["decref",c,b] | ["rollback",j] | ["backtrack",k]]}

`rollback j` = back to the position recorded after the j-th surviving operation (the specification's
histories); `backtrack k` = raw `plan_state.backtrack(k)` (only for the model/code comparison).
Reply: {"steps":[{"r":"ok","app":bool,"out":[…],"snap":{…}} | {"r":"raises"} | {"r":"badmark"}] (stops after
the first non-ok), "surviving":[…steps…], "replay": snap | null}.
-/
namespace Pkgcore.Driver.C17
open Lean Pkgcore.Proto Pkgcore.C17

def natArr (j : Json) : Option (List Nat) :=
  match j with
  | .arr a => a.toList.mapM fun x => (fromJson? x : Except String Nat).toOption
  | _ => none

def parseUniv (j : Json) : Option Univ := do
  let pk ← getArr j "pkgs"
  let pk ← pk.mapM fun x => match natArr x with | some [k, s] => some (k, s) | _ => none
  let bl ← getArr j "blks"
  let bl ← bl.mapM fun x => match x with
    | .arr #[k, ms] => do
      let k ← (fromJson? k : Except String Nat).toOption
      let ms ← natArr ms
      pure (k, ms)
    | _ => none
  -- identities outside the tables get attributes that collide with nothing
  pure { pkgKey := fun p => (pk[p]?.map (·.1)).getD (1000000 + p),
         pkgSlot := fun p => (pk[p]?.map (·.2)).getD 0,
         blkKey := fun b => (bl[b]?.map (·.1)).getD (2000000 + b),
         blkMatch := fun b p => (bl[b]?.map (fun e => e.2.contains p)).getD false }

inductive DStep | step (s : Step) | raw (k : Nat)

def parseBool : Json → Option Bool
  | .bool b => some b
  | _ => none

def nat? (j : Json) : Option Nat := (fromJson? j : Except String Nat).toOption

def parseStep (j : Json) : Option DStep :=
  match j with
  | .arr #[.str "add", c, p, f] => do pure (.step (.op (.add (← nat? c) (← nat? p) (← parseBool f))))
  | .arr #[.str "hardref", r] => do pure (.step (.op (.hardref (← nat? r))))
  | .arr #[.str "backref", c, p] => do pure (.step (.op (.backref (← nat? c) (← nat? p))))
  | .arr #[.str "remove", c, p] => do pure (.step (.op (.remove (← nat? c) (← nat? p))))
  | .arr #[.str "replace", c, p, f] => do pure (.step (.op (.replace (← nat? c) (← nat? p) (← parseBool f))))
  | .arr #[.str "incref", c, b] => do pure (.step (.op (.incref (← nat? c) (← nat? b))))
  | .arr #[.str "decref", c, b] => do pure (.step (.op (.decref (← nat? c) (← nat? b))))
  | .arr #[.str "rollback", k] => do pure (.step (.rollback (← nat? k)))
  | .arr #[.str "backtrack", k] => do pure (.raw (← nat? k))
  | _ => none

def cmdJson : Cmd → Json
  | .add c p f => .arr #[.str "add", toJson c, toJson p, .bool f]
  | .hardref r => .arr #[.str "hardref", toJson r]
  | .backref c p => .arr #[.str "backref", toJson c, toJson p]
  | .remove c p => .arr #[.str "remove", toJson c, toJson p]
  | .replace c p f => .arr #[.str "replace", toJson c, toJson p, .bool f]
  | .incref c b => .arr #[.str "incref", toJson c, toJson b]
  | .decref c b => .arr #[.str "decref", toJson c, toJson b]

def entryJson : Entry → Json
  | .add c p f => .arr #[.str "add", toJson c, toJson p, .bool f]
  | .hardref r => .arr #[.str "hardref", toJson r]
  | .backref c p => .arr #[.str "backref", toJson c, toJson p]
  | .remove c p => .arr #[.str "remove", toJson c, toJson p]
  | .replace c p f old oldc => .arr #[.str "replace", toJson c, toJson p, .bool f, toJson old, toJson oldc]
  | .incref c b => .arr #[.str "incref", toJson c, toJson b]
  | .decref c b => .arr #[.str "decref", toJson c, toJson b]

def pairJson (x : Nat × Nat) : Json := .arr #[toJson x.1, toJson x.2]

def snapJson (s : State) : Json :=
  let keys := (s.choices.map (·.1)).eraseDups
  let ch := keys.filterMap fun p => (s.choices.lookup p).map fun c => (p, c)
  Json.mkObj [("slots", toJson s.slots), ("limiters", toJson s.limiters),
    ("choices", .arr (ch.map pairJson).toArray), ("revb", .arr (s.revb.map pairJson).toArray),
    ("refcnt", toJson s.refcnt), ("vdb", toJson s.vdb), ("forced", toJson s.forced),
    ("plan", .arr (s.plan.map entryJson).toArray)]

def confJson : Conf → Json
  | .blk b => .arr #[.str "b", toJson b]
  | .pkg p => .arr #[.str "p", toJson p]

/-- run the steps one by one, collecting the per-step replies; stop at the first failure -/
def runSteps (U : Univ) : Run → List DStep → List Json → List Json
  | _, [], acc => acc.reverse
  | r, .raw k :: rest, acc =>
    match backtrack U r.st k with
    | some s => runSteps U ⟨s, r.marks⟩ rest (Json.mkObj [("r", "ok"), ("app", true), ("out", .arr #[]), ("snap", snapJson s)] :: acc)
    | none => (Json.mkObj [("r", "raises")] :: acc).reverse
  | r, .step (.op c) :: rest, acc =>
    let app := applicable U r.st c
    match applyCmd U r.st c with
    | some (s, out) =>
      runSteps U ⟨s, r.marks ++ [s.plan.length]⟩ rest
        (Json.mkObj [("r", "ok"), ("app", app), ("out", .arr (out.map confJson).toArray), ("snap", snapJson s)] :: acc)
    | none => (Json.mkObj [("r", "raises"), ("app", app)] :: acc).reverse
  | r, .step (.rollback j) :: rest, acc =>
    match execStep U r (.rollback j) with
    | .ok r' => runSteps U r' rest (Json.mkObj [("r", "ok"), ("app", true), ("out", .arr #[]), ("snap", snapJson r'.st)] :: acc)
    | .error .badMark => (Json.mkObj [("r", "badmark")] :: acc).reverse
    | .error _ => (Json.mkObj [("r", "raises")] :: acc).reverse

def handle : Handler := fun cmd j =>
  match cmd with
  | "c17.run" =>
    match parseUniv j, (getArr j "steps").bind (·.mapM parseStep) with
    | some U, some steps =>
      let per := runSteps U Run.init steps []
      let pure? := steps.mapM fun d => match d with | .step s => some s | .raw _ => none
      let (surv, rep) : Json × Json := match pure? with
        | some h =>
          let cs := surviving h []
          (.arr (cs.map cmdJson).toArray, match replay U init cs with | some t => snapJson t | none => .null)
        | none => (.null, .null)
      some (Json.mkObj [("steps", .arr per.toArray), ("surviving", surv), ("replay", rep)])
    | _, _ => some (Json.str "bad-op")
  | _ => none
end Pkgcore.Driver.C17
