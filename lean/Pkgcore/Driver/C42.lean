import Pkgcore.Base.Proto
import Pkgcore.Spec.C42
namespace Pkgcore.Driver.C42
open Lean Pkgcore.Proto Pkgcore.C42

def parseAtom (j : Json) : Option Atom := do
  let text ← getStr j "text"
  let key ← getStr j "key"
  let v ← getBool j "versioned"
  let s ← getBool j "slotted"
  pure ⟨text, key, v, s⟩

def parseTok (j : Json) : Option Tok := do
  let text ← getStr j "text"
  let slotOk ← getBool j "slotOk"
  let atom : Option Atom ← match j.getObjVal? "atom" with
    | .ok .null => some none
    | .ok a => (parseAtom a).map some
    | _ => none
  pure ⟨text, atom, slotOk⟩

def parseLines (j : Json) (k : String) : Option (List (List Tok)) := do
  let ls ← getArr j k
  ls.mapM fun l => match l with
    | .arr a => a.toList.mapM parseTok
    | _ => none

def parseFile (j : Json) : Option UFile := do
  let name ← getStr j "name"
  let key : Option (Nat × Nat) ← match j.getObjVal? "key" with
    | .ok .null => some none
    | .ok (.arr #[y, q]) => (do let y ← y.getNat?.toOption; let q ← q.getNat?.toOption; pure (some (y, q)))
    | _ => none
  let lines ← parseLines j "lines"
  pure ⟨name, key, lines⟩

def cmdJson : Cmd → Json
  | .move s t => Json.arr #[.str "move", .str s.text, .str t.text, .str s.key]
  | .slotmove s f t => Json.arr #[.str "slotmove", .str (s.text ++ ":" ++ f), .str t, .str s.key]

def cmdsJson (cs : List Cmd) : Json := Json.arr (cs.map cmdJson).toArray

def handle : Handler := fun cmd j =>
  match cmd with
  | "c42.read" => do
    let fs ← getArr j "files"
    let files ← fs.mapM parseFile
    let order := (scan files).map fun f => Json.str f.name
    let m := (readUpdates files).map fun e => Json.arr #[.str e.1, cmdsJson e.2]
    pure (Json.mkObj [("order", Json.arr order.toArray), ("map", Json.arr m.toArray)])
  | "c42.spec" => do
    let lines ← parseLines j "lines"
    let keys ← getStrs j "keys"
    let out := keys.map fun k => match Spec.reference lines k with
      | some cs => Json.arr #[.str k, cmdsJson cs]
      | none => Json.arr #[.str k, .null]
    pure (Json.arr out.toArray)
  | _ => none
end Pkgcore.Driver.C42
