import Pkgcore.Base.Proto
import Pkgcore.Spec.C15
/-!
Driver for C15.  Request

    {"cmd":"c15.check",
     "pkgs":[{"id":n,"key":n,"ver":{"comps":[…],"letter":null|"a","sufs":[["rc","1"],…]},"rev":"","slot":n,"livefs":bool,
              "deps":[ [clause,…] ×5 ]}],           clause = [atom,…]
     "targets":[atom,…], "plan":[["add",id]|["replace",old,id]|["remove",id]], "atoms":[atom,…]}
    atom = {"blocks":bool,"key":n,"vop":null|[op,ver,rev],"slot":null|n}

Reply {"ok":bool, "problems":[…], "final":[ids]|null, "merged":[ids]|null, "match":[[ids of pkgs matched by atoms[i]],…]}.

    {"cmd":"c15.reorder", "clauses":[ [[blocks,pref],…], … ]}      one pair of flags per alternative, in clause order
Reply [[positions of the alternatives in the order the search tries them], …].
-/
namespace Pkgcore.Driver.C15
open Lean Pkgcore.Proto Pkgcore.C15 Pkgcore.C01

def sufOfName : String → Option Suf
  | "alpha" => some .alpha | "beta" => some .beta | "pre" => some .pre | "rc" => some .rc | "p" => some .p
  | _ => none

def parseVer (j : Json) : Option Ver := do
  let comps ← getStrs j "comps"
  let letter : Option Char ← match j.getObjVal? "letter" with
    | .ok (.str s) => (match s.toList with | [c] => some (some c) | _ => none)
    | .ok .null => some none
    | _ => none
  let sufsJ ← getArr j "sufs"
  let sufs ← sufsJ.mapM fun x => match x with
    | .arr #[.str n, .str d] => (sufOfName n).map (·, d.toList)
    | _ => none
  pure ⟨comps.map String.toList, letter, sufs⟩

def nat? (j : Json) : Option Nat := (fromJson? j : Except String Nat).toOption

def parseAtom (j : Json) : Option Atom := do
  let blocks ← getBool j "blocks"
  let key ← getNat j "key"
  let vop ← match j.getObjVal? "vop" with
    | .ok .null => some none
    | .ok (.arr #[.str op, v, .str r]) => (parseVer v).map fun v => some (op, v, some r.toList)
    | _ => none
  let slot ← match j.getObjVal? "slot" with
    | .ok .null => some none
    | .ok x => (nat? x).map some
    | _ => none
  pure ⟨blocks, key, vop, slot⟩

def parsePkg (j : Json) : Option Pkg := do
  let id ← getNat j "id"
  let key ← getNat j "key"
  let ver ← (j.getObjVal? "ver").toOption >>= parseVer
  let rev ← getStr j "rev"
  let slot ← getNat j "slot"
  let livefs ← getBool j "livefs"
  let depsJ ← getArr j "deps"
  let deps ← depsJ.mapM fun cls => match cls with
    | .arr cs => cs.toList.mapM fun cl => match cl with
      | .arr as => as.toList.mapM parseAtom
      | _ => none
    | _ => none
  pure ⟨id, key, ver, some rev.toList, slot, livefs, deps⟩

def parseOp (j : Json) : Option Op :=
  match j with
  | .arr #[.str "add", p] => (nat? p).map .add
  | .arr #[.str "replace", o, p] => do pure (.replace (← nat? o) (← nat? p))
  | .arr #[.str "remove", p] => (nat? p).map .remove
  | _ => none

def problemJson : Problem → Json
  | .ids => .arr #[.str "ids"]
  | .malformed => .arr #[.str "malformed"]
  | .target i => .arr #[.str "target", toJson i]
  | .slot p q => .arr #[.str "slot", toJson p, toJson q]
  | .clause p cls cl => .arr #[.str "clause", toJson p, toJson cls, toJson cl]

def parseFlags (j : Json) : Option (Bool × Bool) :=
  match j with
  | .arr #[.bool b, .bool p] => some (b, p)
  | _ => none

def reorderIdx (fl : List (Bool × Bool)) : List Nat :=
  (reorderClause (fun x : Nat × Bool × Bool => x.2.1) (fun x => x.2.2) ((List.range fl.length).zip fl)).map (·.1)

def handle : Handler := fun cmd j =>
  match cmd with
  | "c15.reorder" =>
    let r : Option Json := do
      let cls ← (← getArr j "clauses").mapM fun c => match c with
        | .arr fs => fs.toList.mapM parseFlags
        | _ => none
      pure (.arr (cls.map fun fl => toJson (reorderIdx fl)).toArray)
    some (r.getD (Json.str "bad-op"))
  | "c15.check" =>
    let r : Option Json := do
      let U ← (← getArr j "pkgs").mapM parsePkg
      let targets ← (← getArr j "targets").mapM parseAtom
      let plan ← (← getArr j "plan").mapM parseOp
      let atoms ← (← getArr j "atoms").mapM parseAtom
      let fin := finalSet U plan
      pure (Json.mkObj [
        ("ok", planOk U targets plan),
        ("problems", .arr ((problems U targets plan).map problemJson).toArray),
        ("final", match fin with | some f => toJson f.1 | none => .null),
        ("merged", match fin with | some f => toJson f.2 | none => .null),
        ("match", .arr (atoms.map fun a => toJson ((U.filter (atomMatch a)).map (·.id))).toArray)])
    some (r.getD (Json.str "bad-op"))
  | _ => none
end Pkgcore.Driver.C15
