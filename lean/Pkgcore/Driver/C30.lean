import Pkgcore.Base.Proto
import Pkgcore.Spec.C30
namespace Pkgcore.Driver.C30
open Lean Pkgcore.Proto Pkgcore.C30

def optLine (j : Json) (k : String) : Option (Option Line) :=
  match j.getObjVal? k with
  | .ok (.str s) => some (some s.toList)
  | .ok .null => some none
  | _ => none

def parseReq (j : Json) : Option Req := do
  let op ← getStr j "op"
  let key ← chars j "key"
  let slot ← optLine j "slot"
  match op with
  | "add" => some (.add key slot)
  | "remove" => some (.remove key slot)
  | _ => none

def opJson : FsOp → Json
  | .openTrunc p => Json.arr #["open", ofChars p]
  | .chmod p => Json.arr #["chmod", ofChars p]
  | .chown p => Json.arr #["chown", ofChars p]
  | .append p ls => Json.arr #["write", ofChars p, ofStrs ls]
  | .rename s d => Json.arr #["rename", ofChars s, ofChars d]
  | .unlink p => Json.arr #["unlink", ofChars p]

def worldJson : Option World → Json
  | none => .null
  | some w => ofStrs w

/-- initial directory: an association list name → lines -/
def mkFs (files : List (Pkgcore.C30.Name × List Line)) : Fs := fun p => files.lookup p

def prefixes (ops : List FsOp) : List (List FsOp) := (List.range (ops.length + 1)).map ops.take

def go (path : Pkgcore.C30.Name) (w : World) (fs : Fs) : List (Req × Bool) → List Json
  | [] => []
  | (r, fails) :: rs =>
    let res := updateWorldsetF (fun w => [w]) path w r fails
    let out := Json.mkObj [
      ("keyerror", Json.bool (modify w r).isNone),
      ("mem", ofStrs res.1),
      ("ops", Json.arr (res.2.map opJson).toArray),
      ("states", Json.arr ((prefixes res.2).map fun pre =>
          let fs' := run pre fs
          Json.arr #[worldJson (readWorld fs' path), Json.bool (fs' (tmpName path)).isSome]).toArray)]
    out :: go path res.1 (run res.2 fs) rs

def handle : Handler := fun cmd j =>
  match cmd with
  | "c30.update" => do
    let path ← chars j "path"
    let lines ← (← getStrs j "lines").mapM (fun s => some s.toList)
    let stale ← getBool j "stale_tmp"
    let reqs ← (← getArr j "reqs").mapM fun x => do
      let r ← parseReq x
      let f := match x.getObjVal? "fail" with | .ok (.bool b) => b | _ => false
      pure (r, f)
    let fs := mkFs ((path, lines) :: (if stale then [(tmpName path, [['x']])] else []))
    pure <| Json.mkObj [("initial", ofStrs (parse lines)), ("tmp", ofChars (tmpName path)),
                        ("steps", Json.arr (go path (parse lines) fs reqs).toArray)]
  | "c30.discard" => do
    -- a flush whose body raises after the temp file was opened: `f.discard()` (theorem flush_discard_keeps_old)
    let path ← chars j "path"
    let lines ← (← getStrs j "lines").mapM (fun s => some s.toList)
    let stale ← getBool j "stale_tmp"
    let chunks ← (← getArr j "chunks").mapM fun c => match c with
      | .arr a => a.toList.mapM fun x => match x with | .str s => some s.toList | _ => none
      | _ => none
    let fs := mkFs ((path, lines) :: (if stale then [(tmpName path, [['x']])] else []))
    let ops := discardOps path chunks
    pure <| Json.mkObj [
      ("ops", Json.arr (ops.map opJson).toArray),
      ("states", Json.arr ((prefixes ops).map fun pre =>
          let fs' := run pre fs
          Json.arr #[worldJson (readWorld fs' path), Json.bool (fs' (tmpName path)).isSome]).toArray)]
  | "c30.entry" => do
    let key ← chars j "key"
    let slot ← optLine j "slot"
    pure <| Json.arr #[ofChars (worldText key slot), ofChars (Spec.specEntry key slot)]
  | _ => none
end Pkgcore.Driver.C30
