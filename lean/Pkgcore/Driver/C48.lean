import Pkgcore.Base.Proto
import Pkgcore.Spec.C48
namespace Pkgcore.Driver.C48
open Lean Pkgcore.Proto Pkgcore.C48

def parseInfo (j : Json) : Option Info := do
  pure ⟨← getStr j "md5", ← getStr j "mtime", ← getStr j "dir"⟩

def parseFmt : String → Option Fmt
  | "md5" => some Fmt.md5dict
  | "flat" => some Fmt.flat
  | _ => none

def parseRec (j : Json) : Option (String × List Val) :=
  match j with
  | .arr #[.str n, .arr vs] => do
    let vals ← vs.toList.mapM fun x => match x with | .str s => some s | _ => none
    pure (n, vals)
  | _ => none

def parseSlot (j : Json) : Option Slot :=
  match j with
  | .null => some .absent
  | .str "unreadable" => some .unreadable
  | .obj _ => do
    let chf ← getStr j "chf"
    let ecl : Option (List (String × List Val)) ← match j.getObjVal? "eclasses" with
      | .ok .null => some none
      | .ok (.arr a) => (a.toList.mapM parseRec).map some
      | _ => none
    let inh ← getBool j "inherit"
    let p ← getNat j "payload"
    pure (.entry ⟨chf, ecl, inh, p⟩)
  | _ => none

def parseCache (j : Json) : Option Cache := do
  let fmt ← (getStr j "fmt") >>= parseFmt
  let ro ← getBool j "readonly"
  let slot ← (j.getObjVal? "slot").toOption >>= parseSlot
  pure ⟨fmt, ro, slot⟩

def slotJson : Slot → Json
  | .absent => Json.null
  | .unreadable => Json.str "unreadable"
  | .entry e => Json.mkObj [
      ("chf", e.chf),
      ("eclasses", match e.eclasses with
        | none => Json.null
        | some recs => Json.arr (recs.map fun (n, vs) => Json.arr #[.str n, toJson vs]).toArray),
      ("inherit", e.hasInherit), ("payload", e.payload)]

def handle : Handler := fun cmd j =>
  match cmd with
  | "c48.get" => do
    let ebuild ← (j.getObjVal? "ebuild").toOption >>= parseInfo
    let eclJ ← getArr j "eclasses"
    let ecl ← eclJ.mapM fun x => do
      let n ← getStr x "name"
      let i ← parseInfo x
      pure (n, i)
    let cachesJ ← getArr j "caches"
    let caches ← cachesJ.mapM parseCache
    let regen : Option (List String) ← match j.getObjVal? "regen" with
      | .ok .null => some none
      | .ok (.arr _) => (getStrs j "regen").map some
      | _ => none
    let w : World := ⟨ebuild, fun n => ecl.lookup n⟩
    let (r, cs') := getMetadata w regen caches
    let rj := match r with
      | .used i p => Json.arr #[.str "used", toJson i, toJson p]
      | .regenerated => Json.str "regenerated"
      | .failed => Json.str "failed"
    -- the property's own verdict per cache: does it hold a valid entry?
    let valid := caches.map fun c => match c.slot with
      | .entry e => toJson (Spec.validB w c.fmt e)
      | _ => Json.null
    pure (Json.mkObj [("result", rj), ("caches", Json.arr (cs'.map fun c => slotJson c.slot).toArray),
                      ("valid", Json.arr valid.toArray)])
  | _ => none
end Pkgcore.Driver.C48
