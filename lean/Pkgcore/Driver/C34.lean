import Pkgcore.Base.Proto
import Pkgcore.Spec.C34
namespace Pkgcore.Driver.C34
open Lean Pkgcore.Proto Pkgcore.C34

def matcher (j : Json) (k : String) : Option (Option (List Char → Bool)) :=
  match j.getObjVal? k with
  | .ok .null => some none
  | .ok (.arr a) => do
    let names ← a.toList.mapM fun x => match x with | .str s => some s.toList | _ => none
    some (some fun n => names.contains n)
  | _ => none

def stmtJson (s : Stmt) : Json :=
  .arr #[toJson s.isFunc, toJson s.start, toJson s.stop, ofChars s.name, toJson s.filtered]

def handle : Handler := fun cmd j =>
  match cmd with
  | "c34.run" => do
    let data ← chars j "data"
    let vm ← matcher j "vars"
    let fm ← matcher j "funcs"
    match mainRun data vm fm with
    | .error .index => pure (Json.str "err:index")
    | .error .fuel => pure (Json.str "err:fuel")
    | .ok (out, r) =>
      let spec := Spec.removeRegions (Spec.filteredRegions r.stmts) data
      pure (Json.mkObj [("out", ofChars out), ("spec", ofChars spec), ("pos", toJson r.pos),
        ("windows", .arr (r.windows.map fun w => Json.arr #[toJson w.1, toJson w.2]).toArray),
        ("stmts", .arr (r.stmts.map stmtJson).toArray)])
  | _ => none
end Pkgcore.Driver.C34
