import Pkgcore.Base.Proto
import Pkgcore.Spec.C34
namespace Pkgcore.Driver.C34
open Lean Pkgcore.Proto Pkgcore.C34

def tokens (j : Json) (k : String) : Option (List (List Char)) := (getStrs j k).map fun l => l.map String.toList

/-- the specification's verdict on a name: `some true` = must be removed; `none` = a token is outside the pattern language -/
def specSel (toks : List (List Char)) (wl : Bool) (name : List Char) : Option Bool :=
  if toks = [] then some false else Spec.selectsText toks wl name

def optBool : Option Bool → Json
  | some b => toJson b
  | none => Json.null

def optChars : Option (List Char) → Json
  | some s => ofChars s
  | none => Json.null

def hexDigit (n : Nat) : Char := if n < 10 then Char.ofNat (48 + n) else Char.ofNat (87 + n)

/-- bytes as lower-case hex text (what Python's `bytes.hex()` gives) -/
def hexOf (bs : List UInt8) : String :=
  String.ofList (bs.flatMap fun b => [hexDigit (b.toNat / 16), hexDigit (b.toNat % 16)])

def handle : Handler := fun cmd j =>
  match cmd with
  | "c34.run" => do
    let data ← chars j "data"
    let vt ← tokens j "vtoks"
    let ft ← tokens j "ftoks"
    let vwl ← getBool j "vwl"
    let fwl ← getBool j "fwl"
    match mainRunNames data vt ft vwl fwl with
    | .error (.scan .index) => pure (Json.str "err:index")
    | .error (.scan .fuel) => pure (Json.str "err:fuel")
    | .error (.sel .noneMatch) => pure (Json.str "err:nonematch")
    | .error (.sel .unsupported) => pure (Json.str "err:unsupported-regex")
    | .ok (out, r) =>
      let spec := Spec.removeRegions (Spec.filteredRegions r.stmts) data
      let sels := r.stmts.map fun s => specSel (if s.isFunc then ft else vt) (if s.isFunc then fwl else vwl) s.name
      let specRegions := (r.stmts.zip sels).filterMap fun (s, b) => if b = some true then some (s.start, s.stop) else none
      pure (Json.mkObj [("out", ofChars out), ("spec", ofChars spec),
        ("specsel_out", ofChars (Spec.removeRegions specRegions data)), ("pos", toJson r.pos),
        ("bytes", Json.str (hexOf (writtenBytes data r))),
        ("windows", .arr (r.windows.map fun w => Json.arr #[toJson w.1, toJson w.2]).toArray),
        ("stmts", .arr ((r.stmts.zip sels).map fun (s, b) =>
          Json.arr #[toJson s.isFunc, toJson s.start, toJson s.stop, ofChars s.name, toJson s.filtered, optBool b]).toArray),
        ("vre", optChars (buildRegexString vt vwl)), ("fre", optChars (buildRegexString ft fwl))])
  | "c34.select" => do
    -- name selection alone: model (`build_regex_string` + `re.match`) and specification, per name
    let toks ← tokens j "toks"
    let wl ← getBool j "wl"
    let names ← tokens j "names"
    let re := optChars (buildRegexString toks wl)
    match mkMatcher toks wl with
    | .error .noneMatch => pure (Json.str "err:nonematch")
    | .error .unsupported => pure (Json.str "err:unsupported-regex")
    | .ok m =>
      pure (Json.mkObj [("re", re), ("model", .arr (names.map fun n => toJson (applyMatch m n)).toArray),
        ("spec", .arr (names.map fun n => optBool (specSel toks wl n)).toArray)])
  | _ => none
end Pkgcore.Driver.C34
