import Pkgcore.Base.Proto
import Pkgcore.Model.C03
namespace Pkgcore.Driver.C03
open Lean Pkgcore.Proto Pkgcore.C01 Pkgcore.C03
open Pkgcore.C02 (Op Str Atom)

def errName (e : Err) : String := (reprStr e).replace "Pkgcore.C03.Err." ""

def optJ : Option Str → Json
  | none => Json.null
  | some s => ofChars s

def atomJ (a : Atom) : Json :=
  Json.mkObj [
    ("cat", ofChars a.cat), ("pkg", ofChars a.pkg),
    ("op", ofChars a.opStr),
    ("version", match a.vop with | some (_, v, _) => ofChars (C01.render v) | none => Json.null),
    ("revision", match a.vop with | some (_, _, r) => ofChars r | none => Json.null),
    ("blocks", toJson a.blocks), ("strong", toJson a.strong),
    ("slot", optJ a.slot), ("subslot", optJ a.subslot), ("slotop", optJ a.slotOp), ("repo", optJ a.repo),
    ("use", match a.use with | some u => ofStrs u | none => Json.null),
    ("str", ofChars (render a))]

/-- `eapi`: JSON null = not given, a number = that EAPI -/
def eapiOf (j : Json) : Option Eapi :=
  match j.getObjVal? "eapi" with
  | .ok .null => some none
  | .ok v => match v.getNat? with
    | .ok n => some (some n)
    | .error _ => none
  | .error _ => none

def handle : Handler := fun cmd j =>
  match cmd with
  | "c03.parse" => do
    let s ← chars j "s"
    let e ← eapiOf j
    match parseAtom e s with
    | .error err => pure (Json.mkObj [("err", Json.str (errName err))])
    | .ok a =>
      -- re-parse of the rendering (the round trip inside the model; proved to give `a` again)
      let again : Json := match parseAtom e (render a) with
        | .ok b => toJson (render b == render a && b.cat == a.cat && b.pkg == a.pkg && b.use == a.use)
        | .error _ => Json.null
      pure (Json.mkObj [("ok", atomJ a), ("again", again)])
  | "c03.opts" => do
    let e ← eapiOf j
    let o := optsOf e
    pure (Json.arr #[toJson o.hasSlotDeps, toJson o.hasUseDeps, toJson o.strongBlockers, toJson o.useDepDefaults,
      toJson o.subSlotting, toJson (repoAllowed e)])
  | _ => none
end Pkgcore.Driver.C03
