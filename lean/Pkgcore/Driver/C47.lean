import Pkgcore.Base.Proto
import Pkgcore.Spec.C47
import Pkgcore.Driver.C29
namespace Pkgcore.Driver.C47
open Lean Pkgcore.Proto Pkgcore.C29 Pkgcore.C47 Pkgcore.Driver.C29

def parseDownload : String → Option Download
  | "unreachable" => some .unreachable | "unchanged" => some .unchanged | "broken" => some .broken | "ok" => some .ok
  | _ => none

def optContent (j : Json) (k : String) : Option (Option Content) :=
  match j.getObjVal? k with
  | .ok (.str s) => some (some s.toList)
  | .ok .null => some none
  | _ => none

def handle : Handler := fun cmd j =>
  match cmd with
  | "c47.sync" => do
    let storeL ← (j.getObjVal? "store").toOption >>= parseStore
    let repo ← chars j "repo"
    let d ← (getStr j "download") >>= parseDownload
    let u : Unpack ← match j.getObjVal? "unpack_fails_after" with
      | .ok .null => some Unpack.ok
      | .ok v => (v.getNat?.toOption).map Unpack.fails
      | _ => none
    let files ← (j.getObjVal? "files").toOption >>= pairList
    let etag ← optContent j "etag"
    let modified ← optContent j "modified"
    let st := mkStore storeL
    let ops := syncOps st repo d u files etag modified
    let sts := states ops st
    let view := fun (s : Store) => Json.mkObj [
      ("tree", pairsJson (treeAt s repo)), ("exists", Json.bool (s repo).isSome),
      ("update", Json.bool (s (updOf repo)).isSome), ("old", Json.bool (s (oldOf repo)).isSome)]
    let trees := dedupAdj (sts.map fun s => (treeAt s repo, (s repo).isSome))
    pure <| Json.mkObj [
      ("ops", Json.arr (ops.map (opJson (fun n => n != repo))).toArray),
      ("trees", Json.arr (trees.map fun t => Json.arr #[pairsJson t.1, Json.bool t.2]).toArray),
      ("final", view (run ops st)),
      ("names", Json.arr #[ofChars (updOf repo), ofChars (oldOf repo)])]
  | _ => none
end Pkgcore.Driver.C47
