import Pkgcore.Base.Proto
import Pkgcore.Spec.C41
namespace Pkgcore.Driver.C41
open Lean Pkgcore.Proto Pkgcore.C41

/-- the worker function used by the correspondence run: results for the items not divisible by three -/
def f (x : Nat) : List Nat := if x % 3 = 0 then [] else [x + 1000]
def fin (_ : Nat) (_ : List Nat) : Option Nat := none

def parseEvent (j : Json) : Option (Event Nat) :=
  match j with
  | .arr #[.str "put"] => some .put
  | .arr #[.str "get", w] => (w.getNat?.toOption).map .get
  | .arr #[.str "finish", w] => (w.getNat?.toOption).map .finish
  | _ => none

/-- replay, reporting the index of the first event that is not enabled -/
def replayIdx (s : State Nat Nat) : Nat → List (Event Nat) → Sum Nat (State Nat Nat)
  | _, [] => .inr s
  | i, e :: es => match apply f fin s e with
    | some s' => replayIdx s' (i + 1) es
    | none => .inl i

def parseXEvent (j : Json) : Option (XEvent Nat) :=
  match j with
  | .arr #[.str "raise"] => some .raise
  | .arr #[.str "quit", w] => (w.getNat?.toOption).map .quit
  | _ => (parseEvent j).map .base

def xreplayIdx (s : XState Nat Nat) : Nat → List (XEvent Nat) → Sum Nat (XState Nat Nat)
  | _, [] => .inr s
  | i, e :: es => match xapply f fin s e with
    | some s' => xreplayIdx s' (i + 1) es
    | none => .inl i

def isTerminal (s : State Nat Nat) : Bool :=
  s.remaining.isEmpty && s.sentinelsLeft == 0 && s.workers.all (· == .done)

def handle : Handler := fun cmd j =>
  match cmd with
  | "c41.trace" => do
    let itemsJ ← getArr j "items"
    let items ← itemsJ.mapM fun x => x.getNat?.toOption
    let n ← getNat j "n"
    let evJ ← getArr j "events"
    let events ← evJ.mapM parseEvent
    match replayIdx (init items n) 0 events with
    | .inl i => pure (Json.mkObj [("ok", false), ("failed_at", toJson i)])
    | .inr s => pure (Json.mkObj [("ok", true), ("terminal", isTerminal s), ("handled", toJson s.handled),
                                 ("results", toJson s.results), ("queue_left", toJson s.queue.length)])
  | "c41.xtrace" => do
    let itemsJ ← getArr j "items"
    let items ← itemsJ.mapM fun x => x.getNat?.toOption
    let n ← getNat j "n"
    let evJ ← getArr j "events"
    let events ← evJ.mapM parseXEvent
    match xreplayIdx (xinit items n) 0 events with
    | .inl i => pure (Json.mkObj [("ok", false), ("failed_at", toJson i)])
    | .inr s => pure (Json.mkObj [("ok", true), ("terminal", isTerminal s.base), ("handled", toJson s.base.handled),
                                 ("results", toJson s.base.results), ("queue_left", toJson s.base.queue.length),
                                 ("kill", toJson s.kill), ("dropped", toJson s.dropped)])
  | "c41.par" => do
    let threads ← getInt j "threads"
    let len : Option Nat ← match j.getObjVal? "len" with
      | .ok .null => some none
      | .ok v => (v.getNat?.toOption).map some
      | _ => none
    pure (toJson (parallelism len threads))
  | _ => none
end Pkgcore.Driver.C41
