import Pkgcore.Base.Proto
import Pkgcore.Spec.C07
import Pkgcore.Driver.C02
/-!
C07 driver.  Restrictions travel as JSON objects with a class tag `c`:
`exact{s,cs,n,h}`, `glob{s,p,n,i,h}`, `regex{s,n,i,m,h}`, `contain{vals,all,n}`, `usedef{m,vals,n}`, `flatten{d,r,n}`,
`func{f,n}`, `strconv{r}`, `version{vals,d,n,ver,rev}` (`rev` null or the Revision text), `verglob{ver,rev}`, `obj{id}`,
`pkg{cls,multi,attrs,n,r}`, `cond{attr,n,r,payload}`, `bool{k,t,n,cs}`, `atom{a}` (`a` = an atom in the C02 driver's format: cat, pkg, op, ver, rev, blocks, strong, negate, slot, subslot,
slotop, use, repo), `depset{cs}`.
Values: `str{s}`, `strs{xs}`, `tuple{xs}`, `pkg{fields:[[name,V]…], ver:null|{ver,rev}}`, `other{id}`.

* `c07.pair {a,b}` → `{eq, eqrev, hk, wfa, wfb}`
* `c07.build {k, t, n, init:[R…], ops:[{"op":"hash"} | {"op":"add","rs":[R…]} | {"op":"finalize"}]}` → `{oks:[bool…], finalized,
  count, cached, cachedIsFinal}`: which calls succeed (false = TypeError) and the state of the node afterwards
* `c07.match {r, vals:[V…]}` → list of booleans, or `"opaque"` when `r` contains a primitive the driver cannot
  evaluate (regular expression, user function, identity object, atom, flattening, DepSet, `str()` of a non-string).
* `c07.matchmany {rs:[R…], vals:[V…]}` → the `c07.match` answer of every `r` over the same values (one universe per request).
-/
namespace Pkgcore.Driver.C07
open Lean Pkgcore.Proto Pkgcore.C07 Pkgcore.C07.Spec

def sufOfName : String → Option Pkgcore.C01.Suf
  | "alpha" => some .alpha | "beta" => some .beta | "pre" => some .pre | "rc" => some .rc | "p" => some .p
  | _ => none

def parseVer (j : Json) : Option Pkgcore.C01.Ver := do
  let comps ← getStrs j "comps"
  let letter : Option Char ← match j.getObjVal? "letter" with
    | .ok (.str s) => (match s.toList with | [c] => some (some c) | _ => none)
    | .ok .null => some none
    | _ => none
  let sufsJ ← getArr j "sufs"
  let sufs ← sufsJ.mapM fun x => match x with
    | .arr #[.str n, .str d] => (sufOfName n).map (·, d.toList)
    | _ => none
  pure ⟨comps.map String.toList, letter, sufs⟩

def strsOf (j : Json) (k : String) : Option (List Str) := (getStrs j k).map (·.map String.toList)

def kindOf : String → Option Kind
  | "and" => some .and | "or" => some .or | "one" => some .one | "amo" => some .amo | "keyed" => some .keyedAnd
  | _ => none

partial def parseR (j : Json) : Option Restr := do
  let c ← getStr j "c"
  let sub (k : String) : Option Restr := (j.getObjVal? k).toOption >>= parseR
  let subs (k : String) : Option (List Restr) := do (← getArr j k).mapM parseR
  match c with
  | "exact" => pure (.strExact (← chars j "s") (← getBool j "cs") (← getBool j "n") (← getBool j "h"))
  | "glob" => pure (.strGlob (← chars j "s") (← getBool j "p") (← getBool j "n") (← getBool j "i") (← getBool j "h"))
  | "regex" => pure (.strRegex (← chars j "s") (← getBool j "n") (← getBool j "i") (← getBool j "m") (← getBool j "h"))
  | "contain" => pure (.contain (← strsOf j "vals") (← getBool j "all") (← getBool j "n"))
  | "usedef" => pure (.useDefault (← getBool j "m") (← strsOf j "vals") (← getBool j "n"))
  | "flatten" => pure (.flatten (← getNat j "d") (← sub "r") (← getBool j "n"))
  | "func" => pure (.func (← getNat j "f") (← getBool j "n"))
  | "strconv" => pure (.strConv (← sub "r"))
  | "version" => do
    let vals ← (← getArr j "vals").mapM fun x => (fromJson? x : Except String Int).toOption
    let ver ← (j.getObjVal? "ver").toOption >>= parseVer
    let rev : Pkgcore.C01.Rev ← match j.getObjVal? "rev" with
      | .ok (.str s) => some (some s.toList)
      | .ok .null => some none
      | _ => none
    pure (.version vals (← getBool j "d") (← getBool j "n") ver rev)
  | "verglob" => do
    let ver ← (j.getObjVal? "ver").toOption >>= parseVer
    let rev : Pkgcore.C01.Rev ← match j.getObjVal? "rev" with
      | .ok (.str s) => some (some s.toList)
      | .ok .null => some none
      | _ => none
    pure (.verGlob ver rev)
  | "obj" => pure (.obj (← getNat j "id"))
  | "pkg" => do
    let attrs ← (← getArr j "attrs").mapM fun a => match a with
      | .arr xs => xs.toList.mapM fun x => match x with | .str s => some s.toList | _ => none
      | _ => none
    pure (.pkgRestr (← getNat j "cls") (← getBool j "multi") attrs (← getBool j "n") (← sub "r"))
  | "cond" => pure (.conditional (← strsOf j "attr") (← getBool j "n") (← sub "r") (← subs "payload"))
  | "bool" => pure (.bool (← (getStr j "k") >>= kindOf) (← getNat j "t") (← getBool j "n") (← subs "cs"))
  | "atom" => pure (.atom (← (j.getObjVal? "a").toOption >>= Pkgcore.Driver.C02.parseAtom))
  | "depset" => pure (.depset (← subs "cs"))
  | _ => none

partial def parseV (j : Json) : Option Value := do
  match ← getStr j "v" with
  | "str" => pure (.str (← chars j "s"))
  | "strs" => pure (.strs (← strsOf j "xs"))
  | "tuple" => do pure (.tuple (← (← getArr j "xs").mapM parseV))
  | "pkg" => do
    let fields ← (← getArr j "fields").mapM fun f => match f with
      | .arr #[.str n, v] => (parseV v).map (n.toList, ·)
      | _ => none
    let ver : Option (Pkgcore.C01.Ver × List Char) ← match j.getObjVal? "ver" with
      | .ok .null => some none
      | .ok o => do
        let v ← (o.getObjVal? "ver").toOption >>= parseVer
        let r ← chars o "rev"
        some (some (v, r))
      | _ => none
    pure (.pkg fields ver)
  | "other" => pure (.other (← getNat j "id"))
  | _ => none

/-- does the driver's environment cover everything `r` needs? -/
partial def concrete : Restr → Bool
  | .strExact .. | .strGlob .. | .contain .. | .useDefault .. | .version .. | .verGlob .. => true
  | .strRegex .. | .func .. | .obj _ | .atom .. | .flatten .. | .strConv _ => false
  | .pkgRestr _ _ _ _ c => concrete c
  | .conditional _ _ c _ => concrete c
  | .bool _ _ _ cs => cs.all concrete
  | .depset _ => false      -- DepSet.match raises NotImplementedError; the model gives its meaning as a conjunction

def asciiLower (s : Str) : Str := s.map fun c => if 'A' ≤ c ∧ c ≤ 'Z' then Char.ofNat (c.toNat + 32) else c

/-- the harness only sends ASCII strings and never applies a string matcher to a non-string -/
def env : Env where
  lower := asciiLower
  re := fun _ _ _ _ => false
  toStr := fun v => match v with | .str s => s | _ => []
  fn := fun _ _ => false
  objMatch := fun _ _ => false
  atomMatch := fun _ _ => false
  flat := fun _ v => v

def handle : Handler := fun cmd j =>
  match cmd with
  | "c07.pair" => do
    let a ← (j.getObjVal? "a").toOption >>= parseR
    let b ← (j.getObjVal? "b").toOption >>= parseR
    pure (Json.mkObj [("eq", toJson (eqv a b)), ("eqrev", toJson (eqv b a)),
      ("hk", toJson (hkEq (hashKey a) (hashKey b))), ("wfa", toJson (wf a)), ("wfb", toJson (wf b))])
  | "c07.build" => do
    let k ← (getStr j "k") >>= kindOf
    let t ← getNat j "t"
    let n ← getBool j "n"
    let init ← (← getArr j "init").mapM parseR
    let ops ← (← getArr j "ops").mapM fun o => do
      match ← getStr o "op" with
      | "hash" => pure BOp.hash
      | "finalize" => pure BOp.finalize
      | "add" => do pure (BOp.add (← (← getArr o "rs").mapM parseR))
      | _ => none
    let (b, oks) := ops.foldl (fun (acc : Builder × List Bool) op =>
      let r := bstep k t n acc.1 op
      (r.1, acc.2 ++ [r.2])) (⟨init, false, none⟩, [])
    pure (Json.mkObj [("oks", toJson oks), ("finalized", toJson b.finalized), ("count", toJson b.cs.length),
      ("cached", toJson b.cached.isSome),
      ("cachedIsFinal", match b.cached with
        | some h => toJson (hkEq h (hashKey (.bool k t n b.cs)))
        | none => Json.null)])
  | "c07.match" => do
    let r ← (j.getObjVal? "r").toOption >>= parseR
    let vals ← (← getArr j "vals").mapM parseV
    if concrete r then pure (toJson (vals.map fun x => mtch env r x)) else pure (Json.str "opaque")
  | "c07.matchmany" => do
    let rs ← (← getArr j "rs").mapM parseR
    let vals ← (← getArr j "vals").mapM parseV
    pure (Json.arr (rs.map fun r =>
      if concrete r then toJson (vals.map fun x => mtch env r x) else Json.str "opaque").toArray)
  | _ => none
end Pkgcore.Driver.C07
