import Pkgcore.Base.Proto
import Pkgcore.Spec.C45
namespace Pkgcore.Driver.C45
open Lean Pkgcore.Proto Pkgcore.C45
open Pkgcore.C01 (Ver Suf)

def sufOfName : String → Option Suf
  | "alpha" => some .alpha | "beta" => some .beta | "pre" => some .pre | "rc" => some .rc | "p" => some .p
  | _ => none

def parseVer (j : Json) : Option Ver := do
  let comps ← getStrs j "comps"
  let letter : Option Char ← match j.getObjVal? "letter" with
    | .ok (.str s) => (match s.toList with | [c] => some (some c) | _ => none)
    | .ok .null => some none
    | _ => none
  let sufsJ ← getArr j "sufs"
  let sufs ← sufsJ.mapM fun x => match x with
    | .arr #[.str n, .str d] => (sufOfName n).map (·, d.toList)
    | _ => none
  pure ⟨comps.map String.toList, letter, sufs⟩

def parseVerText (j : Json) : Option VerText := do
  let glob ← getBool j "glob"
  let parsed : Option (Str × Ver × Str) ← match j.getObjVal? "parsed" with
    | .ok .null => some none
    | .ok o => (do
        let fv ← chars o "fullver"
        let v ← (o.getObjVal? "ver").toOption >>= parseVer
        let rev ← chars o "rev"
        pure (some (fv, v, rev)))
    | _ => none
  pure ⟨glob, parsed⟩

def parseRange (j : Json) : Option RangeNode := do
  let op ← chars j "op"
  let slot ← chars j "slot"
  let text : Option VerText ← match j.getObjVal? "text" with
    | .ok .null => some none
    | .ok o => (parseVerText o).map some
    | _ => none
  pure ⟨op, slot, text⟩

def parseRanges (j : Json) (k : String) : Option (List RangeNode) := do
  let a ← getArr j k
  a.mapM parseRange

def parseNode (j : Json) : Option PkgNode := do
  let name ← chars j "name"
  let nameOk ← getBool j "nameOk"
  let arch : Option (List Str) ← match j.getObjVal? "arch" with
    | .ok .null => some none
    | .ok (.arr a) => (a.toList.mapM fun (x : Json) => match x with | Json.str s => some s.toList | _ => none).map some
    | _ => none
  let vulnerable ← parseRanges j "vulnerable"
  let unaffected ← parseRanges j "unaffected"
  pure ⟨name, nameOk, arch, vulnerable, unaffected⟩

def parsePkg (j : Json) : Option Pkg := do
  let key ← chars j "key"
  let fullver ← chars j "fullver"
  let ver ← (j.getObjVal? "ver").toOption >>= parseVer
  let rev ← chars j "rev"
  let slot ← chars j "slot"
  let kw ← getStrs j "keywords"
  pure ⟨key, fullver, ver, rev, slot, kw.map String.toList⟩

def optBools (l : List (Option Bool)) : Json :=
  match l.mapM id with
  | some bs => toJson bs
  | none => Json.null

def handle : Handler := fun cmd j =>
  match cmd with
  | "c45.eval" => do
    let es ← getArr j "entries"
    let entries ← es.mapM parseNode
    let ps ← getArr j "pkgs"
    let pkgs ← ps.mapM parsePkg
    let out := entries.map fun e => Json.mkObj [
      ("model", optBools (pkgs.map (entryMatch e))),
      ("spec", optBools (pkgs.map (Spec.affected false e))),
      ("loose", optBools (pkgs.map (Spec.affected true e)))]
    pure (Json.arr out.toArray)
  | _ => none
end Pkgcore.Driver.C45
