import Pkgcore.Base.Proto
import Pkgcore.Spec.C35
namespace Pkgcore.Driver.C35
open Lean Pkgcore.Proto Pkgcore.C35

def cmdOf : String → Option Cmd
  | "alive" => some .alive | "preload" => some .preload | "clear" => some .clear | "setMetaPath" => some .setMetaPath
  | "genMeta" => some .genMeta | "processEbuild" => some .processEbuild | "startEnv" => some .startEnv
  | "logging" => some .logging | "sandboxState" => some .sandboxState | "startProcessing" => some .startProcessing
  | "shutdown" => some .shutdown | "ipcReply" => some .ipcReply | "inheritReply" => some .inheritReply
  | "bashrcItem" => some .bashrcItem | "endRequest" => some .endRequest | "summaryLine" => some .summaryLine
  | "endSummary" => some .endSummary | "junk" => some .junk
  | _ => none

def msgOf : String → Option Msg
  | "yep" => some (.reply .yep) | "preloadDone" => some (.reply .preloadDone) | "clearDone" => some (.reply .clearDone)
  | "metaPathDone" => some (.reply .metaPathDone) | "envDone" => some (.reply .envDone)
  | "loggingAck" => some (.reply .loggingAck) | "next" => some (.reply .next)
  | "note" => some .note | "phases" => some .phases | "death" => some .death | "junk" => some .junk
  | "request.ipc" => some (.request .ipc) | "request.inherit" => some (.request .inherit)
  | "request.bashrcs" => some (.request .bashrcs) | "request.summary" => some (.request .summary)
  | _ => none

def obsOf (j : Json) : Option Obs :=
  match j with
  | .arr #[.str "w", .str x] => (cmdOf x).map .wrote
  | .arr #[.str "r", .str m] => (msgOf m).map .read
  | _ => none

/-- length of the longest accepted prefix (= the whole length when the trace is accepted) -/
def acceptedPrefix (tr : List Obs) : Nat :=
  ((List.range (tr.length + 1)).filter fun k => accept .main [] (tr.take k)).foldl max 0

def handle : Handler := fun cmd j =>
  match cmd with
  | "c35.accept" => do
    let a ← getArr j "trace"
    let tr ← a.mapM obsOf
    pure (Json.mkObj [("ok", toJson (accept .main [] tr)), ("prefix", toJson (acceptedPrefix tr))])
  | "c35.notice" => do
    let l ← chars j "line"
    pure (toJson (isNoticeLine l))
  | "c35.wf" => do
    -- is a client program (list of ["cmd"|"ask", name] | "drain" | "handler" | "stop") well typed from the main loop?
    let a ← getArr j "prog"
    let ops ← a.mapM fun (x : Json) => match x with
      | Json.arr #[Json.str "cmd", Json.str c] => (cmdOf c).map POp.cmd
      | Json.arr #[Json.str "ask", Json.str c] => (cmdOf c).map POp.ask
      | Json.str "drain" => some POp.drain
      | Json.str "handler" => some POp.handler
      | Json.str "stop" => some POp.stop
      | _ => none
    pure (toJson (wf .main ops))
  | "c35.consume" => do
    -- {"expected": [texts], "pipe": [lines]} -> ["result", ok, rest] | ["interrupted", rest] | "blocked"
    let e ← getStrs j "expected"
    let p ← getStrs j "pipe"
    match consumeBatch (e.map String.toList) (p.map String.toList) with
    | .result ok rest => pure (Json.arr #[Json.str "result", toJson ok, ofStrs rest])
    | .interrupted rest => pure (Json.arr #[Json.str "interrupted", ofStrs rest])
    | .blocked => pure (Json.str "blocked")
  | "c35.bashrcs" => do
    -- {"items": [["path"|"transfer", status] | "other"]} -> ["next"|"failed"|"death"]
    let a ← getArr j "items"
    let items ← a.mapM fun (x : Json) => match x with
      | Json.arr #[Json.str "path", n] => (n.getNat?.toOption).map BashrcItem.path
      | Json.arr #[Json.str "transfer", n] => (n.getNat?.toOption).map BashrcItem.transfer
      | Json.str "other" => some BashrcItem.other
      | _ => none
    pure (Json.arr ((sourceBashrcs items).map fun l => match l with
      | .next => Json.str "next" | .failed => Json.str "failed" | .death => Json.str "death").toArray)
  | "c35.handler" => do
    -- {"extra": [command names], "lines": [lines]} -> [[called names], end]
    let e ← getStrs j "extra"
    let p ← getStrs j "lines"
    let r := handlerSession (e.map String.toList) (p.map String.toList)
    let fin := match r.2 with
      | .finished => Json.str "finished"
      | .unhandled l => Json.arr #[Json.str "unhandled", ofChars l]
      | .dry => Json.str "dry"
      | .outside => Json.str "outside"
    pure (Json.arr #[ofStrs r.1, fin])
  | _ => none
end Pkgcore.Driver.C35
