import Pkgcore.Base.Proto
import Pkgcore.Spec.C12
namespace Pkgcore.Driver.C12
open Lean Pkgcore.Proto Pkgcore.C12

def toks (j : Json) (k : String) : Option (List Tok) := (getStrs j k).map (·.map String.toList)

def errName : Err → String
  | .incomplete => "incomplete" | .index => "index"

def setJson (s : TSet) : Json := ofStrs s

def resJson : Except Err TSet → Json
  | .ok s => Json.mkObj [("ok", setJson s)]
  | .error e => Json.mkObj [("err", .str (errName e))]

def optBool : Option Bool → Json
  | none => .null
  | some b => .bool b

def groupsOfJson (j : Json) (k : String) : Option (List (Tok × List Tok)) := do
  let a ← getArr j k
  a.mapM fun x => match x with
    | .arr #[.str g, .arr ls] => do
      let ls ← ls.toList.mapM fun y => match y with | .str s => some s.toList | _ => none
      pure (g.toList, ls)
    | _ => none

def entryOfJson (x : Json) : Option (RKind × List Tok) := do
  let kind ← getStr x "kind"
  let m := (getBool x "m").getD false
  let data ← toks x "data"
  let rk : RKind ← match kind with
    | "true" => some (.always true)
    | "false" => some (.always false)
    | "atom" => (chars x "key").map fun k => .atom k m
    | "multi" => some (.multi m)
    | "cat" => some (.cat m)
    | "pkg" => some (.pkg m)
    | "repo" => some (.repo m)
    | _ => none
  pure (rk, data)

def handle : Handler := fun cmd j =>
  match cmd with
  | "c12.expand" => do
    let ts ← toks j "toks"
    let orig ← toks j "orig"
    let fin ← getBool j "finalize"
    let probes ← toks j "probes"
    pure (Json.mkObj [("res", resJson (expand fin ts orig)),
      ("wf", .bool (Spec.wellFormed ts)),
      ("holds", .arr (probes.map fun f => Json.bool (Spec.holds f ts orig)).toArray)])
  | "c12.optimize" => do
    let ts ← toks j "toks"
    let orig ← toks j "orig"
    let probes ← toks j "probes"
    let o := optimize ts
    let re : Json := match o with
      | .ok c => resJson (expand true (Spec.negsFirst c) orig)
      | .error e => Json.mkObj [("err", .str (errName e))]
    let sp : Json := match o with
      | .ok c => (match splitNegations c with
          | .ok (n, p) => Json.mkObj [("neg", setJson n), ("pos", setJson p)]
          | .error e => Json.mkObj [("err", .str (errName e))])
      | .error e => Json.mkObj [("err", .str (errName e))]
    pure (Json.mkObj [("res", resJson o), ("reexpand", re), ("split", sp),
      ("last", .arr (probes.map fun f => optBool (Spec.lastEffect f ts)).toArray)])
  | "c12.lic" => do
    let ts ← toks j "toks"
    let lic ← toks j "licenses"
    let groups ← groupsOfJson j "groups"
    let probes ← toks j "probes"
    pure (Json.mkObj [("res", resJson (expandLic lic groups ts)),
      ("wf", .bool (Spec.wellFormedLic ts)),
      ("last", .arr (probes.map fun l => optBool (Spec.lastLicEffect lic groups l ts)).toArray)])
  | "c12.pull" => do
    let es ← getArr j "entries" >>= fun a => a.mapM entryOfJson
    let fin ← getBool j "finalize"
    let key ← chars j "key"
    let pre ← toks j "pre"
    match collapse fin es with
    | .error e => pure (Json.mkObj [("err", .str (errName e))])
    | .ok c =>
      -- the harness tells us in which order the real `set` is iterated, as a permutation of our defaults
      let order := (toks j "order").getD c.defaults
      pure (Json.mkObj [("defaults", setJson c.defaults),
        ("pull", resJson (pullData c key pre order)),
        ("stream", ofStrs (iterPullData c key pre order)),
        ("stream_expanded", resJson (expand true (iterPullData c key pre order) []))])
  | _ => none
end Pkgcore.Driver.C12
