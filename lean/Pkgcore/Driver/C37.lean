import Pkgcore.Base.Proto
import Pkgcore.Spec.C37
namespace Pkgcore.Driver.C37
open Lean Pkgcore.Proto Pkgcore.C37

def strList : Json → Option (List String)
  | .arr a => a.toList.mapM fun x => match x with | .str s => some s | _ => none
  | _ => none

partial def parseChart : Json → Option Chart
  | j =>
    match j.getObjVal? "crit" with
    | .ok (.arr #[.str f, .str o, vs, .bool neg, .bool spl]) => do
      let vs ← strList vs
      pure (.crit ⟨f, o, vs, neg, spl⟩)
    | .ok _ => none
    | .error _ =>
      match j.getObjVal? "group" with
      | .ok (.arr #[.str join, .arr cs]) => do
        let cs ← cs.toList.mapM parseChart
        pure (.group join cs)
      | _ => none

def optInt (j : Json) (k : String) : Option (Option Int) :=
  match j.getObjVal? k with
  | .ok .null => some none
  | .ok v => match v.getInt? with | .ok i => some (some i) | .error _ => none
  | .error _ => none

def optStr (j : Json) (k : String) : Option (Option String) :=
  match j.getObjVal? k with
  | .ok .null => some none
  | .ok (.str s) => some (some s)
  | _ => none

/-- the result of evaluating a construction term: malformed request / refused by the code / a query -/
inductive R | bad | refused | ok (q : BugQuery)
  deriving Inhabited

/-- evaluate a construction term with the *model* constructors (tables generated from the code) -/
partial def evalTerm (j : Json) : R :=
  match getStr j "t" with
  | some "empty" => .ok {}
  | some "simple" =>
    match getStr j "ctor" >>= (Generated.C37.simpleCtors.lookup ·), (j.getObjVal? "values").toOption >>= strList with
    | some key, some vs => .ok { simple := [(key, vs)] }
    | _, _ => .bad
  | some "unresolved" => .ok { simple := [(Generated.C37.unresolved.1, [Generated.C37.unresolved.2])] }
  | some "category" =>
    match (j.getObjVal? "components").toOption >>= strList with
    | some cs => .ok { simple := [(Generated.C37.categoryProduct.1, [Generated.C37.categoryProduct.2]),
                                  (Generated.C37.categoryComponentKey, cs)] }
    | none => .bad
  | some "chart" =>
    match getStr j "ctor" >>= (Generated.C37.chartCtors.lookup ·), (j.getObjVal? "values").toOption >>= strList with
    | some (field, op, spl), some vs => .ok { charts := [.crit ⟨field, op, vs, false, spl⟩] }
    | _, _ => .bad
  | some "flag" =>
    match getStr j "name", (j.getObjVal? "statuses").toOption >>= strList with
    | some name, some sts =>
      .ok { charts := [.crit ⟨Generated.C37.flagCtor.1, Generated.C37.flagCtor.2, sts.map (name ++ ·), false, false⟩] }
    | _, _ => .bad
  | some "raw" =>
    let simple : Option (List (String × List String)) := do
      let a ← getArr j "simple"
      a.mapM fun e => match e with
        | .arr #[.str k, vs] => (strList vs).map (k, ·)
        | _ => none
    let charts : Option (List Chart) := do
      let a ← getArr j "charts"
      a.mapM parseChart
    match simple, charts, optInt j "limit", optInt j "offset", optStr j "order" with
    | some s, some c, some l, some o, some ord => .ok ⟨s, c, l, o, ord⟩
    | _, _, _, _, _ => .bad
  | some "and" =>
    match (j.getObjVal? "a").toOption.map evalTerm, (j.getObjVal? "b").toOption.map evalTerm with
    | some (.ok a), some (.ok b) => .ok (a.and b)
    | some .bad, _ | _, some .bad | none, _ | _, none => .bad
    | _, _ => .refused
  | some "any_of" =>
    match getArr j "qs" with
    | none => .bad
    | some qs =>
      let rs := qs.map evalTerm
      if rs.any (fun r => match r with | .bad => true | _ => false) then .bad
      else if rs.any (fun r => match r with | .refused => true | _ => false) then .refused
      else match BugQuery.anyOf (rs.filterMap fun r => match r with | .ok q => some q | _ => none) with
        | some q => .ok q
        | none => .refused
  | some "paged" =>
    match (j.getObjVal? "q").toOption.map evalTerm, getInt j "limit", getInt j "offset" with
    | some (.ok q), some l, some o => match q.paged l o with | some q => .ok q | none => .refused
    | some .refused, some _, some _ => .refused
    | _, _, _ => .bad
  | _ => .bad

def paramsJson (ps : List Param) : Json :=
  .arr (ps.map fun p => Json.arr #[.str p.1.toString, .str p.2]).toArray

partial def treeJson : Spec.Tree → Json
  | .crit f o vs neg => Json.mkObj [("crit", .arr #[.str f, .str o, .arr (vs.map Json.str).toArray, .bool neg])]
  | .group j ts => Json.mkObj [("group", .arr #[.str j, .arr (ts.map treeJson).toArray])]

/-- `len(urllib.parse.quote_plus(s))`: unreserved bytes and the space take one character, any other UTF-8 byte three -/
def quoteLen (s : String) : Nat :=
  s.toUTF8.foldl (fun n b =>
    let c := b.toNat
    n + (if (48 ≤ c ∧ c ≤ 57) ∨ (65 ≤ c ∧ c ≤ 90) ∨ (97 ≤ c ∧ c ≤ 122) ∨ c = 95 ∨ c = 46 ∨ c = 45 ∨ c = 126 ∨ c = 32
         then 1 else 3)) 0

def queryJson (q : BugQuery) : Json :=
  let read := Spec.readCharts q.params
  Json.mkObj [
    ("params", paramsJson q.params),
    ("read", match read with | some ts => .arr (ts.map treeJson).toArray | none => .null),
    ("balanced", .bool (Spec.balanced (fVals' q.params) 0)),
    ("simple", .arr (q.simple.map fun kv => Json.arr #[.str kv.1, .arr (kv.2.map Json.str).toArray]).toArray)]
where
  fVals' (ps : List Param) : List String := (ps.filter (fun p => Spec.isF p.1)).map (·.2)

def handle : Handler := fun cmd j =>
  match cmd with
  | "c37.params" =>
    match (j.getObjVal? "q").toOption.map evalTerm with
    | some (.ok q) => some (queryJson q)
    | some .refused => some (Json.str "refused")
    | _ => some (Json.str "bad-op")
  | "c37.meaning" =>
    let atomsS : Option (List (String × String)) := do
      let a ← getArr j "S"
      a.mapM fun e => match e with | .arr #[.str k, .str v] => some (k, v) | _ => none
    let atomsI : Option (List (String × String × List String)) := do
      let a ← getArr j "I"
      a.mapM fun e => match e with | .arr #[.str f, .str o, vs] => (strList vs).map (f, o, ·) | _ => none
    match (j.getObjVal? "a").toOption.map evalTerm, (j.getObjVal? "b").toOption.map evalTerm, atomsS, atomsI with
    | some (.ok a), some (.ok b), some ss, some is =>
      let S := fun k v => ss.contains (k, v)
      let I := fun f o vs => is.contains (f, o, vs)
      some (Json.mkObj [
        ("a", .bool (Spec.meaning S I a.params)), ("b", .bool (Spec.meaning S I b.params)),
        ("ab", .bool (Spec.meaning S I (a.and b).params)),
        ("guard", .bool (Spec.sameKeyGuardB a b)),
        ("ab_params", paramsJson (a.and b).params)])
    | some .refused, _, some _, some _ | _, some .refused, some _, some _ => some (Json.str "refused")
    | _, _, _, _ => some (Json.str "bad-op")
  | "c37.batches" =>
    -- `null` = the default arguments of `batches(base_length=0, max_length=MAX_URL_LENGTH)`
    let dflt (k : String) (d : Int) : Option Int := match j.getObjVal? k with
      | .ok .null => some d
      | _ => getInt j k
    match (j.getObjVal? "q").toOption.map evalTerm, dflt "base" 0, dflt "max" Generated.C37.maxUrlLength with
    | some (.ok q), some base, some max =>
      let axis := match q.splitAxis with
        | none => Json.null
        | some c => match c.axis with
          | .simple key => Json.mkObj [("kind", "simple"), ("key", .str key), ("values", .arr (c.values.map Json.str).toArray)]
          | .chart idx => Json.mkObj [("kind", "chart"), ("index", toJson idx), ("key", .str c.key),
                                      ("values", .arr (c.values.map Json.str).toArray)]
      some (Json.mkObj [("axis", axis),
        ("batches", .arr ((q.batches quoteLen base max).map fun b => paramsJson b.params).toArray)])
    | some .refused, some _, some _ => some (Json.str "refused")
    | _, _, _ => some (Json.str "bad-op")
  | _ => none
end Pkgcore.Driver.C37
