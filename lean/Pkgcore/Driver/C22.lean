import Pkgcore.Base.Proto
import Pkgcore.Spec.C22
/-!
Driver for C22.  `c22.path`: normpath / dirname of a string.  `c22.run`: an initial contents set, a list of
operations and a list of probe paths; for every operation the model's return value and state, and the
specification's return value and state *evaluated at the probes* (the spec state is a function).
-/
namespace Pkgcore.Driver.C22
open Lean Pkgcore.Proto Pkgcore.C22

def parseEntry (j : Json) : Option Entry := do
  let loc ← chars j "loc"
  let kind ← getNat j "kind"
  let tag ← getNat j "tag"
  pure (mkEntry loc kind tag)

def parseArg (j : Json) : Option Arg :=
  match j.getObjVal? "e", j.getObjVal? "p" with
  | .ok e, .error _ => (parseEntry e).map .ent
  | .error _, .ok (.str s) => some (.path s.toList)
  | _, _ => none

def parseOther (j : Json) : Option Other :=
  match getArr j "cset", getArr j "items" with
  | some l, none => (l.mapM parseEntry).map fun es => .cset (ofList es)
  | none, some l => (l.mapM parseArg).map .items
  | _, _ => none

def entryJson (e : Entry) : Json := Json.arr #[ofChars e.loc, toJson e.kind, toJson e.tag]
def csetJson (c : CSet) : Json := Json.arr (c.map entryJson).toArray
def optEntryJson : Option Entry → Json
  | some e => entryJson e
  | none => Json.null

structure St where
  model : CSet
  spec : Spec.Map

def specAt (m : Spec.Map) (probes : List Path) : Json := Json.arr (probes.map fun p => optEntryJson (m p)).toArray

/-- result of one operation: (model return, spec return, new state) -/
abbrev Res := Json × Json × St

def pureSet (st : St) (assign : Bool) (probes : List Path) (m : Option CSet) (s : Option Spec.Map) (err : String) : Res :=
  match m, s with
  | some c, some sm => (csetJson c, specAt sm probes, if assign then ⟨c, sm⟩ else st)
  | some c, none => (csetJson c, Json.str err, if assign then ⟨c, st.spec⟩ else st)
  | none, some sm => (Json.str err, specAt sm probes, st)
  | none, none => (Json.str err, Json.str err, st)

def inplace (st : St) (m : Option CSet) (s : Option Spec.Map) (err : String) : Res :=
  match m, s with
  | some c, some sm => (Json.null, Json.null, ⟨c, sm⟩)
  | some c, none => (Json.null, Json.str err, ⟨c, st.spec⟩)
  | none, some sm => (Json.str err, Json.null, ⟨st.model, sm⟩)
  | none, none => (Json.str err, Json.str err, st)

/-- the argument as a spec map when every item is an entry -/
def specArgMap (o : Other) : Option Spec.Map :=
  if o.args.all (fun a => match a with | .ent _ => true | .path _ => false) then some (Spec.argMap o) else none

def stepOp (st : St) (probes : List Path) (j : Json) : Option Res := do
  let op ← getStr j "op"
  let assign := (getBool j "assign").getD false
  let m := st.model
  let s := st.spec
  match op with
  | "contains" =>
    let a ← (j.getObjVal? "arg").toOption >>= parseArg
    pure (toJson (contains m a), toJson (s.has (Spec.key a)), st)
  | "getitem" =>
    let a ← (j.getObjVal? "arg").toOption >>= parseArg
    let f : Option Entry → Json := fun r => match r with | some e => entryJson e | none => Json.str "KeyError"
    pure (f (getitem m a), f (s (Spec.key a)), st)
  | "len" =>
    pure (toJson m.length, toJson ((probes.filter fun p => s.has p).length), st)
  | "add" =>
    let e ← (j.getObjVal? "ent").toOption >>= parseEntry
    pure (Json.null, Json.null, ⟨add m e, s.insert e⟩)
  | "remove" =>
    let a ← (j.getObjVal? "arg").toOption >>= parseArg
    pure (inplace st (delitem m a) (if s.has (Spec.key a) then some (s.erase (Spec.key a)) else none) "KeyError")
  | "discard" =>
    let a ← (j.getObjVal? "arg").toOption >>= parseArg
    pure (Json.null, Json.null, ⟨discard m a, s.erase (Spec.key a)⟩)
  | "difference" =>
    let o ← (j.getObjVal? "other").toOption >>= parseOther
    pure (pureSet st assign probes (some (difference m o)) (some (Spec.difference s o)) "err")
  | "difference_update" =>
    let o ← (j.getObjVal? "other").toOption >>= parseOther
    pure (inplace st (some (differenceUpdate m o)) (some (Spec.difference s o)) "err")
  | "intersection" =>
    let o ← (j.getObjVal? "other").toOption >>= parseOther
    pure (pureSet st assign probes (some (intersection m o)) (some (Spec.intersection s o)) "err")
  | "intersection_update" =>
    let o ← (j.getObjVal? "other").toOption >>= parseOther
    pure (inplace st (some (intersectionUpdate m o)) (some (Spec.restrict s o)) "err")
  | "issubset" =>
    let o ← (j.getObjVal? "other").toOption >>= parseOther
    pure (toJson (issubset m o), toJson (probes.all fun p => !s.has p || Spec.named o p), st)
  | "issuperset" =>
    let o ← (j.getObjVal? "other").toOption >>= parseOther
    pure (toJson (issuperset m o), toJson (probes.all fun p => !Spec.named o p || s.has p), st)
  | "isdisjoint" =>
    let o ← (j.getObjVal? "other").toOption >>= parseOther
    pure (toJson (isdisjoint m o), toJson (probes.all fun p => !(s.has p && Spec.named o p)), st)
  | "union" =>
    let o ← (j.getObjVal? "other").toOption >>= parseOther
    pure (pureSet st assign probes (union m o) ((specArgMap o).map (Spec.union s)) "NeedsEntries")
  | "symmetric_difference" =>
    let o ← (j.getObjVal? "other").toOption >>= parseOther
    pure (pureSet st assign probes (symmetricDifference m o) ((specArgMap o).map (Spec.symmDiff s)) "NeedsEntries")
  | "symmetric_difference_update" =>
    let o ← (j.getObjVal? "other").toOption >>= parseOther
    pure (inplace st (symmetricDifferenceUpdate m o) ((specArgMap o).map (Spec.symmDiff s)) "NeedsEntries")
  | "update" =>
    let o ← (j.getObjVal? "other").toOption >>= parseOther
    -- a failing update is not compared state-wise (Python has already stored the entries before the bad item)
    match updateOther m o, specArgMap o with
    | some c, some om => pure (Json.null, Json.null, ⟨c, Spec.updated s om⟩)
    | _, _ => pure (Json.str "NeedsEntries", Json.str "NeedsEntries", st)
  | "change_offset" =>
    let old ← chars j "old"
    let new ← chars j "new"
    -- the relocation spec is relational (Spec.Relocated); the harness evaluates it; the spec map follows the model
    match changeOffset m old new with
    | some c => pure (csetJson c, Json.null, if assign then ⟨c, fun p => lookup c p⟩ else st)
    | none => pure (Json.str "relative", Json.null, st)
  | "add_missing_directories" =>
    let t ← getNat j "tag"
    let c := addMissingDirectories m t
    pure (Json.null, Json.null, ⟨c, fun p => lookup c p⟩)
  | _ => none

def runOps (probes : List Path) : St → List Json → Option (List Json)
  | _, [] => some []
  | st, j :: js => do
    let (mr, sr, st') ← stepOp st probes j
    let rest ← runOps probes st' js
    pure (Json.mkObj [("ret", mr), ("sret", sr), ("state", csetJson st'.model), ("sstate", specAt st'.spec probes)] :: rest)

def handle : Handler := fun cmd j =>
  match cmd with
  | "c22.path" => do
    let s ← chars j "s"
    pure (Json.mkObj [("normpath", ofChars (normpath s)), ("dirname", ofChars (dirname s))])
  | "c22.join" => do
    let a ← chars j "a"
    let b ← chars j "b"
    pure (ofChars (pjoin a b))
  | "c22.run" =>
    match (do
      let init ← getArr j "init"
      let es ← init.mapM parseEntry
      let ops ← getArr j "ops"
      let probes ← getStrs j "probes"
      let out ← runOps (probes.map String.toList) ⟨ofList es, Spec.Map.ofList es⟩ ops
      pure (Json.arr out.toArray) : Option Json) with
    | some r => some r
    | none => some (Json.str "bad-op")
  | _ => none
end Pkgcore.Driver.C22
