import Pkgcore.Base.Proto
import Pkgcore.Spec.C04
namespace Pkgcore.Driver.C04
open Lean Pkgcore.Proto Pkgcore.C01 Pkgcore.C04
open Pkgcore.C02 (Op Str)

def sufOfName : String → Option Suf
  | "alpha" => some .alpha | "beta" => some .beta | "pre" => some .pre | "rc" => some .rc | "p" => some .p
  | _ => none

def parseVer (j : Json) : Option Ver := do
  let comps ← getStrs j "comps"
  let letter : Option Char ← match j.getObjVal? "letter" with
    | .ok (.str s) => (match s.toList with | [c] => some (some c) | _ => none)
    | .ok .null => some none
    | _ => none
  let sufsJ ← getArr j "sufs"
  let sufs ← sufsJ.mapM fun x => match x with
    | .arr #[.str n, .str d] => (sufOfName n).map (·, d.toList)
    | _ => none
  pure ⟨comps.map String.toList, letter, sufs⟩

def optStr (j : Json) (k : String) : Option (Option Str) :=
  match j.getObjVal? k with
  | .ok (.str s) => some (some s.toList)
  | .ok .null => some none
  | _ => none

def opOfStr : String → Option Op
  | "<" => some .lt | "<=" => some .le | "=" => some .eq | "=*" => some .glob
  | ">=" => some .ge | ">" => some .gt | "~" => some .tilde | _ => none

def parseUseDep (j : Json) : Option UseDep := do
  let flag ← chars j "flag"
  let on ← getBool j "on"
  let dflt : Option Bool ← match j.getObjVal? "dflt" with
    | .ok .null => some none
    | .ok (.bool b) => some (some b)
    | _ => none
  pure ⟨flag, on, dflt⟩

def parseAtom (j : Json) : Option Atom := do
  let cat ← chars j "cat"
  let pkg ← chars j "pkg"
  let ops ← getStr j "op"
  let vop : Option (Op × Ver × Str) ←
    match ops, j.getObjVal? "ver" with
    | "", .ok .null => some none
    | "", _ => none
    | _, .ok .null => none
    | s, .ok v => do
      let o ← opOfStr s
      let ver ← parseVer v
      let rev ← getStr j "rev"
      pure (some (o, ver, rev.toList))
    | _, _ => none
  let negate ← getBool j "negate"
  let blocks ← getBool j "blocks"
  let strong ← getBool j "strong"
  let slot ← optStr j "slot"
  let subslot ← optStr j "subslot"
  let slotOp ← optStr j "slotop"
  let repo ← optStr j "repo"
  let use : Option (List UseDep) ← match j.getObjVal? "use" with
    | .ok .null => some none
    | .ok (.arr a) => (a.toList.mapM parseUseDep).map some
    | _ => none
  pure { cat, pkg, vop, negate, blocks, strong, slot, subslot, slotOp, repo, use }

def parsePkg (j : Json) : Option Pkg := do
  let cat ← chars j "cat"
  let pkg ← chars j "pkg"
  let ver ← (j.getObjVal? "ver").toOption >>= parseVer
  let rev ← chars j "rev"
  let slot ← chars j "slot"
  let subslot ← chars j "subslot"
  let repo ← chars j "repo"
  let iuse ← getStrs j "iuse"
  let use ← getStrs j "use"
  pure { cat, pkg, ver, rev, slot, subslot, repo, iuse := iuse.map String.toList, use := use.map String.toList }

def handle : Handler := fun cmd j =>
  match cmd with
  | "c04.match" => do
    let a ← (j.getObjVal? "atom").toOption >>= parseAtom
    let p ← (j.getObjVal? "pkg").toOption >>= parsePkg
    pure <| Json.mkObj [("model", toJson (atomMatch a p)), ("spec", toJson (Spec.matchSpec a p))]
  | _ => none
end Pkgcore.Driver.C04
