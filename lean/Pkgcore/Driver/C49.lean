import Pkgcore.Base.Proto
import Pkgcore.Spec.C49
namespace Pkgcore.Driver.C49
open Lean Pkgcore.Proto Pkgcore.C49

partial def parseStmt (j : Json) : Option Stmt := do
  match j with
  | .arr #[.str "set", .str v, .str val] => pure (.set v.toList val.toList)
  | .arr #[.str "append", .str v, .str val] => pure (.append v.toList val.toList)
  | .arr #[.str "unset", .str v] => pure (.unset v.toList)
  | .arr #[.str "func", .str n] => pure (.func n.toList)
  | .arr #[.str "export", .arr ps] => do
    let l ← ps.toList.mapM fun p => match p with
      | .str x => some x.toList
      | _ => none
    pure (.export l)
  | .arr #[.str "inherit", .arr ecls] => do
    let es ← ecls.toList.mapM fun e => match e with
      | .arr #[.str n, .arr body] => do
        let b ← body.toList.mapM parseStmt
        pure (n.toList, b)
      | _ => none
    pure (.inherit es)
  | _ => none

def mdJson (m : Metadata) : Json :=
  Json.mkObj [("keys", .arr (m.keys.map fun kv => Json.arr #[ofChars kv.1, ofChars kv.2]).toArray),
    ("phases", ofStrs m.definedPhases), ("inherit", ofChars m.inherit_), ("eclasses", ofStrs m.eclasses)]

def handle : Handler := fun cmd j =>
  match cmd with
  | "c49.metadata" => do
    let magic ← getStr j "eapi"
    let row ← Generated.C49.eapis.find? (·.magic = magic)
    let body ← getArr j "ebuild"
    let tree ← body.mapM parseStmt
    let e := eapiInfo row
    pure (Json.mkObj [("model", mdJson (metadata e tree)), ("spec", mdJson (Spec.metadata e tree))])
  | _ => none
end Pkgcore.Driver.C49
