import Pkgcore.Base.Proto
import Pkgcore.Spec.C46
namespace Pkgcore.Driver.C46
open Lean Pkgcore.Proto Pkgcore.C46

def optNat (j : Json) (k : String) : Option (Option Nat) :=
  match j.getObjVal? k with
  | .ok .null => some none
  | .ok v => (v.getNat?.toOption).map some
  | _ => none

def parseFile (j : Json) : Option FileInfo := do
  let name ← getStr j "name"
  let mtime ← getNat j "mtime"
  let size ← getNat j "size"
  pure ⟨name, mtime, size⟩

def parsePkg (j : Json) : Option RepoPkg := do
  let d ← getStrs j "distfiles"
  let f ← getBool j "fetch"
  let t ← getBool j "targeted"
  let e ← getBool j "excluded"
  let b ← getBool j "broken"
  pure ⟨d, f, t, e, b⟩

def parseOpts (j : Json) : Option Opts := do
  let a ← getBool j "installed"
  let b ← getBool j "exists"
  let c ← getBool j "fetch_restricted"
  let r ← getBool j "has_restrict"
  let x ← getBool j "has_exclude"
  let m ← optNat j "modified"
  let s ← optNat j "size"
  pure ⟨a, b, c, r, x, m, s⟩

def handle : Handler := fun cmd j =>
  match cmd with
  | "c46.clean" => do
    let fs ← getArr j "files"
    let files ← fs.mapM parseFile
    let selected ← getStrs j "selected"
    let inst ← getArr j "installed"
    let installed ← inst.mapM fun x => match x with
      | .arr a => a.toList.mapM fun (y : Json) => match y with | Json.str s => some s | _ => none
      | _ => none
    let ps ← getArr j "repo"
    let repo ← ps.mapM parsePkg
    let opts ← (j.getObjVal? "opts").toOption >>= parseOpts
    let i : Input := ⟨files, selected, installed, repo, opts⟩
    pure (Json.mkObj [("aborted", toJson (aborts i)), ("removed", toJson ((run i).getD [])), ("left", toJson (leftAfter i))])
  | _ => none
end Pkgcore.Driver.C46
