import Pkgcore.Base.Proto
import Pkgcore.Spec.C23
/-!
Driver for C23.  `c23.run`: entries + the trigger list (in hook order) → the model's resulting set.
`c23.judge`: before/after pairs produced by the real code → does each pair satisfy `Spec.Hardened`.
-/
namespace Pkgcore.Driver.C23
open Lean Pkgcore.Proto Pkgcore.C23

def parseEntry (j : Json) : Option Entry := do
  let kind ← getNat j "kind"
  let loc ← chars j "loc"
  let mode ← getNat j "mode"
  let uid ← getNat j "uid"
  let gid ← getNat j "gid"
  let payload ← getNat j "payload"
  if kind > 4 then none else pure ⟨kind, loc, mode, uid, gid, payload⟩

def entryJson (e : Entry) : Json :=
  Json.mkObj [("kind", toJson e.kind), ("loc", ofChars e.loc), ("mode", toJson e.mode), ("uid", toJson e.uid),
    ("gid", toJson e.gid), ("payload", toJson e.payload)]

def parseTrigger (j : Json) : Option Trigger := do
  let t ← getStr j "t"
  match t with
  | "fix_uid_perms" => do pure (.fixUid (← getNat j "bad") (← getNat j "good"))
  | "fix_gid_perms" => do pure (.fixGid (← getNat j "bad") (← getNat j "good"))
  | "fix_set_bits" => pure .fixSetBits
  | "detect_world_writable" => do pure (.detectWorldWritable (← getBool j "fix"))
  | "preinst_contents_reset" => do pure (.reset (← (← getArr j "image").mapM parseEntry))
  | _ => none

def handle : Handler := fun cmd j =>
  match cmd with
  | "c23.run" =>
    match (do
      let es ← (← getArr j "entries").mapM parseEntry
      let ts ← (← getArr j "triggers").mapM parseTrigger
      pure (Json.arr ((runTriggers ts es).map entryJson).toArray) : Option Json) with
    | some r => some r
    | none => some (Json.str "bad-op")
  | "c23.default" =>
    match (do
      let es ← (← getArr j "entries").mapM parseEntry
      let ts := defaultTriggers (← getNat j "bu") (← getNat j "ru") (← getNat j "bg") (← getNat j "rg")
      pure (Json.arr ((runTriggers ts es).map entryJson).toArray) : Option Json) with
    | some r => some r
    | none => some (Json.str "bad-op")
  | "c23.ebuild" =>
    match (do
      let es ← (← getArr j "entries").mapM parseEntry
      let img ← (← getArr j "image").mapM parseEntry
      let ts := ebuildTriggers (← getNat j "bu") (← getNat j "ru") (← getNat j "bg") (← getNat j "rg") img
      pure (Json.arr ((runTriggers ts es).map entryJson).toArray) : Option Json) with
    | some r => some r
    | none => some (Json.str "bad-op")
  | "c23.judge" =>
    match (do
      let before ← (← getArr j "before").mapM parseEntry
      let after ← (← getArr j "after").mapM parseEntry
      let bu ← getNat j "bu"
      let ru ← getNat j "ru"
      let bg ← getNat j "bg"
      let rg ← getNat j "rg"
      let fp ← getBool j "fp"
      if before.length ≠ after.length then none
      else pure (Json.arr ((before.zip after).map fun (e, e') => toJson (Spec.hardenedB bu ru bg rg fp e e')).toArray)
        : Option Json) with
    | some r => some r
    | none => some (Json.str "bad-op")
  | _ => none
end Pkgcore.Driver.C23
