import Pkgcore.Base.Proto
import Pkgcore.Spec.C14
namespace Pkgcore.Driver.C14
open Lean Pkgcore.Proto Pkgcore.C14

abbrev F := String

def parseOp (j : Json) : Option (Op F String) := do
  let k ← getStr j "op"
  match k with
  | "enable" => (getStrs j "vals").map Op.enable
  | "disable" => (getStrs j "vals").map Op.disable
  | "rollback" => (getInt j "point").map Op.rollback
  | "commit" => some Op.commit
  | "read" => (getStr j "attr").map Op.read
  | "wrapped" => some Op.refusedWrapped
  | "readfail" => (getStr j "attr").map Op.readFail
  | "readfault" => (getStr j "attr").map Op.read     -- resolved by `resolve` below
  | _ => none

def outJson : Out F → Json
  | .bool b => toJson b
  | .unit => Json.str "ok"
  | .typeError => Json.str "TypeError"
  | .keyError => Json.str "KeyError"
  | .value snap => Json.mkObj [("value", toJson snap)]
  | .raised => Json.str "raised"

/-- a read during which the raw package's attribute would raise if it were consulted (`"readfault"`): the model's own cache
decides whether it is consulted — a hit is an ordinary read, a miss is `Op.readFail` -/
def resolve (s : PW F String) (faulty : Bool) (op : Op F String) : Op F String :=
  match faulty, op with
  | true, .read attr =>
    match s.cache attr with
    | some (pt, _) => if pt = s.reusePt then .read attr else .readFail attr
    | none => .readFail attr
  | _, op => op

/-- run the model, reporting after every operation its result, USE set and `changes_count()`, and what the
reference object does with the same operation from the same USE set (the shape of `step_matches_spec_partial`) -/
def trace (v : Variant) (locked : F → Bool) : PW F String → List (Op F String × Bool) → List Json
  | _, [] => []
  | s, (op0, faulty) :: ops =>
    let op := resolve s faulty op0
    let (s', o) := step v locked s op
    let (u', so) := Spec.step locked s.use op
    Json.mkObj [("out", outJson o), ("use", toJson s'.use.new), ("count", toJson s'.use.count),
                ("spec_out", outJson so), ("spec_use", toJson u'.new), ("spec_count", toJson u'.count)]
      :: trace v locked s' ops

def handle : Handler := fun cmd j =>
  match cmd with
  | "c14.run" => do
    let init ← getStrs j "init"
    let changeable ← getStrs j "changeable"
    let variant ← match getStr j "variant" with
      | some "fixed" => some Variant.fixed
      | some "pinned" => some Variant.pinned
      | _ => none
    let opsJ ← getArr j "ops"
    let ops ← opsJ.mapM fun o => (parseOp o).map fun op => (op, getStr o "op" == some "readfault")
    -- `InvertedContains(changeable)`: everything outside the list is unchangeable
    let locked : F → Bool := fun f => !(changeable.contains f)
    pure (Json.arr (trace variant locked (PW.init init) ops).toArray)
  | _ => none
end Pkgcore.Driver.C14
