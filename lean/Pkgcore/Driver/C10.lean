import Pkgcore.Base.Proto
import Pkgcore.Spec.C10
import Pkgcore.Model.C10Solver
import Pkgcore.Driver.C09
namespace Pkgcore.Driver.C10
open Lean Pkgcore.Proto Pkgcore.C10

def toks (j : Json) (k : String) : Option (List Tok) := (getStrs j k).map (·.map String.toList)

def assignJson (a : List (Tok × Bool)) : Json :=
  Json.mkObj (a.map fun e => (String.ofList e.1, Json.bool e.2))

def handle : Handler := fun cmd j =>
  match cmd with
  | "c10.solve" => do
    let ts ← getArr j "deps" >>= Pkgcore.Driver.C09.depsOfJson
    let inp : Inputs := ⟨← toks j "iuse", ← toks j "force_true", ← toks j "force_false", ← toks j "prefer_true"⟩
    let sols := solve inp ts
    let vars := variables inp ts
    pure (Json.mkObj [("solutions", .arr (sols.map assignJson).toArray),
      -- the faithful solver model: the solutions in the order the real solver yields them
      ("ordered", .arr ((solveFaithful inp ts).map assignJson).toArray),
      ("preferred", assignJson (Spec.preferred inp vars)),
      ("guard", .bool (Spec.choiceCondFreeL ts && Spec.nonEmptyL ts))])
  | "c10.eval" => do
    -- compiled constraints (code) and the specification, on explicit assignments
    let ts ← getArr j "deps" >>= Pkgcore.Driver.C09.depsOfJson
    let ons ← getArr j "ons"
    let outs ← ons.mapM fun o => match o with
      | .arr a => do
        let on ← a.toList.mapM fun x => match x with | .str s => some s.toList | _ => none
        pure (Json.arr #[.bool ((compiled ts).all fun c => c.eval on), .bool (Spec.evalRU ts on)])
      | _ => none
    pure (.arr outs.toArray)
  | "c10.csp" => do
    -- a raw constraint problem for the solver model: {"vars": [[name, [int, …]], …], "cons": [[[name, …], [[int, …], …]], …]}
    -- (a table constraint: the values of the scope, in the order given, must be one of the listed tuples);
    -- answer: the solutions in the order they are yielded, each as the values of the variables in the order of "vars"
    let vars ← (← getArr j "vars").mapM fun e => match e with
      | .arr #[.str n, .arr vs] => do
        let vals ← vs.toList.mapM fun x => (x.getInt?).toOption
        pure (n.toList, vals)
      | _ => none
    let cons ← (← getArr j "cons").mapM fun e => match e with
      | .arr #[.arr sc, .arr rows] => do
        let scope ← sc.toList.mapM fun x => match x with | .str s => some s.toList | _ => none
        let table ← rows.toList.mapM fun r => match r with
          | .arr r => r.toList.mapM fun x => (x.getInt?).toOption
          | _ => none
        pure ({ scope := scope, pred := fun kw => table.contains (scope.filterMap kw) && scope.all fun x => (kw x).isSome }
          : Solver.Constraint Tok Int)
      | _ => none
    let P : Solver.Problem Tok Int := { vars := vars, cons := cons, lt := ltTok }
    let names := vars.map (·.1)
    pure (.arr ((Solver.solve P).map fun s =>
      Json.arr (names.map fun n => match s.lookup n with | some v => Json.num (Lean.JsonNumber.fromInt v) | none => Json.null).toArray).toArray)
  | _ => none
end Pkgcore.Driver.C10
