import Pkgcore.Base.Proto
import Pkgcore.Spec.C10
import Pkgcore.Driver.C09
namespace Pkgcore.Driver.C10
open Lean Pkgcore.Proto Pkgcore.C10

def toks (j : Json) (k : String) : Option (List Tok) := (getStrs j k).map (·.map String.toList)

def assignJson (a : List (Tok × Bool)) : Json :=
  Json.mkObj (a.map fun e => (String.ofList e.1, Json.bool e.2))

def handle : Handler := fun cmd j =>
  match cmd with
  | "c10.solve" => do
    let ts ← getArr j "deps" >>= Pkgcore.Driver.C09.depsOfJson
    let inp : Inputs := ⟨← toks j "iuse", ← toks j "force_true", ← toks j "force_false", ← toks j "prefer_true"⟩
    let sols := solve inp ts
    let vars := variables inp ts
    pure (Json.mkObj [("solutions", .arr (sols.map assignJson).toArray),
      ("preferred", assignJson (Spec.preferred inp vars)),
      ("guard", .bool (Spec.choiceCondFreeL ts && Spec.nonEmptyL ts))])
  | "c10.eval" => do
    -- compiled constraints (code) and the specification, on explicit assignments
    let ts ← getArr j "deps" >>= Pkgcore.Driver.C09.depsOfJson
    let ons ← getArr j "ons"
    let outs ← ons.mapM fun o => match o with
      | .arr a => do
        let on ← a.toList.mapM fun x => match x with | .str s => some s.toList | _ => none
        pure (Json.arr #[.bool ((compiled ts).all fun c => c.eval on), .bool (Spec.evalRU ts on)])
      | _ => none
    pure (.arr outs.toArray)
  | _ => none
end Pkgcore.Driver.C10
