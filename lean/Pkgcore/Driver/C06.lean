import Pkgcore.Base.Proto
import Pkgcore.Spec.C06
/-!
C06 driver.  Trees travel as JSON:
`{"t":"leaf","id":n}`, `{"t":"neg","r":T}`, `{"t":"and"|"or"|"one"|"amo","n":bool,"cs":[T…]}`, `{"t":"atom","cs":[T…]}`.

`c06.tree {tree, full, vals:[[bool…]…]}` (each valuation lists the truth value of leaf 0,1,…; a leaf id beyond
the list is a malformed request) answers
`{match:[…], eval:[…], dnf:[[T…]…], dnfEval:[…], cnf:[[T…]…]|"notimpl", cnfEval:[…]|null, okDnf, okCnf, refuses}`.
-/
namespace Pkgcore.Driver.C06
open Lean Pkgcore.Proto Pkgcore.C06 Pkgcore.C06.Spec

partial def parseR (j : Json) : Option R := do
  let t ← getStr j "t"
  let kids : Option (List R) := do
    let a ← getArr j "cs"
    a.mapM parseR
  match t with
  | "leaf" => (getNat j "id").map R.leaf
  | "neg" => do let r ← (j.getObjVal? "r").toOption; (parseR r).map R.neg
  | "and" => do pure (R.and (← getBool j "n") (← kids))
  | "or" => do pure (R.or (← getBool j "n") (← kids))
  | "one" => do pure (R.justOne (← getBool j "n") (← kids))
  | "amo" => do pure (R.atMostOne (← getBool j "n") (← kids))
  | "atom" => do pure (R.atom (← kids))
  | _ => none

partial def maxLeaf : R → Nat
  | .leaf i => i + 1
  | .neg r => maxLeaf r
  | .and _ cs | .or _ cs | .justOne _ cs | .atMostOne _ cs | .atom cs => cs.foldl (fun m c => max m (maxLeaf c)) 0

partial def toJ : R → Json
  | .leaf i => Json.mkObj [("t", "leaf"), ("id", toJson i)]
  | .neg r => Json.mkObj [("t", "neg"), ("r", toJ r)]
  | .and n cs => Json.mkObj [("t", "and"), ("n", toJson n), ("cs", Json.arr (cs.map toJ).toArray)]
  | .or n cs => Json.mkObj [("t", "or"), ("n", toJson n), ("cs", Json.arr (cs.map toJ).toArray)]
  | .justOne n cs => Json.mkObj [("t", "one"), ("n", toJson n), ("cs", Json.arr (cs.map toJ).toArray)]
  | .atMostOne n cs => Json.mkObj [("t", "amo"), ("n", toJson n), ("cs", Json.arr (cs.map toJ).toArray)]
  | .atom cs => Json.mkObj [("t", "atom"), ("cs", Json.arr (cs.map toJ).toArray)]

def clausesJ (d : List Clause) : Json := Json.arr (d.map fun c => Json.arr (c.map toJ).toArray).toArray

def parseVals (j : Json) : Option (List (List Bool)) := do
  let a ← getArr j "vals"
  a.mapM fun row => match row with
    | .arr xs => xs.toList.mapM fun x => match x with | .bool b => some b | _ => none
    | _ => none

def handle : Handler := fun cmd j =>
  match cmd with
  | "c06.tree" => do
    let r ← (j.getObjVal? "tree").toOption >>= parseR
    let full ← getBool j "full"
    let rows ← parseVals j
    if rows.any (fun row => row.length < maxLeaf r) then pure (Json.str "err-short-valuation") else
    let vals : List Val := rows.map fun row => fun i => row.getD i false
    let d := dnf full r
    let c := cnf full r
    pure (Json.mkObj [
      ("match", toJson (vals.map fun v => mtch v r)),
      ("eval", toJson (vals.map fun v => eval v r)),
      ("dnf", clausesJ d),
      ("dnfEval", toJson (vals.map fun v => evalDnf v d)),
      ("cnf", match c with | some c => clausesJ c | none => Json.str "notimpl"),
      ("cnfEval", match c with | some c => toJson (vals.map fun v => evalCnf v c) | none => Json.null),
      ("okDnf", toJson (okDnf full r)),
      ("okCnf", toJson (okCnf full r)),
      ("refuses", toJson (refusesCnf full r))])
  | _ => none
end Pkgcore.Driver.C06
