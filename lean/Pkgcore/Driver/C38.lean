import Pkgcore.Base.Proto
import Pkgcore.Spec.C38
namespace Pkgcore.Driver.C38
open Lean Pkgcore.Proto Pkgcore.C38

def str (cs : Str) : Json := .str (String.ofList cs)
def strs (l : List Str) : Json := .arr (l.map str).toArray

/-- the `parse_atom` oracle of a request: token ↦ canonical atom text; tokens not listed are malformed -/
def oracle (j : Json) (k : String) : Option (Str → Option String) :=
  match j.getObjVal? k with
  | .ok (.obj m) => some fun tok => match m.get? (String.ofList tok) with
    | some (.str s) => some s
    | _ => none
  | _ => none

/-- suggestion table: canonical atom text ↦ keywords -/
def suggestions (j : Json) (k : String) : Option (String → List Str) :=
  match j.getObjVal? k with
  | .ok (.obj m) => some fun a => match m.get? a with
    | some (.arr ks) => ks.toList.filterMap fun x => match x with | .str s => some s.toList | _ => none
    | _ => []
  | _ => none

def entryJson (e : Entry String) : Json :=
  .arr #[toJson e.lineno, str e.raw, (match e.pkg with | some p => .str p | none => .null), strs e.keywords,
         str e.comment, str e.eol]

def parseEntry : Json → Option (Entry String)
  | .arr #[ln, .str raw, pkg, .arr kws, .str comment, .str eol] => do
    let ln ← ln.getNat?.toOption
    let pkg ← match pkg with | .str p => some (some p) | .null => some none | _ => none
    let kws ← kws.toList.mapM fun x => match x with | .str s => some s.toList | _ => none
    pure ⟨ln, raw.toList, pkg, kws, comment.toList, eol.toList⟩
  | _ => none

def segsJson (s : Segs) : Json :=
  Json.mkObj [("items", .arr (s.items.map fun it => Json.arr #[str it.1, str it.2]).toArray), ("trail", str s.trail)]

def handle : Handler := fun cmd j =>
  match cmd with
  | "c38.parse" =>
    match chars j "text", oracle j "atoms" with
    | some text, some pa =>
      match parse pa text with
      | .error n => some (Json.mkObj [("err", toJson n)])
      | .ok es => some (Json.mkObj [("entries", .arr (es.map entryJson).toArray), ("render", str (renderEntries es))])
    | _, _ => some (Json.str "bad-op")
  | "c38.expand" =>
    match chars j "text", oracle j "atoms", suggestions j "suggest" with
    | some text, some pa, some sg =>
      match expandText pa sg text with
      | .ok out => some (Json.mkObj [("ok", str out)])
      | .error (.malformed n) => some (Json.mkObj [("err", .arr #["malformed", toJson n])])
      | .error (.expand (.nothingAbove n)) => some (Json.mkObj [("err", .arr #["nothing_above", toJson n])])
      | .error (.expand (.copiesEmpty n)) => some (Json.mkObj [("err", .arr #["copies_empty", toJson n])])
    | _, _, _ => some (Json.str "bad-op")
  | "c38.with_keywords" =>
    match (j.getObjVal? "entry").toOption >>= parseEntry, getStrs j "keywords" with
    | some e, some kws =>
      let e' := e.withKeywords (kws.map String.toList)
      let sc := splitComment e'.raw
      let old := splitComment e.raw
      some (Json.mkObj [("entry", entryJson e'),
        -- the rewritten line read back, and the layout the specification demands
        ("reread", Json.mkObj [("layout", segsJson (scan sc.1)), ("comment", str sc.2)]),
        ("expected", Json.mkObj [("layout", segsJson (Spec.rewrittenItems (scan old.1) (kws.map String.toList))),
                                 ("comment", str old.2)])])
    | _, _ => some (Json.str "bad-op")
  | "c38.build" =>
    match getArr j "entries" with
    | some a =>
      match a.mapM (fun (x : Json) => match x with
          | Json.arr #[Json.str spec, Json.arr kws] =>
            (kws.toList.mapM fun (k : Json) => match k with | Json.str s => some s.toList | _ => none).map
              (fun ks => ((spec, ks) : String × List Str))
          | _ => none) with
      | some ents => some (str (buildText String.toList ents))
      | none => some (Json.str "bad-op")
    | none => some (Json.str "bad-op")
  | _ => none
end Pkgcore.Driver.C38
