import Pkgcore.Base.Proto
import Pkgcore.Spec.C13
namespace Pkgcore.Driver.C13
open Lean Pkgcore.Proto Pkgcore.C13

def strs (j : Json) (k : String) : Option (List Str) := (getStrs j k).map (·.map String.toList)

def parseOps (j : Json) (k : String) : Option (List MaskOp) := do
  let a ← getArr j k
  a.mapM fun x => match x with
    | .arr #[.arr neg, .arr pos] => do
      let n ← neg.toList.mapM fun y => match y with | .str s => some s.toList | _ => none
      let p ← pos.toList.mapM fun y => match y with | .str s => some s.toList | _ => none
      pure ⟨n, p⟩
    | _ => none

def parseCls : String → Option Cls
  | "always" => some .always | "repo" => some .repo | "cat" => some .cat | "pkg" => some .pkg
  | "multi" => some .multi | "atom" => some .atom | _ => none

def parseEntry (j : Json) : Option KwEntry := do
  pure ⟨← (getStr j "cls") >>= parseCls, ← getBool j "same_key", ← getBool j "hit", ← strs j "tokens"⟩

partial def parseTree (j : Json) : Option LTree :=
  match j.getObjVal? "lic" with
  | .ok (.str s) => some (.lic s.toList)
  | _ =>
    match j.getObjVal? "all" with
    | .ok (.arr a) => (a.toList.mapM parseTree).map .all
    | _ =>
      match j.getObjVal? "any" with
      | .ok (.arr a) => (a.toList.mapM parseTree).map .any
      | _ => none

/-- `incremental_expansion_license` raises on these -/
def badLicToken (t : Str) : Bool := t == [] || t == ['-'] || t == ['@'] || t == ['-', '@']

def handle : Handler := fun cmd j =>
  match cmd with
  | "c13.visible" => do
    let groupsJ ← getArr j "groups"
    let groups ← groupsJ.mapM fun x => match x with
      | .arr #[.str n, .arr ls] => do
        let l ← ls.toList.mapM fun y => match y with | .str s => some s.toList | _ => none
        pure (n.toList, l)
      | _ => none
    let gfun : Str → List Str := fun g => (groups.lookup g).getD []
    let maskOps ← parseOps j "mask_ops"
    let unmaskOps ← parseOps j "unmask_ops"
    let kwJ ← (j.getObjVal? "kw").toOption
    let entriesJ ← getArr kwJ "entries"
    let entries ← entriesJ.mapM parseEntry
    let kw : KwConfig := ⟨(← getStr kwJ "arch").toList, ← strs kwJ "accept", entries, ← getBool kwJ "profile_keywords"⟩
    let licJ ← (j.getObjVal? "lic").toOption
    let lentJ ← getArr licJ "entries"
    let lent ← lentJ.mapM fun x => match x with
      | .arr #[.bool b, .arr ts] => do
        let t ← ts.toList.mapM fun y => match y with | .str s => some s.toList | _ => none
        pure (b, t)
      | _ => none
    let lic : LicConfig := ⟨← strs licJ "master", lent⟩
    if (lic.master ++ lent.flatMap (·.2)).any badLicToken || (kw.accept ++ entries.flatMap (·.tokens)).any (· == []) then
      pure (Json.str "err")
    else
    let pkgJ ← (j.getObjVal? "pkg").toOption
    let matching ← strs pkgJ "matching"
    let p : Pkg := ⟨fun a => matching.contains a, ← strs pkgJ "keywords", ← (pkgJ.getObjVal? "license").toOption >>= parseTree⟩
    let c : Config := ⟨maskOps, unmaskOps, kw, lic⟩
    let plain := decide (Spec.KwPlain kw)
    pure (Json.mkObj [
      ("visible", visible gfun c p),
      ("mask", maskOk p.matchesAtom maskOps unmaskOps), ("kw", kwOk kw p.keywords), ("lic", licOk gfun lic p.license),
      ("spec_mask", !(Spec.hitB p.matchesAtom maskOps) || Spec.hitB p.matchesAtom unmaskOps),
      ("spec_kw", if plain then toJson (decide (Spec.KwVisible kw p.keywords)) else Json.null),
      ("spec_lic", decide (Spec.LicVisible gfun lic p.license))])
  | _ => none
end Pkgcore.Driver.C13
