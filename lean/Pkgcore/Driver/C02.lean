import Pkgcore.Base.Proto
import Pkgcore.Spec.C02
namespace Pkgcore.Driver.C02
open Lean Pkgcore.Proto Pkgcore.C01 Pkgcore.C02

def sufOfName : String → Option Suf
  | "alpha" => some .alpha | "beta" => some .beta | "pre" => some .pre | "rc" => some .rc | "p" => some .p
  | _ => none

def parseVer (j : Json) : Option Ver := do
  let comps ← getStrs j "comps"
  let letter : Option Char ← match j.getObjVal? "letter" with
    | .ok (.str s) => (match s.toList with | [c] => some (some c) | _ => none)
    | .ok .null => some none
    | _ => none
  let sufsJ ← getArr j "sufs"
  let sufs ← sufsJ.mapM fun x => match x with
    | .arr #[.str n, .str d] => (sufOfName n).map (·, d.toList)
    | _ => none
  pure ⟨comps.map String.toList, letter, sufs⟩

/-- `"k": null` ↦ `some none`, `"k": "text"` ↦ `some (some text)`, anything else is malformed -/
def optStr (j : Json) (k : String) : Option (Option Str) :=
  match j.getObjVal? k with
  | .ok (.str s) => some (some s.toList)
  | .ok .null => some none
  | _ => none

/-- version + revision: `"ver": null` (then `"rev"` must be null too) or a lexed version with `"rev": digits` -/
def parseVR (j : Json) : Option VR :=
  match j.getObjVal? "ver" with
  | .ok .null => (match j.getObjVal? "rev" with | .ok .null => some none | _ => none)
  | .ok v => do
    let ver ← parseVer v
    let rev ← getStr j "rev"
    pure (some (ver, rev.toList))
  | _ => none

def parseCpv (j : Json) : Option Cpv := do
  let cat ← chars j "cat"
  let pkg ← chars j "pkg"
  let vr ← parseVR j
  pure ⟨cat, pkg, vr⟩

def opOfStr : String → Option Op
  | "<" => some .lt | "<=" => some .le | "=" => some .eq | "=*" => some .glob
  | ">=" => some .ge | ">" => some .gt | "~" => some .tilde | _ => none

def parseAtom (j : Json) : Option Atom := do
  let cat ← chars j "cat"
  let pkg ← chars j "pkg"
  let ops ← getStr j "op"
  let vr ← parseVR j
  let vop : Option (Op × Ver × Str) ←
    match ops, vr with
    | "", none => some none
    | "", some _ => none
    | _, none => none
    | s, some (v, r) => (opOfStr s).map fun o => some (o, v, r)
  let blocks ← getBool j "blocks"
  let strong ← getBool j "strong"
  let negate ← getBool j "negate"
  let slot ← optStr j "slot"
  let subslot ← optStr j "subslot"
  let slotOp ← optStr j "slotop"
  let use : Option (List Str) ← match j.getObjVal? "use" with
    | .ok .null => some none
    | .ok (.arr _) => (getStrs j "use").map fun l => some (l.map String.toList)
    | _ => none
  let repo ← optStr j "repo"
  pure { cat, pkg, vop, blocks, strong, negate, slot, subslot, slotOp, use, repo }

def obsJson (o : Spec.Obs) : Json := toJson [o.eq, o.ne, o.lt, o.le, o.gt, o.ge]

def cpvObs (a b : Cpv) : Option Spec.Obs := do
  let lt ← cpvLt a b
  let le ← cpvLe a b
  let gt ← cpvGt a b
  let ge ← cpvGe a b
  pure { eq := cpvEq a b, ne := cpvNe a b, lt, le, gt, ge }

def atomObs (a b : Atom) : Option Spec.Obs := do
  let eq ← atomEq a b
  let ne ← atomNe a b
  let lt ← atomLt a b
  let le ← atomLe a b
  let gt ← atomGt a b
  let ge ← atomGe a b
  pure { eq, ne, lt, le, gt, ge }

def handle : Handler := fun cmd j =>
  match cmd with
  | "c02.cpv" => do
    let a ← (j.getObjVal? "a").toOption >>= parseCpv
    let b ← (j.getObjVal? "b").toOption >>= parseCpv
    pure <| Json.mkObj [
      ("eq", toJson (cpvEq a b)),
      ("obs", match cpvObs a b with | some o => obsJson o | none => Json.str "raise"),
      ("hasheq", toJson (decide (cpvHashKey a = cpvHashKey b))),
      ("ord", toJson (ordToInt (Spec.cpvOrd a b)))]
  | "c02.atom" => do
    let a ← (j.getObjVal? "a").toOption >>= parseAtom
    let b ← (j.getObjVal? "b").toOption >>= parseAtom
    pure <| Json.mkObj [
      ("cmp", match atomCmp a b with | some c => toJson (ordToInt c) | none => Json.str "raise"),
      ("obs", match atomObs a b with | some o => obsJson o | none => Json.str "raise"),
      ("hasheq", toJson (atomHashKey a == atomHashKey b)),
      ("ord", toJson (ordToInt (Spec.atomOrd a b))),
      ("use", match a.useAttr with | some u => ofStrs u | none => Json.null)]
  | _ => none
end Pkgcore.Driver.C02
