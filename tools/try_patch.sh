#!/bin/bash
# usage: tools/try_patch.sh <patch.diff> <property ids...> ; applies the patch to /repo, runs the quick checks, reverts
set -u
patch=$(realpath "$1"); shift
cd /verif || exit 2
if [ -n "$(git -C /repo status --porcelain)" ]; then echo "/repo not clean"; exit 2; fi
git -C /repo apply "$patch" || { echo "patch does not apply"; exit 2; }
for p in "$@"; do ./check $p --tier ${TIER:-quick} | grep -E "^OK|VIOLATION|first failing|no longer" | cut -c1-400; done
git -C /repo checkout -- . ; git -C /repo status --porcelain
git checkout -- evidence 2>/dev/null
