#!/usr/bin/env python3
"""usage: keep_seed.py <src dir> <seed id> <caught: yes|no> <checks run, free text>  — copy a confirmed seeded change into /verif/seeded/<id>/"""
import json, os, shutil, sys
src, sid, caught, ran = sys.argv[1:5]
dst = os.path.join('/verif/seeded', sid)
os.makedirs(dst, exist_ok=True)
for f in os.listdir(src):
    if f.endswith(('.diff', '.py', '.sh', '.json', '.txt', '.md')):
        shutil.copy(os.path.join(src, f), os.path.join(dst, f))
meta = json.load(open(os.path.join(dst, 'meta.json')))
meta.setdefault('confirmed_by_me', []).append(ran)
meta['caught_by_check'] = caught
json.dump(meta, open(os.path.join(dst, 'meta.json'), 'w'), indent=1)
print('kept', dst)
