#!/usr/bin/env python3
"""Merge known_findings.d/*.json into known_findings.json, rewriting 'commit' of fixed entries to the sha of the
same-subject commit on /repo main (fix commits were cherry-picked from builders' branches, which changes their sha)."""
import glob, json, os, subprocess
V = '/verif'
def git(*a):
    return subprocess.run(['git', '-C', '/repo', *a], stdout=subprocess.PIPE, stderr=subprocess.DEVNULL, text=True).stdout
main = [l.split(' ', 1) for l in git('log', 'main', '--format=%H %s').splitlines()]
by_subject = {s: h for h, s in reversed(main)}
main_shas = [h for h, _ in main]
base = json.load(open(os.path.join(V, 'known_findings.json')))
have = {f['id']: f for f in base['findings']}
problems = []
for path in sorted(glob.glob(os.path.join(V, 'known_findings.d', '*.json'))):
    for f in json.load(open(path)).get('findings', []):
        have[f['id']] = f
for f in have.values():
    if f.get('status') != 'fixed':
        continue
    shas = [s for s in str(f.get('commit', '')).replace(',', ' ').split() if s]
    new = []
    for c in shas:
        hit = [h for h in main_shas if h.startswith(c)]
        if hit:
            new.append(hit[0][:7]); continue
        subj = git('log', '-1', '--format=%s', c).strip()
        if subj and subj in by_subject:
            new.append(by_subject[subj][:7])
        else:
            problems.append((f['id'], c, subj)); new.append(c)
    f['commit'] = ' '.join(new)
    f['line'] = f"fixed: property={f['property']} {f['commit']} {f['what']}"
base['findings'] = sorted(have.values(), key=lambda f: (f['property'], f['id']))
json.dump(base, open(os.path.join(V, 'known_findings.json'), 'w'), indent=1, ensure_ascii=False)
print(len(base['findings']), 'findings;', len(problems), 'unmapped commits')
for p in problems: print('  UNMAPPED', p)
