#!/bin/bash
# usage: tools/prep_seed.sh Cnn  -> creates /tmp/seed/Cnn worktree (from /repo main) and /tmp/seed/Cnn.property.json
p=$1
mkdir -p /tmp/seed/out
git -C /repo worktree add -q /tmp/seed/$p -b seed-$p-$(date +%s) main
python3 - "$p" <<'PY'
import json, sys
pid = sys.argv[1]
for l in open('/verif/properties.jsonl'):
    r = json.loads(l)
    if r['id'] == pid:
        json.dump(r, open(f'/tmp/seed/{pid}.property.json', 'w'), indent=1)
        print(r['statement'])
PY
