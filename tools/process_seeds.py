#!/usr/bin/env python3
"""usage: process_seeds.py <PID> [check ids...]  — for every /tmp/seed/out/<PID>-*: confirm (baseline passes with patch, demo fails with / passes
without, in the scratch worktree /tmp/seed/<PID>), run the /verif quick checks against it (applied to /repo, reverted afterwards), and keep it
under /verif/seeded/<PID>-i/ with meta.json extended by what was run."""
import json, os, re, shutil, subprocess, sys
recheck = '--recheck' in sys.argv      # seeds already confirmed and kept: only re-run the checks and update meta.json
args = [a for a in sys.argv[1:] if a not in ('--recheck', '--worktree')]
pid = args[0]
checks = args[1:] or [pid]
root = os.environ.get('SEED_ROOT', '/tmp/seed')
wt = f'{root}/{pid}'
out = f'{root}/out'
use_wt = '--worktree' in sys.argv   # run the checks against the scratch worktree (VERIF_REPO) instead of patching /repo: allows several properties in parallel
env = dict(os.environ, PYTHONPATH=f'{wt}/src', VERIF_REPO=wt)
def sh(cmd, **kw):
    p = subprocess.run(cmd, shell=True, stdout=subprocess.PIPE, stderr=subprocess.STDOUT, text=True, **kw)
    return p.returncode, p.stdout
if recheck:
    out = '/verif/seeded'
for d in sorted(x for x in os.listdir(out) if re.fullmatch(re.escape(pid) + r'-\d+', x)):
    src = os.path.join(out, d)
    if recheck:
        patch = os.path.join(src, 'patch.diff')
        if os.path.exists(os.path.join(src, 'patch.rebased.diff')):
            patch = os.path.join(src, 'patch.rebased.diff')   # the original no longer applies after a later fix: commit
        caught = {}
        if use_wt:
            sh(f'git -C {wt} checkout -- . ')
            sh(f'git -C {wt} merge -q --ff-only main')
            rc, o = sh(f'git -C {wt} apply {patch}')
            if rc != 0:
                print(d, 'patch does not apply to /repo main any more:', o.strip()[:150]); continue
            for c in checks:
                rcc, oc = sh(f'./check {c} --tier quick', cwd='/verif', env=dict(os.environ, VERIF_REPO=wt))
                m = [l for l in oc.splitlines() if f'property={c}' in l and ('VIOLATION' in l or l.startswith('OK'))]
                caught[c] = (m[0][:200] if m else 'no output: ' + oc[-200:])
            sh('git -C /verif checkout -- lean/Pkgcore/Generated')
            sh(f'git -C {wt} checkout -- . ')
        else:
            rcp, op = sh(f'/verif/tools/try_patch.sh {patch} ' + ' '.join(checks), cwd='/verif')
            for c in checks:
                m = [l for l in op.splitlines() if f'property={c}' in l]
                caught[c] = (m[0][:200] if m else 'no output: ' + op[-200:])
        is_caught = any('VIOLATION' in v for v in caught.values())
        meta = json.load(open(os.path.join(src, 'meta.json')))
        if 'caught_by_check' in meta and meta.get('caught_by_check') != caught:
            meta.setdefault('earlier_verdicts', []).append(meta['caught_by_check'])
        meta['caught_by_check'] = caught; meta['caught'] = is_caught
        meta.setdefault('confirmed_by_orchestrator', []).append('re-run after strengthening the check (' + os.path.basename(patch) + (', scratch worktree' if use_wt else ', applied to /repo') + '): ./check ' + ' '.join(checks) + ' -> ' + json.dumps(caught))
        json.dump(meta, open(os.path.join(src, 'meta.json'), 'w'), indent=1)
        print(d, 'CAUGHT' if is_caught else 'MISSED', caught)
        continue
    patch = os.path.join(src, 'patch.diff'); demo = os.path.join(src, 'demo.py')
    if not (os.path.exists(patch) and os.path.exists(demo)):
        print(d, 'incomplete'); continue
    ran = []
    sh(f'git -C {wt} checkout -- . ')
    if use_wt:
        sh(f'git -C {wt} merge -q --ff-only main')    # scratch worktree must be at /repo main, which the checks mirror
    rc0, _ = sh(f'/venv/bin/python {demo}', cwd=wt, env=env)
    rc, o = sh(f'git -C {wt} apply {patch}')
    if rc != 0:
        print(d, 'patch does not apply to scratch worktree'); continue
    rcb, ob = sh('/verif/tools/baseline.py', env=env)
    rc1, o1 = sh(f'/venv/bin/python {demo}', cwd=wt, env=env)
    wt_caught = {}
    if use_wt:
        for c in checks:
            rcc, oc = sh(f'./check {c} --tier quick', cwd='/verif', env=dict(os.environ, VERIF_REPO=wt))
            m = [l for l in oc.splitlines() if f'property={c}' in l and ('VIOLATION' in l or l.startswith('OK'))]
            wt_caught[c] = (m[0][:200] if m else 'no output: ' + oc[-200:])
        # the check regenerated lean/Pkgcore/Generated/*Tables.lean from the PATCHED worktree: restore the committed tables
        sh('git -C /verif checkout -- lean/Pkgcore/Generated')
    sh(f'git -C {wt} checkout -- . ')
    base_ok = 'missing=0' in ob
    ran.append(f'scratch worktree: demo exit {rc0} on HEAD, exit {rc1} with patch; baseline with patch: {ob.strip().splitlines()[-1] if ob.strip() else rcb}')
    confirmed = (rc0 == 0 and rc1 != 0 and base_ok)
    caught = {}
    if use_wt:
        caught = wt_caught
        ran.append(f'patch applied in scratch worktree {wt}; VERIF_REPO={wt} ./check ' + ' '.join(checks) + ' -> ' + json.dumps(caught))
    else:
        rcp, op = sh(f'/verif/tools/try_patch.sh {patch} ' + ' '.join(checks), cwd='/verif')
        for c in checks:
            m = [l for l in op.splitlines() if f'property={c}' in l]
            caught[c] = (m[0][:200] if m else 'no output: ' + op[-200:])
        ran.append('tools/try_patch.sh patch.diff ' + ' '.join(checks) + ' -> ' + json.dumps(caught))
    is_caught = any('VIOLATION' in v for v in caught.values())
    print(d, 'confirmed' if confirmed else f'NOT CONFIRMED (head={rc0} patched={rc1} baseline_ok={base_ok})', 'CAUGHT' if is_caught else 'MISSED', caught)
    if confirmed:
        dst = f'/verif/seeded/{d}'
        os.makedirs(dst, exist_ok=True)
        for f in os.listdir(src):
            if os.path.isfile(os.path.join(src, f)) and os.path.getsize(os.path.join(src, f)) < 200000:
                shutil.copy(os.path.join(src, f), dst)
        try:
            meta = json.load(open(os.path.join(dst, 'meta.json')))
        except Exception:
            meta = {'property': pid}
        meta['confirmed_by_orchestrator'] = ran
        meta['caught_by_check'] = caught
        meta['caught'] = is_caught
        json.dump(meta, open(os.path.join(dst, 'meta.json'), 'w'), indent=1)
