#!/usr/bin/env python3
"""Regenerate /verif/seeded/INDEX.md from seeded/*/meta.json"""
import json, os
root = '/verif/seeded'
rows = []
for d in sorted(os.listdir(root)):
    m = os.path.join(root, d, 'meta.json')
    if not os.path.exists(m):
        continue
    j = json.load(open(m))
    caught = j.get('caught_by_check', {})
    if isinstance(caught, str):
        caught = {j.get('property', '?'): 'VIOLATION' if caught == 'yes' else caught}
    verdict = []
    for c, v in caught.items():
        if 'no-failing-input-found' in v: verdict.append(f'{c}: caught (correspondence/proof broke, no failing input found)')
        elif 'VIOLATION' in v: verdict.append(f'{c}: caught with failing input')
        else: verdict.append(f'{c}: MISSED')
    note = j.get('orchestrator_note', '')
    rows.append(f"| {d} | {j.get('summary','').replace('|','/')[:300]} | {j.get('needs_to_manifest','').replace('|','/')[:200]} | {'; '.join(verdict)} {note} |")
open(os.path.join(root, 'INDEX.md'), 'w').write(
    "# Seeded changes (written by independent sub-agents that saw only the property text) and which check catches them\n\n"
    "Each directory holds patch.diff, demo.py (fails with the patch, passes without) and meta.json (what was run).\n\n"
    "| id | change | needs to manifest | quick check result |\n|---|---|---|---|\n" + "\n".join(rows) + "\n")
print(len(rows), 'seeds indexed')
