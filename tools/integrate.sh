#!/bin/bash
# usage: tools/integrate.sh <group letter> [property ids to run...]
# merges branch prop-<g> into /verif main and cherry-picks fix-<g> onto /repo main, then runs baseline + checks
set -u
g=$1; shift
cd /verif || exit 2
if [ -n "$(git -C /repo status --porcelain)" ]; then echo "/repo not clean"; exit 2; fi
git merge --no-edit -X theirs prop-$g || { echo "MERGE CONFLICT in /verif"; exit 1; }
commits=$(git -C /repo rev-list --no-merges --reverse main..fix-$g)
for c in $commits; do
  case " ${SKIP:-} " in *" ${c:0:7} "*) echo "skip (SKIP list) $c"; continue;; esac
  if git -C /repo log main --format=%s | grep -qxF "$(git -C /repo log -1 --format=%s $c)"; then echo "skip already picked $c"; continue; fi
  git -C /repo cherry-pick $c || { echo "CHERRY-PICK CONFLICT at $c in /repo"; exit 1; }
done
/verif/tools/baseline.py || { echo "BASELINE BROKEN"; exit 1; }
./check --gen-main && (cd lean && lake build 2>&1 | grep -E "error|✖" | head -20; lake build pkgdriver 2>&1 | tail -1)
for p in "$@"; do for s in 0 1 2; do VERIF_SEED=$s ./check $p --tier quick | grep -E "^OK|VIOLATION|KNOWN" ; done; done
tools/gen_manifest.py | tail -1
