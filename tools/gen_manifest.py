#!/venv/bin/python
"""Regenerate /verif/MANIFEST.json from harness/props/*.py (one module per claimed property) + tools/not_applicable.json."""
import importlib, json, os, sys
V = os.path.dirname(os.path.dirname(os.path.abspath(__file__)))
sys.path.insert(0, os.path.join(V, "harness"))
props = [json.loads(l) for l in open(os.path.join(V, "properties.jsonl"))]
na_reasons = json.load(open(os.path.join(V, "tools", "not_applicable.json")))
checks, na = [], []
for p in props:
    pid = p["id"]
    path = os.path.join(V, "harness", "props", pid.lower() + ".py")
    if os.path.exists(path) and pid not in na_reasons.get("_force", []):
        m = importlib.import_module("props." + pid.lower())
        checks.append({
            "property_id": pid,
            "quick_cmd": f"./check {pid} --tier quick",
            "thorough_cmd": f"./check {pid} --tier thorough",
            "evidence_file": f"evidence/{pid}.json",
            "replay_cmd_template": f"./check {pid} --replay {{path}}",
            "engine": "lean4-proof+correspondence",
            "level_claimed": {"category": "proof", "text": m.LEVEL_TEXT, "design_ref": f"DESIGN.md section 9, {pid}"},
            "level_note": m.LEVEL_NOTE,
            "technique": getattr(m, "TECHNIQUE", "Lean 4 theorems about a hand-written model + differential correspondence check against the real code"),
        })
    else:
        na.append({"property_id": pid, "reason": na_reasons.get(pid, "not built: no Lean model/theorems for this property yet; not claimed at a weaker technique")})
man = {
    "version": 1,
    "setup_cmd": "./check --gen-main && cd lean && lake build && lake build pkgdriver",
    "hooks": {"guard": "PKGCORE_VERIF", "enable": "no in-tree hooks: the harness imports /repo/src directly (editable install) and instruments from outside",
              "baseline_off_cmd": "/verif/tools/baseline.py", "source_commits": [], "add_only": True},
    "engines": [{"name": "lean4-proof+correspondence", "path": "check", "serves_properties": [c["property_id"] for c in checks],
                 "kind_free_text": "Lean 4 (no Mathlib needed so far) model + spec + kernel-checked theorems per property (lean/Pkgcore), axiom audit, and a Python harness (harness/) that runs the real pkgcore code and the compiled Lean model (pkgdriver) on the same generated inputs"}],
    "checks": checks,
    "not_applicable": na,
    "notes": "See DESIGN.md. known_findings.json lists fixed defects (fix: commits in /repo) and open findings.",
}
json.dump(man, open(os.path.join(V, "MANIFEST.json"), "w"), indent=1)
print(f"{len(checks)} checks, {len(na)} not claimed")
