#!/bin/bash
# usage: tools/try_seeds.sh <PID> [dir=/tmp/seed/out]  : run the property's quick check against every seeded change <dir>/<PID>-*/patch.diff
p=$1; d=${2:-/tmp/seed/out}
for s in $d/$p-*/; do
  id=$(basename $s)
  res=$(tools/try_patch.sh $s/patch.diff $p 2>&1 | grep -E "^OK|VIOLATION|does not apply|not clean" | head -1 | cut -c1-160)
  echo "$id => $res"
done
