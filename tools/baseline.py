#!/venv/bin/python
"""Run the pinned pkgcore test-suite (guard OFF) and compare with /root/.vp/BASELINE.json stable_pass.
exit 0 iff every stable_pass test passes."""
import json, os, subprocess, sys, tempfile, xml.etree.ElementTree as ET
base = json.load(open('/root/.vp/BASELINE.json'))
env = dict(os.environ); env.pop('PKGCORE_VERIF', None)
REPO = os.environ.get('VERIF_REPO', '/repo')   # a scratch worktree may be tested instead of /repo
if REPO != '/repo':
    env['PYTHONPATH'] = os.path.join(REPO, 'src')
with tempfile.TemporaryDirectory() as d:
    out = os.path.join(d, 'j.xml')
    subprocess.run(['/venv/bin/python', '-m', 'pytest', '-ra', '-q', '-p', 'no:cacheprovider', '--timeout=900',
                    '--continue-on-collection-errors', '--junitxml=' + out], cwd=REPO, env=env,
                   stdout=subprocess.DEVNULL, stderr=subprocess.DEVNULL)
    passed = set()
    for tc in ET.parse(out).getroot().iter('testcase'):
        if not any(c.tag in ('failure', 'error', 'skipped') for c in tc):
            passed.add(f"{tc.get('classname')}::{tc.get('name')}")
missing = [t for t in base['stable_pass'] if t not in passed]
print(f"stable_pass={len(base['stable_pass'])} passed_now={len(passed)} missing={len(missing)}")
for m in missing[:40]:
    print('  MISSING', m)
sys.exit(1 if missing else 0)
