#!/bin/bash
# usage: tools/run_all.sh [seed] [tier] [jobs]  — runs every check in MANIFEST.json, prints one line per property
seed=${1:-0}; tier=${2:-quick}; jobs=${3:-4}
cd "$(dirname "$0")/.." || exit 2
out=${RUNALL_OUT:-/tmp/runall}; mkdir -p $out
python3 -c "
import json
for c in json.load(open('MANIFEST.json'))['checks']: print(c['property_id'])" | xargs -P $jobs -I{} sh -c "VERIF_SEED=$seed ./check {} --tier $tier > $out/{}.log 2>&1; echo {} exit=\$? \$(grep -E '^OK|VIOLATION' $out/{}.log | head -1 | cut -c1-150)"
