#!/bin/bash
# usage: tools/run_all.sh [seed] [tier] [jobs]  — runs every check in MANIFEST.json, prints one line per property
seed=${1:-0}; tier=${2:-quick}; jobs=${3:-4}
cd /verif
mkdir -p /tmp/runall
python3 -c "
import json
for c in json.load(open('MANIFEST.json'))['checks']: print(c['property_id'])" | xargs -P $jobs -I{} sh -c "VERIF_SEED=$seed ./check {} --tier $tier > /tmp/runall/{}.log 2>&1; echo {} exit=\$? \$(grep -E '^OK|VIOLATION' /tmp/runall/{}.log | head -1 | cut -c1-150)"
