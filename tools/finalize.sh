#!/bin/bash
# final wrap-up: merge findings fragments, regenerate manifest/status/index, run all checks on three seeds
set -u
cd /verif || exit 2
git checkout -- evidence lean/Pkgcore/Generated 2>/dev/null
if [ -d known_findings.d ] && ls known_findings.d/*.json >/dev/null 2>&1; then
  tools/merge_findings.py || exit 1
  git rm -rq known_findings.d 2>/dev/null; rm -rf known_findings.d
fi
tools/gen_manifest.py | tail -1
tools/seed_index.py
tools/gen_status.py | tail -1
./check --gen-main && (cd lean && lake build 2>&1 | grep -E "error|✖" | head; lake build pkgdriver 2>&1 | tail -1)
for s in 0 1 2; do echo "== seed $s"; tools/run_all.sh $s quick 4 2>&1 | sort | grep -v "exit=0"; done
/opt/veriftools/pyvenv/bin/python - <<'PY'
import json, jsonschema, glob
jsonschema.validate(json.load(open('/verif/MANIFEST.json')), json.load(open('/root/.vp/MANIFEST.schema.json')))
sch=json.load(open('/root/.vp/EVIDENCE.schema.json')); n=0
for f in glob.glob('/verif/evidence/*.json'):
    jsonschema.validate(json.load(open(f)), sch); n+=1
print('manifest + %d evidence files valid' % n)
PY
