"""Shared machinery of the /verif checks.

A property check is a python module harness/props/cNN.py exposing

    PID          = "C01"
    OBLIGATIONS  = ["Pkgcore.C01.verCmp_eq_pms", ...]     # fully qualified theorem names
    LEAN_MODULES = ["Pkgcore.Props.C01"]                  # modules whose build = the proof
    TRUSTED      = [...]                                  # property specific trusted-base items
    RULE         = "..."                                  # how cases are generated / what is non-trivial
    def gen_tables(repo) -> {relative lean path: text}    # optional: regenerated from /repo each run
    def run(ctx)                                          # correspondence (A) + property-on-impl (C)

`run` talks to the real pkgcore code in-process (the current working tree of /repo is first on sys.path)
and to the Lean model through ctx.model(list of request dicts) -> list of replies.

Verdict logic (DESIGN.md sections 3, 6, 7):
  * ctx.violation(case, detail, finding=None): the property itself fails on the real code for this input.
      finding=<id> and <id> open in known_findings.json  -> KNOWN-FINDING line, not a violation.
  * ctx.mismatch(case, detail): model and implementation differ but the property was not shown to fail.
  * broken proof / audit / build: recorded by the framework.
  exit 1 + "VIOLATION property=<id> replay=<path>" for the first kind; if only the second/third kind
  happened: exit 1 + "VIOLATION ... no-failing-input-found".
"""
import fcntl
import hashlib
import importlib
import json
import os
import random
import re
import subprocess
import sys
import time
import traceback

VERIF = os.path.dirname(os.path.dirname(os.path.abspath(__file__)))
LEAN = os.path.join(VERIF, "lean")
REPO = os.environ.get("VERIF_REPO", "/repo")
DRIVER = os.path.join(LEAN, ".lake", "build", "bin", "pkgdriver")
STD_AXIOMS = {"propext", "Classical.choice", "Quot.sound"}
FORBIDDEN = re.compile(r"\bsorry\b|\badmit\b|^\s*axiom\s|native_decide|bv_decide|implemented_by|\bunsafe\s|maxHeartbeats\s+0\b")

BASE_TRUSTED = [
    "Lean 4.33.0 kernel (thorough tier re-checks the .olean files with leanchecker)",
    "axioms allowed in #print axioms: propext, Classical.choice, Quot.sound (audited every run); no sorry/admit/native_decide/bv_decide/user axioms",
    "Lean compiler + runtime for the pkgdriver executable (runs the model on sampled inputs only)",
    "the hand-written Lean model is faithful to the Python code only as far as the correspondence run of this check shows",
    "harness canonicalisers and generators (inputs never generated are never compared against the code)",
    "CPython and snakeoil primitives used by the modelled code",
]


def use_repo_tree():
    """Make `import pkgcore` resolve to REPO's working tree (normally /repo, the editable install)."""
    src = os.path.join(REPO, "src")
    if src not in sys.path:
        sys.path.insert(0, src)
    os.environ.setdefault("PKGCORE_VERIF", "1")
    import logging
    logging.disable(logging.CRITICAL)


def _strip_comments(text):
    # remove /- ... -/ (nested not handled; none used nested) and -- line comments
    text = re.sub(r"/-.*?-/", lambda m: "\n" * m.group(0).count("\n"), text, flags=re.S)
    return re.sub(r"--.*", "", text)


class Ctx:
    def __init__(self, mod, tier, seed):
        self.mod = mod
        self.pid = mod.PID
        self.tier = tier
        self.seed = seed
        self.rng = random.Random(seed * 1000003 + int(self.pid[1:]))
        self.t0 = time.time()
        self.evaluations = 0
        self.nontrivial = set()
        self.samples = []
        self.hist = {}
        self.violations = []      # concrete failing inputs on the real code
        self.mismatches = []      # model/impl disagreement without property failure
        self.known_hits = {}      # finding id -> first case
        self.broken = []          # proof/build/audit problems (strings)
        self.notes = []
        self.disagreements_checked = 0
        self.traces = 0
        self.extra = {}
        self.findings = load_findings()
        self._proc = None

    # ---- budget helpers
    def quick(self):
        return self.tier == "quick"

    def n(self, quick, thorough):
        return quick if self.tier == "quick" else thorough

    # ---- bookkeeping
    def count(self, key, k=1):
        self.hist[key] = self.hist.get(key, 0) + k

    def case(self, case, nontrivial=True, key=None):
        """register one evaluated case; `nontrivial` by the module's RULE; key = canonical identity"""
        self.evaluations += 1
        if nontrivial:
            if key is None:
                key = json.dumps(case, sort_keys=True, default=str)
            self.nontrivial.add(hashlib.blake2b(key.encode("utf-8", "surrogatepass"), digest_size=8).digest())
        if len(self.samples) < 6 or (self.evaluations % 997 == 0 and len(self.samples) < 12):
            self.samples.append(case)

    def violation(self, case, detail, finding=None):
        if finding is not None:
            f = self.findings.get(finding)
            if f and f.get("property") == self.pid and f.get("status") == "open":
                self.known_hits.setdefault(finding, {"case": case, "detail": detail})
                return
        if len(self.violations) < 50:
            self.violations.append({"case": case, "detail": detail, "finding_class": finding})

    def mismatch(self, case, detail):
        if len(self.mismatches) < 50:
            self.mismatches.append({"case": case, "detail": detail})

    def note(self, s):
        if s not in self.notes and len(self.notes) < 40:
            self.notes.append(s)

    # ---- model access (JSON lines to the compiled Lean driver)
    def model(self, reqs):
        reqs = list(reqs)
        if not reqs:
            return []
        driver = getattr(self, "driver", None) or DRIVER
        if not os.path.exists(driver):
            raise RuntimeError("pkgdriver not built")
        data = "\n".join(json.dumps(r, ensure_ascii=False) for r in reqs) + "\n"
        p = subprocess.run([driver], input=data.encode("utf-8"), stdout=subprocess.PIPE, stderr=subprocess.PIPE)
        if p.returncode != 0:
            raise RuntimeError("pkgdriver failed: " + p.stderr.decode("utf-8", "replace")[:2000])
        out = p.stdout.decode("utf-8").split("\n")
        if out and out[-1] == "":
            out.pop()
        if len(out) != len(reqs):
            raise RuntimeError(f"pkgdriver answered {len(out)} lines for {len(reqs)} requests")
        return [json.loads(l) for l in out]


def load_findings():
    """known_findings.json plus per-property fragments known_findings.d/Cnn.json (same format); read-only at run time"""
    out = {}
    paths = [os.path.join(VERIF, "known_findings.json")]
    d = os.path.join(VERIF, "known_findings.d")
    if os.path.isdir(d):
        paths += sorted(os.path.join(d, f) for f in os.listdir(d) if f.endswith(".json"))
    for path in paths:
        try:
            data = json.load(open(path))
        except FileNotFoundError:
            continue
        for f in data.get("findings", []):
            out[f["id"]] = f
    return out


# ---------------------------------------------------------------- Lean build / audit

def write_if_changed(path, text):
    try:
        if open(path).read() == text:
            return False
    except FileNotFoundError:
        pass
    os.makedirs(os.path.dirname(path), exist_ok=True)
    tmp = path + ".tmp%d" % os.getpid()
    with open(tmp, "w") as f:
        f.write(text)
    os.replace(tmp, path)
    return True


def gen_main():
    ddir = os.path.join(LEAN, "Pkgcore", "Driver")
    mods = sorted(f[:-5] for f in os.listdir(ddir) if f.endswith(".lean"))
    imports = "\n".join(f"import Pkgcore.Driver.{m}" for m in mods)
    handlers = ", ".join(f"Pkgcore.Driver.{m}.handle" for m in mods)
    text = f"""-- GENERATED by harness/vlib.py (gen_main); do not edit
import Pkgcore.Base.Proto
{imports}
open Lean Pkgcore.Proto
def handlers : List Handler := [{handlers}]
def step (line : String) : String :=
  match Json.parse line with
  | .error _ => "\\"bad-op\\""
  | .ok j =>
    match getStr j "cmd" with
    | none => "\\"bad-op\\""
    | some c =>
      match handlers.findSome? (fun h => h c j) with
      | some r => r.compress
      | none => "\\"bad-op\\""
partial def loop (h : IO.FS.Stream) (out : IO.FS.Stream) : IO Unit := do
  let line ← h.getLine
  if line.isEmpty then return ()
  out.putStrLn (step line)
  loop h out
def main : IO Unit := do loop (← IO.getStdin) (← IO.getStdout)
"""
    write_if_changed(os.path.join(LEAN, "Main.lean"), text)


class LakeLock:
    def __enter__(self):
        self.f = open(os.path.join(LEAN, ".lake.lock"), "w")
        fcntl.flock(self.f, fcntl.LOCK_EX)
        return self

    def __exit__(self, *a):
        fcntl.flock(self.f, fcntl.LOCK_UN)
        self.f.close()


def lake(args, timeout=3000):
    p = subprocess.run(["lake"] + args, cwd=LEAN, stdout=subprocess.PIPE, stderr=subprocess.STDOUT, timeout=timeout)
    return p.returncode, p.stdout.decode("utf-8", "replace")


def module_closure(mods):
    """transitive imports inside Pkgcore.* of the given modules (by scanning `import` lines)"""
    seen, todo = set(), list(mods)
    while todo:
        m = todo.pop()
        if m in seen or not m.startswith("Pkgcore"):
            continue
        path = os.path.join(LEAN, *m.split(".")) + ".lean"
        if not os.path.exists(path):
            continue
        seen.add(m)
        for line in open(path):
            mm = re.match(r"\s*import\s+(\S+)", line)
            if mm:
                todo.append(mm.group(1))
    return sorted(seen)


def private_driver(ctx):
    """called under the lake lock right after a successful driver build: this run talks to its own copy of the binary, so that a
    concurrent check that relinks the driver (its tables changed) cannot pull the executable away in the middle of a correspondence run"""
    import atexit, shutil, time
    bindir = os.path.dirname(DRIVER)
    for f in os.listdir(bindir):          # copies left behind by killed runs
        if f.startswith("pkgdriver.run"):
            fp = os.path.join(bindir, f)
            try:
                if time.time() - os.path.getmtime(fp) > 6 * 3600:
                    os.unlink(fp)
            except OSError:
                pass
    dst = os.path.join(bindir, "pkgdriver.run%d" % os.getpid())
    try:
        shutil.copyfile(DRIVER, dst)
        os.chmod(dst, 0o755)
    except OSError:
        return
    ctx.driver = dst
    def _rm():
        try:
            os.unlink(dst)
        except OSError:
            pass
    atexit.register(_rm)


def audit(ctx, mod):
    """build the property's modules + driver; audit axioms and forbidden tokens. returns (obligations, discharged)"""
    tables = {}
    if hasattr(mod, "gen_tables"):
        try:
            tables = mod.gen_tables(REPO) or {}
        except Exception as e:  # table extraction broke: the tie to the source is broken
            ctx.broken.append("gen_tables failed: " + "".join(traceback.format_exception_only(type(e), e)).strip())
    with LakeLock():
        for rel, text in tables.items():
            write_if_changed(os.path.join(LEAN, rel), text)
        gen_main()
        rc, out = lake(["build", "pkgdriver"])
        if rc != 0:
            ctx.broken.append("lake build pkgdriver failed:\n" + out[-3000:])
        else:
            private_driver(ctx)
        rc, out = lake(["build"] + mod.LEAN_MODULES)
        build_ok = rc == 0
        if not build_ok:
            ctx.broken.append("lake build %s failed:\n%s" % (" ".join(mod.LEAN_MODULES), out[-4000:]))
        discharged = 0
        axioms_seen = {}
        if build_ok:
            tmp = os.path.join(LEAN, ".audit_%s_%d.lean" % (mod.PID, os.getpid()))
            with open(tmp, "w") as f:
                for m in mod.LEAN_MODULES:
                    f.write(f"import {m}\n")
                for o in mod.OBLIGATIONS:
                    f.write(f"#print axioms {o}\n")
            try:
                rc, out = lake(["env", "lean", tmp])
            finally:
                os.unlink(tmp)
            # output: "'name' depends on axioms: [a, b]" or "'name' does not depend on any axioms"; errors for unknown names
            flat = re.sub(r"\s+", " ", out)
            for o in mod.OBLIGATIONS:
                m1 = re.search(r"'%s' depends on axioms: \[([^\]]*)\]" % re.escape(o), flat)
                m0 = re.search(r"'%s' does not depend on any axioms" % re.escape(o), flat)
                if m1:
                    ax = {a.strip() for a in m1.group(1).split(",") if a.strip()}
                elif m0:
                    ax = set()
                else:
                    ctx.broken.append(f"obligation {o} not found in build ({flat[:300]})")
                    continue
                axioms_seen[o] = sorted(ax)
                if ax <= STD_AXIOMS:
                    discharged += 1
                else:
                    ctx.broken.append(f"obligation {o} depends on non-standard axioms {sorted(ax - STD_AXIOMS)}")
    # forbidden tokens in the sources the proof depends on
    for m in module_closure(mod.LEAN_MODULES):
        path = os.path.join(LEAN, *m.split(".")) + ".lean"
        for i, line in enumerate(_strip_comments(open(path).read()).split("\n"), 1):
            if FORBIDDEN.search(line):
                ctx.broken.append(f"forbidden token in {m}:{i}: {line.strip()[:120]}")
    ctx.extra["axioms"] = axioms_seen
    return len(mod.OBLIGATIONS), discharged


def leancheck(ctx, mod):
    mods = module_closure(mod.LEAN_MODULES)
    with LakeLock():
        p = subprocess.run(["lake", "env", "leanchecker"] + mods, cwd=LEAN, stdout=subprocess.PIPE, stderr=subprocess.STDOUT)
    ctx.extra["leanchecker"] = {"modules": len(mods), "exit": p.returncode}
    if p.returncode != 0:
        ctx.broken.append("leanchecker rejected the compiled modules:\n" + p.stdout.decode("utf-8", "replace")[-2000:])


# ---------------------------------------------------------------- main

def main(argv):
    import argparse
    if argv == ["--gen-main"]:
        gen_main()
        return 0
    ap = argparse.ArgumentParser()
    ap.add_argument("pid")
    ap.add_argument("--tier", default=os.environ.get("VERIF_TIER", "quick"), choices=["quick", "thorough"])
    ap.add_argument("--replay")
    a = ap.parse_args(argv)
    seed = int(os.environ.get("VERIF_SEED", "0") or 0)
    use_repo_tree()
    sys.path.insert(0, os.path.join(VERIF, "harness"))
    mod = importlib.import_module("props." + a.pid.lower())
    ctx = Ctx(mod, a.tier, seed)
    if a.replay:
        rp = json.load(open(a.replay))
        ctx.extra["replay_of"] = a.replay
        ctx.replay_cases = [v["case"] for v in rp.get("violations", [])] + [m["case"] for m in rp.get("mismatches", [])]
    else:
        ctx.replay_cases = None
    obligations = discharged = 0
    try:
        obligations, discharged = audit(ctx, mod)
        if a.tier == "thorough" and not ctx.broken:
            leancheck(ctx, mod)
    except Exception as e:
        ctx.broken.append("audit crashed: " + "".join(traceback.format_exception(type(e), e, e.__traceback__))[-3000:])
    try:
        mod.run(ctx)
    except Exception as e:
        ctx.broken.append("correspondence run crashed: " + "".join(traceback.format_exception(type(e), e, e.__traceback__))[-4000:])
    wall = time.time() - ctx.t0
    for fid, f in sorted(ctx.findings.items()):
        if f.get("property") == ctx.pid and f.get("status") == "open":
            hit = "reproduced this run" if fid in ctx.known_hits else "not exercised this run"
            print(f"KNOWN-FINDING: property={ctx.pid} {fid}: {f['what']} ({hit})")
    bad = bool(ctx.violations or ctx.mismatches or ctx.broken)
    replay_path = None
    if bad:
        os.makedirs(os.path.join(VERIF, "replays"), exist_ok=True)
        replay_path = os.path.join(VERIF, "replays", f"{ctx.pid}-{a.tier}-{seed}.json")
        with open(replay_path, "w") as f:
            json.dump({"property": ctx.pid, "seed": seed, "tier": a.tier,
                       "violations": ctx.violations, "mismatches": ctx.mismatches,
                       "broken_obligations_or_correspondence": ctx.broken,
                       "how_to_replay": f"cd /verif && VERIF_SEED={seed} ./check {ctx.pid} --tier {a.tier}  (or --replay {replay_path})"},
                      f, indent=1, default=str, ensure_ascii=False)
    ev = {
        "property_id": ctx.pid, "tier": a.tier, "seed": seed, "level": "proof",
        "coverage": {
            "obligations": obligations, "discharged": discharged,
            "checker_cmd": "cd /verif/lean && lake build %s pkgdriver && lake env lean <#print axioms of each obligation>" % " ".join(mod.LEAN_MODULES)
                           + (" && lake env leanchecker <module closure>" if a.tier == "thorough" else ""),
            "trusted_base": BASE_TRUSTED + list(getattr(mod, "TRUSTED", [])),
            "obligation_names": list(mod.OBLIGATIONS),
            "evaluations": ctx.evaluations, "distinct_nontrivial": len(ctx.nontrivial),
            "rule": getattr(mod, "RULE", ""),
            "samples": ctx.samples[:12] or ["(no correspondence cases ran)"],
            "disagreements_checked": ctx.evaluations,
            "traces_validated_against_impl": ctx.traces,
            "input_histogram": ctx.hist,
            "known_findings_reproduced": sorted(ctx.known_hits),
            "notes": ctx.notes,
            "model_impl_mismatches": len(ctx.mismatches),
            "broken": ctx.broken[:5],
            **ctx.extra,
        },
        "assumptions": list(getattr(mod, "ASSUMPTIONS", [])),
        "wall_s": round(wall, 2),
        "violations": len(ctx.violations) + (1 if (bad and not ctx.violations) else 0),
    }
    os.makedirs(os.path.join(VERIF, "evidence"), exist_ok=True)
    with open(os.path.join(VERIF, "evidence", f"{ctx.pid}.json"), "w") as f:
        json.dump(ev, f, indent=1, default=str, ensure_ascii=False)
        f.write("\n")
    if bad:
        rel = os.path.relpath(replay_path, VERIF)
        if ctx.violations:
            print(f"VIOLATION property={ctx.pid} replay={rel}")
            print("  first failing input:", json.dumps(ctx.violations[0], default=str, ensure_ascii=False)[:600])
        else:
            what = (ctx.broken[:1] or [json.dumps(ctx.mismatches[0], default=str, ensure_ascii=False)])[0]
            print("  no longer checks:", what[:600].replace("\n", " | "))
            print(f"VIOLATION property={ctx.pid} replay={rel} no-failing-input-found")
        return 1
    print(f"OK property={ctx.pid} tier={a.tier} seed={seed} obligations={discharged}/{obligations} "
          f"evaluations={ctx.evaluations} distinct_nontrivial={len(ctx.nontrivial)} wall={wall:.1f}s")
    return 0


if __name__ == "__main__":
    sys.exit(main(sys.argv[1:]))
