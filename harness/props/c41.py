"""C41 — the parallel map processes every item exactly once."""
import collections
import functools
import queue as _queue
import sys
import threading
import time
import types

PID = "C41"
LEAN_MODULES = ["Pkgcore.Props.C41"]
OBLIGATIONS = [
    "Pkgcore.C41.every_item_once",
    "Pkgcore.C41.results_complete",
    "Pkgcore.C41.no_deadlock",
    "Pkgcore.C41.every_schedule_terminates",
    "Pkgcore.C41.parallelism_enough",
    "Pkgcore.C41.map_async_every_item_once",
    "Pkgcore.C41.zero_threads_counterexample",
    "Pkgcore.C41.later_call_every_item_once",
    "Pkgcore.C41.failed_call_at_most_once",
    "Pkgcore.C41.regen_every_pkg_once",
]
TECHNIQUE = ("Lean 4 theorems about a transition-system model of map_async (all interleavings of the atomic queue/worker steps) + runs of the real "
             "map_async with an instrumented queue whose event traces are replayed step by step through the model")
TRUSTED = [
    "atomicity of queue.Queue.put/get (its mutex) and of deque.append / list.append under the GIL — the granularity of the model's steps",
    "threading.Thread.start/join; the queue subclass that records put/get events inside the queue's own critical section (installed from outside for the run)",
]
ASSUMPTIONS = [
    "exactly-once is claimed for calls whose worker function does not raise and exhausts its iterator and whose input iterable does not raise; calls that "
    "break this (iterable raising at any position — modelled: kill event, at-most-once —, worker function raising or stopping early — not modelled) occur "
    "in the histories only as predecessors of the calls that are checked",
    "worker callables hand their results back as a generator (a generator function, or any callable returning one: partial, bound method, decorated wrapper, "
    "lambda, object with __call__) or return None, as both call sites do",
]
RULE = ("one process making call after call of the real map_async under sys.setswitchinterval(1e-6), about one call in twelve a failing one (input iterable raising "
        "at a random position, worker function raising, worker function returning early) followed by ordinary calls; regen_repository called through its "
        "public signature on fake repositories (0-400 packages, thorough up to 3000, 1-8 threads, sized and lazy package lists, helpers failing with "
        "MetadataException / OSError / ValueError, repositories with and without a regen helper); per call: 0-40 items (with duplicates), sized and unsized iterables, a few lazy generators stalling 0.3-0.6 s before the first item or between items, threads in "
        "{None, -3 … 9}, worker functions that yield / sleep / spin at random points (generator style) or consume everything and return None, handed over as the function itself, "
        "a functools.partial, a bound method, a decorated wrapper (with and without functools.wraps), a forwarding lambda or an object with __call__; regen calls with instant, yielding and slow "
        "(0.2-1 ms per package) helpers, some with 100-256 packages per thread plus a remainder so that a backlog of hundreds of packages is queued when feeding ends; the recorded "
        "put/get/finish trace is replayed through the Lean transition function; non-trivial = at least 2 workers each handled an item")


class _Rec:
    def __init__(self):
        self.log = []


class _Boom(Exception):
    pass


class _SizedRaiser:
    """a sized input whose iteration raises at a given position"""

    def __init__(self, seq, at, raising):
        self.seq, self.at, self.raising = list(seq), at, raising

    def __len__(self):
        return len(self.seq)

    def __iter__(self):
        return self.raising(self.seq, self.at)


class _Pkg:
    def __init__(self, i, outcome, seen, lock, nap=None):
        self.i, self.cpvstr, self.outcome, self._seen, self._lock, self._nap = i, f"cat/pkg{i}-1", outcome, seen, lock, nap

    def regen(self):
        if self._nap is not None:
            time.sleep(self._nap)
        with self._lock:
            self._seen.append((self.i, threading.get_ident()))
        if self.outcome == "metadata":
            from pkgcore.package.errors import MetadataException
            raise MetadataException(self, "keywords", "unparsable")
        if self.outcome == "oserror":
            raise OSError(f"cannot regen {self.cpvstr}")
        if self.outcome == "valueerror":
            raise ValueError(self.cpvstr)
        return ("x86",)

    @property
    def keywords(self):          # what regen_repository falls back to for a repository without a regen helper
        return self.regen()


def _regen_section(ctx, rng, rec, faults_so_far):
    """regen_repository through its public signature: every package regenerated exactly once, every error handed back"""
    from pkgcore.operations.regen import regen_repository

    ncalls = ctx.n(45, 500)
    done = 0
    for ri in range(ncalls):
        k = rng.random()
        npk = rng.choice([0, 1, 2, 3, 7, 16, 31, 33, 64, 100, 129, 257]) if k < 0.5 else rng.randint(0, 400) if k < 0.95 or ctx.tier != "thorough" else rng.randint(400, 3000)
        threads = rng.choice([1, 1, 2, 2, 3, 4, 8])
        # how long regenerating one package takes: the feeding loop is usually far ahead of slow workers, so a long backlog is queued when it ends
        work = rng.choice(["instant", "instant", "yield", "slow", "slow"])
        if ri in (1, 5, 9) or rng.random() < 0.15:
            # a backlog of several hundred packages per worker
            threads = rng.choice([1, 1, 2, 3])
            npk = threads * rng.choice([100, 128, 150, 200, 256]) + rng.randint(1, 150)
            work = "slow"
        nap = {"instant": None, "yield": 0, "slow": rng.choice([0.0002, 0.0005, 0.001])}[work]
        sized = rng.random() < 0.7
        with_helper = rng.random() < 0.75
        seen, lock, factory_calls = [], threading.Lock(), []
        pkgs = [_Pkg(i, rng.choice(["ok"] * 17 + ["metadata", "oserror", "valueerror"]), seen, lock, nap) for i in range(npk)]
        if npk and rng.random() < 0.5:
            pkgs[-1].outcome = rng.choice(["oserror", "valueerror"])          # the last package fails: its error must come back too

        class Repo:
            pass

        repo = Repo()
        extra = {"force": True} if rng.random() < 0.3 else {}
        if with_helper:
            def _regen_operation_helper(**kwargs):
                factory_calls.append(kwargs)
                return lambda pkg: pkg.regen()
            repo._regen_operation_helper = _regen_operation_helper
        rec.log = []
        case = {"regen_repository": {"packages": npk, "threads": threads, "sized": sized, "repo_has_helper": with_helper, "seconds_per_package": nap,
                                     "failing": {p.cpvstr: p.outcome for p in pkgs if p.outcome != "ok"}},
                "failing_calls_before": list(faults_so_far[-3:])}
        if ri in (3, 17) or rng.random() < 0.06:
            # a package scan that dies half-way (history for the calls that follow): the exception must come out
            at = rng.randint(0, npk)

            def scan():
                for pos, p in enumerate(pkgs):
                    if pos == at:
                        raise _Boom("package scan")
                    yield p
                raise _Boom("package scan")
            faults_so_far.append({"regen_call": ri, "kind": "package iterator raises", "at": at})
            ctx.count("fault_regen_scan_raises")
            try:
                list(regen_repository(repo, scan(), None, threads=threads, **extra))
                ctx.mismatch(case, "the exception of the package iterator was not re-raised by regen_repository")
            except _Boom:
                pass
            except Exception as e:
                ctx.violation(case, f"regen_repository raised {type(e).__name__}: {e}")
            if (collections.Counter(i for i, _ in seen) - collections.Counter(range(at))):
                ctx.violation(case, "the failing regen call regenerated packages more often than the scan delivered them")
            continue
        try:
            errors = list(regen_repository(repo, pkgs if sized else iter(pkgs), None, threads=threads, **extra))
        except Exception as e:
            ctx.violation(case, f"regen_repository raised {type(e).__name__}: {e}")
            continue
        done += 1
        workers = len({t for _, t in seen})
        ctx.case(case, workers >= 2, key=str(case))
        ctx.count("regen_pkgs_%s" % ("0" if npk == 0 else "1-15" if npk < 16 else "16-99" if npk < 100 else "100-399" if npk < 400 else "400+"))
        ctx.count("regen_threads_%d" % threads)
        ctx.count("regen_work_" + work)
        ctx.count("regen_pkgs_per_thread_%s" % ("le128" if npk <= 128 * threads else "gt128"))
        got = collections.Counter(i for i, _ in seen)
        want = collections.Counter(range(npk))
        if got != want:
            never = sorted((want - got).elements())
            twice = sorted((got - want).elements())
            ctx.violation(case, f"packages never regenerated: {[pkgs[i].cpvstr for i in never][:12]}{' …' if len(never) > 12 else ''} ({len(never)}); "
                                f"regenerated more than once: {[pkgs[i].cpvstr for i in twice][:12]} ({len(twice)})")
        got_err = collections.Counter((p.cpvstr, type(e).__name__) for p, e in errors)
        want_err = collections.Counter((p.cpvstr, {"oserror": "OSError", "valueerror": "ValueError"}[p.outcome]) for p in pkgs if p.outcome in ("oserror", "valueerror"))
        if got_err != want_err:
            ctx.violation(case, f"errors handed back {sorted(got_err.elements())[:12]} differ from the failures of the regeneration; "
                                f"lost: {sorted((want_err - got_err).elements())[:12]}, unexpected: {sorted((got_err - want_err).elements())[:12]}")
        if with_helper and any(kw != extra for kw in factory_calls):
            ctx.mismatch(case, f"the regen helper factory was called with {factory_calls}, expected {extra}")
    return done


def run(ctx):
    from pkgcore.util import thread_pool
    from snakeoil import klass

    rng = ctx.rng
    rec = _Rec()

    class TraceQueue(_queue.Queue):
        # _put/_get run inside the queue's mutex: the log order is the real order of the queue operations
        def _put(self, item):
            super()._put(item)
            rec.log.append(("put", None, None if item is klass.sentinel else item))

        def _get(self):
            item = super()._get()
            rec.log.append(("get", threading.get_ident(), None if item is klass.sentinel else item))
            return item

    class _Overlay:
        """a module with a few names replaced, everything else (queue.Full, threading.Event, …) passed through"""

        def __init__(self, mod, **over):
            self.__dict__.update(over)
            self._mod = mod

        def __getattr__(self, name):
            return getattr(self._mod, name)

    class DaemonThread(threading.Thread):
        # worker threads left blocked on the queue by a broken wind-down must not keep the check from ending
        def __init__(self, *a, **k):
            super().__init__(*a, **k)
            self.daemon = True

    real_queue_mod, real_threading_mod = thread_pool.queue, thread_pool.threading
    shim = _Overlay(real_queue_mod, Queue=TraceQueue)
    old_switch = sys.getswitchinterval()
    cases, reqs = [], []
    faults_so_far = []
    old_hook = threading.excepthook
    t_end = time.time() + ctx.n(14, 240)
    nruns = ctx.n(1500, 30000)
    n_lazy = ctx.n(4, 40)
    try:
        thread_pool.queue = shim
        thread_pool.threading = _Overlay(real_threading_mod, Thread=DaemonThread)
        sys.setswitchinterval(1e-6)
        threading.excepthook = lambda args: None      # worker functions that raise on purpose: no traceback noise
        for ci in range(nruns):
            if time.time() > t_end:
                break
            nitems = rng.choice([0, 1, 2, 3, 5, 8, 13, 21, 40]) if ci >= n_lazy else rng.choice([3, 5, 8, 13])
            items = [rng.randrange(0, 30) for _ in range(nitems)]
            threads = rng.choice([None, -3, 0, 1, 2, 2, 3, 4, 4, 6, 9])
            sized = rng.random() < 0.6
            style = "gen" if rng.random() < 0.75 else "none"
            delays = [rng.random() for _ in range(64)]
            rec.log = []
            handled_py = collections.defaultdict(list)
            # histories: now and then a call that fails — the iterable raises at some position, the worker function raises or
            # returns early — and then ordinary calls again; what an ordinary call does must not depend on what came before
            fault = None
            if ci >= n_lazy and (rng.random() < 0.08 or ci in (n_lazy + 2, n_lazy + 11)):
                fault = rng.choice(["iter_raises", "iter_raises", "functor_raises", "functor_stops"])
            fault_at = rng.randint(0, nitems) if fault else None

            def pause(k):
                d = delays[k % 64]
                if d < 0.25:
                    time.sleep(0)
                elif d < 0.32:
                    time.sleep(0.0002)
                elif d < 0.5:
                    for _ in range(int(d * 400)):
                        pass

            def functor_gen(it, tag):
                me = threading.get_ident()
                k = 0
                for x in it:
                    k += 1
                    pause(k + x)
                    handled_py[me].append(x)
                    rec.log.append(("finish", me, x))
                    pause(k * 7 + x)
                    if x % 3:
                        yield x + 1000
                    if fault == "functor_raises" and k > fault_at % 3:
                        raise _Boom("worker function")
                    if fault == "functor_stops" and k > fault_at % 3:
                        return
                rec.log.append(("end", me, None))

            def functor_none(it, tag):
                me = threading.get_ident()
                k = 0
                for x in it:
                    k += 1
                    pause(k + x)
                    handled_py[me].append(x)
                    rec.log.append(("finish", me, x))
                    if fault == "functor_raises" and k > fault_at % 3:
                        raise _Boom("worker function")
                    if fault == "functor_stops" and k > fault_at % 3:
                        return None
                rec.log.append(("end", me, None))
                return None

            # a few lazy producers per run: generators that stall before the first item or between two items (a repo scan that
            # has to regenerate metadata, a slow disk) while the workers sit idle on the queue
            stalls = {}
            if ci < n_lazy and nitems > 0:
                sized = False
                for _ in range(rng.choice([1, 1, 2])):
                    stalls[rng.randrange(0, nitems)] = rng.uniform(0.3, 0.6)
                if rng.random() < 0.5:
                    stalls[0] = rng.uniform(0.3, 0.6)
                if threads is not None and threads < 2:
                    threads = rng.choice([2, 3, 4])

            def lazy(seq, stalls):
                for pos, x in enumerate(seq):
                    if pos in stalls:
                        time.sleep(stalls[pos])
                    yield x

            def raising(seq, at):
                for pos, x in enumerate(seq):
                    if pos == at:
                        rec.log.append(("raise", None, None))
                        raise _Boom("input iterable")
                    yield x
                rec.log.append(("raise", None, None))
                raise _Boom("input iterable")

            # the worker callable comes in every shape a caller may hand over: the function itself, a functools.partial, a bound method, a
            # decorated function (wrapper with and without functools.wraps), a lambda forwarding the call, an object with __call__
            base = functor_gen if style == "gen" else functor_none
            shape = rng.choice(["function", "function", "function", "partial", "method", "wrapped", "decorated", "lambda", "callable_object"])
            if shape == "function":
                functor = base
            elif shape == "partial":
                functor = functools.partial(base)
            elif shape == "wrapped":
                @functools.wraps(base)
                def functor(*a, **k):
                    return base(*a, **k)
            elif shape == "decorated":
                def functor(*a, **k):
                    return base(*a, **k)
            elif shape == "lambda":
                functor = lambda *a, **k: base(*a, **k)      # noqa: E731
            elif style == "gen":
                class _Holder:
                    def work(self, it, tag):
                        yield from base(it, tag)
                    __call__ = work
                functor = _Holder().work if shape == "method" else _Holder()
            else:
                class _Holder:
                    def work(self, it, tag):
                        return base(it, tag)
                    __call__ = work
                functor = _Holder().work if shape == "method" else _Holder()
            iterable = list(items) if sized else (lazy(list(items), stalls) if stalls else iter(list(items)))
            if fault == "iter_raises":
                iterable = _SizedRaiser(items, fault_at, raising) if sized else raising(list(items), fault_at)
            kw = {} if threads is None and rng.random() < 0.5 else {"threads": threads}
            raised = None
            try:
                res = thread_pool.map_async(iterable, functor, "tag", **kw)
            except _Boom as e:
                raised, res = str(e), ()
                if fault != "iter_raises":
                    ctx.violation({"items": items, "threads": threads, "sized": sized, "style": style, "worker_callable": shape, "fault": fault}, f"map_async raised {type(e).__name__}: {e}")
                    continue
            except Exception as e:
                ctx.violation({"items": items, "threads": threads, "sized": sized, "style": style, "worker_callable": shape, "fault": fault}, f"map_async raised {type(e).__name__}: {e}")
                continue
            log = list(rec.log)
            results = list(res)
            # worker indices in order of first appearance; a worker whose iterator ends without a sentinel left because of the kill event
            idx = {}
            events = []
            took_sentinel = {}
            for kind, who, item in log:
                if kind == "put":
                    events.append(["put"])
                elif kind == "raise":
                    events.append(["raise"])
                else:
                    if who not in idx:
                        idx[who] = len(idx)
                    if kind == "end":
                        if not took_sentinel.get(who):
                            events.append(["quit", idx[who]])
                        continue
                    if kind == "get":
                        took_sentinel[who] = item is None
                    events.append([kind, idx[who]])
            import multiprocessing
            want_threads = multiprocessing.cpu_count() if kw.get("threads") is None else kw["threads"]
            case = {"call": ci, "items": items, "threads": kw.get("threads", "default"), "sized": sized, "style": style, "worker_callable": shape, "events": len(events),
                    "producer_stalls": {str(k): round(v, 2) for k, v in stalls.items()},
                    "failing_calls_before": list(faults_so_far[-3:])}
            if fault:
                case["fault"] = {"kind": fault, "at": fault_at}
                faults_so_far.append({"call": ci, "kind": fault, "at": fault_at})
                ctx.count("fault_" + fault)
                got = collections.Counter(x for v in handled_py.values() for x in v)
                allowed = collections.Counter(items[:fault_at] if fault == "iter_raises" else items)
                if got - allowed:
                    ctx.violation(case, f"the failing call handed {sorted((got - allowed).elements())} to the worker function more often than the input delivers them")
                if fault == "iter_raises" and raised is None:
                    ctx.mismatch(case, "the exception of the input iterable was not re-raised by map_async")
                if fault != "iter_raises":
                    continue                  # worker functions that raise / stop early are outside the model: history only
            if not fault:
                # the property on the real run (whatever calls came before in this process)
                got = sorted(x for v in handled_py.values() for x in v)
                if got != sorted(items):
                    ctx.violation(case, f"items handed to the worker function {got} differ from the input {sorted(items)}")
                want_res = sorted(x + 1000 for x in items if x % 3) if style == "gen" else []
                if sorted(results) != want_res:
                    ctx.violation(case, f"results {sorted(results)} differ from the non-empty results of all items {want_res}")
            cases.append((case, items, style, sized, want_threads, len(idx), dict(handled_py), idx, results, fault, fault_at))
            reqs.append({"cmd": "c41.par", "len": len(items) if sized else None, "threads": want_threads})
            reqs.append({"cmd": "c41.xtrace" if fault else "c41.trace", "items": items, "n": None, "events": events})
        regen_cases = _regen_section(ctx, rng, rec, faults_so_far)
    finally:
        thread_pool.queue = real_queue_mod
        thread_pool.threading = real_threading_mod
        sys.setswitchinterval(old_switch)
        threading.excepthook = old_hook

    # first ask the model for the number of threads, then replay the traces with it
    pars = ctx.model([r for r in reqs if r["cmd"] == "c41.par"])
    traces = [r for r in reqs if r["cmd"] in ("c41.trace", "c41.xtrace")]
    for t, n in zip(traces, pars):
        t["n"] = n
    reps = ctx.model(traces)
    for (case, items, style, sized, want_threads, nworkers, handled_py, idx, results, fault, fault_at), n, rep in zip(cases, pars, reps):
        if fault:
            # a call whose input raised: only the model is compared (trace enabled step by step, kill set, the undelivered items dropped)
            ctx.case(case, False, key=str(case))
            ctx.traces += 1
            if rep == "bad-op" or n == "bad-op":
                ctx.mismatch(case, "driver rejected the request")
            elif nworkers != n:
                ctx.mismatch(case, f"{nworkers} worker threads took part, the model starts {n}")
            elif not rep["ok"]:
                ctx.mismatch(case, f"event {rep['failed_at']} of the recorded trace of the failing call is not enabled in the model")
            elif not rep["terminal"] or not rep["kill"] or rep["dropped"] != items[fault_at:]:
                ctx.mismatch(case, f"the model after the failing call: terminal={rep['terminal']} kill={rep['kill']} dropped={rep['dropped']} (expected {items[fault_at:]})")
            else:
                mh = [rep["handled"][i] for i in range(len(rep["handled"]))]
                ph = [handled_py.get(w, []) for w, _ in sorted(idx.items(), key=lambda kv: kv[1])] + [[] for _ in range(len(mh) - len(idx))]
                if mh != ph:
                    ctx.mismatch(case, f"per-worker items of the failing call differ: real {ph}, model {mh}")
            continue
        busy_workers = sum(1 for v in handled_py.values() if v)
        ctx.case(case, busy_workers >= 2, key=str(case) + str(sorted(map(tuple, handled_py.values()))))
        ctx.count("threads_%s" % case["threads"])
        ctx.count("workers_used_%d" % min(busy_workers, 5))
        ctx.count("style_" + style)
        ctx.count("worker_callable_" + case["worker_callable"])
        ctx.count("sized" if sized else "unsized")
        if case["producer_stalls"]:
            ctx.count("lazy_producer")
        ctx.traces += 1
        # the model: thread count and the trace
        if rep == "bad-op" or n == "bad-op":
            ctx.mismatch(case, "driver rejected the request")
            continue
        if nworkers != n:
            ctx.mismatch(case, f"{nworkers} worker threads took part, the model starts {n}")
            continue
        if not rep["ok"]:
            ctx.mismatch(case, f"event {rep['failed_at']} of the recorded trace is not enabled in the model")
            continue
        if not rep["terminal"] or rep["queue_left"] != 0:
            ctx.mismatch(case, f"the model is not in its final state after the recorded trace (terminal={rep['terminal']}, queue_left={rep['queue_left']})")
            continue
        mh = [rep["handled"][i] for i in range(len(rep["handled"]))]
        ph = [handled_py.get(w, []) for w, _ in sorted(idx.items(), key=lambda kv: kv[1])] + [[] for _ in range(len(mh) - len(idx))]
        if mh != ph:
            ctx.mismatch(case, f"per-worker items differ: real {ph}, model {mh}")
        if style == "gen" and sorted(rep["results"]) != sorted(results):
            ctx.mismatch(case, f"results differ: real {sorted(results)}, model {sorted(rep['results'])}")
    ctx.extra["runs"] = len(cases)
    ctx.extra["regen_repository_calls"] = regen_cases


LEVEL_TEXT = ("Kernel-checked Lean 4 theorems about a transition-system model of map_async (producer, FIFO queue, n workers, sentinels): in every state "
              "reachable by any interleaving of the atomic steps, when the call returns each input item has been handed to the worker function exactly "
              "once and the result deque holds exactly the results of all items; no reachable state is stuck and every schedule terminates; map_async "
              "always starts at least one worker when there is an item; with the kill event modelled, a call whose own input does not raise does so whatever "
              "calls (also failed ones) came before it in the process, a call whose input raises hands no item over twice; regen_repository, which passes "
              "its package list through unchanged, regenerates every package once and yields every error. The model is tied to the code by running the real map_async with an "
              "instrumented queue under a minimal thread switch interval and replaying every recorded event trace through the model's transition function.")
LEVEL_NOTE = ("Partial: atomicity of queue.Queue and deque.append and the GIL are trusted; worker functions that raise or stop early are outside the model "
              "(they occur in the checked histories only as predecessors); for iterables that raise the model proves at-most-once, not exactly-once.")
