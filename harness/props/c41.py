"""C41 — the parallel map processes every item exactly once."""
import collections
import queue as _queue
import sys
import threading
import time
import types

PID = "C41"
LEAN_MODULES = ["Pkgcore.Props.C41"]
OBLIGATIONS = [
    "Pkgcore.C41.every_item_once",
    "Pkgcore.C41.results_complete",
    "Pkgcore.C41.no_deadlock",
    "Pkgcore.C41.every_schedule_terminates",
    "Pkgcore.C41.parallelism_enough",
    "Pkgcore.C41.map_async_every_item_once",
    "Pkgcore.C41.zero_threads_counterexample",
]
TECHNIQUE = ("Lean 4 theorems about a transition-system model of map_async (all interleavings of the atomic queue/worker steps) + runs of the real "
             "map_async with an instrumented queue whose event traces are replayed step by step through the model")
TRUSTED = [
    "atomicity of queue.Queue.put/get (its mutex) and of deque.append / list.append under the GIL — the granularity of the model's steps",
    "threading.Thread.start/join; the queue subclass that records put/get events inside the queue's own critical section (installed from outside for the run)",
]
ASSUMPTIONS = [
    "the worker function does not raise and exhausts its iterator; the input iterable does not raise (so the kill event stays clear)",
    "worker functions yield their results (generator style) or return None, as both call sites do",
]
RULE = ("runs of the real map_async under sys.setswitchinterval(1e-6): 0-40 items (with duplicates), sized and unsized iterables, a few lazy generators stalling 0.3-0.6 s before the first item or between items, threads in "
        "{None, -3 … 9}, worker functions that yield / sleep / spin at random points (generator style) or consume everything and return None; the recorded "
        "put/get/finish trace is replayed through the Lean transition function; non-trivial = at least 2 workers each handled an item")


class _Rec:
    def __init__(self):
        self.log = []


def run(ctx):
    from pkgcore.util import thread_pool
    from snakeoil import klass

    rng = ctx.rng
    rec = _Rec()

    class TraceQueue(_queue.Queue):
        # _put/_get run inside the queue's mutex: the log order is the real order of the queue operations
        def _put(self, item):
            super()._put(item)
            rec.log.append(("put", None, None if item is klass.sentinel else item))

        def _get(self):
            item = super()._get()
            rec.log.append(("get", threading.get_ident(), None if item is klass.sentinel else item))
            return item

    shim = types.SimpleNamespace(Queue=TraceQueue)
    real_queue_mod = thread_pool.queue
    old_switch = sys.getswitchinterval()
    cases, reqs = [], []
    t_end = time.time() + ctx.n(14, 240)
    nruns = ctx.n(1500, 30000)
    n_lazy = ctx.n(4, 40)
    try:
        thread_pool.queue = shim
        sys.setswitchinterval(1e-6)
        for ci in range(nruns):
            if time.time() > t_end:
                break
            nitems = rng.choice([0, 1, 2, 3, 5, 8, 13, 21, 40]) if ci >= n_lazy else rng.choice([3, 5, 8, 13])
            items = [rng.randrange(0, 30) for _ in range(nitems)]
            threads = rng.choice([None, -3, 0, 1, 2, 2, 3, 4, 4, 6, 9])
            sized = rng.random() < 0.6
            style = "gen" if rng.random() < 0.75 else "none"
            delays = [rng.random() for _ in range(64)]
            rec.log = []
            handled_py = collections.defaultdict(list)

            def pause(k):
                d = delays[k % 64]
                if d < 0.25:
                    time.sleep(0)
                elif d < 0.32:
                    time.sleep(0.0002)
                elif d < 0.5:
                    for _ in range(int(d * 400)):
                        pass

            def functor_gen(it, tag):
                me = threading.get_ident()
                k = 0
                for x in it:
                    k += 1
                    pause(k + x)
                    handled_py[me].append(x)
                    rec.log.append(("finish", me, x))
                    pause(k * 7 + x)
                    if x % 3:
                        yield x + 1000

            def functor_none(it, tag):
                me = threading.get_ident()
                k = 0
                for x in it:
                    k += 1
                    pause(k + x)
                    handled_py[me].append(x)
                    rec.log.append(("finish", me, x))
                return None

            # a few lazy producers per run: generators that stall before the first item or between two items (a repo scan that
            # has to regenerate metadata, a slow disk) while the workers sit idle on the queue
            stalls = {}
            if ci < n_lazy and nitems > 0:
                sized = False
                for _ in range(rng.choice([1, 1, 2])):
                    stalls[rng.randrange(0, nitems)] = rng.uniform(0.3, 0.6)
                if rng.random() < 0.5:
                    stalls[0] = rng.uniform(0.3, 0.6)
                if threads is not None and threads < 2:
                    threads = rng.choice([2, 3, 4])

            def lazy(seq, stalls):
                for pos, x in enumerate(seq):
                    if pos in stalls:
                        time.sleep(stalls[pos])
                    yield x

            iterable = list(items) if sized else (lazy(list(items), stalls) if stalls else iter(list(items)))
            kw = {} if threads is None and rng.random() < 0.5 else {"threads": threads}
            try:
                res = thread_pool.map_async(iterable, functor_gen if style == "gen" else functor_none, "tag", **kw)
            except Exception as e:
                ctx.violation({"items": items, "threads": threads, "sized": sized, "style": style}, f"map_async raised {type(e).__name__}: {e}")
                continue
            log = list(rec.log)
            results = list(res)
            # worker indices in order of first appearance
            idx = {}
            events = []
            for kind, who, item in log:
                if kind == "put":
                    events.append(["put"])
                else:
                    if who not in idx:
                        idx[who] = len(idx)
                    events.append([kind, idx[who]])
            import multiprocessing
            want_threads = multiprocessing.cpu_count() if kw.get("threads") is None else kw["threads"]
            case = {"items": items, "threads": kw.get("threads", "default"), "sized": sized, "style": style, "events": len(events),
                    "producer_stalls": {str(k): round(v, 2) for k, v in stalls.items()}}
            cases.append((case, items, style, sized, want_threads, len(idx), dict(handled_py), idx, results))
            reqs.append({"cmd": "c41.par", "len": len(items) if sized else None, "threads": want_threads})
            reqs.append(None)   # placeholder for the trace request, needs n from the model
            reqs[-1] = {"cmd": "c41.trace", "items": items, "n": None, "events": events}
    finally:
        thread_pool.queue = real_queue_mod
        sys.setswitchinterval(old_switch)

    # first ask the model for the number of threads, then replay the traces with it
    pars = ctx.model([r for r in reqs if r["cmd"] == "c41.par"])
    traces = [r for r in reqs if r["cmd"] == "c41.trace"]
    for t, n in zip(traces, pars):
        t["n"] = n
    reps = ctx.model(traces)
    for (case, items, style, sized, want_threads, nworkers, handled_py, idx, results), n, rep in zip(cases, pars, reps):
        busy_workers = sum(1 for v in handled_py.values() if v)
        ctx.case(case, busy_workers >= 2, key=str(case) + str(sorted(map(tuple, handled_py.values()))))
        ctx.count("threads_%s" % case["threads"])
        ctx.count("workers_used_%d" % min(busy_workers, 5))
        ctx.count("style_" + style)
        ctx.count("sized" if sized else "unsized")
        if case["producer_stalls"]:
            ctx.count("lazy_producer")
        ctx.traces += 1
        # the property on the real run
        got = sorted(x for v in handled_py.values() for x in v)
        if got != sorted(items):
            ctx.violation(case, f"items handed to the worker function {got} differ from the input {sorted(items)}")
        want_res = sorted(x + 1000 for x in items if x % 3) if style == "gen" else []
        if sorted(results) != want_res:
            ctx.violation(case, f"results {sorted(results)} differ from the non-empty results of all items {want_res}")
        # the model: thread count and the trace
        if rep == "bad-op" or n == "bad-op":
            ctx.mismatch(case, "driver rejected the request")
            continue
        if nworkers != n:
            ctx.mismatch(case, f"{nworkers} worker threads took part, the model starts {n}")
            continue
        if not rep["ok"]:
            ctx.mismatch(case, f"event {rep['failed_at']} of the recorded trace is not enabled in the model")
            continue
        if not rep["terminal"] or rep["queue_left"] != 0:
            ctx.mismatch(case, f"the model is not in its final state after the recorded trace (terminal={rep['terminal']}, queue_left={rep['queue_left']})")
            continue
        mh = [rep["handled"][i] for i in range(len(rep["handled"]))]
        ph = [handled_py.get(w, []) for w, _ in sorted(idx.items(), key=lambda kv: kv[1])] + [[] for _ in range(len(mh) - len(idx))]
        if mh != ph:
            ctx.mismatch(case, f"per-worker items differ: real {ph}, model {mh}")
        if style == "gen" and sorted(rep["results"]) != sorted(results):
            ctx.mismatch(case, f"results differ: real {sorted(results)}, model {sorted(rep['results'])}")
    ctx.extra["runs"] = len(cases)


LEVEL_TEXT = ("Kernel-checked Lean 4 theorems about a transition-system model of map_async (producer, FIFO queue, n workers, sentinels): in every state "
              "reachable by any interleaving of the atomic steps, when the call returns each input item has been handed to the worker function exactly "
              "once and the result deque holds exactly the results of all items; no reachable state is stuck and every schedule terminates; map_async "
              "always starts at least one worker when there is an item. The model is tied to the code by running the real map_async with an "
              "instrumented queue under a minimal thread switch interval and replaying every recorded event trace through the model's transition function.")
LEVEL_NOTE = ("Partial: atomicity of queue.Queue and deque.append and the GIL are trusted; worker functions that raise or stop early, and iterables that "
              "raise, are outside the model.")
