"""C37 — Bugzilla searches keep their meaning when rendered, combined and batched."""
import re
import urllib.parse

PID = "C37"
LEAN_MODULES = ["Pkgcore.Props.C37"]
OBLIGATIONS = [
    "Pkgcore.C37.slots_unique_consecutive",
    "Pkgcore.C37.groups_balanced",
    "Pkgcore.C37.read_render_roundtrip",
    "Pkgcore.C37.and_preserves_wf",
    "Pkgcore.C37.anyOf_preserves_wf",
    "Pkgcore.C37.sameKeyGuardB_iff",
    "Pkgcore.C37.and_is_conjunction_partial",
    "Pkgcore.C37.and_counterexample",
    "Pkgcore.C37.batches_no_axis",
    "Pkgcore.C37.batches_partition_in_order",
    "Pkgcore.C37.batches_repeat_rest",
    "Pkgcore.C37.batch_within_budget",
]
TRUSTED = [
    "the reference Bugzilla reader/evaluator (plain keys: OR within a key, AND across keys; boolean chart read by slot number with "
    "OP/CP groups, j<N> joins, n<N> negation; top level AND) is the specification Spec.readCharts/Spec.meaning; a Python transcription "
    "in this harness is compared with the Lean one on every case",
    "parameter keys are structured tokens in the model (Key.f 3 for 'f3'); the f-string formatting is tied to the code by comparing "
    "Key.toString with the real params() output",
    "len(urllib.parse.quote_plus(s)) is an abstract function `el` in the theorems; the driver's concrete quoteLen is compared with "
    "urllib through the batch boundaries of every batching case",
    "constants (simple keys, chart fields/operators of the named constructors, Join values, UNRESOLVED, MAX_URL_LENGTH) regenerated "
    "from the imported modules on every run by probing the constructors",
]
ASSUMPTIONS = [
    "plain keys come from the named constructors (none of them looks like a chart key f<N>/o<N>/v<N>/j<N>/n<N> or limit/offset/order)",
    "no condition uses the reserved field names OP / CP, and no plain key is listed twice in one search (Chart.WF / KeysNodup: "
    "established by the named constructors, preserved by & and any_of — proved)",
    "batch_within_budget: the quoted v<slot> key is not longer than the quoted field name of the split condition (true for "
    "package_list_any: cf_stabilisation_atoms vs v<slot>)",
]
RULE = ("searches are construction terms over the named constructors (ids, product, component, category, unresolved, resolution, status, cc, "
        "assigned_to, keywords, flag, without_tags, package_list_any), any_of nesting up to depth 3, &, paged, and directly constructed "
        "Criterion/ChartGroup trees (negation, AND/OR/AND_G groups, empty groups, all ChartOp operators); the same term is built on the real "
        "API and evaluated by the Lean model. rendering: non-trivial = at least one group or two top-level charts. conjunction: pairs of "
        "searches with random truth assignments to the atomic facts they mention; non-trivial = both operands non-empty and (a shared plain "
        "key or charts on both sides). batching: long id / package lists (some with both axes, extra constraints, paging) under random "
        "base/max budgets; non-trivial = more than one batch")

SIMPLE_CTORS = ["ids", "product", "component", "resolution", "status", "cc", "assigned_to"]
CHART_CTORS = ["keywords", "without_tags", "package_list_any"]


def q(s):
    return '"' + s.replace("\\", "\\\\").replace('"', '\\"') + '"'


def gen_tables(repo):
    """constants of query.py/enums.py, obtained by calling the named constructors with probe values"""
    from pkgcore.bugzilla import enums, query
    BQ = query.BugQuery
    simple = []
    for name in SIMPLE_CTORS:
        probe = BQ.ids([7]) if name == "ids" else getattr(BQ, name)("7")
        if len(probe.simple) != 1 or probe.simple[0][1] != ("7",) or probe.charts:
            raise RuntimeError(f"BugQuery.{name} no longer builds one simple parameter")
        simple.append((name, probe.simple[0][0]))
    charts = []
    for name in CHART_CTORS:
        probe = BQ.package_list_any(["7"]) if name == "package_list_any" else getattr(BQ, name)("7")
        if probe.simple or len(probe.charts) != 1 or not isinstance(probe.charts[0], query.Criterion) or probe.charts[0].values != ("7",) \
                or probe.charts[0].negate:
            raise RuntimeError(f"BugQuery.{name} no longer builds one criterion")
        c = probe.charts[0]
        charts.append((name, c.field, str(c.op), c.splittable))
    fl = BQ.flag("N", "7")
    c = fl.charts[0]
    if fl.simple or len(fl.charts) != 1 or c.values != ("N7",) or c.negate or c.splittable:
        raise RuntimeError("BugQuery.flag changed shape")
    unres = BQ.unresolved()
    cat = BQ.category(enums.BugCategory.STABLEREQ)
    if [k for k, _ in cat.simple] != ["product", "component"] or cat.charts:
        raise RuntimeError("BugQuery.category changed shape")
    grp = BQ.any_of(BQ.keywords("7")).charts[0]
    text = ("-- GENERATED from /repo by harness/props/c37.py (gen_tables); do not edit\n"
            "namespace Pkgcore.Generated.C37\n"
            f"def simpleCtors : List (String × String) := [{', '.join('(%s, %s)' % (q(a), q(b)) for a, b in simple)}]\n"
            f"def chartCtors : List (String × String × String × Bool) := [{', '.join('(%s, %s, %s, %s)' % (q(a), q(b), q(c_), str(d).lower()) for a, b, c_, d in charts)}]\n"
            f"def flagCtor : String × String := ({q(c.field)}, {q(str(c.op))})\n"
            f"def unresolved : String × String := ({q(unres.simple[0][0])}, {q(unres.simple[0][1][0])})\n"
            f"def categoryProduct : String × String := ({q(cat.simple[0][0])}, {q(cat.simple[0][1][0])})\n"
            f"def categoryComponentKey : String := {q(cat.simple[1][0])}\n"
            f"def joinOr : String := {q(str(grp.join))}\n"
            f"def joinValues : List String := [{', '.join(q(str(j)) for j in enums.Join)}]\n"
            f"def maxUrlLength : Nat := {query.MAX_URL_LENGTH}\n"
            "end Pkgcore.Generated.C37\n")
    return {"Pkgcore/Generated/C37Tables.lean": text}


# ------------------------------------------------------------------ reference Bugzilla reader / evaluator (python transcription of Spec)

CHART_KEY = re.compile(r"^([fovjn])([0-9]+)$")
PAGING = ("limit", "offset", "order")


class BadChart(ValueError):
    pass


def read_params(params):
    """-> (simple: dict key -> [values], charts: [tree], paging).  Strict: slots 1..n, exactly one f each, groups closed."""
    simple, slots, paging = {}, {}, {}
    for k, v in params:
        m = CHART_KEY.match(k)
        if m:
            slots.setdefault(int(m.group(2)), {}).setdefault(m.group(1), []).append(v)
        elif k in PAGING:
            paging.setdefault(k, []).append(v)
        else:
            simple.setdefault(k, []).append(v)
    n = sum(len(s.get("f", [])) for s in slots.values())
    if any(not 1 <= k <= n for k in slots):
        raise BadChart(f"chart parameter outside slots 1..{n}: {sorted(slots)}")
    stack = [["AND", []]]
    for k in range(1, n + 1):
        s = slots.get(k, {})
        if len(s.get("f", [])) != 1:
            raise BadChart(f"slot {k} carries {len(s.get('f', []))} f parameters")
        f = s["f"][0]
        if f == "OP":
            if set(s) - {"f", "j"} or len(s.get("j", [])) > 1:
                raise BadChart(f"group marker at slot {k} carries other parameters")
            stack.append([s.get("j", ["AND"])[0], []])
        elif f == "CP":
            if set(s) != {"f"}:
                raise BadChart(f"close marker at slot {k} carries other parameters")
            if len(stack) < 2:
                raise BadChart(f"unbalanced CP at slot {k}")
            j, ch = stack.pop()
            stack[-1][1].append({"group": [j, ch]})
        else:
            if len(s.get("o", [])) != 1 or "j" in s or s.get("n", []) not in ([], ["1"]):
                raise BadChart(f"malformed condition at slot {k}")
            stack[-1][1].append({"crit": [f, s["o"][0], list(s.get("v", [])), s.get("n", []) == ["1"]]})
    if len(stack) != 1:
        raise BadChart("unclosed group")
    return simple, stack[0][1], paging


def eval_tree(t, I):
    if "crit" in t:
        f, o, vs, neg = t["crit"]
        return ((f, o, tuple(vs)) in I) != neg
    j, ch = t["group"]
    vals = [eval_tree(c, I) for c in ch]
    return any(vals) if j == "OR" else all(vals)


def meaning(params, S, I):
    try:
        simple, charts, _ = read_params(params)
    except BadChart:
        return False
    return all(any((k, v) in S for v in vs) for k, vs in simple.items()) and all(eval_tree(c, I) for c in charts)


def tree_of(chart):
    """what a chart object of the code denotes — read off the dataclasses, not off the rendering"""
    from pkgcore.bugzilla.query import ChartGroup
    if isinstance(chart, ChartGroup):
        return {"group": [str(chart.join), [tree_of(c) for c in chart.children]]}
    return {"crit": [chart.field, str(chart.op), list(chart.values), chart.negate]}


def nslots(chart):
    from pkgcore.bugzilla.query import ChartGroup
    return 2 + sum(nslots(c) for c in chart.children) if isinstance(chart, ChartGroup) else 1


# ------------------------------------------------------------------ construction terms

VALS = ["1", "2", "3", "4"]
WORDS = ["ALLARCHES", "CC-ARCHES", "nattka:skip", "a b", "é&=x", "x"]
EMAILS = ["amd64@gentoo.org", "m@gentoo.org", "x86@gentoo.org"]
LONG_FIELD = "cf_stabilisation_atoms"


def build(term):
    """construct the real BugQuery through the public API; BugzillaUsageError propagates"""
    from pkgcore.bugzilla import enums
    from pkgcore.bugzilla.query import BugQuery, ChartGroup, Criterion
    t = term["t"]
    if t == "empty":
        return BugQuery()
    if t == "simple":
        c = term["ctor"]
        if c == "ids":
            return BugQuery.ids(int(v) for v in term["values"])
        vals = term["values"]
        if c == "product":
            vals = [enums.Product(v) if v in set(enums.Product) else v for v in vals]
        elif c == "component":
            vals = [enums.Component(v) if v in set(enums.Component) else v for v in vals]
        elif c == "status":
            vals = [enums.Status(v) if v in set(enums.Status) else v for v in vals]
        return getattr(BugQuery, c)(*vals)
    if t == "unresolved":
        return BugQuery.unresolved()
    if t == "category":
        return BugQuery.category(*[enums.BugCategory(c) for c in term["components"]])
    if t == "chart":
        if term["ctor"] == "package_list_any":
            return BugQuery.package_list_any(iter(term["values"]))
        return getattr(BugQuery, term["ctor"])(*term["values"])
    if t == "flag":
        sts = [enums.FlagStatus(s) if s in set(enums.FlagStatus) else s for s in term["statuses"]]
        return BugQuery.flag(term["name"], *sts)
    if t == "raw":
        def chart(j):
            if "crit" in j:
                f, o, vs, neg, spl = j["crit"]
                return Criterion(f, enums.ChartOp(o), tuple(vs), negate=neg, splittable=spl)
            join, cs = j["group"]
            return ChartGroup(enums.Join(join), tuple(chart(c) for c in cs))
        return BugQuery(simple=tuple((k, tuple(vs)) for k, vs in term["simple"]), charts=tuple(chart(c) for c in term["charts"]),
                        limit=term["limit"], offset=term["offset"], order=term["order"])
    if t == "and":
        return build(term["a"]) & build(term["b"])
    if t == "any_of":
        return BugQuery.any_of(*[build(x) for x in term["qs"]])
    if t == "paged":
        return build(term["q"]).paged(term["limit"], term["offset"])
    raise ValueError(t)


def gen_simple(rng, empty_ok=True):
    from pkgcore.bugzilla import enums
    k = rng.randrange(9)
    pick = lambda pool, lo=1, hi=3: rng.sample(pool, rng.randint(lo, min(hi, len(pool))))
    if k == 0:
        return {"t": "simple", "ctor": "ids", "values": [str(rng.choice([1, 2, 3, 4, 900000, 12])) for _ in range(rng.randint(0 if empty_ok else 1, 3))]}
    if k == 1:
        return {"t": "simple", "ctor": "product", "values": pick([str(p) for p in enums.Product] + ["Other"])}
    if k == 2:
        return {"t": "simple", "ctor": "component", "values": pick([str(c) for c in enums.Component][:4] + ["Other"])}
    if k == 3:
        return {"t": "simple", "ctor": "resolution", "values": pick(["---", "FIXED", "OBSOLETE"])}
    if k == 4:
        return {"t": "simple", "ctor": "status", "values": pick([str(s) for s in enums.Status][:4])}
    if k == 5:
        return {"t": "simple", "ctor": "cc", "values": pick(EMAILS, 0 if empty_ok else 1)}
    if k == 6:
        return {"t": "simple", "ctor": "assigned_to", "values": pick(EMAILS)}
    if k == 7:
        return {"t": "unresolved"}
    return {"t": "category", "components": pick([str(c.component) for c in enums.BugCategory], 1, 2)}


def gen_raw_chart(rng, depth):
    from pkgcore.bugzilla import enums
    if depth < 2 and rng.random() < 0.35:
        return {"group": [rng.choice([str(j) for j in enums.Join]), [gen_raw_chart(rng, depth + 1) for _ in range(rng.randint(0, 3))]]}
    ops = [str(o) for o in enums.ChartOp]
    return {"crit": [rng.choice(["keywords", "tag", "flagtypes.name", "short_desc", LONG_FIELD]), rng.choice(ops),
                     rng.sample(WORDS, rng.randint(0, 3)), rng.random() < 0.4, False]}


def gen_chart_term(rng, depth=0):
    from pkgcore.bugzilla import enums
    k = rng.random()
    if depth < 3 and k < 0.28:
        return {"t": "any_of", "qs": [gen_chart_term(rng, depth + 1) for _ in range(rng.randint(0, 3))]}
    if depth < 3 and k < 0.42:
        return {"t": "and", "a": gen_chart_term(rng, depth + 1), "b": gen_chart_term(rng, depth + 1)}
    if k < 0.55:
        return {"t": "raw", "simple": [], "charts": [gen_raw_chart(rng, 0) for _ in range(rng.randint(1, 2))],
                "limit": None, "offset": None, "order": None}
    c = rng.randrange(4)
    if c == 0:
        return {"t": "chart", "ctor": "keywords", "values": rng.sample(WORDS, rng.randint(0, 3))}
    if c == 1:
        return {"t": "chart", "ctor": "without_tags", "values": rng.sample(WORDS, rng.randint(1, 2))}
    if c == 2:
        return {"t": "chart", "ctor": "package_list_any", "values": ["=dev-libs/p%s-1" % v for v in rng.sample(VALS, rng.randint(0, 3))]}
    return {"t": "flag", "name": rng.choice(["sanity-check", "review"]),
            "statuses": rng.sample([str(s) for s in enums.FlagStatus] + ["!"], rng.randint(1, 2))}


def gen_term(rng, depth=0):
    k = rng.random()
    if depth < 3 and k < 0.45:
        return {"t": "and", "a": gen_term(rng, depth + 1), "b": gen_term(rng, depth + 1)}
    if k < 0.50:
        return {"t": "paged", "q": gen_term(rng, depth + 1) if depth < 3 else {"t": "empty"},
                "limit": rng.choice([1, 10, 100, 0, -1]) if rng.random() < 0.2 else rng.randint(1, 500), "offset": rng.choice([0, 0, 5, 200, -1])}
    if k < 0.54:
        return {"t": "raw", "simple": [], "charts": [], "limit": rng.choice([None, 0, 7]), "offset": rng.choice([None, 0, 3]),
                "order": rng.choice([None, "", "bug_id", "changeddate DESC"])}
    if k < 0.57:
        return {"t": "any_of", "qs": [gen_term(rng, depth + 1) for _ in range(rng.randint(1, 2))]}   # usually refused: simple params
    if k < 0.60:
        return {"t": "empty"}
    if k < 0.80:
        return gen_chart_term(rng, depth)
    return gen_simple(rng)


CORPUS_TERMS = [
    {"t": "empty"},
    {"t": "simple", "ctor": "ids", "values": ["1", "2", "3"]},
    {"t": "simple", "ctor": "ids", "values": []},
    {"t": "any_of", "qs": []},
    {"t": "any_of", "qs": [{"t": "chart", "ctor": "keywords", "values": ["ALLARCHES"]}, {"t": "flag", "name": "sanity-check", "statuses": ["-"]}]},
    {"t": "any_of", "qs": [{"t": "simple", "ctor": "cc", "values": ["a@b"]}]},
    {"t": "and", "a": {"t": "chart", "ctor": "keywords", "values": ["x"]}, "b": {"t": "any_of", "qs": [{"t": "chart", "ctor": "keywords", "values": ["y"]}]}},
    # nested groups, empty group, negation, AND_G, criterion without values
    {"t": "raw", "simple": [], "charts": [{"group": ["OR", [{"group": ["AND", [{"crit": ["keywords", "anywords", ["x"], True, False]}, {"group": ["AND_G", []]}]]},
                                                         {"crit": ["tag", "isempty", [], False, False]}]]},
                                         {"crit": ["short_desc", "substring", ["a b", "é&=x"], True, False]}], "limit": None, "offset": None, "order": None},
    {"t": "any_of", "qs": [{"t": "any_of", "qs": [{"t": "any_of", "qs": [{"t": "chart", "ctor": "without_tags", "values": ["nattka:skip"]}]}]},
                           {"t": "and", "a": {"t": "flag", "name": "f", "statuses": ["+", "?"]}, "b": {"t": "chart", "ctor": "package_list_any", "values": ["a/b", "c/d"]}}]},
    {"t": "paged", "q": {"t": "unresolved"}, "limit": 100, "offset": 200},
    {"t": "paged", "q": {"t": "empty"}, "limit": 100, "offset": 0},
    {"t": "paged", "q": {"t": "empty"}, "limit": 0, "offset": 0},
    {"t": "paged", "q": {"t": "empty"}, "limit": 10, "offset": -1},
    {"t": "raw", "simple": [], "charts": [], "limit": None, "offset": None, "order": "bug_id"},
    {"t": "and", "a": {"t": "raw", "simple": [], "charts": [], "limit": 5, "offset": 2, "order": "a"},
     "b": {"t": "raw", "simple": [], "charts": [], "limit": None, "offset": None, "order": ""}},
    {"t": "and", "a": {"t": "category", "components": ["Stabilization", "Keywording"]}, "b": {"t": "simple", "ctor": "component", "values": ["Keywording", "Stabilization"]}},
]

# (a, b, true plain atoms, true chart atoms)
CORPUS_PAIRS = [
    # the open finding: same plain key, different value sets -> union
    ({"t": "simple", "ctor": "ids", "values": ["1", "2"]}, {"t": "simple", "ctor": "ids", "values": ["2", "3"]}, [["id", "1"]], []),
    ({"t": "simple", "ctor": "component", "values": ["Stabilization"]}, {"t": "simple", "ctor": "component", "values": ["Keywording"]},
     [["component", "Keywording"]], []),
    ({"t": "category", "components": ["Stabilization"]}, {"t": "simple", "ctor": "product", "values": ["Gentoo Security"]}, [["product", "Gentoo Security"], ["component", "Stabilization"]], []),
    # same key, same set (different order / duplicates): conjunction
    ({"t": "simple", "ctor": "ids", "values": ["1", "2"]}, {"t": "simple", "ctor": "ids", "values": ["2", "1", "2"]}, [["id", "2"]], []),
    # same key, one side empty
    ({"t": "simple", "ctor": "cc", "values": []}, {"t": "simple", "ctor": "cc", "values": ["a@b"]}, [], []),
    # different keys + charts on both sides
    ({"t": "and", "a": {"t": "simple", "ctor": "cc", "values": ["amd64@gentoo.org"]}, "b": {"t": "chart", "ctor": "keywords", "values": ["x"]}},
     {"t": "and", "a": {"t": "simple", "ctor": "assigned_to", "values": ["m@gentoo.org"]}, "b": {"t": "any_of", "qs": [{"t": "chart", "ctor": "keywords", "values": ["y"]}]}},
     [["cc", "amd64@gentoo.org"], ["assigned_to", "m@gentoo.org"]], [["keywords", "anywords", ["x"]]]),
    ({"t": "flag", "name": "sanity-check", "statuses": ["+"]}, {"t": "flag", "name": "other", "statuses": ["-"]}, [], [["flagtypes.name", "anywords", ["sanity-check+"]]]),
]


# ------------------------------------------------------------------ checks

def atoms_of(params):
    """the atomic facts a parameter list talks about: plain (key, value) pairs and un-negated conditions"""
    try:
        simple, charts, _ = read_params(params)
    except BadChart:
        return [], []
    S = [(k, v) for k, vs in simple.items() for v in vs]
    I = []

    def walk(t):
        if "crit" in t:
            I.append((t["crit"][0], t["crit"][1], tuple(t["crit"][2])))
        else:
            for c in t["group"][1]:
                walk(c)
    for c in charts:
        walk(c)
    return S, I


def py_guard(a, b):
    """complement of the input class of the open finding: every plain key constrained by both operands carries the same value set"""
    ma, mb = {}, {}
    for k, vs in a.simple:
        ma.setdefault(k, set()).update(vs)
    for k, vs in b.simple:
        mb.setdefault(k, set()).update(vs)
    return all(not ma[k] or not mb[k] or ma[k] == mb[k] for k in ma if k in mb)


def in_finding_class(term):
    """does building this term combine (somewhere) two searches inside the input class of the open finding?  On such terms a
    difference between the real result and the model (which mirrors the union) is tolerated, so that an upstream repair of
    the defect is not itself reported; the property (edge C) is still evaluated on them."""
    from pkgcore.bugzilla.errors import BugzillaUsageError
    t = term["t"]
    subs = [term["a"], term["b"]] if t == "and" else term["qs"] if t == "any_of" else [term["q"]] if t == "paged" else []
    if any(in_finding_class(x) for x in subs):
        return True
    if t == "and":
        try:
            return not py_guard(build(term["a"]), build(term["b"]))
        except BugzillaUsageError:
            return False
    return False


def check_params(ctx, terms):
    from pkgcore.bugzilla.errors import BugzillaUsageError
    from pkgcore.bugzilla.query import ChartGroup
    reqs = [{"cmd": "c37.params", "q": t} for t in terms]
    for term, rep in zip(terms, ctx.model(reqs)):
        case = {"query": term}
        try:
            q = build(term)
        except BugzillaUsageError:
            q = None
        except Exception as e:
            ctx.case(case, True)
            ctx.violation(case, f"building the search raised {type(e).__name__}: {e}")
            continue
        if rep == "bad-op":
            ctx.mismatch(case, "driver rejected the request")
            continue
        if q is None or rep == "refused":
            ctx.case(case, False)
            ctx.count("params_refused")
            if (q is None) != (rep == "refused") and in_finding_class(term):
                ctx.count("params_differs_inside_finding_class_tolerated")
            elif (q is None) != (rep == "refused"):
                ctx.mismatch(case, f"impl {'refuses' if q is None else 'builds'}, model {'refuses' if rep == 'refused' else 'builds'}")
            continue
        params = q.params()
        want_tree = [tree_of(c) for c in q.charts]
        ngroups = json_count(want_tree, "group")
        ctx.case(case, ngroups >= 1 or len(q.charts) >= 2, key=repr(params))
        ctx.count("params_charts_%d" % min(len(q.charts), 4))
        ctx.count("params_groups_%d" % min(ngroups, 4))
        ctx.count("params_depth_%d" % depth_of(want_tree))
        if q.simple:
            ctx.count("params_with_simple")
        if any(k in PAGING for k, _ in params):
            ctx.count("params_with_paging")
        # ---- edge C on the real rendering: unique consecutive slots, balanced groups, reads back as its own charts
        bad = None
        fslots = [int(k[1:]) for k, _ in params if CHART_KEY.match(k) and k[0] == "f"]
        if fslots != list(range(1, len(fslots) + 1)):
            bad = f"f slots are {fslots}, not 1..{len(fslots)} each once"
        elif len(fslots) != sum(nslots(c) for c in q.charts):
            bad = f"{len(fslots)} slots for charts needing {sum(nslots(c) for c in q.charts)}"
        else:
            depth = 0
            for k, v in params:
                if CHART_KEY.match(k) and k[0] == "f":
                    depth += (v == "OP") - (v == "CP")
                    if depth < 0:
                        bad = "a group is closed before it is opened"
                        break
            if bad is None and depth != 0:
                bad = "a group is left open"
        if bad is None:
            try:
                simple, got_tree, paging = read_params(params)
                if got_tree != want_tree:
                    bad = f"the rendering reads back as {got_tree}, the search holds {want_tree}"
                elif {k: vs for k, vs in simple.items()} != merged_simple(q.simple):
                    bad = f"plain parameters read back as {simple}, the search holds {q.simple}"
            except BadChart as e:
                bad = f"the reference chart reader rejects the rendering: {e}"
        if bad:
            ctx.violation({**case, "params": params}, bad)
            continue
        # ---- edge A
        if [list(p) for p in params] != rep["params"] and in_finding_class(term):
            ctx.count("params_differs_inside_finding_class_tolerated")
        elif [list(p) for p in params] != rep["params"]:
            ctx.mismatch(case, f"impl params {params} != model params {rep['params']}")
        elif rep["read"] != want_tree:
            ctx.mismatch(case, f"lean reference reader gives {rep['read']}, python reference reader {want_tree}")
        elif not rep["balanced"]:
            ctx.mismatch(case, "lean `balanced` rejects a rendering the python check accepts")
        elif rep["simple"] != [[k, list(vs)] for k, vs in q.simple]:
            ctx.mismatch(case, f"impl simple {q.simple} != model simple {rep['simple']}")


def merged_simple(simple):
    out = {}
    for k, vs in simple:
        if vs:
            out.setdefault(k, []).extend(vs)
    return out


def json_count(trees, kind):
    n = 0
    for t in trees:
        if kind in t:
            n += 1
        if "group" in t:
            n += json_count(t["group"][1], kind)
    return n


def depth_of(trees):
    return max([1 + depth_of(t["group"][1]) if "group" in t else 1 for t in trees], default=0)


def check_meaning(ctx, pairs):
    from pkgcore.bugzilla.errors import BugzillaUsageError
    built = []
    for a, b, S, I in pairs:
        try:
            qa, qb = build(a), build(b)
        except BugzillaUsageError:
            continue
        built.append((a, b, S, I, qa, qb))
    reqs = [{"cmd": "c37.meaning", "a": a, "b": b, "S": S, "I": I} for a, b, S, I, _, _ in built]
    for (a, b, S, I, qa, qb), rep in zip(built, ctx.model(reqs)):
        case = {"a": a, "b": b, "true_plain_atoms": S, "true_conditions": I}
        if not isinstance(rep, dict):
            ctx.mismatch(case, f"driver answered {rep!r}")
            continue
        guard = py_guard(qa, qb)
        try:
            qab = qa & qb
            pab = qab.params()
        except BugzillaUsageError as e:
            ctx.case(case, True)
            if guard:
                ctx.violation(case, f"a & b is refused ({e}) although no plain key is constrained differently by the operands")
            else:
                ctx.count("and_refused_inside_finding_class_tolerated")
            continue
        except Exception as e:
            ctx.case(case, True)
            ctx.violation(case, f"a & b raised {type(e).__name__}: {e}")
            continue
        Sset = {tuple(x) for x in S}
        Iset = {(f, o, tuple(vs)) for f, o, vs in I}
        ma, mb, mab = meaning(qa.params(), Sset, Iset), meaning(qb.params(), Sset, Iset), meaning(pab, Sset, Iset)
        shared = {k for k, _ in qa.simple} & {k for k, _ in qb.simple}
        ctx.case(case, bool(qa.params()) and bool(qb.params()) and (bool(shared) or (bool(qa.charts) and bool(qb.charts))),
                 key=repr((qa.params(), qb.params(), sorted(Sset), sorted(Iset))))
        ctx.count("and_guard_%s" % ("holds" if guard else "fails"))
        ctx.count("and_shared_keys_%d" % min(len(shared), 3))
        ctx.count("and_value_%s%s" % ("T" if ma else "F", "T" if mb else "F"))
        # ---- edge C: & is the conjunction, for this bug
        if mab != (ma and mb):
            detail = (f"(a & b) renders {pab}; for a bug with plain facts {sorted(Sset)} and conditions {sorted(Iset)} it "
                      f"{'matches' if mab else 'does not match'}, while a {'matches' if ma else 'does not match'} and b {'matches' if mb else 'does not match'}")
            if not guard:
                ctx.violation(case, detail, finding="C37-same-key-values-unioned")
            else:
                ctx.violation(case, detail)
                continue
        # ---- edge A
        if [list(p) for p in pab] != rep["ab_params"] and (not guard or in_finding_class(a) or in_finding_class(b)):
            ctx.count("and_differs_inside_finding_class_tolerated")
        elif [list(p) for p in pab] != rep["ab_params"]:
            ctx.mismatch(case, f"impl (a & b).params() {pab} != model {rep['ab_params']}")
        elif (ma, mb, mab) != (rep["a"], rep["b"], rep["ab"]):
            ctx.mismatch(case, f"python reference meaning {(ma, mb, mab)} != lean reference meaning {(rep['a'], rep['b'], rep['ab'])}")
        elif guard != rep["guard"]:
            ctx.mismatch(case, f"finding class differs: python guard {guard}, lean sameKeyGuardB {rep['guard']}")


def gen_batch_term(rng, thorough):
    parts = []
    big = 120 if thorough else 40
    if rng.random() < 0.75:
        n = rng.choice([0, 1, 2, 5, rng.randint(3, big)])
        parts.append({"t": "simple", "ctor": "ids", "values": [str(rng.randint(1, 10 ** rng.randint(1, 7))) for _ in range(n)]})
    if rng.random() < 0.65:
        n = rng.choice([0, 1, 3, rng.randint(2, big // 2)])
        stem = rng.choice(["=dev-libs/verylongpackagename%d-1.2.3_p20240101-r3", "x%d", "dev-libs/é b%d", "~app/c-2:3[use]%d"])
        parts.append({"t": "chart", "ctor": "package_list_any", "values": [stem % rng.randint(0, 999) for _ in range(n)]})
    if rng.random() < 0.25:
        parts.append({"t": "chart", "ctor": "package_list_any", "values": ["p%d" % i for i in range(rng.randint(0, 12))]})
    if rng.random() < 0.15:  # a raw splittable condition on the same (long) field, negated / another operator
        parts.append({"t": "raw", "simple": [], "charts": [{"crit": [LONG_FIELD, rng.choice(["anywords", "nowords", "allwordssubstr"]),
                                                                   ["q%d" % i for i in range(rng.randint(0, 9))], rng.random() < 0.5, True]}],
                      "limit": None, "offset": None, "order": None})
    for _ in range(rng.randint(0, 2)):
        parts.append(gen_chart_term(rng, 1) if rng.random() < 0.5 else gen_simple(rng))
    rng.shuffle(parts)
    term = {"t": "empty"}
    for p in parts:
        term = {"t": "and", "a": term, "b": p} if term["t"] != "empty" or rng.random() < 0.2 else p
    if rng.random() < 0.2:
        term = {"t": "paged", "q": term, "limit": rng.randint(1, 100), "offset": rng.choice([0, 30])}
    return term


def url_len(params):
    return len(urllib.parse.urlencode(params))


def check_batches(ctx, cases):
    from pkgcore.bugzilla.errors import BugzillaUsageError
    from pkgcore.bugzilla.query import Criterion
    built = []
    for term, base, mx in cases:
        try:
            built.append((term, base, mx, build(term)))
        except BugzillaUsageError:
            continue
    reqs = [{"cmd": "c37.batches", "q": t, "base": base, "max": mx} for t, base, mx, _ in built]
    for (term, base, mx, q), rep in zip(built, ctx.model(reqs)):
        case = {"query": term, "base_length": base, "max_length": mx}
        if not isinstance(rep, dict):
            ctx.mismatch(case, f"driver answered {rep!r}")
            continue
        try:
            bs = list(q.batches(base, mx)) if (base, mx) != (None, None) else list(q.batches())
        except Exception as e:
            ctx.case(case, True)
            ctx.violation(case, f"batches() raised {type(e).__name__}: {e}")
            continue
        qp = q.params()
        bps = [b.params() for b in bs]
        if (base, mx) == (None, None):
            base, mx = 0, ctx.extra["max_url_length"]
        # the keys under which split values can be rendered: `id`, or v<slot> of a top-level splittable condition
        keys, slot = [], 1
        if any(k == "id" for k, _ in q.simple):
            keys.append("id")
        for ch in q.charts:
            if isinstance(ch, Criterion) and ch.splittable:
                keys.append("v%d" % slot)
            slot += nslots(ch)
        ctx.case(case, len(bs) > 1, key=repr((qp, base, mx)))
        ctx.count("batch_count_%s" % (len(bs) if len(bs) < 4 else "4+"))
        ctx.count("batch_axes_%d" % len(keys))
        # ---- edge C
        # The property holds when SOME candidate axis K explains the batches: values under K partitioned in order, everything
        # else repeated, no empty batch, and within budget if every single value of K fits.  (With one batch several K can
        # explain it; the axis the model reports must be one of them — checked below.)
        good, why = [], "no candidate axis"
        if not keys:
            if bps != [qp]:
                ctx.violation(case, f"a search without a splittable axis is batched as {bps}")
                continue
        else:
            for K in keys:
                vals = [v for k, v in qp if k == K]
                rest = [(k, v) for k, v in qp if k != K]
                if [v for bp in bps for k, v in bp if k == K] != vals:
                    why = f"values under {K} over the batches are not the original values in order"
                    continue
                if any([(k, v) for k, v in bp if k != K] != rest for bp in bps):
                    why = f"the parameters other than {K} are not repeated unchanged in every batch"
                    continue
                if vals and any(not [1 for k, _ in bp if k == K] for bp in bps):
                    why = f"an empty batch among {len(bps)}"
                    continue
                single_fits = bool(vals) and all(url_len(rest + [(K, v)]) <= mx - base for v in vals)
                over = [url_len(bp) for bp in bps if url_len(bp) > mx - base]
                if single_fits and over:
                    why = f"every single value under {K} fits {mx - base} but a batch is {over[0]} long"
                    continue
                good.append((K, single_fits))
            if not good:
                ctx.violation({**case, "batches": bps[:3]}, f"no splittable axis explains the batches: {why}")
                continue
            ctx.count("batch_axis_" + ("id" if good[0][0] == "id" else "chart"))
            ctx.count("batch_single_fits" if good[0][1] else "batch_single_does_not_fit")
            if len(good) > 1:
                ctx.count("batch_axis_ambiguous")
            if rep["axis"] is not None:
                mk = "id" if rep["axis"]["kind"] == "simple" else "v%d" % (1 + sum(nslots(c) for c in q.charts[:rep["axis"]["index"]]))
                if mk not in [K for K, _ in good] and in_finding_class(term):
                    ctx.count("batches_differs_inside_finding_class_tolerated")
                elif mk not in [K for K, _ in good]:
                    ctx.mismatch(case, f"the model splits along {mk}, the real batches are only explained by {[K for K, _ in good]}")
                    continue
        # ---- edge A
        if [[list(p) for p in bp] for bp in bps] != rep["batches"] and in_finding_class(term):
            ctx.count("batches_differs_inside_finding_class_tolerated")
        elif [[list(p) for p in bp] for bp in bps] != rep["batches"]:
            ctx.mismatch(case, f"impl batches {[len(bp) for bp in bps]} (sizes) != model batches {[len(bp) for bp in rep['batches']]}; "
                               f"first difference: {first_diff(bps, rep['batches'])}")
        elif (rep["axis"] is None) != (not keys):
            ctx.mismatch(case, f"model axis {rep['axis']} but candidate keys {keys}")


def first_diff(a, b):
    for i, (x, y) in enumerate(zip(a, b)):
        if [list(p) for p in x] != y:
            return {"batch": i, "impl": x[:8], "model": y[:8]}
    return {"impl_batches": len(a), "model_batches": len(b)}


def run(ctx):
    from pkgcore.bugzilla import query
    rng = ctx.rng
    ctx.extra["max_url_length"] = query.MAX_URL_LENGTH
    # 1. rendering
    terms = list(CORPUS_TERMS)
    if ctx.replay_cases:
        terms = [c["query"] for c in ctx.replay_cases if "query" in c and "max_length" not in c] + terms
    terms += [gen_term(rng) for _ in range(ctx.n(4000, 60000))]
    check_params(ctx, terms)
    # 2. & is the conjunction
    pairs = [tuple(p) for p in CORPUS_PAIRS]
    if ctx.replay_cases:
        pairs = [(c["a"], c["b"], c["true_plain_atoms"], c["true_conditions"]) for c in ctx.replay_cases if "true_plain_atoms" in c] + pairs
    from pkgcore.bugzilla.errors import BugzillaUsageError
    for _ in range(ctx.n(4000, 50000)):
        a, b = gen_term(rng, 1), gen_term(rng, 1)
        try:
            pa, pb = build(a).params(), build(b).params()
        except BugzillaUsageError:
            continue
        Sa, Ia = atoms_of(pa)
        Sb, Ib = atoms_of(pb)
        Sall, Iall = sorted(set(Sa + Sb)), sorted(set(Ia + Ib))
        for _ in range(2):
            p = rng.choice([0.2, 0.5, 0.8])
            S = [list(x) for x in Sall if rng.random() < p]
            I = [[f, o, list(vs)] for f, o, vs in Iall if rng.random() < p]
            pairs.append((a, b, S, I))
    if not ctx.quick():
        # bounded-exhaustive: every ordered pair of a small universe of searches under EVERY truth assignment of their atoms
        import itertools
        kw = lambda *v: {"t": "chart", "ctor": "keywords", "values": list(v)}
        ids = lambda *v: {"t": "simple", "ctor": "ids", "values": list(v)}
        raw = lambda *c: {"t": "raw", "simple": [], "charts": list(c), "limit": None, "offset": None, "order": None}
        small = [{"t": "empty"}, ids("1"), ids("2"), ids("1", "2"), ids(), {"t": "simple", "ctor": "cc", "values": ["a@b"]},
                 kw("x"), kw("y"), raw({"crit": ["keywords", "anywords", ["x"], True, False]}),
                 {"t": "any_of", "qs": [kw("x"), kw("y")]}, {"t": "any_of", "qs": []},
                 raw({"group": ["AND", [{"crit": ["keywords", "anywords", ["y"], False, False]}, {"group": ["OR", []]}]]}),
                 {"t": "and", "a": ids("1"), "b": kw("x")}, {"t": "and", "a": {"t": "simple", "ctor": "cc", "values": ["a@b"]}, "b": ids("2", "1")}]
        n0 = len(pairs)
        for a, b in itertools.product(small, small):
            Sa, Ia = atoms_of(build(a).params())
            Sb, Ib = atoms_of(build(b).params())
            Sall, Iall = sorted(set(Sa + Sb)), sorted(set(Ia + Ib))
            atoms = [("S", x) for x in Sall] + [("I", x) for x in Iall]
            for bits in itertools.product([False, True], repeat=len(atoms)):
                S = [list(x) for (kind, x), bit in zip(atoms, bits) if bit and kind == "S"]
                I = [[x[0], x[1], list(x[2])] for (kind, x), bit in zip(atoms, bits) if bit and kind == "I"]
                pairs.append((a, b, S, I))
        ctx.extra["exhaustive_small_universe_conjunction_cases"] = len(pairs) - n0
    check_meaning(ctx, pairs)
    # 3. batching
    cases = [
        ({"t": "simple", "ctor": "ids", "values": [str(i) for i in range(900000, 902000)]}, None, None),
        ({"t": "and", "a": {"t": "simple", "ctor": "ids", "values": [str(i) for i in range(900000, 902000)]}, "b": {"t": "unresolved"}}, 0, 500),
        ({"t": "chart", "ctor": "package_list_any", "values": [f"=dev-libs/verylongpackagename{i}-1.2.3_p20240101-r3" for i in range(200)]}, 4000, 6000),
        ({"t": "and", "a": {"t": "simple", "ctor": "ids", "values": ["1", "2"]},
          "b": {"t": "chart", "ctor": "package_list_any", "values": [f"=dev-libs/pkg{i}-1" for i in range(400)]}}, 0, 6000),
        ({"t": "simple", "ctor": "ids", "values": []}, 0, 10),
        ({"t": "simple", "ctor": "ids", "values": ["1", "22", "333"]}, 0, 4),          # nothing fits: one value per batch
        ({"t": "simple", "ctor": "ids", "values": ["1", "2", "3"]}, 0, 9),             # id=1&id=2 is 9 long but priced 10: one per batch
        ({"t": "simple", "ctor": "ids", "values": ["1", "2", "3"]}, 0, 10),            # budget hit exactly
        ({"t": "simple", "ctor": "ids", "values": ["1", "2", "3"]}, 10, 5),            # negative budget
        ({"t": "unresolved"}, 0, 100),
        ({"t": "any_of", "qs": [{"t": "chart", "ctor": "package_list_any", "values": ["a", "b"]}]}, 0, 30),   # nested: not an axis
    ]
    if ctx.replay_cases:
        cases = [(c["query"], c["base_length"], c["max_length"]) for c in ctx.replay_cases if "max_length" in c] + cases
    for _ in range(ctx.n(900, 8000)):
        cases.append((gen_batch_term(rng, not ctx.quick()), rng.choice([0, 0, 10, 100, 4000]), rng.choice([60, 100, 150, 200, 300, 500, 1000, 6000])))
    check_batches(ctx, cases)


LEVEL_TEXT = ("Kernel-checked Lean 4 theorems about a model of Criterion/ChartGroup rendering, BugQuery.params, __and__/_merge_simple, any_of "
              "and batches: for every search (any nesting, any number of conditions) the f-parameters are exactly f1..fn in order and every "
              "chart parameter belongs to one of these slots; group markers are balanced; the reference Bugzilla chart reader reads the "
              "rendering back as exactly the search's charts; a & b means a and b for every bug whenever no plain key is constrained "
              "differently by both operands (the complementary class is the open finding, with a proved counterexample); batches partition "
              "the split values in order without empty batches, repeat every other parameter unchanged, and stay within max_length - "
              "base_length whenever each single value fits — for all budgets and all quoted-length functions. Tied to the code by a "
              "differential run on construction terms evaluated both through the real public API and by the model, which also evaluates "
              "the property itself on the real renderings with a Python transcription of the reference reader/evaluator.")
LEVEL_NOTE = ("Trusted: Lean kernel; standard axioms only; the reference Bugzilla semantics as specification; key formatting f\"f{slot}\" "
              "(structured tokens, compared textually with the real output); urllib quoting as an abstract length function. Partial: "
              "and_is_conjunction holds only outside the open finding C37-same-key-values-unioned.")
