"""C08 — repository queries return exactly the matching packages (prototype.tree, multiplex, filtered)."""
import collections
import json

from . import c06

PID = "C08"
LEAN_MODULES = ["Pkgcore.Props.C08", "Pkgcore.Props.C06"]
OBLIGATIONS = [
    "Pkgcore.C08.candidates_superset",
    "Pkgcore.C08.itermatch_exact",
    "Pkgcore.C08.itermatch_nodup",
    "Pkgcore.C08.unversioned_exact",
    "Pkgcore.C08.sorted_same_multiset",
    "Pkgcore.C08.multiplex_union",
    "Pkgcore.C08.nested_multiplex_union",
    "Pkgcore.C08.filtered_exact",
    "Pkgcore.C06.dnf_complete_unguarded",
]
TRUSTED = [
    "leaves other than category/package PackageRestrictions, and value restrictions other than case-sensitive StrExactMatch, are opaque "
    "predicates (all theorems quantify over them); the run tabulates them with the real .match on every name / package of the repository",
    "the repository mappings (categories / packages / versions of prototype.tree with their caches) are an association list without "
    "duplicate keys; lazy loading, force_regen and the notify_* mutation protocol are not modelled",
    "the sorter is modelled by the permutations it induces; the order itself (and the merge of multiplex.tree with a sorter, snakeoil "
    "iter_sort) is only checked on the real code: result sorted, same multiset",
    "restrict.match of boolean trees is taken from C06 (match_eq_eval), DNF completeness from C06 (dnf_complete_unguarded)",
    "force=True/False, pkg_filter, pkg_cls, yield_none of itermatch are not exercised",
]
ASSUMPTIONS = [
    "a top-level atom carries un-negated exact CategoryDep / PackageDep members (restrict.category / restrict.package), as every atom does",
    "categories, packages[cat] and versions[(cat, pkg)] have no duplicate entries",
    "PackageRestrictionMulti over the single attribute 'category' / 'package' is not used as a query",
]
RULE = ("random in-memory repositories (SimpleTree over 1-4 categories x 0-4 packages x 0-3 versions from pools with shared prefixes, mixed case, "
        "packages without versions, equal versions spelled differently: 1 / 1-r0 / 01, 1.0 / 1.00 / 1.0-r0; 1-3 repositories r0, r1, ... whose packages "
        "report pkg.repo, stacked flat and nested — multiplex.tree of multiplex.trees, stack + stack —, a random mask for filtered) against restrictions built from the real classes: "
        "top level = boolean tree (all-of / any-of / exactly-one-of / at-most-one-of, negate, Negate wrappers, empty nodes, depth <= 3), single "
        "leaf, Negate, or atom; leaves = category / package PackageRestriction, CategoryDep, PackageDep with negation on the wrapper and/or the "
        "value, value = exact (case-sensitive or not), glob, regex, containment, value-level boolean tree; other leaves = fullver / VersionMatch / "
        "slot / USE / AlwaysBool / Conditional; atoms (all operators, ::repo pins, and atoms aimed at a stored package with its version "
        "respelled).  Each query is run versioned and unversioned with sorter iter / sorted / reverse-sorted and "
        "compared with the brute-force filter.  Query histories: long-lived SimpleTree / multiplex.tree / filtered.tree objects answer the same batch "
        "of queries (incl. atoms for the packages touched) again and again while packages, revisions and whole categories are added "
        "(notify_add_package), removed (notify_remove_package) and repositories are stacked on (+); each answer is compared with a brute-force "
        "filter of the contents at that moment.  non-trivial = the restriction mentions category or package and the answer is neither empty nor "
        "the whole repository")

CATS = ["app", "dev", "App", "a", "b", "app-x", "dev-x"]
PKGS = ["foo", "bar", "baz", "Foo", "f", "x", "foobar"]
# several revisions of one version, and versions that are equal but spelled differently (explicit -r0, zero padding: PMS compares them equal)
VERS = ["1", "1-r1", "1-r2", "2", "1.0", "1.0-r1", "3", "0.9", "1-r0", "1.00", "1.0-r0", "01"]
NREPO_IDS = 8      # repositories are called r0, r1, ... (the id packages report as pkg.repo.repo_id)


def gen_repo(rng, small=False):
    d = {}
    for c in rng.sample(CATS, rng.choice([2, 3, 3, 4, 5] if not small else [1, 2, 3])):
        d[c] = {}
        for p in rng.sample(PKGS, rng.choice([0, 1, 2, 3, 3, 4])):
            d[c][p] = rng.sample(VERS, rng.choice([0, 1, 1, 2, 2, 3]))
    return d


# value restriction descriptions: [kind, text, flags...]
def gen_value(rng, names, depth=1):
    k = rng.choice(["exact", "exact", "exact", "exacti", "glob", "regex", "contain", "vtree"])
    name = rng.choice(names)
    neg = rng.random() < 0.25
    if k == "exact":
        return {"v": "exact", "s": name, "cs": True, "n": neg}
    if k == "exacti":
        return {"v": "exact", "s": name.upper() if rng.random() < 0.5 else name, "cs": False, "n": neg}
    if k == "glob":
        return {"v": "glob", "s": name[: rng.choice([1, 2, 3])] if rng.random() < 0.7 else name[-2:], "p": rng.random() < 0.7, "n": neg}
    if k == "regex":
        return {"v": "regex", "s": rng.choice(["^a", "o+", "^d", "x$", "^[ab]$", "-x"]), "n": neg}
    if k == "contain":
        return {"v": "contain", "s": name[:2], "n": neg}
    if depth <= 0:
        return {"v": "exact", "s": name, "cs": True, "n": neg}
    return {"v": "vtree", "kind": rng.choice(["and", "or", "one", "amo"]), "n": rng.random() < 0.4,
            "cs": [gen_value(rng, names, depth - 1) for _ in range(rng.choice([0, 1, 2, 2]))]}


def gen_leaf(rng):
    k = rng.choice(["cat", "cat", "cat", "pkg", "pkg", "pkg", "catdep", "pkgdep", "other", "other", "atom", "cond"])
    if k in ("cat", "pkg"):
        return {"l": k, "val": gen_value(rng, CATS if k == "cat" else PKGS), "n": rng.random() < 0.25}
    if k in ("catdep", "pkgdep"):
        return {"l": k, "s": rng.choice(CATS if k == "catdep" else PKGS), "n": rng.random() < 0.25}
    if k == "other":
        return {"l": "other", "o": rng.choice(["fullver1", "fullverglob", "vm>=2", "vm<2neg", "vm~1.0", "slot0", "usex", "usey", "true", "false",
                                                "vm=1-r1", "vm>=1-r2", "vm=1", "fullver1r1", "vm<=1.0-r0",
                                                "nonexistent", "nonexistentneg"])}
    if k == "cond":
        return {"l": "cond", "attr": rng.choice(["category", "package", "use"]), "s": rng.choice(CATS + PKGS + ["x"]), "n": rng.random() < 0.3}
    c, p = rng.choice(CATS), rng.choice(PKGS)
    return {"l": "atom", "s": rng.choice(ATOM_FORMS).format(c=c, p=p)}


ATOM_FORMS = ["{c}/{p}", ">={c}/{p}-2", "<{c}/{p}-2", "={c}/{p}-1*", "~{c}/{p}-1.0", "{c}/{p}:0", "{c}/{p}[x]", "!{c}/{p}", "={c}/{p}-1-r1",
              ">={c}/{p}-1-r2", "={c}/{p}-1", "<{c}/{p}-1-r2", "~{c}/{p}-1", "={c}/{p}-1.0-r1",
              "={c}/{p}-1.0", "={c}/{p}-1-r0", "={c}/{p}-1.00", "={c}/{p}-01", "~{c}/{p}-1.00", "={c}/{p}-1.0-r0",
              "{c}/{p}::r0", "{c}/{p}::r1", "{c}/{p}::r2", ">={c}/{p}-1::r0", "={c}/{p}-1::r1", "{c}/{p}:0::r1"]


def respell(rng, v):
    """the same version (PMS order) spelled differently, or itself: explicit / dropped -r0, zero padded revision, zero padded components"""
    ver, _, rev = v.partition("-r")
    k = rng.choice(["same", "rev", "rev", "pad", "lead"])
    if k == "rev":
        rev = {"": "0", "0": "", "00": ""}.get(rev, "0" + rev)
    elif k == "pad" and "." in ver and ver.replace(".", "").isdigit():
        head, _, last = ver.rpartition(".")
        if last.startswith("0") or len(last) == 0:
            ver = head + "." + last + "0"          # 1.0 == 1.00, 1.05 == 1.050
        else:
            return v
    elif k == "lead" and ver[:1].isdigit():
        ver = "0" + ver                            # the first component compares as an integer
    return ver + ("-r" + rev if rev != "" else "")


def aimed_atom_query(rng, repos):
    """an atom for a package that is stored in one of the repositories, its version taken from a stored one and respelled"""
    have = [(c, p, v, i) for i, d in enumerate(repos) for c, ps in d.items() for p, vs in ps.items() for v in vs]
    if not have:
        return atom_query(rng)
    c, p, v, i = rng.choice(have)
    op = rng.choice(["=", "=", "=", "~", ">=", "<=", "<", ">", "=*"])
    v2 = respell(rng, v)
    if op == "~":
        v2 = v2.partition("-r")[0]
    s = f"={c}/{p}-{v2}*" if op == "=*" else f"{op}{c}/{p}-{v2}"
    if rng.random() < 0.35:
        s += "::r%d" % rng.choice([i, i, rng.randrange(3)])
    return {"tree": {"t": "leaf", "k": 0}, "leaves": [{"l": "atom", "s": s}]}


def gen_stack(rng, idx, top=True):
    """how the repositories idx are stacked: int = the repository, list = multiplex.tree(*members), {"add": [a, b]} = a + b (both stacks)"""
    if len(idx) == 1:
        return [idx[0]] if top or rng.random() < 0.4 else idx[0]
    form = rng.choice(["flat", "nest", "nest", "add"])
    if form == "flat":
        return list(idx)
    k = rng.randrange(1, len(idx))
    if form == "nest":
        return [gen_stack(rng, idx[:k], False), gen_stack(rng, idx[k:], False)]
    return {"add": [gen_stack(rng, idx[:k], True), gen_stack(rng, idx[k:], True)]}


def atom_query(rng, c=None, p=None):
    c, p = c or rng.choice(CATS), p or rng.choice(PKGS)
    return {"tree": {"t": "leaf", "k": 0}, "leaves": [{"l": "atom", "s": rng.choice(ATOM_FORMS).format(c=c, p=p)}]}


def gen_history(rng):
    """a long-lived stack of mutable repositories, a filter, a batch of queries, and what happens between the batches"""
    repos = [gen_repo(rng, small=True) for _ in range(rng.choice([1, 2, 2, 3]))]
    sim = [{c: {p: list(vs) for p, vs in ps.items()} for c, ps in d.items()} for d in repos]
    ops, touched = [], []
    for _ in range(rng.choice([2, 3, 4, 5])):
        r = rng.random()
        i = rng.randrange(len(sim))
        if r < 0.5:
            if rng.random() < 0.5 and sim[i]:
                # a new version / revision of something present
                c = rng.choice(sorted(sim[i]))
                p = rng.choice(sorted(sim[i][c]) or PKGS)
            else:
                c, p = rng.choice(CATS + ["newcat"]), rng.choice(PKGS + ["newpkg"])
            free = [v for v in VERS if v not in sim[i].get(c, {}).get(p, [])]
            if not free:
                continue
            v = rng.choice(free)
            sim[i].setdefault(c, {}).setdefault(p, []).append(v)
            ops.append({"op": "add", "repo": i, "cpv": [c, p, v]})
            touched.append((c, p))
        elif r < 0.72:
            have = [(c, p, v) for c, ps in sim[i].items() for p, vs in ps.items() for v in vs]
            if not have:
                continue
            c, p, v = rng.choice(sorted(have))
            sim[i][c][p].remove(v)
            if not sim[i][c][p]:
                del sim[i][c][p]
                if not sim[i][c]:
                    del sim[i][c]
            ops.append({"op": "remove", "repo": i, "cpv": [c, p, v]})
            touched.append((c, p))
        elif r < 0.86:
            d = gen_repo(rng, small=True)
            sim.append({c: {p: list(vs) for p, vs in ps.items()} for c, ps in d.items()})
            ops.append({"op": "stack", "contents": d, "as_stack": rng.random() < 0.5})     # as_stack: the newcomer is itself a stack
            touched += [(c, p) for c, ps in d.items() for p in ps][:2]
        else:
            ops.append({"op": "requery"})
    queries = [gen_query(rng), {"tree": {"t": "leaf", "k": 0}, "leaves": [{"l": "other", "o": "true"}]}]
    for c, p in touched[:3]:
        queries.append(atom_query(rng, c, p))
    queries.append(atom_query(rng))
    queries.append(aimed_atom_query(rng, sim))
    queries.append(aimed_atom_query(rng, repos))
    mask = None
    if rng.random() < 0.7:
        mask = atom_query(rng, *(rng.choice(touched) if touched and rng.random() < 0.5 else (None, None))) if rng.random() < 0.5 else gen_query(rng)
    return {"repos": repos, "ops": ops, "queries": queries, "mask": mask}


def gen_query(rng):
    """{"top": "tree"|"leaf"|"neg"|"atom", "tree": C06-description with leaf indices, "leaves": [leaf descriptions]}"""
    nleaves = rng.choice([1, 2, 3, 4, 5, 6])
    leaves = [gen_leaf(rng) for _ in range(nleaves)]
    r = rng.random()
    if r < 0.08:
        return {"tree": {"t": "leaf", "k": 0}, "leaves": leaves[:1]}
    if r < 0.12:
        return {"tree": {"t": "neg", "r": {"t": "leaf", "k": 0}}, "leaves": leaves[:1]}
    if r < 0.17:
        c, p = rng.choice(CATS), rng.choice(PKGS)
        return {"tree": {"t": "leaf", "k": 0}, "leaves": [{"l": "atom", "s": rng.choice(["{c}/{p}", ">={c}/{p}-2", "~{c}/{p}-1"]).format(c=c, p=p)}]}
    while True:
        d = c06.gen_tree(rng, rng.choice([1, 2, 2, 3, 3]), nleaves, p_empty=0.05, size=rng.choice([2, 3, 4, 5, 6, 8]))
        if d["t"] in ("leaf", "neg"):
            continue
        a, b, _ = c06.nf_bound(d)
        if a * b <= 200:
            return {"tree": d, "leaves": leaves}


def Lf(k):
    return {"t": "leaf", "k": k}


def ex(name, n=False, cs=True):
    return {"v": "exact", "s": name, "cs": cs, "n": n}


N = c06.N
CORPUS = [
    # the defects repaired in the repo (each returned too few packages), then boundary shapes
    {"tree": N("and", Lf(0)), "leaves": [{"l": "cat", "val": ex("app"), "n": True}]},
    {"tree": N("and", Lf(0), Lf(1)), "leaves": [{"l": "cat", "val": ex("app"), "n": True}, {"l": "pkg", "val": ex("foo"), "n": False}]},
    {"tree": N("and", Lf(0), N("or", Lf(1), n=True)), "leaves": [{"l": "cat", "val": {"v": "glob", "s": "a", "p": True, "n": False}, "n": False},
                                                                 {"l": "pkg", "val": ex("foo"), "n": False}]},
    {"tree": N("amo", Lf(0)), "leaves": [{"l": "cat", "val": ex("app"), "n": False}]},
    {"tree": N("one", Lf(0), Lf(1)), "leaves": [{"l": "cat", "val": ex("app"), "n": False}, {"l": "pkg", "val": ex("foo"), "n": False}]},
    {"tree": N("and", N("amo", Lf(0), Lf(1))), "leaves": [{"l": "cat", "val": ex("app"), "n": False}, {"l": "pkg", "val": ex("foo"), "n": False}]},
    {"tree": N("one", Lf(0), Lf(1), n=True), "leaves": [{"l": "cat", "val": ex("app"), "n": False}, {"l": "pkg", "val": ex("foo"), "n": False}]},
    {"tree": {"t": "neg", "r": Lf(0)}, "leaves": [{"l": "cat", "val": ex("app"), "n": False}]},
    {"tree": N("or", Lf(0), N("and", Lf(1), Lf(2))),
     "leaves": [{"l": "cat", "val": {"v": "vtree", "kind": "and", "n": True, "cs": [{"v": "glob", "s": "a", "p": True, "n": False}]}, "n": False},
                {"l": "cat", "val": ex("dev"), "n": False}, {"l": "pkg", "val": ex("foo"), "n": False}]},
    {"tree": N("or", Lf(0), N("and", Lf(1), Lf(2))),
     "leaves": [{"l": "pkg", "val": {"v": "vtree", "kind": "or", "n": True, "cs": [{"v": "glob", "s": "f", "p": True, "n": False}]}, "n": False},
                {"l": "cat", "val": ex("dev"), "n": False}, {"l": "pkg", "val": ex("baz"), "n": False}]},
    {"tree": Lf(0), "leaves": [{"l": "cat", "val": ex("APP", cs=False), "n": False}]},
    {"tree": N("and", Lf(0), Lf(1)), "leaves": [{"l": "pkg", "val": ex("FOO", cs=False), "n": False}, {"l": "cat", "val": {"v": "glob", "s": "a", "p": True, "n": False}, "n": False}]},
    {"tree": Lf(0), "leaves": [{"l": "cat", "val": ex("app"), "n": True}]},
    {"tree": Lf(0), "leaves": [{"l": "cat", "val": ex("app", n=True), "n": False}]},
    {"tree": Lf(0), "leaves": [{"l": "pkg", "val": {"v": "glob", "s": "fo", "p": True, "n": False}, "n": True}]},
    {"tree": N("and", Lf(0), n=True), "leaves": [{"l": "cat", "val": {"v": "glob", "s": "a", "p": True, "n": False}, "n": True}]},
    {"tree": N("or", N("and", Lf(0), Lf(1)), Lf(2)), "leaves": [{"l": "cat", "val": ex("app"), "n": False}, {"l": "pkg", "val": ex("foo"), "n": False},
                                                               {"l": "cat", "val": ex("dev"), "n": False}]},
    {"tree": N("or", N("and", Lf(0), Lf(1)), Lf(2)), "leaves": [{"l": "cat", "val": ex("app"), "n": False}, {"l": "pkg", "val": ex("foo"), "n": False},
                                                               {"l": "pkg", "val": ex("baz"), "n": False}]},
    {"tree": N("or", Lf(0), Lf(1)), "leaves": [{"l": "cat", "val": ex("app"), "n": False}, {"l": "pkg", "val": ex("baz"), "n": False}]},
    {"tree": N("or", Lf(0), Lf(1)), "leaves": [{"l": "cat", "val": ex("app"), "n": False}, {"l": "other", "o": "fullver1"}]},
    {"tree": N("or", N("and", Lf(0), Lf(1)), N("and", Lf(2), Lf(3))),
     "leaves": [{"l": "cat", "val": ex("app"), "n": False}, {"l": "pkg", "val": ex("foo"), "n": False}, {"l": "cat", "val": ex("dev"), "n": False},
                {"l": "pkg", "val": ex("bar"), "n": False}]},
    {"tree": N("and", Lf(0), Lf(1)), "leaves": [{"l": "cat", "val": ex("app"), "n": False}, {"l": "cat", "val": ex("dev"), "n": False}]},
    {"tree": N("or"), "leaves": []},
    {"tree": N("and"), "leaves": []},
    {"tree": N("or", n=True), "leaves": []},
    {"tree": N("and", n=True), "leaves": []},
    {"tree": N("or", Lf(0), Lf(1), n=True), "leaves": [{"l": "cat", "val": ex("app"), "n": False}, {"l": "pkg", "val": ex("foo"), "n": False}]},
    {"tree": Lf(0), "leaves": [{"l": "atom", "s": "app/foo"}]},
    {"tree": Lf(0), "leaves": [{"l": "atom", "s": ">=app/foo-2"}]},
    {"tree": N("or", Lf(0), Lf(1)), "leaves": [{"l": "atom", "s": "app/foo"}, {"l": "atom", "s": "dev/baz"}]},
    {"tree": N("and", N("or", Lf(0), Lf(1)), N("or", Lf(2), n=True)),
     "leaves": [{"l": "atom", "s": "app/foo"}, {"l": "atom", "s": "dev/bar"}, {"l": "catdep", "s": "dev", "n": False}]},
    {"tree": Lf(0), "leaves": [{"l": "cond", "attr": "category", "s": "app", "n": False}]},
    {"tree": N("and", Lf(0), Lf(1)), "leaves": [{"l": "cond", "attr": "category", "s": "app", "n": True}, {"l": "pkgdep", "s": "foo", "n": False}]},
    {"tree": Lf(0), "leaves": [{"l": "other", "o": "true"}]},
    {"tree": Lf(0), "leaves": [{"l": "other", "o": "false"}]},
    {"tree": N("and", Lf(0), Lf(1)), "leaves": [{"l": "catdep", "s": "app", "n": True}, {"l": "pkgdep", "s": "foo", "n": True}]},
]
CORPUS_REPO = {"app": {"foo": ["1", "2"], "bar": ["1"], "empty": []}, "dev": {"foo": ["1"], "baz": ["3"]}, "b": {"x": ["1"]},
               "App": {"Foo": ["1"]}}


def run(ctx):
    from pkgcore.restrictions import boolean, packages, values, restriction
    from pkgcore.ebuild import restricts
    from pkgcore.ebuild.atom import atom
    from pkgcore.ebuild.cpv import Revision, UnversionedCPV, VersionedCPV
    from pkgcore.repository.util import SimpleTree
    from pkgcore.repository import multiplex, filtered
    from pkgcore.test.misc import FakePkg

    rng = ctx.rng
    P, V = packages.PackageRestriction, values
    CLS = {"and": boolean.AndRestriction, "or": boolean.OrRestriction, "one": boolean.JustOneRestriction, "amo": boolean.AtMostOneOfRestriction}

    def mkvalue(d):
        k = d["v"]
        if k == "exact":
            return V.StrExactMatch(d["s"], case_sensitive=d["cs"], negate=d["n"])
        if k == "glob":
            return V.StrGlobMatch(d["s"], prefix=d["p"], negate=d["n"])
        if k == "regex":
            return V.StrRegex(d["s"], negate=d["n"])
        if k == "contain":
            return V.ContainmentMatch(d["s"], negate=d["n"])
        return CLS[d["kind"]](*[mkvalue(c) for c in d["cs"]], node_type="values", negate=d["n"])

    OTHER = {
        "fullver1": lambda: P("fullver", V.StrExactMatch("1")),
        "fullverglob": lambda: P("fullver", V.StrGlobMatch("1"), negate=True),
        "vm>=2": lambda: restricts.VersionMatch(">=", "2"),
        "vm<2neg": lambda: restricts.VersionMatch("<", "2", negate=True),
        "vm~1.0": lambda: restricts.VersionMatch("~", "1.0"),
        "vm=1-r1": lambda: restricts.VersionMatch("=", "1", Revision("1")),
        "vm>=1-r2": lambda: restricts.VersionMatch(">=", "1", Revision("2")),
        "vm=1": lambda: restricts.VersionMatch("=", "1", Revision("")),
        "vm<=1.0-r0": lambda: restricts.VersionMatch("<=", "1.0", Revision("0")),
        "fullver1r1": lambda: P("fullver", V.StrExactMatch("1-r1")),
        "slot0": lambda: restricts.SlotDep("0"),
        "usex": lambda: P("use", V.ContainmentMatch("x")),
        "usey": lambda: P("use", V.ContainmentMatch("y")),
        "true": lambda: packages.AlwaysTrue,
        "false": lambda: packages.AlwaysFalse,
        "nonexistent": lambda: P("nonexistent", V.StrExactMatch("1")),
        "nonexistentneg": lambda: P("nonexistent", V.StrExactMatch("1"), negate=True),
    }

    def mkleaf(d):
        k = d["l"]
        if k == "cat":
            return P("category", mkvalue(d["val"]), negate=d["n"])
        if k == "pkg":
            return P("package", mkvalue(d["val"]), negate=d["n"])
        if k == "catdep":
            return restricts.CategoryDep(d["s"], negate=d["n"])
        if k == "pkgdep":
            return restricts.PackageDep(d["s"], negate=d["n"])
        if k == "other":
            return OTHER[d["o"]]()
        if k == "cond":
            vr = V.ContainmentMatch(d["s"]) if d["attr"] == "use" else V.StrExactMatch(d["s"])
            return packages.Conditional(d["attr"], vr, (atom("dev/foo"),), negate=d["n"])
        return atom(d["s"])

    def build(t, leaves):
        k = t["t"]
        if k == "leaf":
            return leaves[t["k"] % len(leaves)]
        if k == "neg":
            return restriction.Negate(build(t["r"], leaves))
        return CLS[k](*[build(c, leaves) for c in t["cs"]], node_type="package", negate=t["n"])

    class Canon:
        """real restriction -> model tree + leaf table (+ the opaque objects to tabulate)"""

        def __init__(self):
            self.ids, self.tbl, self.vobjs, self.pobjs = {}, [], [], []

        def vr(self, v):
            if type(v) is V.StrExactMatch and v.case_sensitive:
                return {"k": "exact", "s": v.exact, "n": bool(v.negate)}
            self.vobjs.append(v)
            return {"k": "other", "id": len(self.vobjs) - 1}

        def leaf(self, o):
            if id(o) in self.ids:
                return self.ids[id(o)]
            if isinstance(o, packages.PackageRestriction) and not isinstance(o, packages.PackageRestrictionMulti) \
                    and o.attrs in (("category",), ("package",)):
                ent = {"k": "cat" if o.attr == "category" else "pkg", "n": bool(o.negate), "vr": self.vr(o.restriction)}
            else:
                self.pobjs.append(o)
                ent = {"k": "other", "id": len(self.pobjs) - 1}
            self.ids[id(o)] = len(self.tbl)
            self.tbl.append(ent)
            return self.ids[id(o)]

        def tree(self, o):
            if isinstance(o, restriction.Negate):
                return {"t": "neg", "r": self.tree(o._restrict)}
            if isinstance(o, atom):
                return {"t": "atom", "cs": [self.tree(c) for c in o.restrictions]}
            for k, cls in CLS.items():
                if type(o) is cls:
                    return {"t": k, "n": bool(o.negate), "cs": [self.tree(c) for c in o.restrictions]}
            return {"t": "leaf", "id": self.leaf(o)}

    def mktree(d, i=0):
        """repository #i is called r<i>, and its packages know where they come from (pkg.repo is the tree, as for real repositories)"""
        t = SimpleTree({c: {p: list(vs) for p, vs in ps.items()} for c, ps in d.items()}, repo_id="r%d" % i)
        t.package_class = lambda c, p, v: FakePkg.for_tree_usage(c, p, v, slot="0", use=("x",), repo=t)
        return t

    def mkstack(shape, trees):
        if isinstance(shape, int):
            return trees[shape]
        if isinstance(shape, dict):
            a, b = (mkstack(x, trees) for x in shape["add"])
            return a + b
        return multiplex.tree(*[mkstack(x, trees) for x in shape])

    def describe_stack(shape):
        if isinstance(shape, int):
            return "r%d" % shape
        if isinstance(shape, dict):
            return " + ".join(describe_stack(x) for x in shape["add"])
        return "multiplex.tree(" + ", ".join(describe_stack(x) for x in shape) + ")"

    def uv(c, p):
        return UnversionedCPV(f"{c}/{p}")

    def key(pk):
        return [pk.category, pk.package, pk.fullver]

    SORTERS = {"iter": iter, "sorted": sorted, "reversed": lambda x: sorted(x, reverse=True)}

    def counted(keys):
        return sorted(collections.Counter(json.dumps(k) for k in keys).items())

    pend = []

    def stage(q, repos, mask, tag, stack=None):
        try:
            leaves = [mkleaf(l) for l in q["leaves"]] or [packages.AlwaysTrue]
            r = build(q["tree"], leaves)
        except Exception as e:
            ctx.note(f"construction raised {type(e).__name__}: {str(e)[:80]} (case skipped)")
            ctx.count("construction_failed")
            return
        case = {"query": q, "repos": repos, "mask": mask, "mode": tag}
        if stack is not None:
            case["stack"] = stack
        cn = Canon()
        tree_model = cn.tree(r)
        mask_r = mask_model = None
        if mask is not None:
            try:
                mleaves = [mkleaf(l) for l in mask["leaves"]] or [packages.AlwaysTrue]
                mask_r = build(mask["tree"], mleaves)
                mask_model = cn.tree(mask_r)
            except Exception:
                mask_r = None
        trees = [mktree(d, i) for i, d in enumerate(repos)]
        names = sorted({c for d in repos for c in d} | {p for d in repos for ps in d.values() for p in ps})
        allv = [[t.package_class(c, p, v) for c, ps in d.items() for p, vs in ps.items() for v in vs] for t, d in zip(trees, repos)]
        allu = [[uv(c, p) for c, ps in d.items() for p, vs in ps.items() if vs] for d in repos]
        flat = [pk for l in allv + allu for pk in l]
        try:
            vtab = [[n for n in names if o.match(n)] for o in cn.vobjs]
            # per repository: a leaf may look at pkg.repo (the members of a ::repo atom)
            ptabs = [[[key(pk) for pk in allv[i] + allu[i] if o.match(pk)] for o in cn.pobjs] for i in range(len(repos))]
        except Exception as e:
            ctx.violation(case, f"a leaf's match raised {type(e).__name__}: {e}")
            return
        ptabs = [[[list(x) for x in {tuple(k) for k in row}] for row in ptab] for ptab in ptabs]
        rec = {"real": {}, "brute": {}, "cand": None}
        for versioned in (True, False):
            univ = allv if versioned else allu
            for i, t in enumerate(trees):
                rec["brute"][(i, versioned)] = [key(pk) for pk in univ[i] if r.match(pk)]
                for sname, sorter in SORTERS.items():
                    kw = {"sorter": sorter} if sname != "iter" else {}
                    if not versioned:
                        kw.update(versioned=False, raw_pkg_cls=uv)
                    try:
                        res = list(t.itermatch(r, **kw))
                    except Exception as e:
                        rec["real"][(i, versioned, sname)] = "raised " + type(e).__name__ + ": " + str(e)[:100]
                        continue
                    rec["real"][(i, versioned, sname)] = [key(pk) for pk in res]
                    if sname != "iter" and res != sorter(res):
                        ctx.violation(case, f"itermatch(sorter={sname}, versioned={versioned}) is not in sorter order: {[key(p) for p in res]}")
        if not isinstance(r, atom):
            try:
                rec["cand"] = sorted(list(x) for x in trees[0]._identify_candidates(r, iter))
            except Exception as e:
                rec["cand"] = "raised " + type(e).__name__
        # multiplex (stack of repositories) and filtered, on the real code
        # a stack is a repository too: stacks of stacks (multiplex.tree(multiplex.tree(a, b), c), stack + stack) answer with the union of the leaves
        shapes = [list(range(len(trees)))] if len(trees) > 1 else []
        if stack is not None and stack not in shapes:
            shapes.append(stack)
        for shape in shapes:
            what = describe_stack(shape)
            try:
                m = mkstack(shape, trees)
            except Exception as e:
                ctx.violation(case, f"building {what} raised {type(e).__name__}: {e}")
                continue
            for sname, sorter in SORTERS.items():
                kw = {"sorter": sorter} if sname != "iter" else {}
                try:
                    res = list(m.itermatch(r, **kw))
                except Exception as e:
                    ctx.violation(case, f"{what}.itermatch(sorter={sname}) raised {type(e).__name__}: {e}")
                    continue
                want = [k + [i] for i in range(len(trees)) for k in rec["brute"][(i, True)]]
                got = [key(p) + [int(p.repo.repo_id[1:])] for p in res]
                ctx.count("multiplex_queries" if shape is not stack else "nested_multiplex_queries")
                if counted(got) != counted(want):
                    ctx.violation(case, f"{what} over {len(trees)} repositories (sorter={sname}), query {str(r)!r:.200}, yields (category, package, "
                                        f"version, repository) {counted(got)}; the union of the repositories' brute-force answers is {counted(want)}")
                if sname != "iter" and res != sorter(res):
                    ctx.violation(case, f"{what}.itermatch(sorter={sname}) is not in sorter order: {[key(p) for p in res]}")
        if mask_r is not None:
            for sentinel in (False, True):
                try:
                    res = [key(p) for p in filtered.tree(trees[0], mask_r, sentinel_val=sentinel).itermatch(r)]
                    want = [key(pk) for pk in allv[0] if r.match(pk) and bool(mask_r.match(pk)) == sentinel]
                except Exception as e:
                    ctx.violation(case, f"filtered.tree(...).itermatch raised {type(e).__name__}: {e}")
                    continue
                ctx.count("filtered_queries")
                if counted(res) != counted(want):
                    ctx.violation(case, f"filtered.tree(sentinel_val={sentinel}) yields {counted(res)}, brute force {counted(want)}")
        reqs = []
        for i, d in enumerate(repos):
            for versioned in (True, False):
                for sname in SORTERS:
                    reqs.append({"cmd": "c08.query", "repo": [[c, [[p, vs] for p, vs in ps.items()]] for c, ps in d.items()],
                                 "tbl": cn.tbl, "vtab": vtab, "ptab": ptabs[i], "tree": tree_model, "sorter": sname, "versioned": versioned})
        pend.append((case, rec, reqs, tree_model, cn.tbl))

    PKCACHE = {}
    from pkgcore.test.misc import FakeRepo
    HREPOS = [FakeRepo(repo_id="r%d" % i) for i in range(NREPO_IDS)]

    def build_query(q):
        leaves = [mkleaf(l) for l in q["leaves"]] or [packages.AlwaysTrue]
        return build(q["tree"], leaves)

    def stage_history(h, tag):
        """query histories on long-lived repository objects: the same tree / multiplex / filtered objects answer batch after batch
        while packages come and go; every answer is compared with a brute-force filter of the contents at that moment"""
        case = {"history": h, "mode": tag}
        try:
            qs = [build_query(q) for q in h["queries"]]
            mask_r = build_query(h["mask"]) if h["mask"] is not None else None
        except Exception as e:
            ctx.note(f"construction raised {type(e).__name__}: {str(e)[:80]} (case skipped)")
            ctx.count("construction_failed")
            return
        def pk_of(i):
            def pk(c, p, v):
                k = (i, c, p, v)
                if k not in PKCACHE:
                    PKCACHE[k] = FakePkg.for_tree_usage(c, p, v, slot="0", use=("x",), repo=HREPOS[i % NREPO_IDS])
                return PKCACHE[k]
            return pk

        live = [{c: {p: list(vs) for p, vs in ps.items()} for c, ps in d.items()} for d in h["repos"]]
        trees = [SimpleTree(d, pkg_klass=pk_of(i), frozen=False, repo_id="r%d" % (i % NREPO_IDS)) for i, d in enumerate(live)]
        mux = multiplex.tree(*trees)
        filt = {s: filtered.tree(trees[0], mask_r, sentinel_val=s) for s in (False, True)} if mask_r is not None else {}
        nviol = [0]

        def bad(step, what, got, want):
            nviol[0] += 1
            if nviol[0] <= 3:
                ctx.violation(dict(case, failing_step=step), f"after {step}: {what} yields {counted(got)}; a brute-force filter of the current contents "
                                                             f"({[{c: dict(ps) for c, ps in d.items()} for d in live]}) gives {counted(want)}")

        def batch(step):
            contents = [[pk_of(i)(c, p, v) for c, ps in d.items() for p, vs in ps.items() for v in vs] for i, d in enumerate(live)]
            for qi, r in enumerate(qs):
                per_tree = []
                for i, (t, d) in enumerate(zip(trees, live)):
                    pkgs = contents[i]
                    want = [key(x) for x in pkgs if r.match(x)]
                    per_tree.append((pkgs, want))
                    try:
                        got = [key(x) for x in t.itermatch(r)]
                    except Exception as e:
                        ctx.violation(dict(case, failing_step=step), f"after {step}: itermatch on repository #{i} raised {type(e).__name__}: {e}")
                        return
                    ctx.count("history_tree_queries")
                    if counted(got) != counted(want):
                        bad(step, f"query #{qi} ({str(r)!r:.120}) on repository #{i}", got, want)
                union = [k + [i % NREPO_IDS] for i, (_, want) in enumerate(per_tree) for k in want]
                for sname in ("iter", "sorted"):
                    kw = {"sorter": sorted} if sname == "sorted" else {}
                    try:
                        res = list(mux.itermatch(r, **kw))
                    except Exception as e:
                        ctx.violation(dict(case, failing_step=step), f"after {step}: multiplex.itermatch raised {type(e).__name__}: {e}")
                        return
                    ctx.count("history_multiplex_queries")
                    got = [key(x) + [int(x.repo.repo_id[1:])] for x in res]
                    if counted(got) != counted(union):
                        bad(step, f"query #{qi} ({str(r)!r:.120}) on the stack of {len(trees)} repositories (sorter={sname}) [(category, package, "
                                  f"version, repository)]", got, union)
                    if sname == "sorted" and res != sorted(res):
                        ctx.violation(dict(case, failing_step=step), f"after {step}: multiplex.itermatch(sorter=sorted) is not sorted")
                for sentinel, f in filt.items():
                    pkgs, want0 = per_tree[0]
                    want = [key(x) for x in pkgs if r.match(x) and bool(mask_r.match(x)) == sentinel]
                    try:
                        got = [key(x) for x in f.itermatch(r)]
                    except Exception as e:
                        ctx.violation(dict(case, failing_step=step), f"after {step}: filtered.itermatch raised {type(e).__name__}: {e}")
                        return
                    ctx.count("history_filtered_queries")
                    if counted(got) != counted(want):
                        bad(step, f"query #{qi} on the filtered repository (sentinel_val={sentinel})", got, want)

        batch("construction")
        for n, op in enumerate(h["ops"]):
            step = f"step {n + 1} ({op['op']}{' ' + '/'.join(op['cpv'][:2]) + '-' + op['cpv'][2] if 'cpv' in op else ''})"
            try:
                if op["op"] == "add":
                    trees[op["repo"]].notify_add_package(VersionedCPV("%s/%s-%s" % tuple(op["cpv"])))
                elif op["op"] == "remove":
                    trees[op["repo"]].notify_remove_package(VersionedCPV("%s/%s-%s" % tuple(op["cpv"])))
                elif op["op"] == "stack":
                    d = {c: {p: list(vs) for p, vs in ps.items()} for c, ps in op["contents"].items()}
                    live.append(d)
                    i = len(trees)
                    trees.append(SimpleTree(d, pkg_klass=pk_of(i), frozen=False, repo_id="r%d" % (i % NREPO_IDS)))
                    mux = mux + (multiplex.tree(trees[-1]) if op.get("as_stack") else trees[-1])
            except Exception as e:
                ctx.violation(dict(case, failing_step=step), f"{step} raised {type(e).__name__}: {e}")
                return
            ctx.count("history_op_" + op["op"])
            batch(step)
        ctx.case(case, len(h["ops"]) >= 2 and any(o["op"] in ("add", "remove", "stack") for o in h["ops"]),
                 key=json.dumps(h, sort_keys=True))

    def flush():
        allreqs = [q for _, _, reqs, _, _ in pend for q in reqs]
        reps = ctx.model(allreqs)
        pos = 0
        for case, rec, reqs, tree_model, tbl in pend:
            judge(case, rec, reps[pos:pos + len(reqs)], tree_model, tbl)
            pos += len(reqs)
        pend.clear()

    def judge(case, rec, reps, tree_model, tbl):
        repos = case["repos"]
        mentions = any(e["k"] in ("cat", "pkg") for e in tbl) or tree_model["t"] == "atom" or '"atom"' in json.dumps(tree_model)
        total = sum(len(vs) for ps in repos[0].values() for vs in ps.values())
        b0 = rec["brute"][(0, True)]
        ctx.case(case, mentions and 0 < len(b0) < total, key=json.dumps([case["query"], repos, case["mask"]], sort_keys=True))
        ctx.count("top_" + tree_model["t"])
        ctx.count("repos_%d" % len(repos))
        ctx.count("answer_size_%d" % min(len(b0), 9))
        for e in tbl:
            ctx.count("leaf_" + e["k"] + ("_neg" if e.get("n") else "") + ("_" + e["vr"]["k"] if "vr" in e else ""))
        k = 0
        for i in range(len(repos)):
            for versioned in (True, False):
                for sname in ("iter", "sorted", "reversed"):
                    rep = reps[k]
                    k += 1
                    real = rec["real"].get((i, versioned, sname))
                    brute = rec["brute"][(i, versioned)]
                    what = f"itermatch(sorter={sname}, versioned={versioned}) on repository #{i}"
                    if isinstance(real, str):
                        ctx.violation(case, f"{what} {real}")
                        continue
                    # edge C: the property on the real code
                    if counted(real) != counted(brute):
                        missing = [x for x in brute if x not in real]
                        extra = [x for x in real if x not in brute]
                        ctx.violation(case, f"{what} yields {sorted(real)}; brute force over all packages gives {sorted(brute)} "
                                            f"(missing {missing}, extra {extra})")
                    if not isinstance(rep, dict):
                        ctx.mismatch(case, f"driver answered {rep!r}")
                        continue
                    if not rep["wf"] or not rep["keyed"]:
                        ctx.mismatch(case, f"model preconditions not met: wf={rep['wf']} keyed={rep['keyed']}")
                    # edge A: model of the code, and the model against the spec (theorem instance)
                    if counted(rep["result"]) != counted(real):
                        ctx.mismatch(case, f"{what} yields {sorted(real)}, the Lean model {sorted(rep['result'])}")
                    if counted(rep["result"]) != counted(rep["answer"]):
                        ctx.mismatch(case, f"Lean model result {sorted(rep['result'])} differs from the Lean spec answer {sorted(rep['answer'])} "
                                           f"(contradicts itermatch_exact)")
                    if i == 0 and versioned and sname == "iter" and rec["cand"] is not None:
                        if isinstance(rec["cand"], str):
                            ctx.violation(case, f"_identify_candidates {rec['cand']}")
                        else:
                            ctx.count("candidates_compared")
                            ctx.count("candidates_pruned" if len(rec["cand"]) < sum(len(ps) for ps in repos[0].values()) else "candidates_all")
                            if sorted(rep["candidates"]) != rec["cand"]:
                                ctx.mismatch(case, f"_identify_candidates gives {rec['cand']}, the Lean model {sorted(rep['candidates'])}")

    empty_mask = None
    if ctx.replay_cases:
        for c in ctx.replay_cases:
            if "query" in c and "repos" in c:
                stage(c["query"], c["repos"], c.get("mask"), "replay", c.get("stack"))
    if ctx.replay_cases:
        for c in ctx.replay_cases:
            if "history" in c:
                stage_history(c["history"], "replay")
    for q in CORPUS:
        stage(q, [CORPUS_REPO], None, "corpus")
        stage(q, [CORPUS_REPO, {"app": {"foo": ["2", "3"]}, "z": {"q": ["1"]}}], CORPUS[1], "corpus")
    flush()
    n = ctx.n(2000, 20000)
    for i in range(n):
        q = gen_query(rng)
        nrep = rng.choice([1, 1, 1, 2, 3])
        repos = [gen_repo(rng, small=nrep > 1) for _ in range(nrep)]
        if not any(repos[0].values()):
            repos[0] = gen_repo(rng)
        mask = gen_query(rng) if rng.random() < 0.3 else None
        if rng.random() < 0.12:
            q = aimed_atom_query(rng, repos)
        stage(q, repos, mask, "random", gen_stack(rng, list(range(nrep))) if nrep > 1 or rng.random() < 0.1 else None)
        if i % 8 == 0:
            stage_history(gen_history(rng), "history")
        if len(pend) >= 1500:      # each driver start costs ~1 s: batch
            flush()
    flush()
    if not ctx.quick():
        # bounded-exhaustive: every tree of depth <= 2 with 1-2 operands (inner nodes all-of / any-of with 0-2 operands) over one
        # category and one package leaf, 7 polarity patterns of wrapper / value negation, against a 2x2 repository
        import itertools
        repo = {"a": {"x": ["1"], "y": ["1"]}, "b": {"x": ["1"], "y": []}}
        cnt = 0
        combos = [(wc, False, wp, False) for wc in (False, True) for wp in (False, True)] + \
                 [(False, True, False, False), (False, False, False, True), (True, True, False, True)]
        for wc, vc, wp, vp in combos:
            leaves = [{"l": "cat", "val": ex("a", n=vc), "n": wc}, {"l": "pkg", "val": ex("x", n=vp), "n": wp}]
            l2 = [Lf(0), Lf(1)]
            inner = [N(k, *cs, n=neg) for k in ("and", "or") for neg in (False, True) for m in range(3) for cs in itertools.product(l2, repeat=m)]
            opts = l2 + inner
            for k in c06.KINDS:
                for neg in (False, True):
                    for m in range(1, 3):
                        for cs in itertools.product(opts, repeat=m):
                            stage({"tree": N(k, *cs, n=neg), "leaves": leaves}, [repo], None, "exhaustive")
                            cnt += 1
                            if len(pend) >= 200:
                                flush()
        flush()
        ctx.extra["exhaustive_trees"] = cnt


LEVEL_TEXT = ("Kernel-checked Lean 4 theorems about a model that mirrors prototype.tree.itermatch, _identify_candidates, _fast_identify_candidates / "
              "_candidates_from_restrictions, _cat_filter, _package_filter, _internal_gen_candidates, the atom short cut, multiplex and filtered "
              "(after 3 fix commits): the candidate set contains the (category, package) of everything the restriction matches "
              "(candidates_superset, via C06's unguarded DNF completeness), a query result is a permutation of the brute-force answer — every "
              "match, nothing else, each once — versioned and unversioned, for every lawful sorter (itermatch_exact, unversioned_exact, "
              "sorted_same_multiset), a stack answers with the multiset union (multiplex_union), a filtered repository with the filtered answer "
              "(filtered_exact), a stack of stacks with the union of its leaves' answers however nested (nested_multiplex_union); for all "
              "repositories, trees, leaves and environments.  Tied to the code by running the real itermatch (3 sorters, "
              "versioned/unversioned), _identify_candidates, multiplex.tree and filtered.tree on random SimpleTrees against the model and against "
              "brute force.")
LEVEL_NOTE = ("Trusted: opaque leaves/value restrictions tabulated from the real match; mapping caches, mutation protocol, force/pkg_filter not "
              "modelled; sorted order and the sorted multiplex merge checked on the real code only.")
