"""C22 — contents sets behave like path-keyed maps."""
import itertools
import posixpath

PID = "C22"
LEAN_MODULES = ["Pkgcore.Props.C22"]
OBLIGATIONS = [
    "Pkgcore.C22.normpath_idempotent",
    "Pkgcore.C22.normpath_abs_normal",
    "Pkgcore.C22.normal_form_unique",
    "Pkgcore.C22.lookup_refines",
    "Pkgcore.C22.ofList_refines",
    "Pkgcore.C22.add_refines",
    "Pkgcore.C22.remove_refines",
    "Pkgcore.C22.discard_refines",
    "Pkgcore.C22.difference_refines",
    "Pkgcore.C22.difference_update_refines",
    "Pkgcore.C22.intersection_refines",
    "Pkgcore.C22.intersection_update_refines",
    "Pkgcore.C22.union_refines",
    "Pkgcore.C22.symmetric_difference_refines",
    "Pkgcore.C22.symmetric_difference_update_refines",
    "Pkgcore.C22.update_refines",
    "Pkgcore.C22.value_ops_reject_bare_paths",
    "Pkgcore.C22.issubset_iff",
    "Pkgcore.C22.issuperset_iff",
    "Pkgcore.C22.isdisjoint_iff",
    "Pkgcore.C22.operations_preserve_wf",
    "Pkgcore.C22.len_counts_keys",
    "Pkgcore.C22.change_offset_prefix",
    "Pkgcore.C22.change_offset_set",
    "Pkgcore.C22.climb_terminates",
    "Pkgcore.C22.missing_dirs_exact",
    "Pkgcore.C22.fresh_result_is_new_object",
    "Pkgcore.C22.object_history",
    "Pkgcore.C22.relocated_set_independent",
]
TRUSTED = [
    "posixpath.normpath / dirname / join are re-expressed character by character in Lean (Python 3.12 runs a C implementation of normpath); "
    "tied to the real functions by an exhaustive differential run over all strings up to length 6 (8 in the thorough tier) over {/ . a b} plus generated spellings",
    "an fs entry is modelled as (location, kind, tag): the set operations of contents.py only read .location; the harness stores the tag in `mode` "
    "and checks that kind and tag of every resulting entry come from the right operand",
    "object identity is modelled as a creation index into a list of sets (value-returning methods append, in-place methods overwrite their own slot); "
    "the check ties it to the code by editing one of source/result after every value-returning call and re-reading the other, and by re-reading sets put aside",
    "Python dict (insertion ordered, replace keeps position) and set-of-str membership are modelled as lists; iteration order of a Python set argument is read back from the object passed",
]
ASSUMPTIONS = [
    "sets are mutable (frozen contentsSets refuse mutation by design and are not modelled; note: discard()/update() do not check the flag)",
    "value-carrying operations (union, symmetric_difference(_update), update) need entries: a bare path string is rejected with TypeError/ValueError/AttributeError, "
    "which the check accepts as the specified behaviour",
    "relocation and directory completion are specified for absolute locations; relocation only for entries that are under the old offset "
    "(for others the code slices blindly — outside the property's 'replaces the old prefix')",
    "the new offset of a relocation is an absolute path (a relative one goes through os.path.abspath, i.e. depends on the cwd)",
]
RULE = ("random initial sets (0-6 entries of the five fs classes, locations drawn from a small component alphabet so that collisions are frequent, spelled with "
        "trailing/doubled slashes, /./, x/.., leading /// or //) followed by 1-7 random operations whose arguments are an entry, a path string, another contentsSet, "
        "the set itself, or a list/tuple/set/frozenset/iterator/dict of entries, strings or both; non-trivial = some operation's argument names at least one "
        "path present in the current set, and for set-algebra operations also at least one absent path or an unnormalised spelling. Relocations draw the new "
        "offset from fixed paths, the pool, or the old offset itself (respelled). Every value-returning operation is followed up by editing the object the "
        "sequence drops (add, discard, difference_update) while watching the one it keeps, and the last four sets put aside (sources, unassigned results, "
        "contentsSet arguments) are re-read after every later operation: they must keep their contents")

KINDS = ["file", "dir", "sym", "dev", "fifo"]
COMPS = ["a", "b", "c", "usr", "x y", "é", "..b", "a.", "...", "-"]


def gen_path(rng, maxdepth=4, root=None):
    if root is None:
        root = "//" if rng.random() < 0.08 else "/"
    d = rng.choice([0, 1, 1, 2, 2, 2, 3, 3, 4][: 5 + maxdepth])
    comps = [rng.choice(COMPS[:4]) if rng.random() < 0.75 else rng.choice(COMPS) for _ in range(d)]
    return root + "/".join(comps)


def spell(rng, p):
    """an alternative spelling; mostly (not always) normalising back to p"""
    k = rng.randrange(12)
    if k <= 2 or p in ("", "."):
        return p
    body = p.lstrip("/")
    root = p[: len(p) - len(body)]
    if k == 3:
        return p + "/"
    if k == 4:
        return p.replace("/", "//") if root == "/" and body else p + "//"
    if k == 5:
        return root + "./" + body
    if k == 6:
        return p + "/."
    if k == 7:
        return p + "/zz/.."
    if k == 8:
        return ("///" + body) if root == "/" else p       # three or more slashes collapse to one
    if k == 9:
        return root + "../" + body                         # .. at the root is dropped
    if k == 10:
        return ("//" + body) if root == "/" else ("/" + body)   # a *different* root: exactly two slashes are kept
    i = rng.randrange(len(p) + 1)
    return p[:i] + rng.choice(["/", "/./", "//", "/q/../"]) + p[i:] if "/" in p[i - 1:i + 1] else p


class Gen:
    def __init__(self, rng):
        self.rng = rng
        self.tag = 0

    def entry(self, loc=None, relative=False):
        rng = self.rng
        if loc is None:
            loc = gen_path(rng)
            if relative:
                loc = loc.lstrip("/") or "r"
        self.tag += 1
        return {"loc": spell(rng, loc), "kind": rng.randrange(5), "tag": self.tag}

    def case(self, universe=None, abs_only=False):
        rng = self.rng
        self.tag = 0
        pool = universe or [gen_path(rng) for _ in range(rng.randint(2, 7))]
        rel = (not abs_only) and rng.random() < 0.06
        pick = lambda: rng.choice(pool) if rng.random() < 0.85 else gen_path(rng)
        init = [self.entry(pick(), rel) for _ in range(rng.choice([0, 1, 2, 3, 3, 4, 5, 6]))]
        ops = []
        n = rng.randint(1, 7)
        for i in range(n):
            op = self.op(pick, last=(i == n - 1), abs_only=abs_only or not rel)
            ops.append(op)
            if op.get("stop"):
                break
        return {"init": init, "ops": ops}

    def arg(self, pick):
        rng = self.rng
        if rng.random() < 0.45:
            return {"e": self.entry(pick())}
        k = rng.random()
        if k < 0.04:
            return {"p": rng.choice(["", ".", "..", "a/b", "./a", "../a"])}
        return {"p": spell(rng, pick())}

    def other(self, pick, need_entries=False, allow_strings=True):
        rng = self.rng
        n = rng.choice([0, 1, 1, 2, 2, 3, 4, 5])
        r = rng.random()
        if r < 0.04:
            return {"kind": "self"}
        if r < 0.30:
            return {"kind": "cset", "cset": [self.entry(pick()) for _ in range(n)]}
        cont = rng.choice(["list", "tuple", "set", "frozenset", "iter", "gen", "dict"])
        what = rng.random()
        if need_entries and rng.random() < 0.93 or not allow_strings:
            what = 0.0
        if what < 0.4:
            items = [{"e": self.entry(pick())} for _ in range(n)]
        elif what < 0.75:
            items = [{"p": spell(rng, pick())} for _ in range(n)]
        else:
            items = [self.arg(pick) for _ in range(n)]
        if rng.random() < 0.25 and items:
            items.append(rng.choice(items) if rng.random() < 0.5 else self.arg(pick))   # duplicates / re-spellings
        if cont == "dict" and any("e" in a for a in items):
            cont = "list"
        return {"kind": cont, "items": items}

    def op(self, pick, last, abs_only):
        rng = self.rng
        r = rng.random()
        assign = rng.random() < 0.6
        if abs_only and rng.random() < 0.04:
            return self.relocation(pick, assign)
        if r < 0.07:
            return {"op": "contains", "arg": self.arg(pick)}
        if r < 0.13:
            return {"op": "getitem", "arg": self.arg(pick)}
        if r < 0.16:
            return {"op": "len"}
        if r < 0.21:
            return {"op": "add", "ent": self.entry(pick())}
        if r < 0.28:
            return {"op": "remove", "arg": self.arg(pick)}
        if r < 0.36:
            return {"op": "discard", "arg": self.arg(pick)}
        if r < 0.44:
            return {"op": "difference", "other": self.other(pick), "assign": assign}
        if r < 0.50:
            return {"op": "difference_update", "other": self.other(pick)}
        if r < 0.58:
            return {"op": "intersection", "other": self.other(pick), "assign": assign}
        if r < 0.64:
            return {"op": "intersection_update", "other": self.other(pick)}
        if r < 0.69:
            return {"op": "issubset", "other": self.other(pick)}
        if r < 0.74:
            return {"op": "issuperset", "other": self.other(pick)}
        if r < 0.79:
            return {"op": "isdisjoint", "other": self.other(pick)}
        if r < 0.84:
            return {"op": "union", "other": self.other(pick, need_entries=True), "assign": assign}
        if r < 0.88:
            return {"op": "symmetric_difference", "other": self.other(pick, need_entries=True), "assign": assign}
        if r < 0.92:
            return {"op": "symmetric_difference_update", "other": self.other(pick, need_entries=True)}
        if r < 0.95:
            o = self.other(pick, need_entries=True, allow_strings=last)
            return {"op": "update", "other": o, "stop": any("p" in a for a in o.get("items", []))}
        if r < 0.98 and abs_only:
            return {"op": "add_missing_directories", "tag": 1000 + rng.randrange(5)}
        if abs_only:
            return self.relocation(pick, assign)
        return {"op": "len"}

    def relocation(self, pick, assign):
        """old offset: root, a directory of the pool, any spelling; new offset: a fixed absolute path, a path of the pool (so that relocated entries
        land on names used by later arguments), or the old offset again / respelled (a relocation onto the same prefix must still build a set of its own)"""
        rng = self.rng
        old = rng.choice(["/", "/", "", "/usr", pick(), posixpath.dirname(pick())])
        k = rng.random()
        if k < 0.55:
            new = rng.choice(["/", "/new", "/n/m", "//r", "/new/", "/n//m/.", "/a"])
        elif k < 0.70:
            new = spell(rng, pick())
        elif k < 0.80:
            new = posixpath.dirname(pick())
        elif k < 0.90:
            new = old or "/"
        else:
            new = spell(rng, old or "/")
        if not new.startswith("/"):
            new = "/" + new
        return {"op": "change_offset", "old": spell(rng, old), "new": new, "assign": assign}


def E(loc, kind=0, tag=1):
    return {"loc": loc, "kind": kind, "tag": tag}


CORPUS = [
    # every defect repaired by a fix: commit, with the input that exposed it
    {"init": [E("/a", 0, 1), E("/b", 1, 2)], "ops": [{"op": "discard", "arg": {"p": "/a/"}}, {"op": "discard", "arg": {"p": "//b"}}, {"op": "discard", "arg": {"p": "/./b"}}]},
    {"init": [E("/a", 0, 1), E("/b", 1, 2)], "ops": [{"op": "difference", "other": {"kind": "list", "items": [{"e": E("/a", 0, 3)}]}}]},
    {"init": [E("/a", 0, 1), E("/b", 1, 2)], "ops": [{"op": "issubset", "other": {"kind": "tuple", "items": [{"e": E("/a", 0, 3)}, {"e": E("/b", 0, 4)}]}}]},
    {"init": [E("/a", 0, 1), E("/b", 1, 2)], "ops": [{"op": "isdisjoint", "other": {"kind": "set", "items": [{"e": E("/a", 0, 3)}]}}]},
    {"init": [E("/a", 0, 1), E("/b", 1, 2)], "ops": [{"op": "intersection_update", "other": {"kind": "frozenset", "items": [{"e": E("/a", 0, 3)}]}}]},
    {"init": [E("/tmp", 1, 1)], "ops": [{"op": "symmetric_difference", "other": {"kind": "list", "items": [{"e": E("/tmp", 0, 2)}]}}]},
    {"init": [E("/tmp", 1, 1)], "ops": [{"op": "symmetric_difference_update", "other": {"kind": "tuple", "items": [{"e": E("/tmp", 0, 2)}, {"e": E("/x", 0, 3)}]}}]},
    {"init": [E("/a", 0, 1), E("/b", 1, 2)], "ops": [{"op": "difference", "other": {"kind": "iter", "items": [{"p": "/a/"}]}}]},
    {"init": [E("/a", 0, 1), E("/b", 1, 2)], "ops": [{"op": "intersection_update", "other": {"kind": "gen", "items": [{"p": "/a/./"}]}}]},
    {"init": [E("/a", 0, 1)], "ops": [{"op": "issubset", "other": {"kind": "iter", "items": [{"p": "/a/"}]}}, {"op": "isdisjoint", "other": {"kind": "list", "items": [{"p": "/x/../a"}]}}]},
    {"init": [E("/a", 0, 1), E("/b", 1, 2)], "ops": [{"op": "intersection", "other": {"kind": "list", "items": [{"p": "/a"}]}}, {"op": "intersection", "other": {"kind": "list", "items": [{"p": "/zz"}]}}]},
    {"init": [E("/a", 0, 1), E("/b", 1, 2)], "ops": [{"op": "intersection", "other": {"kind": "list", "items": [{"p": "/a/"}, {"e": E("/b", 4, 9)}, {"e": E("/c", 4, 10)}]}, "assign": True}]},
    {"init": [E("/a", 0, 1), E("/b", 1, 2)], "ops": [{"op": "difference_update", "other": {"kind": "self"}}, {"op": "len"}]},
    {"init": [E("/usr/bin/x", 0, 1), E("/usr", 1, 2)], "ops": [{"op": "change_offset", "old": "/usr/.", "new": "/new", "assign": True}]},
    {"init": [E("/tmp/root/etc/f", 0, 1), E("/tmp/root", 1, 2)], "ops": [{"op": "change_offset", "old": "/tmp//root", "new": "/", "assign": True}]},
    # boundary cases of the property text
    {"init": [E("//x/y/z", 0, 1), E("/a/b/c", 0, 2), E("/a", 1, 3), E("/", 1, 4)], "ops": [{"op": "add_missing_directories", "tag": 1001}, {"op": "len"}]},
    {"init": [E("/a/b/c/d", 0, 1), E("/a/b", 1, 2)], "ops": [{"op": "add_missing_directories", "tag": 1002}]},
    {"init": [], "ops": [{"op": "add_missing_directories", "tag": 1002}, {"op": "len"}, {"op": "union", "other": {"kind": "cset", "cset": []}}]},
    {"init": [E("/a", 0, 1)], "ops": [{"op": "union", "other": {"kind": "list", "items": [{"e": E("/a/", 1, 2)}, {"e": E("//a", 1, 3)}]}, "assign": True}, {"op": "getitem", "arg": {"p": "/a/."}}]},
    {"init": [E("/a", 0, 1)], "ops": [{"op": "union", "other": {"kind": "list", "items": [{"p": "/a"}]}}, {"op": "symmetric_difference", "other": {"kind": "list", "items": [{"p": "/a"}]}},
                                       {"op": "symmetric_difference_update", "other": {"kind": "iter", "items": [{"p": "/zz"}]}}]},
    {"init": [E("/a", 0, 1), E("/a/", 1, 2), E("/a/.", 2, 3)], "ops": [{"op": "len"}, {"op": "getitem", "arg": {"p": "/a"}}, {"op": "remove", "arg": {"p": "///a//"}}, {"op": "remove", "arg": {"p": "/a"}}]},
    {"init": [E("/a/b", 0, 1)], "ops": [{"op": "contains", "arg": {"p": "//a/b"}}, {"op": "contains", "arg": {"p": "///a/b"}}, {"op": "contains", "arg": {"p": "/a/b/c/.."}},
                                         {"op": "contains", "arg": {"p": "/../a/b"}}, {"op": "contains", "arg": {"p": "a/b"}}, {"op": "contains", "arg": {"p": ""}}]},
    {"init": [E("/usr/a", 0, 1), E("/usr", 1, 2), E("/usr/a/b", 3, 3)], "ops": [{"op": "change_offset", "old": "/usr/", "new": "//r", "assign": True}, {"op": "change_offset", "old": "//r", "new": "/", "assign": True}]},
    {"init": [E("/a", 0, 1), E("/b", 0, 2)], "ops": [{"op": "change_offset", "old": "/", "new": "/new/", "assign": True}, {"op": "change_offset", "old": "", "new": "/q", "assign": True}]},
    # operations that have nothing to change (relocation onto the same prefix, empty / identical arguments) still return a map of their own:
    # the sequence goes on with one of the two sets and the other one must keep its contents
    {"init": [E("/img/usr/", 1, 1), E("/img//usr/bin/tool", 0, 2), E("/img/etc/tool.conf", 0, 3)], "ops": [
        {"op": "change_offset", "old": "/img/", "new": "/img/./", "assign": True}, {"op": "add", "ent": E("/img/var/state", 0, 4)},
        {"op": "discard", "arg": {"p": "/img/etc//tool.conf/"}}, {"op": "difference_update", "other": {"kind": "list", "items": [{"p": "/img/usr/bin/tool"}]}}]},
    {"init": [E("/a", 0, 1), E("/b/c", 1, 2)], "ops": [{"op": "change_offset", "old": "/", "new": "/", "assign": False}, {"op": "remove", "arg": {"p": "/a"}},
                                                      {"op": "change_offset", "old": "", "new": "///", "assign": True}, {"op": "add", "ent": E("/d", 0, 3)}]},
    {"init": [E("/a", 0, 1), E("/b", 1, 2)], "ops": [{"op": "difference", "other": {"kind": "list", "items": []}, "assign": True}, {"op": "discard", "arg": {"p": "/a"}},
                                                    {"op": "union", "other": {"kind": "cset", "cset": []}, "assign": False}, {"op": "add", "ent": E("/c", 0, 3)},
                                                    {"op": "intersection", "other": {"kind": "self"}, "assign": True}, {"op": "remove", "arg": {"p": "/b"}},
                                                    {"op": "symmetric_difference", "other": {"kind": "tuple", "items": []}, "assign": False}, {"op": "add", "ent": E("/b", 2, 4)}]},
    {"init": [E("/a", 0, 1)], "ops": [{"op": "update", "other": {"kind": "list", "items": [{"e": E("/b", 1, 2)}, {"p": "/c"}]}, "stop": True}]},
    {"init": [E("/a", 0, 1), E("/b", 1, 2)], "ops": [{"op": "symmetric_difference_update", "other": {"kind": "self"}}, {"op": "len"}]},
    {"init": [E("/a", 0, 1), E("/b", 1, 2)], "ops": [{"op": "intersection_update", "other": {"kind": "self"}}, {"op": "issubset", "other": {"kind": "self"}}, {"op": "isdisjoint", "other": {"kind": "self"}}]},
]


# ------------------------------------------------------------------ running the real code

def run_impl(case, fs, contents):
    """returns (per-op records, probes).  record = {"ret":…, "state":[[loc,kind,tag]…], "other": serialised Other actually used}"""
    classes = [fs.fsFile, fs.fsDir, fs.fsSymlink, fs.fsDev, fs.fsFifo]

    def kind_of(x):
        for i, c in enumerate(classes):
            if type(x) is c:
                return i
        return -1

    def mk(e):
        kw = {"strict": False, "mode": e["tag"]}
        if e["kind"] == 2:
            return fs.fsSymlink(e["loc"], "target-%d" % e["tag"], **kw)
        return classes[e["kind"]](e["loc"], **kw)

    def canon(cs):
        return sorted([x.location, kind_of(x), x.mode] for x in cs)

    def mkarg(a):
        return mk(a["e"]) if "e" in a else a["p"]

    probes = set()

    def note_arg(a):
        probes.add(posixpath.normpath(a["e"]["loc"] if "e" in a else a["p"]))

    # Every set is a map of its own (a value): objects other than the one an operation is called on keep their contents.
    # `held` = the sets the sequence has produced and put aside (the source of an assigned result, an unassigned result, contentsSet arguments)
    # with the contents they had then; they are looked at again after every later operation.
    held = []

    def hold(obj, what):
        held.append((obj, canon(obj), what))
        del held[:-4]

    def independent(src, res, assign):
        """the follow-up that makes sharing between a value-returning operation's source and result observable: edit the one the sequence drops
        (by add / discard / difference_update) and watch the one it keeps; returns None or a description"""
        victim, watched, vname, wname = (src, res, "source", "result") if assign else (res, src, "result", "source")
        before = canon(watched)
        n = 0
        while "/probe-%d" % n in victim or "/probe-%d" % n in watched:
            n += 1
        steps = [("add", {"loc": "/probe-%d" % n, "kind": 0, "tag": 999})]
        locs = [x.location for x in victim]
        if locs:
            steps.append(("discard", locs[0] + "/"))
            steps.append(("difference_update", locs))
        done = []
        saved = list(victim)
        for what, a in steps:
            done.append({"on": vname, "op": what, "arg": a})
            try:
                if what == "add":
                    victim.add(mk(a))
                else:
                    getattr(victim, what)(a)
            except Exception:
                break
            now = canon(watched)
            if now != before:
                return {"followup": done, "text": "%s of the %s changes the %s from %s to %s%s" % (
                    what, vname, wname, before, now, " (the result is the very object it was computed from)" if src is res else
                    " (both share one _dict)" if src._dict is res._dict else "")}
        # put the edited object back as it was: it stays under observation in `held`
        victim.difference_update([x.location for x in victim])
        victim.update(saved)
        return None

    cur = contents.contentsSet([mk(e) for e in case["init"]])
    out = []
    for op in case["ops"]:
        name = op["op"]
        rec = {}
        ser_other = None
        other = None
        other_snap = None
        if "other" in op:
            o = op["other"]
            k = o["kind"]
            if k == "self":
                other = cur
                ser_other = {"cset": [{"loc": x.location, "kind": kind_of(x), "tag": x.mode} for x in cur]}
            elif k == "cset":
                other = contents.contentsSet([mk(e) for e in o["cset"]])
                other_snap = canon(other)
                ser_other = {"cset": o["cset"]}
                for e in o["cset"]:
                    note_arg({"e": e})
            else:
                objs = [(a, mkarg(a)) for a in o["items"]]
                for a, _ in objs:
                    note_arg(a)
                if k in ("set", "frozenset", "dict"):
                    # iteration order of a hashed container is whatever this process gives; read it back
                    back = {}
                    for a, ob in objs:
                        back.setdefault(id(ob) if not isinstance(ob, str) else ("s", ob), a)
                    cont = (set if k == "set" else frozenset)(ob for _, ob in objs) if k != "dict" else {ob: None for _, ob in objs}
                    order = [back[id(ob) if not isinstance(ob, str) else ("s", ob)] for ob in cont]
                    other = cont
                    ser_other = {"items": order}
                else:
                    seq = [ob for _, ob in objs]
                    other = {"list": lambda: list(seq), "tuple": lambda: tuple(seq), "iter": lambda: iter(seq), "gen": lambda: (x for x in seq)}[k]()
                    ser_other = {"items": [a for a, _ in objs]}
            rec["other"] = ser_other
        if "arg" in op:
            note_arg(op["arg"])
        if "ent" in op:
            note_arg({"e": op["ent"]})
        try:
            if name == "contains":
                rec["ret"] = mkarg(op["arg"]) in cur
            elif name == "getitem":
                x = cur[mkarg(op["arg"])]
                rec["ret"] = [x.location, kind_of(x), x.mode]
            elif name == "len":
                rec["ret"] = len(cur)
            elif name == "add":
                cur.add(mk(op["ent"]))
                rec["ret"] = None
            elif name == "remove":
                cur.remove(mkarg(op["arg"]))
                rec["ret"] = None
            elif name == "discard":
                cur.discard(mkarg(op["arg"]))
                rec["ret"] = None
            elif name in ("issubset", "issuperset", "isdisjoint"):
                r = getattr(cur, name)(other)
                rec["ret"] = bool(r)
                if r is not True and r is not False:
                    rec["exc"] = "non-bool result %r" % (r,)
            elif name in ("difference", "intersection", "union", "symmetric_difference"):
                r = getattr(cur, name)(other)
                if not isinstance(r, contents.contentsSet):
                    rec["exc"] = "result is not a contentsSet"
                rec["ret"] = canon(r)
                src = cur
                if op.get("assign"):
                    cur = r
                if isinstance(r, contents.contentsSet):
                    rec["alias"] = independent(src, r, bool(op.get("assign")))
                    hold(src if op.get("assign") else r, "the %s of operation %d (%s)" % ("source" if op.get("assign") else "result", len(out), name))
            elif name in ("difference_update", "intersection_update", "symmetric_difference_update", "update"):
                getattr(cur, name)(other)
                rec["ret"] = None
            elif name == "change_offset":
                r = cur.change_offset(op["old"], op["new"])
                rec["ret"] = canon(r)
                rec["before"] = canon(cur)
                src = cur
                if op.get("assign"):
                    cur = r
                rec["alias"] = independent(src, r, bool(op.get("assign")))
                hold(src if op.get("assign") else r, "the %s of operation %d (change_offset)" % ("source" if op.get("assign") else "result", len(out)))
            elif name == "add_missing_directories":
                rec["before"] = canon(cur)
                cur.add_missing_directories(mode=op["tag"], mtime=0)
                rec["ret"] = None
            else:
                raise AssertionError(name)
        except KeyError:
            rec["ret"] = "KeyError"
        except (TypeError, ValueError, AttributeError) as e:
            if name in ("union", "symmetric_difference", "symmetric_difference_update", "update"):
                rec["ret"] = "NeedsEntries"
            else:
                rec["ret"] = "EXC"
                rec["exc"] = "%s: %s" % (type(e).__name__, e)
        except Exception as e:
            rec["ret"] = "EXC"
            rec["exc"] = "%s: %s" % (type(e).__name__, e)
        rec["state"] = canon(cur)
        if not rec.get("alias"):
            rec.pop("alias", None)
            if other_snap is not None and canon(other) != other_snap:
                rec["alias"] = {"text": "%s changes its contentsSet argument from %s to %s" % (name, other_snap, canon(other))}
            for obj, snap, what in held:
                if canon(obj) != snap:
                    rec["alias"] = {"text": "%s on the current set changes %s from %s to %s" % (name, what, snap, canon(obj))}
                    break
            if other_snap is not None:
                hold(other, "the contentsSet argument of operation %d (%s)" % (len(out), name))
        for loc, _, _ in rec["state"]:
            probes.add(loc)
        if isinstance(rec["ret"], list) and rec["ret"] and isinstance(rec["ret"][0], list):
            for loc, _, _ in rec["ret"]:
                probes.add(loc)
        # the dict invariant the whole class rests on
        for k, v in cur._dict.items():
            if k != v.location or posixpath.normpath(k) != k:
                rec["exc"] = "dict key %r does not equal the normalised location of its value %r" % (k, v.location)
        out.append(rec)
        if rec["ret"] == "EXC" or (name == "update" and rec["ret"] == "NeedsEntries"):
            break
    return out, sorted(probes)


# ------------------------------------------------------------------ oracles written from the property text

def split_abs(p):
    """(root, components) of an absolute normalised path, else None"""
    if not p.startswith("/"):
        return None
    root = "//" if p.startswith("//") and not p.startswith("///") else "/"
    body = p[len(root):]
    return root, ([c for c in body.split("/")] if body else [])


def oracle_relocate(before, old, new):
    """expected [loc,kind,tag] list for the entries that are under `old`; None for the others"""
    o = split_abs(posixpath.normpath(old or "/"))
    n = split_abs(posixpath.normpath(new))
    res = []
    for loc, kind, tag in before:
        l = split_abs(loc)
        if o is None or n is None or l is None or l[0] != o[0] or l[1][: len(o[1])] != o[1]:
            res.append(None)
            continue
        rel = l[1][len(o[1]):]
        res.append([n[0] + "/".join(n[1] + rel), kind, tag])
    return res


def oracle_missing(before, tag):
    """expected state after add_missing_directories, or None when some location is not absolute"""
    have = {loc: [loc, kind, t] for loc, kind, t in before}
    want = dict(have)
    for loc in have:
        s = split_abs(loc)
        if s is None:
            return None
        root, comps = s
        for i in range(len(comps)):
            anc = root + "/".join(comps[:i])
            if anc != "/" and anc not in have:
                want[anc] = [anc, 1, tag]
    return sorted(want.values())


def to_model_ops(case, recs):
    ops = []
    for op, rec in zip(case["ops"], recs):
        m = {k: v for k, v in op.items() if k not in ("other", "stop")}
        if "other" in rec:
            m["other"] = rec["other"]
        ops.append(m)
    return ops


def nontrivial(case, recs):
    keys = {posixpath.normpath(e["loc"]) for e in case["init"]}
    ok = False
    for op, rec in zip(case["ops"], recs):
        named = []
        raw = []
        if "arg" in op:
            a = op["arg"]
            raw = [a["e"]["loc"] if "e" in a else a["p"]]
        elif "other" in rec:
            o = rec["other"]
            raw = [e["loc"] for e in o.get("cset", [])] + [(a["e"]["loc"] if "e" in a else a["p"]) for a in o.get("items", [])]
        named = [posixpath.normpath(r) for r in raw]
        hit = any(n in keys for n in named)
        miss = any(n not in keys for n in named)
        unnorm = any(r != n for r, n in zip(raw, named))
        if hit and ("arg" in op and unnorm or "other" in rec and (miss or unnorm)):
            ok = True
        if op["op"] in ("change_offset", "add_missing_directories") and len(rec.get("before", [])) >= 2:
            ok = True
        keys = {loc for loc, _, _ in rec["state"]}
    return ok


def run(ctx):
    from pkgcore.fs import contents, fs

    rng = ctx.rng
    # ---------------- posixpath primitives: model vs os.path
    strings = []
    alpha = "/.ab"
    for n in range(0, ctx.n(7, 9)):
        strings += ["".join(t) for t in itertools.product(alpha, repeat=n)]
    for _ in range(ctx.n(1500, 20000)):
        strings.append(spell(rng, spell(rng, gen_path(rng))))
    strings += ["/x y//é/../..b/.", "//", "///", "////a", "//..", "/..", "..", "../..", "a/../..", "a/b/../../..", "/a/./b/../../c/", ".../a", "/.../..a/.."]
    replies = ctx.model([{"cmd": "c22.path", "s": s} for s in strings])
    for s, rep in zip(strings, replies):
        ctx.evaluations += 1
        want = {"normpath": posixpath.normpath(s), "dirname": posixpath.dirname(s)}
        if rep != want:
            ctx.mismatch({"string": s}, f"posixpath gives {want}, the Lean model gives {rep}")
        n = want["normpath"]
        if posixpath.normpath(n) != n:
            ctx.violation({"string": s}, f"os.path.normpath is not idempotent on {s!r}")
    ctx.count("path_strings", len(strings))
    jp = [(spell(rng, gen_path(rng)), spell(rng, gen_path(rng)).lstrip("/") if rng.random() < 0.8 else spell(rng, gen_path(rng))) for _ in range(ctx.n(300, 3000))]
    jp += [("", "a"), ("/", ""), ("/a", ""), ("/a/", "b"), ("a", "/b"), ("", "")]
    for (a, b), rep in zip(jp, ctx.model([{"cmd": "c22.join", "a": a, "b": b} for a, b in jp])):
        ctx.evaluations += 1
        if rep != posixpath.join(a, b):
            ctx.mismatch({"join": [a, b]}, f"posixpath.join gives {posixpath.join(a, b)!r}, the Lean model gives {rep!r}")

    # ---------------- operation sequences
    g = Gen(rng)
    cases = [dict(c) for c in CORPUS]
    if ctx.replay_cases:
        cases = [c for c in ctx.replay_cases if "init" in c] + cases
    for _ in range(ctx.n(6000, 60000)):
        cases.append(g.case())
    if not ctx.quick():
        # bounded-exhaustive: every set-algebra operation x every container kind x every small argument over a 3-path universe
        U = ["/a", "/a/b", "//a"]
        sp = {"/a": ["/a", "/a/", "/./a"], "/a/b": ["/a/b", "/a//b"], "//a": ["//a", "//a/."]}
        items_pool = [{"e": E(p, k, 50 + i)} for i, (p, k) in enumerate(itertools.product(U, [0, 1]))] + [{"p": s} for p in U for s in sp[p]]
        inits = [[], [E("/a", 0, 1)], [E("/a", 1, 1), E("/a/b", 0, 2)], [E("/a", 0, 1), E("//a", 0, 2), E("/a/b", 2, 3)]]
        n0 = len(cases)
        for init in inits:
            for r in (0, 1, 2):
                for items in itertools.combinations(items_pool, r):
                    for kind in ("list", "set", "iter", "cset"):
                        if kind == "cset":
                            if any("p" in a for a in items):
                                continue
                            o = {"kind": "cset", "cset": [a["e"] for a in items]}
                        else:
                            o = {"kind": kind, "items": list(items)}
                        ops = [{"op": name, "other": o} for name in
                               ("difference", "intersection", "issubset", "issuperset", "isdisjoint", "union", "symmetric_difference",
                                "intersection_update")] + [{"op": "difference_update", "other": o}]
                        cases.append({"init": init, "ops": ops})
        ctx.extra["exhaustive_small_universe_cases"] = len(cases) - n0

    impl = []
    for c in cases:
        recs, probes = run_impl(c, fs, contents)
        impl.append((recs, probes))
    reqs = [{"cmd": "c22.run", "init": c["init"], "ops": to_model_ops(c, recs), "probes": probes} for c, (recs, probes) in zip(cases, impl)]
    replies = ctx.model(reqs)

    for c, (recs, probes), rep in zip(cases, impl, replies):
        key = repr((c["init"], to_model_ops(c, recs)))
        ctx.case({"init": c["init"], "ops": c["ops"]}, nontrivial(c, recs), key=key)
        ctx.count("init_size_%d" % len(c["init"]))
        if rep == "bad-op" or not isinstance(rep, list) or len(rep) < len(recs):
            ctx.mismatch(c, f"driver rejected the request: {rep!r:.200}")
            continue
        for i, (op, rec, m) in enumerate(zip(c["ops"], recs, rep)):
            name = op["op"]
            ctx.count("op_" + name)
            if "other" in op:
                ctx.count("argkind_" + op["other"]["kind"])
                its = op["other"].get("items")
                if its is not None:
                    ctx.count("argitems_" + ("empty" if not its else "entries" if all("e" in a for a in its) else "strings" if all("p" in a for a in its) else "mixed"))
            if "arg" in op:
                ctx.count("arg_" + ("entry" if "e" in op["arg"] else "string"))
            where = {"init": c["init"], "ops": c["ops"][: i + 1], "failing_op": i}
            if "exc" in rec:
                ctx.violation(where, f"{name}: {rec['exc']}")
                break
            if rec.get("alias"):
                # a set that is not the target of an operation must keep its map (sets are values: results are maps of their own)
                al = rec["alias"]
                if isinstance(al, dict):
                    if "followup" in al:
                        where["followup"] = al["followup"]
                    al = al["text"]
                ctx.violation(where, f"sets are not independent maps: {al}")
                break
            if name in ("difference", "intersection", "union", "symmetric_difference", "change_offset") and ret not in ("EXC", "NeedsEntries", "KeyError"):
                ctx.count("independence_followups")
            ret = rec["ret"]
            if isinstance(ret, str):
                ctx.count("ret_" + ret)
            # ---- edge C: the real code against the specification
            bad = None
            if name in ("change_offset",):
                want = oracle_relocate(rec["before"], op["old"], op["new"])
                if ret == "EXC":
                    bad = f"change_offset raised: {rec.get('exc')}"
                elif all(w is not None for w in want):
                    ws = {}
                    for w in want:
                        ws[w[0]] = w
                    if sorted(ws.values()) != ret:
                        bad = f"change_offset({op['old']!r}, {op['new']!r}) of {rec['before']} gives {ret}; replacing the prefix gives {sorted(ws.values())}"
                    ctx.count("relocate_all_under_old")
                else:
                    ctx.count("relocate_some_not_under_old(unspecified)")
            elif name == "add_missing_directories":
                want = oracle_missing(rec["before"], op["tag"])
                if want is not None:
                    if want != rec["state"]:
                        bad = f"add_missing_directories of {rec['before']} gives {rec['state']}; the absent ancestors other than / give {want}"
                    ctx.count("missing_dirs_added_%d" % min(len(want) - len(rec["before"]), 5))
                else:
                    ctx.count("missing_dirs_relative(unspecified)")
            else:
                sret = m["sret"]
                if isinstance(ret, list) and ret and isinstance(ret[0], list) or (isinstance(ret, list) and name in ("difference", "intersection", "union", "symmetric_difference")):
                    got = {r[0]: r for r in ret}
                    if isinstance(sret, list):
                        gl = [got.get(p) for p in probes]
                        if gl != sret:
                            bad = f"{name} returns {ret}; the map operation gives {[x for x in sret if x]}"
                    else:
                        bad = f"{name} returns {ret}; the specification says {sret}"
                elif name == "getitem" and isinstance(ret, list):
                    if ret != sret:
                        bad = f"getitem returns {ret}; the map lookup gives {sret}"
                elif ret != sret:
                    bad = f"{name} returns {ret!r}; the specification says {sret!r}"
                # (a rejected update has already stored the items preceding the bare string, like set.update; only the rejection is compared)
                partial_update = name == "update" and ret == "NeedsEntries"
                if bad is None and not partial_update:
                    st = {r[0]: r for r in rec["state"]}
                    if [st.get(p) for p in probes] != m["sstate"]:
                        bad = f"after {name} the set is {rec['state']}; the map is {[x for x in m['sstate'] if x]}"
            if bad:
                ctx.violation(where, bad)
                break
            # ---- edge A: the real code against the Lean model of the code
            mret = m["ret"]
            if isinstance(mret, list) and name != "getitem":
                mret = sorted(mret)
            if (mret != ret and name == "change_offset" and isinstance(ret, list) and isinstance(mret, list)
                    and any(w is None for w in oracle_relocate(rec["before"], op["old"], op["new"]))
                    and [r[0] for r in ret] == [r[0] for r in mret]):
                # entries outside the old offset (the property leaves their relocation unspecified) may land on one new location; which of
                # them survives depends on the iteration order of the source set (a dict keeps the position of an overwritten key, the
                # model's list re-appends it).  The model does not claim that order: same locations, colliding survivors not compared.
                ctx.count("relocate_collision_survivor_unspecified")
                break
            if mret != ret:
                ctx.mismatch(where, f"{name}: implementation returns {ret!r}, the Lean model returns {mret!r}")
                break
            if sorted(m["state"]) != rec["state"] and not (name == "update" and ret == "NeedsEntries"):
                ctx.mismatch(where, f"after {name}: implementation state {rec['state']}, Lean model state {sorted(m['state'])}")
                break


LEVEL_TEXT = ("Kernel-checked Lean 4 theorems about a character-level model of posixpath.normpath/dirname/join and a list model of contentsSet._dict: "
              "normpath is idempotent and yields a unique normal form; every operation (lookup, add, remove, discard, difference, intersection, union, symmetric "
              "difference, their in-place forms, update, subset/superset/disjoint tests, len) with every argument kind (entry, path string, contentsSet, arbitrary "
              "iterable of entries and strings) refines the pointwise operation on maps keyed by normalised path, for all sets and arguments; relocation swaps the "
              "leading components; on a heap of objects every value-returning method yields a new object and an object's contents are determined by the in-place "
              "calls addressed to it alone (sources and results are independent maps, also for a relocation onto the same prefix); add_missing_directories terminates and adds exactly the absent proper ancestors other than /. The model is tied to the code by "
              "replaying random operation sequences on real contentsSet objects (all container kinds, unnormalised spellings, aliasing) and by an exhaustive "
              "differential test of the path primitives; the same runs evaluate the map specification directly on the real code.")
LEVEL_NOTE = ("Trusted: Lean kernel; standard axioms only; the Lean re-expression of posixpath (validated exhaustively on short strings, not proved against CPython); "
              "Python dict/set semantics; entries reduced to (location, kind, tag).")
