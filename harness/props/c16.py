"""C16 — resolver choice policy: highest version for upgrades, reuse for minimal installs, determinism."""
import json
import os
import subprocess
import sys

from . import c15

PID = "C16"
LEAN_MODULES = ["Pkgcore.Props.C16", "Pkgcore.Props.C15"]
OBLIGATIONS = [
    "Pkgcore.C16.upgrade_stream_ordered",
    "Pkgcore.C16.highest_first",
    "Pkgcore.C16.reuse_first",
    "Pkgcore.C16.stream_order_independent",
    "Pkgcore.C16.insoluble_sound",
]
TECHNIQUE = "Lean 4 proof about the candidate streams + differential run of the real strategies and resolvers"
TRUSTED = [
    "that the resolver takes the first candidate of the stream that resolves is NOT proved (the search is not modelled): it is checked on "
    "the real resolver, with resolvability of the first candidate witnessed by a pinned resolution whose plan the verified checker of C15 accepts",
    "Python's list.sort / sorted are stable (modelled by a stable insertion sort); snakeoil.iterables.iter_sort is modelled as written",
    "determinism across interpreter hash seeds is sampled (child interpreters with different PYTHONHASHSEED), not proved",
]
ASSUMPTIONS = [
    "'highest visible matching version' = first element of the strategy's stream for the target (proved to be a maximal version, installed "
    "instance first among equals); 'resolvable' = the resolver, given the target pinned to exactly that package version, succeeds with a plan "
    "accepted by C15's planOk",
    "repositories are homogeneous in repo.livefs and list each version once; versions accepted by isvalid_version_re",
]
RULE = ("repositories of C15's generators with two source repositories (overlapping versions => ties) and one installed repository; for every "
        "target/dependency atom the real prefer_highest_version_strategy / prefer_reuse_strategy streams are compared with the Lean model and "
        "checked against the policy with the real comparisons; SEQUENCES of 2-3 targets are resolved on one long-lived resolver (one add_atom "
        "each, as pmerge does), a quarter of them on repositories with build-time dependency cycles escaped through any-of alternatives and "
        "multi-version later targets; for every target of every sequence the first candidate of its stream is pinned on a fresh resolver on top "
        "of the packages planned so far (oracle; plan accepted by C15's planOk) and, when that works, must be what the target gets; after each "
        "sequence the resolver's insoluble memory is checked against the repositories; every sequence is repeated in-process and in a child "
        "interpreter with another hash seed; non-trivial = stream with >= 3 candidates or a tie, or a target whose first candidate is "
        "resolvable among >= 2 candidates")


def split_src(rng, case):
    """two source repositories with overlapping content, random listing order"""
    items = list(case["src"].items())
    rng.shuffle(items)
    s1, s2 = {}, {}
    for cpv, meta in items:
        k = rng.random()
        if k < 0.45:
            s1[cpv] = meta
        elif k < 0.8:
            s2[cpv] = meta
        else:
            s1[cpv] = meta
            s2[cpv] = meta     # the same version offered by both source repositories: a tie
    vitems = list(case["vdb"].items())
    rng.shuffle(vitems)
    return s1, s2, dict(vitems)


def build(case3, mode):
    fx = c15.fixture()
    from pkgcore.ebuild import resolver
    s1 = fx["mk"]("src1", case3["s1"])
    s2 = fx["mk"]("src2", case3["s2"])
    v = fx["mk"]("vdb", case3["vdb"], livefs=True)
    if mode == "upgrade":
        r = resolver.upgrade_resolver([v], [s1, s2])
        order = [s1, s2, v]          # resolver_cls(dbs + vdbs, ...)
    else:
        r = resolver.min_install_resolver([v], [s1, s2])
        order = [v, s1, s2]          # resolver_cls(vdbs + dbs, ...)
    return r, order


def pid(p):
    return [p.repo.repo_id, p.cpvstr]


def resolve3(case3, mode, targets, limit=900):
    """one resolution; returns {"status": ok|fail|recursion|crash, "ops": [...], "detail": ...}"""
    fx = c15.fixture()
    old = sys.getrecursionlimit()
    sys.setrecursionlimit(limit)
    try:
        r, order = build(case3, mode)
        ret = ()
        for t in targets:          # one long-lived resolver, one add_atom per target (as pmerge does)
            ret = r.add_atom(fx["atom"](t))
            if ret:
                break
    except RecursionError:
        return {"status": "recursion", "ops": None}, None, None
    except Exception as e:  # noqa: BLE001
        return {"status": "crash", "ops": None, "detail": f"{type(e).__name__}: {e}"}, None, None
    finally:
        sys.setrecursionlimit(old)
    ops = []
    for op in r.state.iter_ops(True):
        ops.append([op.desc] + ([pid(op.old_pkg)] if op.desc == "replace" else []) + [pid(op.pkg)])
    return {"status": "fail" if ret else "ok", "ops": ops}, r, order


def worker():
    """child interpreter: resolve every job read from stdin, print the results (used for the hash-seed determinism check)"""
    jobs = json.load(sys.stdin)
    out = []
    for case3, mode, targets in jobs:
        res, _, _ = resolve3(case3, mode, targets)
        out.append(res)
    json.dump(out, sys.stdout)


def check_c15(ctx, r, order, targets):
    """decide the plan of a finished resolution with C15's verified checker; returns (request, objects)"""
    fx = c15.fixture()
    U = [p for repo in order for p in repo]
    index = {c15.pid(p): i for i, p in enumerate(U)}
    ser = c15.Ser()
    pkgs = [ser.pkg(p, i) for i, p in enumerate(U)]
    tg = [fx["atom"](t) for t in targets]
    plan, F, merged = c15.plan_of(r, U, index)
    req = {"cmd": "c15.check", "pkgs": pkgs, "targets": [ser.atom(t) for t in tg], "plan": plan, "atoms": []}
    return req, (U, F, merged, tg)


def gen_cycle_case(rng):
    """repositories with a build-time dependency cycle that is escaped through an any-of alternative, and a later multi-version
    target whose higher version depends on something the earlier targets pulled in; targets are meant to be resolved in sequence"""
    t, x, y, z, w, u = rng.sample(c15.NAMES, 6)
    bt = lambda: rng.choice(["depend", "bdepend"])
    alts = [f"a/{y}", f"a/{z}"]
    rng.shuffle(alts)
    hi, lo = sorted(rng.sample(range(len(c15.VERSIONS)), 2), reverse=True)
    hi, lo = c15.VERSIONS[hi], c15.VERSIONS[lo]
    src = {
        f"a/{x}-1": {bt(): "|| ( %s )" % " ".join(alts)},
        f"a/{y}-1": {bt(): f"a/{x}"},
        f"a/{z}-1": ({"rdepend": f"a/{u}"} if rng.random() < 0.3 else {}),
        f"a/{u}-1": {},
        f"a/{t}-1": {rng.choice(c15.CLASSES): f"a/{x}"},
        f"a/{w}-{hi}": {rng.choice(c15.CLASSES): "a/" + rng.choice([x, x, y, z, t])},
        f"a/{w}-{lo}": ({} if rng.random() < 0.8 else {"rdepend": f"a/{u}"}),
    }
    if rng.random() < 0.3:
        src[f"a/{x}-2"] = {bt(): f"a/{y}"}
    vdb = {}
    if rng.random() < 0.25:
        vdb[f"a/{x}-1"] = {}
    if rng.random() < 0.2:
        vdb[f"a/{w}-{lo}"] = {}
    targets = [f"a/{t}", f"a/{w}"]
    if rng.random() < 0.3:
        targets.reverse()
    if rng.random() < 0.4:
        targets.insert(rng.randrange(3), "a/" + rng.choice([u, z, y]))
    for m in list(src.values()) + list(vdb.values()):
        m.setdefault("slot", "0")
    return {"src": src, "vdb": vdb, "targets": targets, "mode": "upgrade", "stream": "cycle-escape"}


def snapshot(r, U, index):
    plan, F, merged = c15.plan_of(r, U, index)
    touched = []
    for op in r.state.iter_ops(True):
        if c15.pid(op.pkg) not in [c15.pid(q) for q in touched]:
            touched.append(op.pkg)
    return {"F": F, "merged": merged, "touched": [q for q in touched if any(c15.pid(q) == c15.pid(f) for f in F)]}


def run_sequence(case3, mode, seq, limit=900):
    """resolve `seq` one add_atom at a time on ONE resolver; returns (resolver, order, U, index, steps)"""
    fx = c15.fixture()
    r, order = build(case3, mode)
    # candidate streams are read off a SEPARATE resolver: asking the live one is not neutral (its per-repository caching iterators are
    # shared with the search; a fully consumed one changes what an interrupted outer iteration still sees — see notes/C16.md)
    probe, _ = build(case3, mode)
    U = [p for repo in order for p in repo]
    index = {c15.pid(p): i for i, p in enumerate(U)}
    steps = []
    old = sys.getrecursionlimit()
    sys.setrecursionlimit(limit)
    try:
        for t in seq:
            a = fx["atom"](t)
            before = snapshot(r, U, index)
            presolved = bool(r.state.match_atom(a))
            stream = list(probe.all_dbs.itermatch(a))
            try:
                ret = r.add_atom(a)
            except RecursionError:
                steps.append({"t": t, "status": "recursion"})
                break
            except Exception as e:  # noqa: BLE001
                steps.append({"t": t, "status": "crash", "detail": f"{type(e).__name__}: {e}"})
                break
            if ret:
                steps.append({"t": t, "status": "fail"})
                break
            steps.append({"t": t, "status": "ok", "presolved": presolved, "stream": stream, "before": before, "after": snapshot(r, U, index)})
    finally:
        sys.setrecursionlimit(old)
    return r, order, steps


def oracle(case3, mode, before, H, limit=900):
    """is `H` resolvable on top of the packages planned so far?  A FRESH resolver is given the planned packages pinned one by one
    (in plan order) and then `H` pinned; returns None or (resolver, order, pin) when that succeeds in the same context with `H` chosen"""
    fx = c15.fixture()
    old = sys.getrecursionlimit()
    sys.setrecursionlimit(limit)
    try:
        r, order = build(case3, mode)
        for q in before["touched"]:
            if r.add_atom(fx["atom"]("=" + q.cpvstr)):
                return None
        U = [p for repo in order for p in repo]
        index = {c15.pid(p): i for i, p in enumerate(U)}
        ctxt = snapshot(r, U, index)
        if sorted(map(c15.pid, ctxt["F"])) != sorted(map(c15.pid, before["F"])) or \
                sorted(map(c15.pid, ctxt["merged"])) != sorted(map(c15.pid, before["merged"])):
            return None            # pinning did not reproduce the same set of packages: no statement
        pin = "=" + H.cpvstr
        if r.add_atom(fx["atom"](pin)):
            return None
        if tuple(pid(H)) not in {tuple(pid(op.pkg)) for op in r.state.iter_ops(True)}:
            return None            # the pin was satisfied by a twin of the same version from another repository
        if not any(c15.pid(q) == c15.pid(H) for q in snapshot(r, U, index)["F"]):
            return None            # H was put in place and displaced again (e.g. an installed package replaced by its source twin)
        return r, order, [("=" + q.cpvstr) for q in before["touched"]] + [pin]
    except Exception:  # noqa: BLE001 — RecursionError etc.: no witness
        return None
    finally:
        sys.setrecursionlimit(old)


def run(ctx):
    fx = c15.fixture()
    atom = fx["atom"]
    rng = ctx.rng
    from pkgcore.ebuild.cpv import ver_cmp

    def vcmp(a, b):
        return ver_cmp(a.version, a.revision, b.version, b.revision)

    cases = []
    for c in c15.CORPUS:
        cases.append(dict(c, stream="corpus"))
    for i in range(ctx.n(130, 2400)):
        cases.append(gen_cycle_case(rng) if i % 4 == 3 else c15.gen_case(rng, ("dag", "dag-twins", "wild")[i % 3]))

    stream_jobs = []     # (case3, atom string, mode, real stream, repos json)
    seq_jobs = []        # (case3, mode, targets so far, step index, step record)
    det_jobs = []        # (case3, mode, targets, in-process result)
    for case in cases:
        s1, s2, vdb = split_src(rng, case)
        case3 = {"s1": s1, "s2": s2, "vdb": vdb}
        # ---------------- candidate streams of the real strategies
        names = sorted({cpv.split("-")[0] for d in (s1, s2, vdb) for cpv in d})
        atoms = list(dict.fromkeys(case["targets"] + names + [c15.gen_atom(rng, [n.split("/")[1] for n in names], blockers=False) for _ in range(2)]))
        for mode in ("upgrade", "min"):
            try:
                r, order = build(case3, mode)
            except Exception as e:  # noqa: BLE001
                ctx.violation(case3, f"building the {mode} resolver raised {type(e).__name__}: {e}")
                continue
            for t in atoms:
                a = atom(t)
                try:
                    real = list(r.all_dbs.itermatch(a))
                except Exception as e:  # noqa: BLE001
                    ctx.violation({"case": case3, "atom": t, "mode": mode}, f"strategy.itermatch raised {type(e).__name__}: {e}")
                    continue
                ids, repos = {}, []
                for repo in order:
                    pk = []
                    for p in repo.itermatch(a):      # the repository's own listing order
                        ids[tuple(pid(p))] = len(ids)
                        pk.append({"id": ids[tuple(pid(p))], "ver": c15.lex_ver(p.version), "rev": str(p.revision or "")})
                    repos.append({"livefs": bool(repo.livefs), "pkgs": pk})
                stream_jobs.append((case3, t, mode, real, ids, repos))
        # ---------------- resolutions: a sequence of targets on ONE long-lived resolver (one add_atom each)
        seq = list(dict.fromkeys(case["targets"]))
        while len(seq) < 2 or (len(seq) < 3 and rng.random() < 0.4):
            extra = c15.gen_atom(rng, [n.split("/")[1] for n in names], blockers=False) if names else None
            if extra is None or extra in seq:
                break
            seq.append(extra)
        for mode in ("upgrade", "min"):
            r, order, steps = run_sequence(case3, mode, seq)
            okseq = [st["t"] for st in steps if st["status"] == "ok"]
            if steps:
                det_jobs.append((case3, mode, [st["t"] for st in steps], steps))
            for k, st in enumerate(steps):
                ctx.count(f"step{min(k + 1, 3)}_{mode}_{st['status']}")
                if st["status"] == "crash":
                    ctx.violation({"case": case3, "targets": seq[: k + 1], "mode": mode}, "resolver crashed: " + st["detail"])
                elif st["status"] == "ok":
                    seq_jobs.append((case3, mode, seq[: k + 1], k, st))
            # the resolver's memory of insoluble atoms must be history independent: only atoms no repository provides
            for x in list(getattr(r, "insoluble", ())):
                try:
                    prov = list(r.all_dbs.itermatch(x))
                except Exception:  # noqa: BLE001 — restriction the repositories cannot be asked about
                    continue
                ctx.evaluations += 1
                if prov:
                    ctx.mismatch({"case": case3, "targets": okseq, "mode": mode},
                                 f"after resolving {okseq} the resolver remembers {x} as globally insoluble although {prov[0]!r} provides it "
                                 f"(model: markInsoluble / insoluble_sound)")

    # ---- streams: model vs code (edge A) and the policy on the real stream (edge C)
    replies = ctx.model([{"cmd": "c16.stream", "repos": j[5]} for j in stream_jobs])
    for (case3, t, mode, real, ids, repos), rep in zip(stream_jobs, replies):
        case = {"case": case3, "atom": t, "mode": mode}
        if rep == "bad-op":
            ctx.mismatch(case, "driver rejected the request")
            continue
        got = [ids[tuple(pid(p))] for p in real]
        want = rep["upgrade"] if mode == "upgrade" else rep["reuse"]
        tie = any(vcmp(real[i], real[i + 1]) == 0 for i in range(len(real) - 1))
        ctx.case(case, len(real) >= 3 or tie, key=repr((case3, t, mode)))
        ctx.count("stream_len_%d" % min(len(real), 6))
        if tie:
            ctx.count("stream_with_tie")
        bad = None
        if sorted(got) != sorted(range(len(ids))):
            bad = "the stream is not a permutation of the matching candidates"
        for i in range(len(real)):
            for j in range(i + 1, len(real)):
                a, b = real[i], real[j]
                if mode == "min" and b.repo.livefs and not a.repo.livefs:
                    bad = f"{b!r} (installed) is offered after {a!r}"
                if mode == "upgrade" or a.repo.livefs == b.repo.livefs:
                    c = vcmp(a, b)
                    if c < 0:
                        bad = f"{a!r} is offered before the higher {b!r}"
                    elif c == 0 and b.repo.livefs and not a.repo.livefs:
                        bad = f"{a!r} is offered before the installed instance {b!r} of the same version"
        if bad:
            ctx.violation(case, f"{mode} strategy stream {[repr(p) for p in real]}: {bad}")
        elif got != want:
            ctx.mismatch(case, f"real stream {[repr(p) for p in real]} = ids {got}, Lean model {want}")

    # ---- resolution level, for EVERY target of every sequence: the first candidate of the stream, if it is resolvable on top of what is
    # planned so far (witness: a fresh resolver, planned packages pinned, then that candidate pinned; plan accepted by planOk), is what the
    # target gets — whatever was resolved before on the same resolver
    pinned = []
    for case3, mode, targets, k, st in seq_jobs:
        if st["presolved"]:
            ctx.count("target_already_in_plan")
            continue
        if not st["stream"]:
            continue
        H = st["stream"][0]
        w = oracle(case3, mode, st["before"], H)
        if w is None:
            ctx.count("first_candidate_not_resolvable")
            continue
        rp, orderp, pins = w
        reqp, objp = check_c15(ctx, rp, orderp, pins)
        pinned.append((case3, mode, targets, k, st, H, reqp, objp))
    verdicts = ctx.model([p[6] for p in pinned])
    for (case3, mode, targets, k, st, H, reqp, objp), vp in zip(pinned, verdicts):
        case = {"case": case3, "targets": targets, "mode": mode}
        Up, Fp, mergedp, _ = objp
        F, merged = st["after"]["F"], st["after"]["merged"]
        if vp == "bad-op" or not vp["ok"]:
            ctx.count("first_candidate_not_resolvable")
            continue
        stream = st["stream"]
        ctx.case(case, len(stream) >= 2, key=repr((case3, targets, mode, "res")))
        ctx.count("first_candidate_resolvable_step%d" % min(k + 1, 3))
        if H.repo.livefs:
            ctx.count("first_candidate_is_installed")
        a = atom(targets[-1])
        present = [q for q in F if a.match(q)]
        where = f"target #{k + 1} ({targets[-1]}) of the sequence {targets} on one resolver"
        plan_txt = [repr(q) for q in st["after"]["touched"]]
        if mode == "upgrade":
            if not any(vcmp(q, H) == 0 for q in present):
                ctx.violation(case, f"upgrade, {where}: highest matching version {H!r} is resolvable on top of the plan so far (pinned plan accepted "
                                    f"by planOk) but the target got {[repr(q) for q in present]}; planned packages {plan_txt}")
            elif H.repo.livefs and not any(vcmp(q, H) == 0 and q.repo.livefs for q in present):
                ctx.violation(case, f"upgrade, {where}: the installed instance {H!r} of the highest version was not preferred: {[repr(q) for q in present]}")
        else:
            if H.repo.livefs:
                # packages matching the target may still be merged as dependencies of the kept package (e.g. another slot it needs):
                # exactly those the pinned resolution of the installed package merges as well
                needed = {c15.pid(q) for q in mergedp}
                m = [q for q in merged if a.match(q) and c15.pid(q) not in needed]
                if m or not any(q.repo.livefs for q in present):
                    ctx.violation(case, f"min-install, {where}: already satisfied by installed {H!r} (resolvable) but the plan merges "
                                        f"{[repr(q) for q in m]} / keeps {[repr(q) for q in present]}; planned packages {plan_txt}")
            elif not any(vcmp(q, H) == 0 for q in present):
                ctx.violation(case, f"min-install, {where}: no installed match; highest {H!r} is resolvable but the target got {[repr(q) for q in present]}")

    # ---- determinism: repeat in-process, and in child interpreters with other hash seeds
    det = []
    for case3, mode, targets, steps in det_jobs:
        res, _, _ = resolve3(case3, mode, targets)       # the same sequence once more, fresh resolver
        ctx.evaluations += 1
        det.append((case3, mode, targets, res))
        last = steps[-1]
        if last["status"] == "ok" and res["status"] == "ok":
            first = sorted(tuple(pid(q)) for q in last["after"]["F"] if any(c15.pid(q) == c15.pid(x) for x in last["after"]["touched"]))
            second = sorted({tuple(o[-1]) for o in res["ops"]} - {tuple(o[1]) for o in res["ops"] if o[0] == "replace"})
            if first != second:
                ctx.violation({"case": case3, "mode": mode, "targets": targets}, f"two resolutions of identical inputs differ: {first} vs {second}")
        elif last["status"] != res["status"]:
            ctx.violation({"case": case3, "mode": mode, "targets": targets}, f"two resolutions of identical inputs differ: {last['status']} vs {res['status']}")
    det_jobs = det
    det_jobs = det_jobs[: ctx.n(180, 100000)]
    jobs = [[c3, m, tg] for c3, m, tg, _ in det_jobs]
    import vlib
    for seed in (("4242",) if ctx.quick() else ("1", "4242")):
        env = dict(os.environ, PYTHONHASHSEED=seed, VERIF_REPO=vlib.REPO)
        code = ("import sys; sys.path.insert(0, %r); sys.path.insert(0, %r); import logging; logging.disable(logging.CRITICAL); "
                "from props import c16; c16.worker()") % (os.path.join(vlib.REPO, "src"), os.path.join(vlib.VERIF, "harness"))
        p = subprocess.run([sys.executable, "-c", code], input=json.dumps(jobs).encode(), stdout=subprocess.PIPE, stderr=subprocess.PIPE)
        if p.returncode != 0:
            ctx.mismatch({"hashseed": seed}, "child interpreter failed: " + p.stderr.decode("utf-8", "replace")[-600:])
            continue
        out = json.loads(p.stdout.decode())
        for (c3, m, tg, res), other in zip(det_jobs, out):
            ctx.evaluations += 1
            if other != res:
                ctx.violation({"case": c3, "mode": m, "targets": tg},
                              f"resolution depends on the interpreter's hash seed ({seed}): {res} vs {other}")
        ctx.count("hashseed_runs_compared", len(out))


LEVEL_TEXT = ("Kernel-checked Lean 4 theorems about a model of the resolver's candidate streams (per-repository sorted(reverse=True), "
              "iter_sort with highest_iter_sort, prefer_livefs ordering, prefer_reuse concatenation), for any number of repositories and candidates: "
              "the upgrade stream is a permutation of the candidates in PMS-descending order with the installed instance first among equal versions; "
              "its head is a maximal version; the minimal-install stream offers all installed candidates first; the stream does not depend on listing "
              "order when no two candidates tie. The model is compared with the real strategies on generated repositories, the policy is evaluated "
              "on the real streams, and resolutions are compared with pinned resolutions and across hash seeds. The resolver's memory of insoluble "
              "atoms (which prunes candidates of every later target on the same resolver) only ever holds atoms no repository provides, for every "
              "history of lookups (insoluble_sound); checked on the real resolver after every target sequence.")
LEVEL_NOTE = ("Partial: candidate ordering is proved; 'the first resolvable candidate is taken' and determinism of the whole search are sampled on the "
              "real resolver. Trusted: Lean kernel, standard axioms, stability of Python's sort.")

if __name__ == "__main__":
    worker()
