"""C16 — resolver choice policy: highest version for upgrades, reuse for minimal installs, determinism."""
import json
import os
import subprocess
import sys

from . import c15

PID = "C16"
LEAN_MODULES = ["Pkgcore.Props.C16", "Pkgcore.Props.C15"]
OBLIGATIONS = [
    "Pkgcore.C16.upgrade_stream_ordered",
    "Pkgcore.C16.highest_first",
    "Pkgcore.C16.reuse_first",
    "Pkgcore.C16.stream_order_independent",
]
TECHNIQUE = "Lean 4 proof about the candidate streams + differential run of the real strategies and resolvers"
TRUSTED = [
    "that the resolver takes the first candidate of the stream that resolves is NOT proved (the search is not modelled): it is checked on "
    "the real resolver, with resolvability of the first candidate witnessed by a pinned resolution whose plan the verified checker of C15 accepts",
    "Python's list.sort / sorted are stable (modelled by a stable insertion sort); snakeoil.iterables.iter_sort is modelled as written",
    "determinism across interpreter hash seeds is sampled (child interpreters with different PYTHONHASHSEED), not proved",
]
ASSUMPTIONS = [
    "'highest visible matching version' = first element of the strategy's stream for the target (proved to be a maximal version, installed "
    "instance first among equals); 'resolvable' = the resolver, given the target pinned to exactly that package version, succeeds with a plan "
    "accepted by C15's planOk",
    "repositories are homogeneous in repo.livefs and list each version once; versions accepted by isvalid_version_re",
]
RULE = ("repositories of C15's generators with two source repositories (overlapping versions => ties) and one installed repository; for every "
        "target/dependency atom the real prefer_highest_version_strategy / prefer_reuse_strategy streams are compared with the Lean model and "
        "checked against the policy with the real comparisons; single-target resolutions (upgrade, min-install) are compared with the pinned "
        "resolution of the stream's first candidate; every resolution is repeated in-process and in child interpreters with other hash seeds; "
        "non-trivial = stream with >= 3 candidates or a tie, or a resolution whose first candidate is resolvable among >= 2 candidates")


def split_src(rng, case):
    """two source repositories with overlapping content, random listing order"""
    items = list(case["src"].items())
    rng.shuffle(items)
    s1, s2 = {}, {}
    for cpv, meta in items:
        k = rng.random()
        if k < 0.45:
            s1[cpv] = meta
        elif k < 0.8:
            s2[cpv] = meta
        else:
            s1[cpv] = meta
            s2[cpv] = meta     # the same version offered by both source repositories: a tie
    vitems = list(case["vdb"].items())
    rng.shuffle(vitems)
    return s1, s2, dict(vitems)


def build(case3, mode):
    fx = c15.fixture()
    from pkgcore.ebuild import resolver
    s1 = fx["mk"]("src1", case3["s1"])
    s2 = fx["mk"]("src2", case3["s2"])
    v = fx["mk"]("vdb", case3["vdb"], livefs=True)
    if mode == "upgrade":
        r = resolver.upgrade_resolver([v], [s1, s2])
        order = [s1, s2, v]          # resolver_cls(dbs + vdbs, ...)
    else:
        r = resolver.min_install_resolver([v], [s1, s2])
        order = [v, s1, s2]          # resolver_cls(vdbs + dbs, ...)
    return r, order


def pid(p):
    return [p.repo.repo_id, p.cpvstr]


def resolve3(case3, mode, targets, limit=900):
    """one resolution; returns {"status": ok|fail|recursion|crash, "ops": [...], "detail": ...}"""
    fx = c15.fixture()
    old = sys.getrecursionlimit()
    sys.setrecursionlimit(limit)
    try:
        r, order = build(case3, mode)
        ret = r.add_atoms([fx["atom"](t) for t in targets])
    except RecursionError:
        return {"status": "recursion", "ops": None}, None, None
    except Exception as e:  # noqa: BLE001
        return {"status": "crash", "ops": None, "detail": f"{type(e).__name__}: {e}"}, None, None
    finally:
        sys.setrecursionlimit(old)
    ops = []
    for op in r.state.iter_ops(True):
        ops.append([op.desc] + ([pid(op.old_pkg)] if op.desc == "replace" else []) + [pid(op.pkg)])
    return {"status": "fail" if ret else "ok", "ops": ops}, r, order


def worker():
    """child interpreter: resolve every job read from stdin, print the results (used for the hash-seed determinism check)"""
    jobs = json.load(sys.stdin)
    out = []
    for case3, mode, targets in jobs:
        res, _, _ = resolve3(case3, mode, targets)
        out.append(res)
    json.dump(out, sys.stdout)


def check_c15(ctx, r, order, targets):
    """decide the plan of a finished resolution with C15's verified checker; returns (request, objects)"""
    fx = c15.fixture()
    U = [p for repo in order for p in repo]
    index = {c15.pid(p): i for i, p in enumerate(U)}
    ser = c15.Ser()
    pkgs = [ser.pkg(p, i) for i, p in enumerate(U)]
    tg = [fx["atom"](t) for t in targets]
    plan, F, merged = c15.plan_of(r, U, index)
    req = {"cmd": "c15.check", "pkgs": pkgs, "targets": [ser.atom(t) for t in tg], "plan": plan, "atoms": []}
    return req, (U, F, merged, tg)


def run(ctx):
    fx = c15.fixture()
    atom = fx["atom"]
    rng = ctx.rng
    from pkgcore.ebuild.cpv import ver_cmp

    def vcmp(a, b):
        return ver_cmp(a.version, a.revision, b.version, b.revision)

    cases = []
    for c in c15.CORPUS:
        cases.append(dict(c, stream="corpus"))
    for i in range(ctx.n(170, 4000)):
        cases.append(c15.gen_case(rng, ("dag", "dag-twins", "wild")[i % 3]))

    stream_jobs = []     # (case3, atom string, mode, real stream, repos json)
    res_jobs = []        # resolution-level checks
    det_jobs = []        # (case3, mode, targets, in-process result)
    for case in cases:
        s1, s2, vdb = split_src(rng, case)
        case3 = {"s1": s1, "s2": s2, "vdb": vdb}
        # ---------------- candidate streams of the real strategies
        names = sorted({cpv.split("-")[0] for d in (s1, s2, vdb) for cpv in d})
        atoms = list(dict.fromkeys(case["targets"] + names + [c15.gen_atom(rng, [n.split("/")[1] for n in names], blockers=False) for _ in range(2)]))
        for mode in ("upgrade", "min"):
            try:
                r, order = build(case3, mode)
            except Exception as e:  # noqa: BLE001
                ctx.violation(case3, f"building the {mode} resolver raised {type(e).__name__}: {e}")
                continue
            for t in atoms:
                a = atom(t)
                try:
                    real = list(r.all_dbs.itermatch(a))
                except Exception as e:  # noqa: BLE001
                    ctx.violation({"case": case3, "atom": t, "mode": mode}, f"strategy.itermatch raised {type(e).__name__}: {e}")
                    continue
                ids, repos = {}, []
                for repo in order:
                    pk = []
                    for p in repo.itermatch(a):      # the repository's own listing order
                        ids[tuple(pid(p))] = len(ids)
                        pk.append({"id": ids[tuple(pid(p))], "ver": c15.lex_ver(p.version), "rev": str(p.revision or "")})
                    repos.append({"livefs": bool(repo.livefs), "pkgs": pk})
                stream_jobs.append((case3, t, mode, real, ids, repos))
        # ---------------- resolutions: single target
        t = case["targets"][0]
        for mode in ("upgrade", "min"):
            res, r, order = resolve3(case3, mode, [t])
            det_jobs.append((case3, mode, [t], res))
            ctx.count(f"resolution_{mode}_{res['status']}")
            if res["status"] == "crash":
                ctx.violation({"case": case3, "target": t, "mode": mode}, "resolver crashed: " + res["detail"])
                continue
            if res["status"] != "ok":
                continue
            res_jobs.append((case3, mode, t, res, r, order))

    # ---- streams: model vs code (edge A) and the policy on the real stream (edge C)
    replies = ctx.model([{"cmd": "c16.stream", "repos": j[5]} for j in stream_jobs])
    for (case3, t, mode, real, ids, repos), rep in zip(stream_jobs, replies):
        case = {"case": case3, "atom": t, "mode": mode}
        if rep == "bad-op":
            ctx.mismatch(case, "driver rejected the request")
            continue
        got = [ids[tuple(pid(p))] for p in real]
        want = rep["upgrade"] if mode == "upgrade" else rep["reuse"]
        tie = any(vcmp(real[i], real[i + 1]) == 0 for i in range(len(real) - 1))
        ctx.case(case, len(real) >= 3 or tie, key=repr((case3, t, mode)))
        ctx.count("stream_len_%d" % min(len(real), 6))
        if tie:
            ctx.count("stream_with_tie")
        bad = None
        if sorted(got) != sorted(range(len(ids))):
            bad = "the stream is not a permutation of the matching candidates"
        for i in range(len(real)):
            for j in range(i + 1, len(real)):
                a, b = real[i], real[j]
                if mode == "min" and b.repo.livefs and not a.repo.livefs:
                    bad = f"{b!r} (installed) is offered after {a!r}"
                if mode == "upgrade" or a.repo.livefs == b.repo.livefs:
                    c = vcmp(a, b)
                    if c < 0:
                        bad = f"{a!r} is offered before the higher {b!r}"
                    elif c == 0 and b.repo.livefs and not a.repo.livefs:
                        bad = f"{a!r} is offered before the installed instance {b!r} of the same version"
        if bad:
            ctx.violation(case, f"{mode} strategy stream {[repr(p) for p in real]}: {bad}")
        elif got != want:
            ctx.mismatch(case, f"real stream {[repr(p) for p in real]} = ids {got}, Lean model {want}")

    # ---- resolution level: the first candidate, if resolvable, is what the target gets
    pinned = []
    for case3, mode, t, res, r, order in res_jobs:
        a = atom(t)
        stream = list(r.all_dbs.itermatch(a))
        if not stream:
            continue
        H = stream[0]
        pin = f"={H.cpvstr}" + (f":{H.slot}" if False else "")
        resp, rp, orderp = resolve3(case3, mode, [pin])
        if resp["status"] != "ok":
            ctx.count("first_candidate_not_resolvable")
            continue
        reqp, objp = check_c15(ctx, rp, orderp, [pin])
        req, obj = check_c15(ctx, r, order, [t])
        chosen = {tuple(o[-1]) for o in resp["ops"]}     # packages the pinned plan itself puts in place / keeps by an add op
        pinned.append((case3, mode, t, res, H, stream, reqp, objp + (chosen,), req, obj))
    verdicts = ctx.model([x for p in pinned for x in (p[6], p[8])])
    for k, (case3, mode, t, res, H, stream, reqp, objp, req, obj) in enumerate(pinned):
        vp, vr = verdicts[2 * k], verdicts[2 * k + 1]
        case = {"case": case3, "target": t, "mode": mode}
        Up, Fp, mergedp, _, chosen = objp
        U, F, merged, tg = obj
        # the pinned atom also matches a twin of the same version in another repository: H itself has to be what the pinned plan chose
        witness = vp != "bad-op" and vp["ok"] and tuple(pid(H)) in chosen and any(c15.pid(q) == c15.pid(H) for q in Fp)
        if not witness:
            ctx.count("first_candidate_not_resolvable")
            continue
        nontriv = len(stream) >= 2
        ctx.case(case, nontriv, key=repr((case3, t, mode, "res")))
        ctx.count("first_candidate_resolvable")
        if H.repo.livefs:
            ctx.count("first_candidate_is_installed")
        a = tg[0]
        present = [q for q in F if a.match(q)]
        if mode == "upgrade":
            if not any(vcmp(q, H) == 0 for q in present):
                ctx.violation(case, f"upgrade: highest matching version {H!r} is resolvable (pinned plan accepted by planOk) but the target got "
                                    f"{[repr(q) for q in present]}; plan {res['ops']}")
            elif H.repo.livefs and not any(vcmp(q, H) == 0 and q.repo.livefs for q in present):
                ctx.violation(case, f"upgrade: the installed instance {H!r} of the highest version was not preferred: {[repr(q) for q in present]}")
        else:
            if H.repo.livefs:
                # packages matching the target may still be merged as dependencies of the kept package (e.g. another slot it needs):
                # exactly those the pinned resolution of the installed package merges as well
                needed = {c15.pid(q) for q in mergedp}
                m = [q for q in merged if a.match(q) and c15.pid(q) not in needed]
                if m or not any(q.repo.livefs for q in present):
                    ctx.violation(case, f"min-install: target already satisfied by installed {H!r} (resolvable) but the plan merges {[repr(q) for q in m]} "
                                        f"/ keeps {[repr(q) for q in present]}; plan {res['ops']}")
            elif not any(vcmp(q, H) == 0 for q in present):
                ctx.violation(case, f"min-install: no installed match; highest {H!r} is resolvable but the target got {[repr(q) for q in present]}")

    # ---- determinism: repeat in-process, and in child interpreters with other hash seeds
    for case3, mode, targets, res in det_jobs[: ctx.n(150, 1500)]:
        again, _, _ = resolve3(case3, mode, targets)
        ctx.evaluations += 1
        if again != res:
            ctx.violation({"case": case3, "mode": mode, "targets": targets}, f"two resolutions of identical inputs differ: {res} vs {again}")
    jobs = [[c3, m, tg] for c3, m, tg, _ in det_jobs]
    import vlib
    for seed in ("1", "4242"):
        env = dict(os.environ, PYTHONHASHSEED=seed, VERIF_REPO=vlib.REPO)
        code = ("import sys; sys.path.insert(0, %r); sys.path.insert(0, %r); import logging; logging.disable(logging.CRITICAL); "
                "from props import c16; c16.worker()") % (os.path.join(vlib.REPO, "src"), os.path.join(vlib.VERIF, "harness"))
        p = subprocess.run([sys.executable, "-c", code], input=json.dumps(jobs).encode(), stdout=subprocess.PIPE, stderr=subprocess.PIPE)
        if p.returncode != 0:
            ctx.mismatch({"hashseed": seed}, "child interpreter failed: " + p.stderr.decode("utf-8", "replace")[-600:])
            continue
        out = json.loads(p.stdout.decode())
        for (c3, m, tg, res), other in zip(det_jobs, out):
            ctx.evaluations += 1
            if other != res:
                ctx.violation({"case": c3, "mode": m, "targets": tg},
                              f"resolution depends on the interpreter's hash seed ({seed}): {res} vs {other}")
        ctx.count("hashseed_runs_compared", len(out))


LEVEL_TEXT = ("Kernel-checked Lean 4 theorems about a model of the resolver's candidate streams (per-repository sorted(reverse=True), "
              "iter_sort with highest_iter_sort, prefer_livefs ordering, prefer_reuse concatenation), for any number of repositories and candidates: "
              "the upgrade stream is a permutation of the candidates in PMS-descending order with the installed instance first among equal versions; "
              "its head is a maximal version; the minimal-install stream offers all installed candidates first; the stream does not depend on listing "
              "order when no two candidates tie. The model is compared with the real strategies on generated repositories, the policy is evaluated "
              "on the real streams, and resolutions are compared with pinned resolutions and across hash seeds.")
LEVEL_NOTE = ("Partial: candidate ordering is proved; 'the first resolvable candidate is taken' and determinism of the whole search are sampled on the "
              "real resolver. Trusted: Lean kernel, standard axioms, stability of Python's sort.")

if __name__ == "__main__":
    worker()
