"""C16 — resolver choice policy: highest version for upgrades, reuse for minimal installs, determinism."""
import json
import os
import subprocess
import sys

from . import c15

PID = "C16"
LEAN_MODULES = ["Pkgcore.Props.C16", "Pkgcore.Props.C15"]
OBLIGATIONS = [
    "Pkgcore.C16.upgrade_stream_ordered",
    "Pkgcore.C16.highest_first",
    "Pkgcore.C16.reuse_first",
    "Pkgcore.C16.stream_order_independent",
    "Pkgcore.C16.insoluble_sound",
]
TECHNIQUE = "Lean 4 proof about the candidate streams + differential run of the real strategies and resolvers"
TRUSTED = [
    "that the resolver takes the first candidate of the stream that resolves is NOT proved (the search is not modelled): it is checked on "
    "the real resolver, with resolvability of the first candidate witnessed by a pinned resolution whose plan the verified checker of C15 accepts",
    "Python's list.sort / sorted are stable (modelled by a stable insertion sort); snakeoil.iterables.iter_sort is modelled as written",
    "determinism across interpreter hash seeds is sampled (child interpreters with different PYTHONHASHSEED), not proved",
]
ASSUMPTIONS = [
    "'highest visible matching version' = first element of the strategy's stream for the target (proved to be a maximal version, installed "
    "instance first among equals); 'resolvable' = a FRESH resolver, given the packages the earlier targets of the sequence got (pinned, in "
    "order) and then the target pinned to exactly that package version, succeeds with a plan accepted by C15's planOk; a target that those "
    "earlier choices satisfy by themselves is not judged (nothing is chosen for it)",
    "a resolver that was reset() (pmerge --ignore-failures: drop the failed target, reset(), resolve the rest again) is an input like a fresh "
    "one: the policy and the comparison with a fresh resolver apply to what it resolves afterwards",
    "repositories are homogeneous in repo.livefs and list each version once; versions accepted by isvalid_version_re",
    "when the resolver under test cannot resolve the pinned first candidate, 'resolvable' may instead be witnessed independently of its "
    "search: the dependency-ordered plan that takes the first candidate of the policy order for every dependency the plan does not satisfy "
    "yet (build-time and run-time classes before the package, PDEPEND after it), accepted only if nothing at all goes wrong on the way (no "
    "blocker on any package involved, every clause a single atom or already satisfied, no candidate in a key+slot that is being worked on "
    "or already planned with another package) and C15's planOk accepts the resulting plan; a first-candidate-first search walks exactly "
    "this path",
    "a lookup through a resolver's strategy objects (all_dbs, livefs_dbs) answers for the atom asked — USE dependencies, ::repo pins, slot "
    "operators and blocker spellings included — whatever was looked up through them before",
]
RULE = ("repositories of C15's generators with two source repositories (overlapping versions => ties) and one installed repository; for every "
        "target/dependency atom the real prefer_highest_version_strategy / prefer_reuse_strategy streams are compared with the Lean model and "
        "checked against the policy with the real comparisons — as a HISTORY of lookups on the one strategy object of a resolver: around the plain "
        "atoms, before and after them and repeated, other spellings selecting among the same packages (USE dependencies on packages with "
        "random IUSE/USE, blockers with USE dependencies, ::repo pins, slot operators), each answer (all_dbs stream and livefs_dbs view) compared "
        "with what the raw repositories hold for that very atom; SEQUENCES of 2-3 targets are resolved on one long-lived resolver (one add_atom "
        "each, as pmerge does), a quarter of them on repositories with build-time dependency cycles escaped through any-of alternatives and "
        "multi-version later targets, a quarter on 'late-reject' repositories (highest versions given up after part of their dependencies was "
        "planned, with the dependency a later target; installed packages weakly blocked by the highest versions of several targets), an eighth "
        "on C15's 'family' repositories, 40 more on C15's 'bootstrap' repositories (a new slot of a package needing its own old slot); half of the sequences are driven like pmerge --ignore-failures (failed target dropped, reset(), the rest "
        "resolved again on the same resolver), a third starts with a target nothing provides, a fifth with another spelling (USE dependency, ::repo pin) of a later target's "
        "package that may or may not resolve; for every target of every (last-episode) sequence "
        "the first candidate of its stream is pinned on a fresh resolver on top of the packages the earlier targets got (oracle, independent of "
        "the live resolver's history; plan accepted by C15's planOk; when the resolver cannot pin it, an independent dependency-ordered "
        "first-candidate plan without any conflict, accepted by planOk, counts as well) and, when that works, must be what the target gets — also when the live plan "
        "satisfied the target beforehand with a package those choices do not bring in; after each sequence the resolver's insoluble memory is "
        "checked against the repositories; every sequence is repeated on a fresh resolver in-process and in a child interpreter with another hash "
        "seed; non-trivial = stream with >= 3 candidates or a tie, or a target whose first candidate is "
        "resolvable among >= 2 candidates")


def split_src(rng, case):
    """two source repositories with overlapping content, random listing order"""
    items = list(case["src"].items())
    rng.shuffle(items)
    s1, s2 = {}, {}
    for cpv, meta in items:
        k = rng.random()
        if k < 0.45:
            s1[cpv] = meta
        elif k < 0.8:
            s2[cpv] = meta
        else:
            s1[cpv] = meta
            s2[cpv] = meta     # the same version offered by both source repositories: a tie
    vitems = list(case["vdb"].items())
    rng.shuffle(vitems)
    return s1, s2, dict(vitems)


USE_FLAGS = ["gtk", "ssl"]


def decorate_use(rng, case):
    """give half of the packages IUSE/USE (installed twins may differ from their source version, as rebuilt packages do); only atoms with
    USE dependencies look at them"""
    out = {"src": {}, "vdb": {}}
    for where in ("src", "vdb"):
        for cpv, meta in case[where].items():
            meta = dict(meta)
            if rng.random() < 0.6:
                iuse = [f for f in USE_FLAGS if rng.random() < 0.7]
                meta["iuse"] = " ".join(iuse)
                meta["use"] = " ".join(f for f in iuse if rng.random() < 0.5)
            out[where][cpv] = meta
    return dict(case, **out)


def lookup_history(rng, plain, names):
    """a history of lookups for ONE long-lived strategy object: the plain atoms, and — around them, before and after, repeated —
    other spellings that select among the same packages: USE dependencies, blockers with USE dependencies, ::repo pins, slot
    operators; every lookup must answer for its own atom whatever was asked before"""
    hist = list(plain)
    for n in rng.sample(names, min(len(names), rng.randint(1, 2))):
        v = rng.choice(c15.VERSIONS)
        f, g = rng.sample(USE_FLAGS, 2)
        pool = [f"{n}[{f}]", f"{n}[-{f}]", f"!{n}[-{f}]", f"!!{n}[{g}]", f"{n}[{f},{g}]", f"{n}[{f},-{g}]", f"{n}:0[{f}]", f">={n}-{v}[{g}]",
                f"{n}::src1", f"{n}::src2", f"{n}::vdb", f"!{n}", f"{n}:=", f"{n}:*", f"{n}:0=", f"<{n}-{v}::src2", n, n]
        for t in rng.sample(pool, rng.randint(2, 4)):
            hist.insert(rng.randrange(len(hist) + 1), t)
    for _ in range(rng.randint(0, 2)):
        hist.insert(rng.randrange(len(hist) + 1), rng.choice(hist))      # asked again later
    return hist


def build(case3, mode):
    fx = c15.fixture()
    from pkgcore.ebuild import resolver
    s1 = fx["mk"]("src1", case3["s1"])
    s2 = fx["mk"]("src2", case3["s2"])
    v = fx["mk"]("vdb", case3["vdb"], livefs=True)
    if mode == "upgrade":
        r = resolver.upgrade_resolver([v], [s1, s2])
        order = [s1, s2, v]          # resolver_cls(dbs + vdbs, ...)
    else:
        r = resolver.min_install_resolver([v], [s1, s2])
        order = [v, s1, s2]          # resolver_cls(vdbs + dbs, ...)
    return r, order


def pid(p):
    return [p.repo.repo_id, p.cpvstr]


def resolve3(case3, mode, targets, limit=900):
    """one resolution; returns {"status": ok|fail|recursion|crash, "ops": [...], "detail": ...}"""
    fx = c15.fixture()
    old = sys.getrecursionlimit()
    sys.setrecursionlimit(limit)
    try:
        r, order = build(case3, mode)
        ret = ()
        for t in targets:          # one long-lived resolver, one add_atom per target (as pmerge does)
            ret = r.add_atom(fx["atom"](t))
            if ret:
                break
    except RecursionError:
        return {"status": "recursion", "ops": None}, None, None
    except Exception as e:  # noqa: BLE001
        return {"status": "crash", "ops": None, "detail": f"{type(e).__name__}: {e}"}, None, None
    finally:
        sys.setrecursionlimit(old)
    ops = []
    for op in r.state.iter_ops(True):
        ops.append([op.desc] + ([pid(op.old_pkg)] if op.desc == "replace" else []) + [pid(op.pkg)])
    return {"status": "fail" if ret else "ok", "ops": ops}, r, order


def worker():
    """child interpreter: resolve every job read from stdin, print the results (used for the hash-seed determinism check)"""
    jobs = json.load(sys.stdin)
    out = []
    for case3, mode, targets in jobs:
        res, _, _ = resolve3(case3, mode, targets)
        out.append(res)
    json.dump(out, sys.stdout)


def check_c15(ctx, r, order, targets):
    """decide the plan of a finished resolution with C15's verified checker; returns (request, objects)"""
    fx = c15.fixture()
    U = [p for repo in order for p in repo]
    index = {c15.pid(p): i for i, p in enumerate(U)}
    ser = c15.Ser()
    pkgs = [ser.pkg(p, i) for i, p in enumerate(U)]
    tg = [fx["atom"](t) for t in targets]
    plan, F, merged = c15.plan_of(r, U, index)
    req = {"cmd": "c15.check", "pkgs": pkgs, "targets": [ser.atom(t) for t in tg], "plan": plan, "atoms": []}
    return req, (U, F, merged, tg)


def gen_cycle_case(rng):
    """repositories with a build-time dependency cycle that is escaped through an any-of alternative, and a later multi-version
    target whose higher version depends on something the earlier targets pulled in; targets are meant to be resolved in sequence"""
    t, x, y, z, w, u = rng.sample(c15.NAMES, 6)
    bt = lambda: rng.choice(["depend", "bdepend"])
    alts = [f"a/{y}", f"a/{z}"]
    rng.shuffle(alts)
    hi, lo = sorted(rng.sample(range(len(c15.VERSIONS)), 2), reverse=True)
    hi, lo = c15.VERSIONS[hi], c15.VERSIONS[lo]
    src = {
        f"a/{x}-1": {bt(): "|| ( %s )" % " ".join(alts)},
        f"a/{y}-1": {bt(): f"a/{x}"},
        f"a/{z}-1": ({"rdepend": f"a/{u}"} if rng.random() < 0.3 else {}),
        f"a/{u}-1": {},
        f"a/{t}-1": {rng.choice(c15.CLASSES): f"a/{x}"},
        f"a/{w}-{hi}": {rng.choice(c15.CLASSES): "a/" + rng.choice([x, x, y, z, t])},
        f"a/{w}-{lo}": ({} if rng.random() < 0.8 else {"rdepend": f"a/{u}"}),
    }
    if rng.random() < 0.3:
        src[f"a/{x}-2"] = {bt(): f"a/{y}"}
    vdb = {}
    if rng.random() < 0.25:
        vdb[f"a/{x}-1"] = {}
    if rng.random() < 0.2:
        vdb[f"a/{w}-{lo}"] = {}
    targets = [f"a/{t}", f"a/{w}"]
    if rng.random() < 0.3:
        targets.reverse()
    if rng.random() < 0.4:
        targets.insert(rng.randrange(3), "a/" + rng.choice([u, z, y]))
    for m in list(src.values()) + list(vdb.values()):
        m.setdefault("slot", "0")
    return {"src": src, "vdb": vdb, "targets": targets, "mode": "upgrade", "stream": "cycle-escape"}


def snapshot(r, U, index):
    plan, F, merged = c15.plan_of(r, U, index)
    touched = []
    for op in r.state.iter_ops(True):
        if c15.pid(op.pkg) not in [c15.pid(q) for q in touched]:
            touched.append(op.pkg)
    return {"F": F, "merged": merged, "touched": [q for q in touched if any(c15.pid(q) == c15.pid(f) for f in F)]}


def run_sequence(case3, mode, seq, doomed=None, ignore_failures=False, limit=900):
    """resolve `seq` one add_atom at a time on ONE resolver; returns (resolver, order, steps of the last episode, history).

    With `ignore_failures` the resolver is used the way pmerge --ignore-failures uses it: when a target cannot be resolved it is
    dropped, the resolver is reset() and the remaining targets are resolved again on the SAME resolver (a new episode).  `doomed`
    is a target nothing provides, put in front so that the first episode fails after the resolver has been set up."""
    fx = c15.fixture()
    r, order = build(case3, mode)
    # candidate streams are read off a SEPARATE resolver: asking the live one is not neutral (its per-repository caching iterators are
    # shared with the search; a fully consumed one changes what an interrupted outer iteration still sees — see notes/C16.md)
    probe, _ = build(case3, mode)
    U = [p for repo in order for p in repo]
    index = {c15.pid(p): i for i, p in enumerate(U)}
    episode = ([doomed] if doomed else []) + list(seq)
    history = []
    steps = []
    fails = []        # targets that failed, in whatever episode: (targets of the episode up to it, step record, packages the earlier ones got)
    old = sys.getrecursionlimit()
    sys.setrecursionlimit(limit)
    try:
        for _ in range(len(episode) + 1):
            steps, failed, dead = [], None, False
            for t in episode:
                a = fx["atom"](t)
                before = snapshot(r, U, index)
                presolved = bool(r.state.match_atom(a))
                stream = list(probe.all_dbs.itermatch(a))
                try:
                    ret = r.add_atom(a)
                except RecursionError:
                    steps.append({"t": t, "status": "recursion"})
                    dead = True
                    break
                except Exception as e:  # noqa: BLE001
                    steps.append({"t": t, "status": "crash", "detail": f"{type(e).__name__}: {e}"})
                    dead = True
                    break
                if ret:
                    fails.append(([st["t"] for st in steps] + [t],
                                  {"t": t, "status": "fail", "presolved": presolved, "stream": stream, "before": before, "after": before, "got": []},
                                  [q for st in steps for q in st["got"]], list(history) + [["add", st["t"], st["status"]] for st in steps]))
                    steps.append({"t": t, "status": "fail"})
                    failed = t
                    break
                after = snapshot(r, U, index)
                steps.append({"t": t, "status": "ok", "presolved": presolved, "stream": stream, "before": before, "after": after,
                              "got": [q for q in after["touched"] if a.match(q)]})
            history += [["add", st["t"], st["status"]] for st in steps]
            if dead or failed is None or not ignore_failures:
                break
            try:
                r.reset()
            except Exception as e:  # noqa: BLE001
                steps = [{"t": "reset()", "status": "crash", "detail": f"reset() raised {type(e).__name__}: {e}"}]
                break
            history.append(["reset"])
            episode = [x for x in episode if x != failed]
            if not episode:
                steps = []
                break
    finally:
        sys.setrecursionlimit(old)
    return r, order, steps, history, fails


# hand-written histories ("doomed" = the first target of the first episode, expected to fail; then reset() and the targets)
HISTORY_CORPUS = [
    # fix 9ee0a43: once `a/o` was known insoluble (failed target a/f), installed a/c-2 — whose DEPEND a/o the resolver never resolves for a
    # built package — was pruned from every later choice point: a/b (IDEPEND a/c) failed on the resolver with history, not on a fresh one
    {"src": {"a/f-2": {"depend": "a/o"}}, "vdb": {"a/b-1": {"idepend": "a/c"}, "a/c-2": {"depend": "a/o"}}, "targets": ["a/b"], "mode": "upgrade", "doomed": "a/f"},
    {"src": {"a/f-2": {"bdepend": "|| ( a/o a/n )"}, "a/d-3": {"rdepend": "a/n"}, "a/g-1": {}},
     "vdb": {"a/d-2": {"pdepend": "a/e"}, "a/e-1": {"bdepend": "|| ( a/n a/o )", "rdepend": "a/g"}}, "targets": ["a/d"], "mode": "min", "doomed": "a/f"},
    # second fix of the same family (found by seed 6): the pruning done INSIDE a frame (reduce_solutions / force_next_pkg) still applied the
    # failed atom to the build-time classes of built packages — on a fresh resolver a/b-2's hopeless DEPEND a/o also discarded installed
    # a/b-1 (BDEPEND a/o), so a/b failed; after a failed a/f and reset() (a/o known insoluble) it resolved to the installed instance
    {"src": {"a/f-2": {"depend": "a/o"}, "a/b-2": {"depend": "a/o"}}, "vdb": {"a/b-1": {"bdepend": "a/o"}}, "targets": ["a/b"], "mode": "upgrade", "doomed": "a/f"},
    {"src": {"a/f-2": {"depend": "a/o"}, "a/b-2": {"depend": "|| ( a/o a/n )", "bdepend": "a/o"}, "a/b-1": {"bdepend": "a/o"}},
     "vdb": {"a/b-1": {"bdepend": "a/o", "depend": "a/n"}}, "targets": ["<=a/b-3"], "mode": "upgrade", "doomed": "a/f"},
]


class _Bail(Exception):
    pass


def straight_witness(U, mode, vcmp, planned, present, H):
    """An INDEPENDENT witness that `H` is resolvable on top of a context (`present` = packages in place: installed ones still there +
    planned ones; `planned` = the planned ones): the dependency-ordered plan obtained by taking, for every dependency that the plan
    does not satisfy yet, the FIRST candidate of the policy order (upgrade: highest version, installed instance first among equals;
    min-install: installed first) — depend, bdepend, rdepend, idepend before the package, pdepend after it, as the resolver does —
    provided that never anything goes wrong on the way: no blocker on a package it brings in and none of a package in place hitting one, every clause a single atom or already satisfied, no
    candidate in (or leading back to) a key+slot that is being worked on, no slot already planned with another package.  A search that
    takes first candidates first walks exactly this path and meets no failure on it, so it has to end with `H` in the plan.  Whether the
    plan really is dependency closed / slot consistent is decided afterwards by C15's verified checker.  Returns the list of operations
    [("add", p) | ("replace", old, p)], or None (no statement)."""
    plan = list(planned)
    occupied = {(q.key, q.slot): q for q in present}
    in_plan = {tuple(pid(q)) for q in planned}
    ops, stack = [], []

    def first_candidate(a):
        c = [q for q in U if a.match(q)]
        if not c:
            raise _Bail()
        best = c[0]
        for q in c[1:]:
            if mode == "min" and q.repo.livefs != best.repo.livefs:
                if q.repo.livefs:
                    best = q
                continue
            d = vcmp(q, best)
            if d > 0 or (d == 0 and q.repo.livefs and not best.repo.livefs):
                best = q
        return best

    def need(cl):
        if any(a.blocks for a in cl):
            raise _Bail()
        if any(a.match(q) for a in cl for q in plan):
            return
        if len(cl) != 1:
            raise _Bail()
        visit(first_candidate(cl[0]))

    def visit(p):
        node = (p.key, p.slot)
        if node in stack or len(stack) > 40:
            raise _Bail()
        occ = occupied.get(node)
        if occ is not None and pid(occ) != pid(p) and (tuple(pid(occ)) in in_plan or p.repo.livefs):
            raise _Bail()
        stack.append(node)
        for cls in (("rdepend", "idepend") if p.repo.livefs else ("depend", "bdepend", "rdepend", "idepend")):
            for cl in getattr(p, cls).cnf_solutions():
                need(list(cl))
        occ = occupied.get(node)
        if p.repo.livefs:
            if occ is None or pid(occ) != pid(p):
                raise _Bail()                   # an installed package that is not in place (any more)
        elif occ is None:
            ops.append(("add", p))
        elif pid(occ) == pid(p) or tuple(pid(occ)) in in_plan or not occ.repo.livefs:
            raise _Bail()
        else:
            ops.append(("replace", occ, p))     # an installed package nothing planned relies on gives way
        occupied[node] = p
        plan.append(p)
        in_plan.add(tuple(pid(p)))
        for cl in p.pdepend.cnf_solutions():
            need(list(cl))
        stack.pop()

    try:
        visit(H)
    except (_Bail, RecursionError):
        return None
    # blockers carried by packages that are already in place (installed or planned, any class — the resolver honours the run-time
    # blockers of installed packages it has loaded) must not touch anything the witness brings in
    added = [op[-1] for op in ops]
    for q in present:
        for cls in c15.CLASSES:
            for cl in getattr(q, cls).cnf_solutions():
                for a in cl:
                    if a.blocks and any(a.match(x) for x in added):
                        return None
    return ops


CYCLE_FINDING = "C16-witness-through-cycle-assumption"


def unmet_clauses(F, touched):
    """clauses of the packages a plan touched that no package of its final set F satisfies (for an installed package the classes the
    resolver processes for built packages).  A plan the resolver returns can only contain one through its slot-cycle assumption
    (check_for_cycles answers 'satisfied' for a dependency that leads back to a key+slot being worked on — C15's open finding
    C15-dependency-cycle-assumed-satisfied)."""
    out = []
    for p in touched:
        classes = [c for c in c15.CLASSES if not p.repo.livefs or c in ("rdepend", "idepend", "pdepend")]
        for cls in classes:
            for cl in getattr(p, cls).cnf_solutions():
                ok = False
                for x in cl:
                    if x.blocks:
                        ok = ok or not any(x.match(q) for q in F if c15.pid(q) != c15.pid(p))
                    else:
                        ok = ok or any(x.match(q) for q in F)
                if not ok:
                    out.append(f"{p!r} {cls} ( {' '.join(map(str, cl))} )")
    return out


def oracle(case3, mode, earlier, before, a, H, limit=900, vcmp=None):
    """is `H` resolvable on top of what the earlier targets of the episode were given?

    A FRESH resolver is given the packages the earlier targets got (`earlier`, in target order), pinned one by one; that is the context —
    it does not depend on anything else the live resolver did before (candidates it tried and gave up, earlier episodes, reset()).  Then
    `H` is pinned.  Returns None (no statement) or (resolver, order, pins, same, extra): `same` = the context holds exactly the packages
    the live plan held before the target, `extra` = packages of the live plan the context does not have."""
    fx = c15.fixture()
    old = sys.getrecursionlimit()
    sys.setrecursionlimit(limit)
    try:
        r, order = build(case3, mode)
        pins = []
        for q in earlier:
            pin = "=" + q.cpvstr
            if pin in pins:
                continue
            if r.add_atom(fx["atom"](pin)):
                return None
            pins.append(pin)
        U = [p for repo in order for p in repo]
        index = {c15.pid(p): i for i, p in enumerate(U)}
        ctxt = snapshot(r, U, index)
        have = {c15.pid(q) for q in ctxt["F"]}
        if any(c15.pid(q) not in have for q in earlier):
            return None            # a pin was satisfied by a twin of the same version from another repository: not the same choices
        same = sorted(map(c15.pid, ctxt["F"])) == sorted(map(c15.pid, before["F"])) and \
            sorted(map(c15.pid, ctxt["merged"])) == sorted(map(c15.pid, before["merged"]))
        extra = [q for q in before["F"] if c15.pid(q) not in have]
        if r.state.match_atom(a):
            return None            # the choices made for the earlier targets satisfy this target already: nothing is chosen for it
        ctx_plan = c15.plan_of(r, U, index)[0]
        pin = "=" + H.cpvstr
        pinned_ok = False
        try:
            # the pin must not be satisfied by a twin of the same version from another repository, and H must stay in place (not e.g.
            # an installed package replaced by its source twin)
            pinned_ok = (not r.add_atom(fx["atom"](pin))
                         and tuple(pid(H)) in {tuple(pid(op.pkg)) for op in r.state.iter_ops(True)}
                         and any(c15.pid(q) == c15.pid(H) for q in snapshot(r, U, index)["F"]))
        except Exception:  # noqa: BLE001 — RecursionError etc.
            pinned_ok = False
        if pinned_ok:
            req, objp = check_c15(None, r, order, pins + [pin])
            snap = snapshot(r, U, index)
            return {"req": req, "objp": objp, "pins": pins + [pin], "same": same, "extra": extra, "kind": "pinned",
                    "unmet": unmet_clauses(snap["F"], snap["touched"])}
        # the resolver under test could not pin H: is there an independent, dependency-ordered first-candidate plan for it?
        ops = straight_witness(U, mode, vcmp, ctxt["touched"], ctxt["F"], H) if vcmp else None
        if not ops:
            return None
        plan, F, merged = list(ctx_plan), list(ctxt["F"]), list(ctxt["merged"])
        for op in ops:
            if op[0] == "add":
                plan.append(["add", index[c15.pid(op[1])]])
            else:
                plan.append(["replace", index[c15.pid(op[1])], index[c15.pid(op[2])]])
                F = [q for q in F if c15.pid(q) != c15.pid(op[1])]
            F.append(op[-1])
            merged.append(op[-1])
        ser = c15.Ser()
        pkgs = [ser.pkg(q, i) for i, q in enumerate(U)]
        tg = [fx["atom"](t) for t in pins + [pin]]
        req = {"cmd": "c15.check", "pkgs": pkgs, "targets": [ser.atom(t) for t in tg], "plan": plan, "atoms": []}
        return {"req": req, "objp": (U, F, merged, tg), "pins": pins + [pin], "same": same, "extra": extra, "kind": "straight",
                "steps": [op[0] + " " + repr(op[-1]) for op in ops]}
    except Exception:  # noqa: BLE001 — RecursionError etc.: no witness
        return None
    finally:
        sys.setrecursionlimit(old)


def run(ctx):
    fx = c15.fixture()
    atom = fx["atom"]
    rng = ctx.rng
    from pkgcore.ebuild.cpv import ver_cmp

    def vcmp(a, b):
        return ver_cmp(a.version, a.revision, b.version, b.revision)

    cases = []
    for c in c15.CORPUS + HISTORY_CORPUS:
        cases.append(dict(c, stream="corpus"))
    for i in range(ctx.n(130, 2000)):
        k = i % 8
        cases.append(gen_cycle_case(rng) if k in (3, 7) else c15.gen_reject_case(rng) if k in (1, 5) else c15.gen_family_case(rng) if k == 4
                     else c15.gen_case(rng, ("dag", "dag-twins", "wild")[i % 3]))
    for i in range(ctx.n(40, 600)):
        cases.append(c15.gen_bootstrap_case(rng))

    stream_jobs = []     # (case3, atom string, mode, real stream, repos json)
    seq_jobs = []        # (case3, mode, targets so far, step index, step record)
    det_jobs = []        # (case3, mode, targets, in-process result)
    inst_bad, inst_seen, perm_seen = [], set(), set()
    for case in cases:
        s1, s2, vdb = split_src(rng, decorate_use(rng, case))
        case3 = {"s1": s1, "s2": s2, "vdb": vdb}
        # ---------------- candidate streams of the real strategies
        names = sorted({cpv.split("-")[0] for d in (s1, s2, vdb) for cpv in d})
        atoms = list(dict.fromkeys(case["targets"] + names + [c15.gen_atom(rng, [n.split("/")[1] for n in names], blockers=False) for _ in range(2)]))
        # a HISTORY of lookups on the one strategy object of a resolver (its per-repository caches live as long as it does)
        plain_atoms, hist_mode = atoms, rng.choice(["upgrade", "min"])
        hist_atoms = lookup_history(rng, atoms, names) if names else atoms
        for mode in ("upgrade", "min"):
            atoms = hist_atoms if mode == hist_mode else plain_atoms
            try:
                r, order = build(case3, mode)
            except Exception as e:  # noqa: BLE001
                ctx.violation(case3, f"building the {mode} resolver raised {type(e).__name__}: {e}")
                continue
            for n_asked, t in enumerate(atoms):
                a = atom(t)
                asked = atoms[:n_asked]
                try:
                    real = list(r.all_dbs.itermatch(a))
                    inst = list(r.livefs_dbs.itermatch(a))
                except Exception as e:  # noqa: BLE001
                    ctx.violation({"case": case3, "atom": t, "mode": mode, "asked_before": asked}, f"strategy.itermatch raised {type(e).__name__}: {e}")
                    continue
                # the installed-only view the resolver consults for blockers / forced vdb lookups shares those caches
                ctx.evaluations += 1
                want_inst = sorted(tuple(pid(p)) for repo in order if repo.livefs for p in repo.itermatch(a))
                if sorted(tuple(pid(p)) for p in inst) != want_inst and (id(case3), mode) not in inst_seen:
                    inst_seen.add((id(case3), mode))       # one report per resolver, after the resolution-level verdicts
                    inst_bad.append(({"case": case3, "atom": t, "mode": mode, "asked_before": asked},
                                     f"{mode} resolver, installed packages matching {t} after the lookups {asked}: livefs_dbs offers "
                                     f"{[repr(p) for p in inst]}, the installed repository holds {want_inst} — an installed package the "
                                     f"resolver cannot see is not kept / not preferred"))
                if a.use or a.repo_id:
                    ctx.count("stream_lookup_with_use_or_repo_dep")
                elif any(x != t and atom(x).key == a.key and (atom(x).use or atom(x).repo_id) for x in asked):
                    ctx.count("stream_lookup_after_use_or_repo_dep_lookup_of_same_package")
                ids, repos = {}, []
                for repo in order:
                    pk = []
                    for p in repo.itermatch(a):      # the repository's own listing order
                        ids[tuple(pid(p))] = len(ids)
                        pk.append({"id": ids[tuple(pid(p))], "ver": c15.lex_ver(p.version), "rev": str(p.revision or "")})
                    repos.append({"livefs": bool(repo.livefs), "pkgs": pk})
                stream_jobs.append((case3, t, mode, real, ids, repos, asked))
        # ---------------- resolutions: a sequence of targets on ONE long-lived resolver (one add_atom each); failures are either the
        # end of the sequence or — the way pmerge --ignore-failures drives a resolver — followed by reset() and a new episode without
        # the target that failed; a third of the sequences starts with a target nothing provides
        seq = list(dict.fromkeys(case["targets"]))
        while len(seq) < 2 or (len(seq) < 3 and rng.random() < 0.4):
            extra = c15.gen_atom(rng, [n.split("/")[1] for n in names], blockers=False) if names else None
            if extra is None or extra in seq:
                break
            seq.append(extra)
        doomed = None
        if rng.random() < 0.35:
            doomed = rng.choice(["a/" + rng.choice(c15.GHOSTS), ">" + rng.choice(names) + "-" + c15.VERSIONS[-1]]) if names else "a/" + c15.GHOSTS[0]
        elif names and rng.random() < 0.3:
            # ... or with another spelling of a later target's package — a USE dependency, a ::repo pin — that may or may not be
            # resolvable: what it leaves behind in the resolver (lookup caches survive reset()) must not matter to the later target
            n = atom(rng.choice(seq)).key
            f, g = rng.sample(USE_FLAGS, 2)
            doomed = rng.choice([f"{n}[{f}]", f"{n}[-{f}]", f"{n}[{f},{g}]", f"{n}[{f},-{g}]", f"{n}::src2", f"{n}::vdb", f"{n}:1[{f}]"])
        if "doomed" in case:
            doomed = case["doomed"]
        ignore_failures = doomed is not None or rng.random() < 0.5
        for mode in ("upgrade", "min"):
            r, order, steps, history, fails = run_sequence(case3, mode, seq, doomed, ignore_failures)
            resets = sum(1 for h in history if h[0] == "reset")
            hist = {"history": history} if resets else {}
            eps = [st["t"] for st in steps]
            okseq = [st["t"] for st in steps if st["status"] == "ok"]
            ctx.count("episodes_%d" % min(resets + 1, 3))
            if steps:
                det_jobs.append((case3, mode, eps, steps, hist))
            for k, st in enumerate(steps):
                ctx.count(f"step{min(k + 1, 3)}_{mode}_{st['status']}")
                if st["status"] == "crash":
                    ctx.violation(dict({"case": case3, "targets": eps[: k + 1], "mode": mode}, **hist), "resolver crashed: " + st["detail"])
                elif st["status"] == "ok":
                    seq_jobs.append((case3, mode, eps[: k + 1], k, st, [q for s2 in steps[:k] for q in s2["got"]], hist))
            # a target that FAILED is judged like one that got something else: if its first candidate is resolvable on top of what the
            # earlier targets of its episode were given, the policy is broken
            for tg, st, earlier, hbefore in fails:
                seq_jobs.append((case3, mode, tg, len(tg) - 1, st, earlier,
                                 {"history": hbefore + [["add", st["t"], "fail"]]} if any(h[0] == "reset" for h in hbefore) else {}))
            # the resolver's memory of insoluble atoms must be history independent: only atoms no repository provides
            for x in list(getattr(r, "insoluble", ())):
                try:
                    prov = list(r.all_dbs.itermatch(x))
                except Exception:  # noqa: BLE001 — restriction the repositories cannot be asked about
                    continue
                ctx.evaluations += 1
                if prov:
                    ctx.mismatch(dict({"case": case3, "targets": okseq, "mode": mode}, **hist),
                                 f"after resolving {okseq} the resolver remembers {x} as globally insoluble although {prov[0]!r} provides it "
                                 f"(model: markInsoluble / insoluble_sound)")

    # ---- streams: model vs code (edge A) and the policy on the real stream (edge C)
    replies = ctx.model([{"cmd": "c16.stream", "repos": j[5]} for j in stream_jobs])
    for (case3, t, mode, real, ids, repos, asked), rep in zip(stream_jobs, replies):
        case = {"case": case3, "atom": t, "mode": mode, "asked_before": asked}
        if rep == "bad-op":
            ctx.mismatch(case, "driver rejected the request")
            continue
        got = [ids.get(tuple(pid(p)), -1) for p in real]
        want = rep["upgrade"] if mode == "upgrade" else rep["reuse"]
        tie = any(vcmp(real[i], real[i + 1]) == 0 for i in range(len(real) - 1))
        ctx.case(case, len(real) >= 3 or tie, key=repr((case3, t, mode, asked)))
        ctx.count("stream_len_%d" % min(len(real), 6))
        if tie:
            ctx.count("stream_with_tie")
        bad = None
        if sorted(got) != sorted(range(len(ids))):
            bad = (f"the stream is not a permutation of the candidates the repositories hold for {t} "
                   f"({sorted(ids)}); lookups made before on the same strategy object: {asked}")
        for i in range(len(real)):
            for j in range(i + 1, len(real)):
                a, b = real[i], real[j]
                if mode == "min" and b.repo.livefs and not a.repo.livefs:
                    bad = f"{b!r} (installed) is offered after {a!r}"
                if mode == "upgrade" or a.repo.livefs == b.repo.livefs:
                    c = vcmp(a, b)
                    if c < 0:
                        bad = f"{a!r} is offered before the higher {b!r}"
                    elif c == 0 and b.repo.livefs and not a.repo.livefs:
                        bad = f"{a!r} is offered before the installed instance {b!r} of the same version"
        if bad and "not a permutation" in bad:
            if (id(case3), mode) not in perm_seen:
                perm_seen.add((id(case3), mode))
                inst_bad.append((case, f"{mode} strategy stream {[repr(p) for p in real]}: {bad}"))
        elif bad:
            ctx.violation(case, f"{mode} strategy stream {[repr(p) for p in real]}: {bad}")
        elif got != want:
            ctx.mismatch(case, f"real stream {[repr(p) for p in real]} = ids {got}, Lean model {want}")

    # ---- resolution level, for EVERY target of every sequence: the first candidate of the stream, if it is resolvable on top of what the
    # earlier targets were given (witness: a fresh resolver, those packages pinned, then that candidate pinned; plan accepted by planOk), is
    # what the target gets — whatever else happened on the same resolver before (candidates tried and given up, failed targets, reset()).
    # A target the live plan satisfied beforehand is judged as well unless the earlier targets' own choices satisfy it in the witness too.
    pinned = []
    for case3, mode, targets, k, st, earlier, hist in seq_jobs:
        if not st["stream"]:
            continue
        H = st["stream"][0]
        w = oracle(case3, mode, earlier, st["before"], atom(targets[-1]), H, vcmp=vcmp)
        if w is None:
            ctx.count("target_already_in_plan" if st["presolved"] else "first_candidate_not_resolvable")
            continue
        same, extra = w["same"], w["extra"]
        pinned.append((case3, mode, targets, k, st, H, w["req"], w["objp"], same, (extra, w), hist))
    verdicts = ctx.model([p[6] for p in pinned])
    for (case3, mode, targets, k, st, H, reqp, objp, same, extra, hist), vp in zip(pinned, verdicts):
        case = dict({"case": case3, "targets": targets, "mode": mode}, **hist)
        extra, w = extra
        Up, Fp, mergedp, _ = objp
        F, merged = st["after"]["F"], st["after"]["merged"]
        if vp == "bad-op" or not vp["ok"]:
            ctx.count("first_candidate_not_resolvable")
            continue
        stream = st["stream"]
        ctx.case(case, len(stream) >= 2, key=repr((case3, targets, mode, "res", hist)))
        ctx.count("first_candidate_resolvable_step%d" % min(k + 1, 3))
        if hist:
            ctx.count("first_candidate_resolvable_after_reset")
        if not same:
            ctx.count("live_plan_differs_from_fresh_resolution_of_the_same_choices")
        if H.repo.livefs:
            ctx.count("first_candidate_is_installed")
        a = atom(targets[-1])
        failed = st["status"] == "fail"
        present = [] if failed else [q for q in F if a.match(q)]
        if failed:
            ctx.count("failed_target_with_resolvable_first_candidate")
        where = f"target #{k + 1} ({targets[-1]}) of the sequence {targets} on one resolver" + (" FAILED" if failed else "") + \
            (f" (history of that resolver: {hist['history']})" if hist else "")
        on_top = "resolvable on top of what the earlier targets were given (pinned plan accepted by planOk)"
        if w["kind"] == "straight":
            ctx.count("first_candidate_resolvable_by_independent_witness_only")
            on_top = (f"resolvable on top of what the earlier targets were given — the resolver itself cannot even resolve the pinned target "
                      f"{w['pins'][-1]}, but the dependency-ordered plan that takes the first candidate for every open dependency "
                      f"({w['steps']}) meets no conflict, blocker or cycle and is accepted by planOk")
        if st["presolved"] or not same:
            on_top += (f"; the live plan held {[repr(q) for q in extra]} before this target, which a fresh resolution of the earlier targets' "
                       f"choices does not plan")
        plan_txt = [repr(q) for q in st["after"]["touched"]]
        # the witness itself stands on the resolver's slot-cycle assumption (recorded open finding): a live resolver that already knows an
        # atom of that clause's candidates as insoluble prunes the candidate before the cycle test and chooses differently
        fnd = CYCLE_FINDING if w.get("unmet") else None
        if fnd:
            on_top += f"; the witness plan holds dependency clauses nothing in it satisfies: {w['unmet']}"
            ctx.count("witness_through_cycle_assumption")
        if mode == "upgrade":
            if not any(vcmp(q, H) == 0 for q in present):
                ctx.violation(case, f"upgrade, {where}: highest matching version {H!r} is {on_top} but the target got "
                                    f"{[repr(q) for q in present]}; planned packages {plan_txt}", finding=fnd)
            elif H.repo.livefs and not any(vcmp(q, H) == 0 and q.repo.livefs for q in present):
                ctx.violation(case, f"upgrade, {where}: the installed instance {H!r} of the highest version was not preferred: {[repr(q) for q in present]}")
        else:
            if H.repo.livefs:
                # packages matching the target may still be merged as dependencies of the kept package (e.g. another slot it needs):
                # exactly those the pinned resolution of the installed package merges as well
                needed = {c15.pid(q) for q in mergedp}
                m = [q for q in merged if a.match(q) and c15.pid(q) not in needed]
                if m or not any(q.repo.livefs for q in present):
                    ctx.violation(case, f"min-install, {where}: already satisfied by installed {H!r} ({on_top}) but the plan merges "
                                        f"{[repr(q) for q in m]} / keeps {[repr(q) for q in present]}; planned packages {plan_txt}")
            elif not any(vcmp(q, H) == 0 for q in present):
                ctx.violation(case, f"min-install, {where}: no installed match; highest {H!r} is {on_top} but the target got {[repr(q) for q in present]}",
                              finding=fnd)

    for case, detail in inst_bad:
        ctx.violation(case, detail)

    # ---- determinism: repeat in-process, and in child interpreters with other hash seeds.  The targets of the last episode resolved on a
    # fresh resolver must give what they gave on the resolver that had failed and been reset() before
    det = []
    for case3, mode, targets, steps, hist in det_jobs:
        res, r2, order2 = resolve3(case3, mode, targets)       # the same sequence once more, fresh resolver
        ctx.evaluations += 1
        fnd = None
        if hist and res["status"] == "ok" and r2 is not None:
            U2 = [p for repo in order2 for p in repo]
            snap = snapshot(r2, U2, {c15.pid(p): i for i, p in enumerate(U2)})
            um = unmet_clauses(snap["F"], snap["touched"])
            if not um and steps[-1]["status"] == "ok":
                # ... or one of the two plans holds a package whose key+slot lies on a cycle of the slot graph (the resolver's own notion
                # of 'the same package'): what check_for_cycles assumes there depends on the frames and the insoluble memory at that moment
                sg = c15.slot_graph(U2)
                ids = {tuple(pid(q)) for q in steps[-1]["after"]["touched"]} | {tuple(pid(q)) for q in snap["touched"]}
                cyc = sorted({f"{q.key}:{q.slot}" for q in U2 if tuple(pid(q)) in ids and (q.key, q.slot) in c15.reach(sg, (q.key, q.slot))})
                if cyc:
                    um = [f"(no unmet clause; planned packages on a slot cycle: {cyc})"]
            if um:
                fnd = CYCLE_FINDING
        det.append((case3, mode, targets, res))
        last = steps[-1]
        case = dict({"case": case3, "mode": mode, "targets": targets}, **hist)
        what = "two resolutions of identical inputs differ" + (f" (first: on a resolver with the history {hist['history']}, second: fresh resolver)" if hist else "")
        if last["status"] == "ok" and res["status"] == "ok":
            first = sorted(tuple(pid(q)) for q in last["after"]["F"] if any(c15.pid(q) == c15.pid(x) for x in last["after"]["touched"]))
            second = sorted({tuple(o[-1]) for o in res["ops"]} - {tuple(o[1]) for o in res["ops"] if o[0] == "replace"})
            if first != second and hist and sorted(("vdb" if x[0] == "vdb" else "src", x[1]) for x in first) == \
                    sorted(("vdb" if x[0] == "vdb" else "src", x[1]) for x in second):
                # same packages, another supplying repository for an equal-version twin: the per-repository caching iterators are shared
                # between nested lookups, so which twin is offered depends on what was looked up before (observation in notes/C16.md;
                # the property's policy speaks of versions and of the installed instance, both unchanged)
                ctx.count("history_changes_supplying_twin_only")
            elif first != second:
                ctx.violation(case, f"{what}: {first} vs {second}" + (f"; the fresh plan holds clauses nothing in it satisfies: {um}" if fnd else ""), finding=fnd)
        elif last["status"] != res["status"]:
            ctx.violation(case, f"{what}: {last['status']} vs {res['status']}" + (f"; the fresh plan holds clauses nothing in it satisfies: {um}" if fnd else ""), finding=fnd)
    det_jobs = det
    det_jobs = det_jobs[: ctx.n(180, 100000)]
    jobs = [[c3, m, tg] for c3, m, tg, _ in det_jobs]
    import vlib
    for seed in (("4242",) if ctx.quick() else ("1", "4242")):
        env = dict(os.environ, PYTHONHASHSEED=seed, VERIF_REPO=vlib.REPO)
        code = ("import sys; sys.path.insert(0, %r); sys.path.insert(0, %r); import logging; logging.disable(logging.CRITICAL); "
                "from props import c16; c16.worker()") % (os.path.join(vlib.REPO, "src"), os.path.join(vlib.VERIF, "harness"))
        p = subprocess.run([sys.executable, "-c", code], input=json.dumps(jobs).encode(), stdout=subprocess.PIPE, stderr=subprocess.PIPE, env=env)
        if p.returncode != 0:
            ctx.mismatch({"hashseed": seed}, "child interpreter failed: " + p.stderr.decode("utf-8", "replace")[-600:])
            continue
        out = json.loads(p.stdout.decode())
        for (c3, m, tg, res), other in zip(det_jobs, out):
            ctx.evaluations += 1
            if other != res:
                ctx.violation({"case": c3, "mode": m, "targets": tg},
                              f"resolution depends on the interpreter's hash seed ({seed}): {res} vs {other}")
        ctx.count("hashseed_runs_compared", len(out))


LEVEL_TEXT = ("Kernel-checked Lean 4 theorems about a model of the resolver's candidate streams (per-repository sorted(reverse=True), "
              "iter_sort with highest_iter_sort, prefer_livefs ordering, prefer_reuse concatenation), for any number of repositories and candidates: "
              "the upgrade stream is a permutation of the candidates in PMS-descending order with the installed instance first among equal versions; "
              "its head is a maximal version; the minimal-install stream offers all installed candidates first; the stream does not depend on listing "
              "order when no two candidates tie. The model is compared with the real strategies on generated repositories, the policy is evaluated "
              "on the real streams, and resolutions — sequences of targets on one long-lived resolver, including failed targets followed by reset() and "
              "re-resolution as pmerge --ignore-failures does — are compared with pinned resolutions on fresh resolvers (a context that does not depend "
              "on the live resolver's history), with a fresh resolver resolving the same targets, and across hash seeds. The resolver's memory of insoluble "
              "atoms (which prunes candidates of every later target on the same resolver) only ever holds atoms no repository provides, for every "
              "history of lookups (insoluble_sound); checked on the real resolver after every target sequence.")
LEVEL_NOTE = ("Partial: candidate ordering is proved; 'the first resolvable candidate is taken' and determinism of the whole search are sampled on the "
              "real resolver. Trusted: Lean kernel, standard axioms, stability of Python's sort.")

if __name__ == "__main__":
    worker()
